#!/bin/sh
# Build the framework from files on disk only (offline): the Coq development (full .vo
# build) and a warm Go build of the implementation-side driver.
set -e
cd "$(dirname "$0")"
export GOFLAGS=-mod=mod GOPROXY=off GOSUMDB=off GOTOOLCHAIN=local
mkdir -p build evidence replays
( cd coq && coq_makefile -f _CoqProject -o Makefile >/dev/null && timeout 3000 make -j16 >../build/coq_build.log 2>&1 ) || { tail -30 build/coq_build.log; exit 1; }
python3 - <<'PY'
import sys; sys.path.insert(0, "lib")
import vcheck
ok, out, info = vcheck.build_ydrive()
print("driver build:", "ok" if ok else out)
sys.exit(0 if ok else 1)
PY
