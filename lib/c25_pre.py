"""C25 "code generation is deterministic": the pre hook of ./check C25.  Python stdlib only.

pre(tier, seed) does three things and returns the dictionary vcheck.main expects:

1. builds and runs the translator /verif/harness/maprange (a Go program compiled inside /repo's
   module with -overlay) on /repo's CURRENT working tree; it prints the table of map-range sites
   as build/coqgen/Gen_MapRanges.v (+ maprange_sites.json);
2. writes build/coqgen/C25_sites.v (the allow-list /verif/maprange_allow.json rendered as Coq
   terms + the theorem  c25_sites : sites_ok allow known sites = true  proved by vm_compute) and
   compiles both files with coqc; a site that is neither of an accepted class nor allow-listed
   under the hash of its current body makes the theorem fail and is returned in `broken`;
3. the failing-input search: runs the generator (Go structs, path structs) and the proto
   generator k times in independent processes per schema x flag set and compares the output
   bytes (Go seeds its map iteration per process and per loop, so this samples schedules).  Any
   difference is a finding  nondeterministic-output/<go|path|proto>/<schema>.
"""
import concurrent.futures, difflib, hashlib, json, os, random, shutil, subprocess, sys, time
import vcheck
from vcheck import VERIF, REPO, BUILD, GOENV, COQ, log

THEORIES = os.environ.get("VERIF_C25_THEORIES") or os.path.join(COQ, "theories")
HARNESS = os.environ.get("VERIF_C25_HARNESS") or os.path.join(VERIF, "harness", "maprange", "main.go")
ALLOW = os.environ.get("VERIF_C25_ALLOW") or os.path.join(VERIF, "maprange_allow.json")
OUT = os.environ.get("VERIF_C25_OUT") or os.path.join(BUILD, "coqgen")
WORK = os.environ.get("VERIF_C25_WORK") or os.path.join(BUILD, "work", "c25")
BIN = os.environ.get("VERIF_C25_BIN") or os.path.join(BUILD, "bin")
ACCEPTED = {"collect_then_sort", "map_write_only", "commutative_reduce", "error_only", "insert_or_fail", "singleton", "enumerate"}
Y = os.path.join(VERIF, "yang")
TESTMODS = os.path.join(REPO, "testdata", "modules")


# ---------------------------------------------------------------- 1. translator

def c25_translate():
    """Returns (table dict or None, error text)."""
    os.makedirs(OUT, exist_ok=True)
    os.makedirs(BIN, exist_ok=True)
    ov = os.path.join(BUILD, "c25_overlay.json")
    json.dump({"Replace": {os.path.join(REPO, "internal", "verifharness", "maprange", "main.go"): HARNESS}}, open(ov, "w"))
    exe = os.path.join(BIN, "maprange")
    with vcheck.Lock("c25-go"):
        # the translator only uses the standard library, so its binary depends on its own source alone
        key = hashlib.sha256(open(HARNESS, "rb").read()).hexdigest()
        keyf = exe + ".key"
        if not (os.path.exists(exe) and os.path.exists(keyf) and open(keyf).read() == key):
            ok, out = vcheck.go_build("./internal/verifharness/maprange", exe, ov, timeout=600)
            if not ok:
                return None, "go build of the translator failed: " + out[-1500:]
            open(keyf, "w").write(key)
        coqf, jsf = os.path.join(OUT, "Gen_MapRanges.v"), os.path.join(OUT, "maprange_sites.json")
        for f in (coqf, jsf):
            if os.path.exists(f):
                os.remove(f)
        p = subprocess.run(["timeout", "300", exe, "-repo", REPO, "-coq", coqf, "-json", jsf], cwd=REPO, env=GOENV,
                           stdout=subprocess.PIPE, stderr=subprocess.STDOUT, text=True)
        if p.returncode != 0 or not os.path.exists(jsf):
            return None, "the translator failed on /repo's working tree (does it still type-check?): " + p.stdout[-1500:]
        return json.load(open(jsf)), ""


# ---------------------------------------------------------------- 2. table check

def c25_coqstr(s):
    return "[" + ";".join(str(ord(c)) for c in s) + "]"


def c25_entry_coq(e):
    fh = "Some " + c25_coqstr(e["func_hash"]) if e.get("func_hash") else "None"
    return "{| a_pkg := %s; a_func := %s; a_body_hash := %s; a_func_hash := %s |}" % (
        c25_coqstr(e["pkg"]), c25_coqstr(e["func"]), c25_coqstr(e["body_hash"]), fh)


def c25_matches(e, s):
    return (e["pkg"] == s["pkg"] and e["func"] == s["func"] and e["body_hash"] == s["body_hash"]
            and (not e.get("func_hash") or e["func_hash"] == s["func_hash"]))


def c25_table_check(table):
    """Returns dict(ok, broken, notes, allow_used, known_sites, open_sites)."""
    notes, broken = [], []
    try:
        entries = json.load(open(ALLOW))["entries"]
    except (OSError, ValueError, KeyError) as ex:
        entries = []
        notes.append("allow-list unreadable: %s" % ex)
    fh = table["func_hashes"]
    live = []
    for e in entries:
        stale = [n for n, h in (e.get("depends") or {}).items() if fh.get(n) != h]
        if stale:
            notes.append("allow-list entry %s.%s (%s) dropped: the functions its justification relies on changed: %s" % (
                e["pkg"], e["func"], e["body_hash"], ", ".join(stale)))
            continue
        live.append(e)
    allow = [e for e in live if not e.get("known_finding")]
    known = [e for e in live if e.get("known_finding")]
    sites = table["sites"]
    failing, known_sites, used = [], [], set()
    for s in sites:
        if s["class"] in ACCEPTED:
            continue
        hit = [e for e in allow if c25_matches(e, s)]
        if hit:
            used.add(id(hit[0]))
            continue
        k = [e for e in known if c25_matches(e, s)]
        if k:
            known_sites.append((s, k[0]))
            continue
        failing.append(s)
    v = ["(* GENERATED by /verif/lib/c25_pre.py from /verif/maprange_allow.json -- do not edit. *)",
         "From Ygot Require Import Base.Base Gen.Determinism Gen.DeterminismProofs.",
         "From YgotGen Require Import Gen_MapRanges.", "Open Scope N_scope.", "",
         "Definition allow : list allow_entry := ["]
    v.append(";\n".join("  " + c25_entry_coq(e) for e in allow))
    v += ["].", "", "(* sites that ARE order sensitive: reported defects (known findings) *)", "Definition known : list allow_entry := ["]
    v.append(";\n".join("  " + c25_entry_coq(e) for e in known))
    v += ["].", "",
          "Theorem c25_sites : sites_ok allow known sites = true.", "Proof. vm_compute. reflexivity. Qed.", "Print Assumptions c25_sites.", "",
          "(* every site that is not justified is one of the reported defects *)",
          "Theorem c25_open_sites : forall x, In x (open_sites allow sites) -> allowed known x = true.",
          "Proof. exact (open_sites_spec allow known sites c25_sites). Qed.", "Print Assumptions c25_open_sites.", "",
          "Eval vm_compute in (length sites, length (open_sites allow sites)).", ""]
    open(os.path.join(OUT, "C25_sites.v"), "w").write("\n".join(v))
    # the general theory must be compiled before the generated files
    ok_build = True
    if THEORIES == os.path.join(COQ, "theories"):
        ok_build, failed, tail = vcheck.coq_build()
        if not ok_build and any(f.endswith(("Gen/Determinism", "Gen/DeterminismProofs", "Base/Base")) for f in failed or ["Gen/Determinism"]):
            broken.append({"theorem_files": ["Gen/Determinism", "Gen/DeterminismProofs"], "output": tail[-1200:]})
            return dict(ok=False, broken=broken, notes=notes, failing=failing, known_sites=known_sites, allow=len(allow), used=len(used), axioms=[])
    axioms, ok = [], True
    for f in ("Gen_MapRanges.v", "C25_sites.v"):
        p = subprocess.run(["timeout", "600", "coqc", "-Q", THEORIES, "Ygot", "-Q", OUT, "YgotGen", f], cwd=OUT,
                           stdout=subprocess.PIPE, stderr=subprocess.STDOUT, text=True)
        if p.returncode != 0:
            ok = False
            b = {"theorem_files": ["build/coqgen/%s%s" % (f, " (c25_sites)" if f == "C25_sites.v" else "")], "output": p.stdout[-800:]}
            if f == "C25_sites.v":
                b["order_sensitive_sites"] = [
                    "%s/%s:%d %s [%s] %s" % (s["pkg"], s["file"], s["line"], s["func"], s["class"], s["reason"][:300]) for s in failing] or \
                    ["(the Python rendering of the check found no failing site: classifier/Coq disagreement)"]
            broken.append(b)
            break
        for blk in p.stdout.split("Axioms:")[1:]:
            axioms.append(" ".join(blk.split())[:300])
    if ok and failing:
        # cannot happen unless this file and Determinism.v disagree on the decision procedure
        broken.append({"theorem_files": ["build/coqgen/C25_sites.v"], "output": "coqc accepted a table this script expected to fail",
                       "order_sensitive_sites": ["%s/%s:%d" % (s["pkg"], s["file"], s["line"]) for s in failing]})
    if axioms:
        broken.append({"axioms": axioms})
    return dict(ok=ok and not failing, broken=broken, notes=notes, failing=failing, known_sites=known_sites, allow=len(allow), used=len(used),
                axioms=axioms)


# ---------------------------------------------------------------- 3. the experiment: schemas

# Eight modules that all define a top-level leaf `shared`, each with another type.  (Known defect
# root-leaf-clash: ygen.processModules hands the modules on in map order and the fake root keeps
# the leaf of whichever module came last.)
C25_CLASH_TYPES = ["string", "uint32", "boolean", "int64", "uint8", "decimal64 { fraction-digits 2; }", "binary", "int16"]
ROOT_CLASH = {
    "c25-clash-%s.yang" % c: ('module c25-clash-%s {\n  namespace "urn:c25:%s";\n  prefix %s;\n  leaf shared { %s }\n'
                              '  container c%s { leaf x { type string; } }\n}\n') % (c, c, c, "type %s%s" % (t, "" if t.endswith("}") else ";"), c)
    for c, t in zip("abcdefgh", C25_CLASH_TYPES)
}


# Eight modules that all define /foo/x (with different types) and a list keyed by a leafref to the
# absolute path /foo/x: the schema tree keeps the /foo/x of whichever module was added last (same
# root cause).  Only generates without a fake root (with one, the duplicate /foo is an error).
LEAFREF_CLASH = {
    "c25-lref-%s.yang" % c: ('module c25-lref-%s {\n  namespace "urn:c25:l%s";\n  prefix %s;\n  container foo {\n    leaf x { %s }\n'
                             '    container bar { list l { key "k"; leaf k { type leafref { path "/foo/x"; } } } }\n  }\n}\n') % (
                                 c, c, c, "type %s%s" % (t, "" if t.endswith("}") else ";"))
    for c, t in zip("abcdefgh", ["string", "uint32", "boolean", "int64", "uint8", "int32", "uint16", "int16"])
}


class C25Yang:
    """A small seeded generator of YANG modules: containers, lists with mixed key types, typedefs,
    groupings, augments, choices, identities, unions of enumerations and deliberate name
    collisions (the same enumeration leaf name in several places, names that differ only in
    case or by a hyphen).  `oc` chooses an OpenConfig-like config/state layout (so that
    -compress_paths has something to compress)."""

    def __init__(self, seed):
        self.r = random.Random(seed)
        self.seed = seed

    def pick(self, l):
        return l[self.r.randrange(len(l))]

    @staticmethod
    def ts(t):
        """type statement for the type text t"""
        return "type %s%s" % (t, "" if t.endswith("}") else ";")

    def leaf_type(self, p, depth=0):
        r = self.r
        k = r.randrange(11 if depth == 0 else 8)
        if k == 0:
            return "string"
        if k == 1:
            return self.pick(["uint8", "uint32", "int64", "uint64", "int16"])
        if k == 2:
            return "boolean"
        if k == 3:
            vals = r.sample(["UP", "DOWN", "TESTING", "UNKNOWN", "A", "B", "C"], r.randint(2, 4))
            return "enumeration { %s }" % " ".join("enum %s;" % v for v in vals)
        if k == 4:
            return "%s:%s" % (p, self.pick(["speed", "mode", "mixed"]))
        if k == 5:
            return "identityref { base %s:%s; }" % (p, self.pick(["KIND", "COLOUR"]))
        if k == 6:
            return "decimal64 { fraction-digits %d; }" % r.randint(1, 4)
        if k == 7:
            return "binary"
        n = r.randint(2, 4)
        return "union { %s }" % " ".join(self.ts(self.leaf_type(p, depth + 1)) for _ in range(n))

    def leaves(self, p, names, ind):
        out = []
        # names that differ only by case/hyphen collide within ONE container (an unresolvable enum
        # name clash); keep them apart there, they still meet across containers
        names = [n for n in names if not (n == "stateKind" and "state-kind" in names) and not (n == "peerKind" and "peer-kind" in names)]
        for n in names:
            t = self.leaf_type(p)
            d = ""
            out.append("%sleaf %s { %s%s }" % (ind, n, self.ts(t), d))
        return out

    def module(self, name, oc):
        r, p = self.r, "m"
        pool = ["name", "id", "state-kind", "stateKind", "mode", "speed", "admin-status", "oper-status", "kind", "value", "colour", "type"]
        gpool = ["description", "enabled", "mtu", "last-change"]      # leaves of the grouping (disjoint from pool)
        lpool = ["weight", "peer-kind", "peerKind", "role", "priority"]  # leaves of list entries
        L = ["module %s {" % name, '  namespace "urn:c25:%s";' % name, "  prefix %s;" % p, "",
             "  identity KIND;", "  identity COLOUR;"]
        for b, vs in (("KIND", ["ALPHA", "BETA", "GAMMA", "DELTA"]), ("COLOUR", ["RED", "GREEN", "BLUE"])):
            for v in r.sample(vs, r.randint(2, len(vs))):
                L.append("  identity %s { base %s; }" % (v, b))
        L += ["  typedef speed { type enumeration { enum SLOW; enum FAST; enum WARP; } }",
              "  typedef mode { type union { type enumeration { enum AUTO; enum MANUAL; } type uint16; } }",
              "  typedef mixed { type union { type string; type %s:speed; type identityref { base %s:KIND; } } }" % (p, p), ""]
        L.append("  grouping common-g {")
        L += self.leaves(p, r.sample(gpool, 2), "    ")
        L.append("    leaf status { type enumeration { enum ON; enum OFF; } }")
        L.append("  }")
        ntop = r.randint(2, 4)
        tops = []
        for i in range(ntop):
            tn = self.pick(["system", "interfaces", "routing", "sys-tem", "platform", "qos"]) + ("" if i == 0 else str(i))
            tops.append(tn)
            L.append("  container %s {" % tn)
            names = r.sample(pool, r.randint(2, 5))
            if oc:
                L.append("    container config {")
                L += self.leaves(p, names, "      ")
                L.append("      uses common-g;")
                L.append("    }")
                L.append("    container state {\n      config false;")
                L += self.leaves(p, names[:2], "      ")   # shadowed by config
                L += self.leaves(p, ["counter-%d" % i], "      ")
                L.append("    }")
            else:
                L += self.leaves(p, names, "    ")
                L.append("    uses common-g;")
            # a list (one or two keys, assorted key types)
            ln = self.pick(["entry", "member", "neighbor", "sub-interface"])
            nk = r.randint(1, 2)
            ktypes = [self.pick(["string", "uint32", "%s:speed" % p, "identityref { base %s:KIND; }" % p,
                                 "union { type string; type uint32; }", "enumeration { enum X; enum Y; }"]) for _ in range(nk)]
            keys = ["k%d" % j for j in range(nk)]
            wrap = "%ss" % ln
            L.append("    container %s {" % wrap)
            L.append('      list %s {\n        key "%s";' % (ln, " ".join(keys)))
            if oc:
                for kname in keys:
                    L.append('        leaf %s { type leafref { path "../config/%s"; } }' % (kname, kname))
                L.append("        container config {")
                for kname, kt in zip(keys, ktypes):
                    L.append("          leaf %s { %s }" % (kname, self.ts(kt)))
                L += self.leaves(p, r.sample(lpool, 2), "          ")
                L.append("        }")
                L.append("        container state {\n          config false;")
                for kname, kt in zip(keys, ktypes):
                    L.append("          leaf %s { %s }" % (kname, self.ts(kt)))
                L.append("          leaf status { type enumeration { enum ON; enum OFF; enum BROKEN; } }")
                L.append("        }")
            else:
                for kname, kt in zip(keys, ktypes):
                    L.append("        leaf %s { %s }" % (kname, self.ts(kt)))
                L += self.leaves(p, r.sample(lpool, 2), "        ")
                L.append("        leaf status { type enumeration { enum ON; enum OFF; enum BROKEN; } }")
            if r.random() < 0.5:
                L.append("        leaf-list tags { %s }" % self.ts(self.pick(["string", "%s:speed" % p, "uint16"])))
            L.append("      }")
            L.append("    }")
            if r.random() < 0.6:
                L.append("    choice transport-%d {" % i)
                for cn in r.sample(["tcp", "udp", "quic"], 2):
                    L.append("      case %s {" % cn)
                    L.append("        container %s-opts { leaf port { type uint16; } leaf status { type enumeration { enum OPEN; enum CLOSED; } } }" % cn)
                    L.append("      }")
                L.append("    }")
            L.append("  }")
        L.append("}")
        return "\n".join(L) + "\n", tops

    def files(self, oc):
        name = "c25r%d" % self.seed
        text, tops = self.module(name, oc)
        fs = {name + ".yang": text}
        if self.r.random() < 0.6:   # a second module augmenting the first
            t = self.pick(tops)
            aug = ["module %s-aug {" % name, '  namespace "urn:c25:%s-aug";' % name, "  prefix g;", "  import %s { prefix m; }" % name,
                   "  augment \"/m:%s%s\" {" % (t, "/m:config" if oc else ""),
                   "    leaf extra { type enumeration { enum E1; enum E2; } }",
                   "    leaf extra-ref { type m:speed; }", "  }"]
            if oc:
                aug += ["  augment \"/m:%s/m:state\" {" % t, "    leaf extra { type enumeration { enum E1; enum E2; } }", "  }"]
            aug.append("}")
            fs[name + "-aug.yang"] = "\n".join(aug) + "\n"
        return fs


def c25_schemas(tier, seed, root):
    """Returns a list of dict(name, dir, files, tag)."""
    S = [dict(name="corpus-vmain-defu", dir=Y, files=["v-main.yang", "v-types.yang", "v-defu.yang"]),
         dict(name="corpus-vmain", dir=Y, files=["v-main.yang", "v-types.yang"])]
    mods = ["openconfig-simple.yang", "openconfig-withlist.yang", "enum-union.yang", "openconfig-list-enum-key.yang"]
    if tier == "thorough":
        mods += ["choice-case-example.yang", "openconfig-unione.yang", "openconfig-complex.yang", "enum-types.yang",
                 "openconfig-leaflist-default.yang", "openconfig-config-false.yang", "root-entities.yang", "openconfig-camelcase.yang",
                 "openconfig-enumcamelcase.yang", "enum-duplication.yang", "openconfig-multikey-list-name-conflict.yang",
                 "presence-container-example.yang", "openconfig-simple-target.yang"]
    for m in mods:
        if os.path.exists(os.path.join(TESTMODS, m)):
            S.append(dict(name="repo-" + m[:-5], dir=TESTMODS, files=[m]))
    two = [("enum-multi-module", ["enum-module.yang", "enum-multi-module.yang"]),
           ("augment", ["openconfig-simple-target.yang", "openconfig-simple-augment.yang"])]
    for n, fs in two:
        if all(os.path.exists(os.path.join(TESTMODS, f)) for f in fs):
            S.append(dict(name="repo-" + n, dir=TESTMODS, files=fs))
    gen = os.path.join(root, "yang")
    os.makedirs(gen, exist_ok=True)
    for f, t in ROOT_CLASH.items():
        open(os.path.join(gen, f), "w").write(t)
    S.append(dict(name="root-leaf-clash", dir=gen, files=sorted(ROOT_CLASH), tag="module-order/root-leaf-clash"))
    for f, t in LEAFREF_CLASH.items():
        open(os.path.join(gen, f), "w").write(t)
    S.append(dict(name="root-leafref-clash", dir=gen, files=sorted(LEAFREF_CLASH), tag="module-order/root-leafref-clash"))
    n = 3 if tier == "quick" else 28
    for i in range(n):
        g = C25Yang(seed * 1000 + i)
        oc = i % 2 == 0
        fs = g.files(oc)
        for f, t in fs.items():
            open(os.path.join(gen, f), "w").write(t)
        S.append(dict(name="random-%d%s" % (seed * 1000 + i, "-oc" if oc else ""), dir=gen, files=sorted(fs), random=True))
    return S


GO_COMMON = ["-package_name=c25pkg", "-generate_fakeroot", "-fakeroot_name=device", "-generate_getters", "-generate_append", "-generate_delete",
             "-generate_rename", "-generate_populate_defaults", "-generate_leaf_getters", "-yangpresence"]


def c25_flagsets(tier):
    """name -> (binary, flags).  Outputs are written relative to the process's own directory."""
    F = {
        "go-uncompressed-wrapper": ("generator", GO_COMMON + ["-include_schema", "-output_file=gen.go"]),
        "go-uncompressed-simple-noschema": ("generator", GO_COMMON + ["-generate_simple_unions", "-include_schema=false", "-output_file=gen.go"]),
        "go-compress-simple": ("generator", GO_COMMON + ["-compress_paths", "-generate_simple_unions", "-include_schema", "-output_file=gen.go"]),
        "go-compress-pathstructs": ("generator", ["-package_name=c25pkg", "-generate_fakeroot", "-fakeroot_name=device", "-compress_paths", "-generate_simple_unions",
                                                  "-include_schema=false", "-generate_path_structs", "-path_structs_output_file=path.go",
                                                  "-output_file=gen.go"]),
        "go-compress-split": ("generator", GO_COMMON + ["-compress_paths", "-generate_simple_unions", "-include_schema", "-output_dir=split",
                                                         "-structs_split_files_count=3"]),
        "go-nofakeroot-noschema": ("generator", ["-package_name=c25pkg", "-generate_simple_unions", "-include_schema=false", "-generate_getters",
                                                 "-output_file=gen.go"]),
        "proto": ("proto_generator", ["-generate_fakeroot", "-output_dir=proto", "-package_name=c25"]),
    }
    if tier == "thorough":
        F.update({
            "go-compress-wrapper": ("generator", GO_COMMON + ["-compress_paths", "-include_schema", "-output_file=gen.go"]),
            "go-exclude-state": ("generator", GO_COMMON + ["-compress_paths", "-exclude_state", "-generate_simple_unions", "-output_file=gen.go"]),
            "go-prefer-state": ("generator", GO_COMMON + ["-compress_paths", "-prefer_operational_state", "-generate_simple_unions",
                                                          "-ignore_shadow_schema_paths", "-output_file=gen.go"]),
            "go-enum-naming": ("generator", GO_COMMON + ["-compress_paths", "-generate_simple_unions", "-shorten_enum_leaf_names",
                                                        "-typedef_enum_with_defmod", "-enum_suffix_for_simple_union_enums",
                                                        "-trim_enum_openconfig_prefix", "-output_file=gen.go"]),
            "go-annotations-modeldata": ("generator", GO_COMMON + ["-annotations", "-include_descriptions", "-include_model_data",
                                                                  "-generate_leaf_setters", "-skip_enum_deduplication", "-output_file=gen.go"]),
            "go-pathstructs-bymodule": ("generator", ["-package_name=c25pkg", "-generate_fakeroot", "-fakeroot_name=device", "-compress_paths", "-generate_simple_unions",
                                                      "-include_schema=false", "-generate_structs=false", "-generate_path_structs",
                                                      "-split_pathstructs_by_module", "-base_import_path=example.com/c25",
                                                      "-schema_struct_path=example.com/c25/structs", "-generate_wildcard_paths",
                                                      "-path_structs_output_file=path.go", "-output_dir=bymod"]),
            "go-pathstructs-splitfiles": ("generator", ["-package_name=c25pkg", "-generate_fakeroot", "-fakeroot_name=device", "-compress_paths", "-generate_simple_unions",
                                                        "-include_schema=false", "-generate_structs=false", "-generate_path_structs",
                                                        "-generate_wildcard_paths", "-simplify_wildcard_paths", "-output_dir=psplit",
                                                        "-path_structs_split_files_count=3", "-schema_struct_path=example.com/c25/structs"]),
            "go-uncompressed-pathstructs": ("generator", ["-package_name=c25pkg", "-generate_fakeroot", "-fakeroot_name=device", "-include_schema=false",
                                                          "-generate_path_structs", "-path_structs_output_file=path.go", "-output_file=gen.go"]),
            "proto-compress": ("proto_generator", ["-generate_fakeroot", "-compress_paths", "-output_dir=proto", "-package_name=c25",
                                                  "-add_schemapaths", "-add_enumnames"]),
            "proto-hierarchy": ("proto_generator", ["-output_dir=proto", "-package_name=c25", "-package_hierarchy", "-go_package_base=example.com/c25"]),
        })
    return F


# ---------------------------------------------------------------- 3. the experiment: runs

def c25_kind(relpath):
    b = os.path.basename(relpath)
    if relpath.endswith(".proto"):
        return "proto"
    if b.startswith("path") or relpath.startswith(("bymod" + os.sep, "psplit" + os.sep)) or "path" in b:
        return "path"
    return "go"


def c25_run_one(job):
    """One generator process in its own directory.  Returns (ok, {relpath: bytes}, output tail)."""
    exe, flags, schema, rundir = job
    shutil.rmtree(rundir, ignore_errors=True)
    os.makedirs(rundir)
    for d in ("split", "proto", "bymod", "psplit"):
        if any(("=" + d) in f for f in flags):
            os.makedirs(os.path.join(rundir, d), exist_ok=True)
    cmd = [exe, "-path=" + schema["dir"], "-logtostderr"] + flags + [os.path.join(schema["dir"], f) for f in schema["files"]]
    try:
        # GOMAXPROCS only limits scheduler threads (cheaper start-up); map iteration is seeded per process regardless
        p = subprocess.run(cmd, cwd=rundir, stdout=subprocess.PIPE, stderr=subprocess.STDOUT, timeout=300, env=dict(os.environ, GOMAXPROCS="2"))
        rc, tail = p.returncode, p.stdout[-600:].decode("utf-8", "replace")
    except subprocess.TimeoutExpired:
        rc, tail = -1, "timeout"
    files = {}
    for root, _, fs in os.walk(rundir):
        for f in fs:
            full = os.path.join(root, f)
            files[os.path.relpath(full, rundir)] = open(full, "rb").read()
    ok = rc == 0 and any(len(v) > 0 for v in files.values())
    shutil.rmtree(rundir, ignore_errors=True)
    return ok, files, tail


def c25_short_diff(a, b, limit=14):
    al, bl = a.decode("utf-8", "replace").splitlines(), b.decode("utf-8", "replace").splitlines()
    out = []
    for l in difflib.unified_diff(al, bl, "process-A", "process-B", n=0, lineterm=""):
        out.append(l[:200])
        if len(out) >= limit:
            out.append("...")
            break
    return "\n".join(out)


def c25_experiment(tier, seed, only=None, procs=None):
    root = WORK
    shutil.rmtree(root, ignore_errors=True)
    os.makedirs(root)
    notes = []
    gen, pgen = os.path.join(BIN, "generator"), os.path.join(BIN, "proto_generator")
    with vcheck.Lock("c25-go"):
        for exe, pkg in ((gen, "./generator"), (pgen, "./proto_generator")):
            p = subprocess.run(["go", "build", "-o", exe, pkg], cwd=REPO, env=GOENV, stdout=subprocess.PIPE, stderr=subprocess.STDOUT, text=True)
            if p.returncode != 0:
                return dict(findings=[], notes=["%s does not build: %s" % (pkg, p.stdout[-800:])], combos=0, compared=0, runs=0,
                            build_failed=pkg, samples=[], dist={})
    k = procs or (3 if tier == "quick" else 10)
    schemas = c25_schemas(tier, seed, root)
    flagsets = c25_flagsets(tier)
    if only:
        schemas = [s for s in schemas if s["name"] == only["schema"]]
        flagsets = {n: v for n, v in flagsets.items() if n == only["flags"]}
    def combo(job):
        """all processes of one (schema, flag set) pair; after a first failure only two more are tried"""
        s, fname = job
        binary, flags = flagsets[fname]
        out = []
        for i in range(k):
            out.append(c25_run_one((gen if binary == "generator" else pgen, flags, s, os.path.join(root, "run", s["name"], fname, str(i)))))
            if i == 2 and not any(r[0] for r in out):
                break
        return out
    jobs = [(s, fname) for s in schemas for fname in sorted(flagsets)]
    results, nruns = {}, 0
    with concurrent.futures.ThreadPoolExecutor(max_workers=min(14, (os.cpu_count() or 4))) as ex:
        for (s, fname), res in zip(jobs, ex.map(combo, jobs)):
            results[(s["name"], fname)] = res
            nruns += len(res)
    findings, samples, dist = [], [], {"identical": 0, "all-failed": 0, "differs": 0}
    compared = 0
    for s in schemas:
        for fname in sorted(flagsets):
            rs = results[(s["name"], fname)]
            oks = [r[0] for r in rs]
            cause = s.get("tag") or s["name"]
            case = {"schema": s["name"], "yang": [os.path.join(s["dir"], f) if not s["dir"].startswith(root) else f for f in s["files"]],
                    "flags": fname, "flag_list": flagsets[fname][1], "processes": k, "seed": seed, "tier": tier}
            if s["dir"].startswith(root):
                case["yang_text"] = {f: open(os.path.join(s["dir"], f)).read() for f in s["files"]}
            if not any(oks):
                dist["all-failed"] += 1
                continue
            compared += 1
            if not all(oks):
                dist["differs"] += 1
                bad = oks.index(False)
                findings.append({"signature": "nondeterministic-output/%s/%s" % ("proto" if fname.startswith("proto") else "go", cause),
                                 "what": "the generator fails in some processes and succeeds in others on the same input",
                                 "input": dict(case, diff="process %d: %s" % (bad, rs[bad][2][-300:]))})
                continue
            base, differing = rs[0][1], None
            for i in range(1, len(rs)):
                if rs[i][1] != base:
                    differing = i
                    break
            if differing is None:
                dist["identical"] += 1
                if len(samples) < 6:
                    samples.append("%s x %s: %d processes, %d files, %d bytes, identical (sha256 %s)" % (
                        s["name"], fname, k, len(base), sum(map(len, base.values())),
                        hashlib.sha256(b"".join(base[f] for f in sorted(base))).hexdigest()[:12]))
                continue
            dist["differs"] += 1
            other = rs[differing][1]
            seen_kinds = set()
            for fn in sorted(f for f in set(base) | set(other) if base.get(f) != other.get(f)):
                kind = c25_kind(fn)
                if kind in seen_kinds:
                    continue
                seen_kinds.add(kind)
                findings.append({"signature": "nondeterministic-output/%s/%s" % (kind, cause),
                                 "what": "two processes of the same generator on the same YANG files and flags wrote different bytes to %s" % fn,
                                 "input": dict(case, file=fn, diff=c25_short_diff(base.get(fn, b""), other.get(fn, b"")))})
    shutil.rmtree(os.path.join(root, "run"), ignore_errors=True)
    return dict(findings=findings, notes=notes, combos=len(schemas) * len(flagsets), compared=compared, runs=nruns, samples=samples, dist=dist,
                k=k, schemas=len(schemas), flagsets=len(flagsets))


# ---------------------------------------------------------------- entry point

def pre(tier, seed):
    t0 = time.time()
    res = {"broken": [], "findings": [], "notes": []}
    table, err = c25_translate()
    if table is None:
        res["broken"].append({"theorem_files": ["build/coqgen/Gen_MapRanges.v"], "output": err})
        sites, tc = [], None
    else:
        sites = table["sites"]
        tc = c25_table_check(table)
        res["broken"] += tc["broken"]
        res["notes"] += tc["notes"]
    t1 = time.time()
    replay = None
    for i, a in enumerate(sys.argv):
        if a == "--replay" and i + 1 < len(sys.argv):
            try:
                replay = json.load(open(sys.argv[i + 1])).get("case")
            except (OSError, ValueError):
                replay = None
    if replay and replay.get("schema"):
        ex = c25_experiment(replay.get("tier", tier), int(replay.get("seed", seed)), only=replay, procs=max(30, int(replay.get("processes", 3))))
    else:
        ex = c25_experiment(tier, seed)
    t2 = time.time()
    res["findings"] = ex["findings"]
    res["notes"] += ex["notes"]
    if ex.get("build_failed"):
        res["broken"].append({"build": "go build %s failed" % ex["build_failed"]})
    classes = {}
    for s in sites:
        classes[s["class"]] = classes.get(s["class"], 0) + 1
    res["obligations"] = len(sites) + 2        # one per site + c25_sites + c25_open_sites
    res["evaluations"] = ex["runs"]
    res["distinct_nontrivial"] = ex["compared"]
    res["programs"] = ex["combos"]
    res["disagreements_checked"] = ex["dist"].get("differs", 0) if ex.get("dist") else 0
    res["rule"] = ("one evaluation = one generator process; non-trivial = a (schema, flag set) pair for which at least one of the k "
                   "independent processes produced output, so that output bytes (or success/failure) were compared across processes")
    res["samples"] = ex["samples"] or ["(no successful generation)"]
    if tc:
        res["notes"].append("map-range table: %d sites in %d analysed functions (%s); %d accepted by class, %d by allow-list entry (%d entries), "
                            "%d known-defect sites, %d unjustified" % (
                                len(sites), table["functions_analysed"], ", ".join("%s=%d" % kv for kv in sorted(classes.items())),
                                sum(1 for s in sites if s["class"] in ACCEPTED), len(sites) - sum(1 for s in sites if s["class"] in ACCEPTED)
                                - len(tc["known_sites"]) - len(tc["failing"]), tc["allow"], len(tc["known_sites"]), len(tc["failing"])))
        for s, e in tc["known_sites"]:
            res["notes"].append("known order-sensitive site %s/%s:%d %s -> %s" % (s["pkg"], s["file"], s["line"], s["func"], e["known_finding"]))
    res["notes"].append("experiment: %d schemas x %d flag sets x %d processes = %d runs; %s; translator+coq %.1fs, experiment %.1fs" % (
        ex.get("schemas", 0), ex.get("flagsets", 0), ex.get("k", 0), ex["runs"], ex.get("dist"), t1 - t0, t2 - t1))
    res["coverage"] = {"map_range_sites": len(sites), "site_classes": classes,
                       "enumerating_functions": table["enumerating_functions"] if table else [],
                       "experiment": ex.get("dist"), "packages_scanned": table["packages"] if table else []}
    log("C25 pre: %d sites, table %s, experiment %s, %d finding(s), %.1fs" % (
        len(sites), "ok" if tc and tc["ok"] else "FAILS", ex.get("dist"), len(ex["findings"]), time.time() - t0))
    return res
