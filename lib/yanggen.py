"""yanggen — seeded random YANG module sets for the generator checks (C26/C27/C29).

generate(seed, style) -> dict(files={name.yang: text}, main=[file names to hand to the generator],
                              features=[...], style=style)

style "plain": arbitrary data trees (for uncompressed generation); style "oc": OpenConfig-shaped
trees (config/state containers, lists wrapped in a surrounding container with leafref keys) for
compressed generation and path structs.  Every module set has two modules: <p>-a (data tree,
typedefs, groupings, identities) and <p>-b (imports -a, adds identities/typedefs and augments -a).

Deliberate hazards (reported in `features`): names that collide after Go name mangling
(a-b / a_b / A-b), a leaf named like its parent container, children named like suffixes the Go
generator appends (key, ordered-map, union, ...), enum labels that collide after mangling.
Python stdlib only; everything is drawn from one random.Random(seed)."""
import random

INTS = ["int8", "int16", "int32", "int64", "uint8", "uint16", "uint32", "uint64"]
INT_RANGES = {
    "int8": ['"-10..10 | 20..30"', '"min..0"', '"5"'], "int16": ['"-300..300"', '"1000..max"'],
    "int32": ['"0..100 | 200..max"', '"min..-1"'], "int64": ['"min..-5 | 7 | 100..max"', '"-9000000000..9000000000"'],
    "uint8": ['"0..100"', '"1..10 | 200..255"'], "uint16": ['"64..9216"', '"1..4094"'],
    "uint32": ['"1..100 | 4000000000..max"', '"0..max"'], "uint64": ['"10..18446744073709551615"', '"0..5"'],
}
INT_DEFAULT = {"int8": "-7", "int16": "-300", "int32": "42", "int64": "-9000000000", "uint8": "9", "uint16": "1500",
               "uint32": "4000000001", "uint64": "18446744073709551615"}
WORDS = ["alpha", "beta", "gamma", "delta", "eps", "zeta", "eta", "theta", "iota", "kappa", "lam", "mu", "nu", "xi",
         "omi", "pi", "rho", "sigma", "tau", "ups", "phi", "chi", "psi", "omega", "if", "type", "name", "id", "index",
         "admin-status", "oper-status", "mtu", "addr", "peer", "group", "policy", "rule", "seq", "vlan", "port"]
# names that meet suffixes / identifiers the Go generator derives
HAZARD_CHILD = ["key", "ordered-map", "union", "enum", "path", "any", "new", "append", "delete", "get", "validate",
                "string", "type", "map", "device", "binary", "λ"]


class _Mod:
    def __init__(self, name, prefix):
        self.name, self.prefix = name, prefix
        self.identities = []   # (name, base or None)  base is a qualified text
        self.typedefs = []     # (name, type text, category)
        self.groupings = []    # (name, body text, list of node names)
        self.body = []
        self.imports = []


class Gen:
    def __init__(self, seed, style, hazards=True):
        self.r = random.Random(seed)
        self.hazards = hazards
        self.style = style
        self.features = set()
        self.pfx = "r%d%s" % (seed % 100000, "o" if style == "oc" else "p")
        self.a = _Mod(self.pfx + "-a", "ma")
        self.b = _Mod(self.pfx + "-b", "mb")
        self.counter = 0
        self.name_prefix = ""
        self._ing = False
        self._in_choice = 0
        self.budget = self.r.choice([25, 40, 60, 90])

    # ------------------------------------------------------------ helpers
    def chance(self, p):
        return self.r.random() < p

    def fresh(self, used, hazard=True):
        """A sibling name not in `used` (mutated). Sometimes a mangling collision with a used name."""
        hazard = hazard and self.hazards
        while True:
            n = self._fresh(used, hazard)
            if self.name_prefix and not n.startswith(self.name_prefix):
                used.discard(n)
                n = self.name_prefix + n
                if n in used:
                    continue
                used.add(n)
            return n

    def _fresh(self, used, hazard=True):
        r = self.r
        if hazard and used and self.chance(0.025):
            base = r.choice(sorted(used))
            for cand in (base.replace("-", "_"), base.replace("_", "-"), base[:1].upper() + base[1:], base + "_", base + "-x".replace("x", "")):
                if cand and cand not in used and cand[0].isalpha() and not cand.endswith("-") and self.valid_ident(cand):
                    used.add(cand)
                    self.features.add("mangle-collision")
                    return cand
        if hazard and self.chance(0.03):
            cand = r.choice(HAZARD_CHILD[:-1])
            if cand not in used:
                used.add(cand)
                self.features.add("hazard-child:" + cand)
                return cand
        for _ in range(50):
            w = r.choice(WORDS)
            if self.chance(0.3):
                w = w + "-" + r.choice(WORDS)
            if self.chance(0.1):
                w = w + str(r.randint(0, 99))
            if self.chance(0.05):
                w = w.replace("-", "_")
            if self.hazards and self.chance(0.03):
                w = w.replace("-", ".")
                self.features.add("dot-name")
            if w not in used and w not in ("config", "state"):
                used.add(w)
                return w
        self.counter += 1
        w = "n%d" % self.counter
        used.add(w)
        return w

    @staticmethod
    def valid_ident(s):
        return s[0].isalpha() or s[0] == "_"

    def qual(self, mod, name, here):
        return name if mod is here else mod.prefix + ":" + name

    # ------------------------------------------------------------ definitions
    def make_defs(self):
        r = self.r
        for mod in (self.a, self.b):
            n_id = r.randint(2, 5)
            names = set()
            for i in range(n_id):
                nm = self.fresh(names, hazard=False).replace(".", "-") + "-id"
                base = None
                pool = [(m, x[0]) for m in ((self.a,) if mod is self.a else (self.a, self.b)) for x in m.identities]
                if pool and i > 0 and self.chance(0.8):
                    bm, bn = r.choice(pool)
                    base = self.qual(bm, bn, mod)
                mod.identities.append((nm, base))
            # guarantee a base with at least one derived identity
            if not any(b for _, b in mod.identities):
                mod.identities.append((mod.identities[0][0] + "-d", mod.identities[0][0]))
        for mod in (self.a, self.b):
            tnames = set()
            for i in range(r.randint(2, 5)):
                nm = self.fresh(tnames, hazard=False).replace(".", "-") + "-t"
                ty, cat = self.rand_type(mod, depth=0, allow_typedef=(i > 0), no_leafref=True)
                dflt = ""
                if cat in INTS and self.chance(0.2) and "range" not in ty:
                    dflt = " default %s;" % INT_DEFAULT[cat]
                    self.features.add("typedef-default")
                mod.typedefs.append((nm, ty, cat, dflt))

    def enum_body(self):
        r = self.r
        n = r.randint(1, 5)
        names = set()
        out = []
        for i in range(n):
            nm = r.choice(["UP", "DOWN", "ACCEPT", "DROP", "one", "two", "dark-grey", "lag", "x1", "A", "b-c", "e.v", "up", "Up"])
            if self.hazards and self.chance(0.015):
                nm = r.choice(["b_c", "B-c", "UNSET"])
            if nm in names:
                continue
            if nm in ("b_c", "B-c") and "b-c" in names:
                self.features.add("enum-label-collision")
            if nm == "UNSET":
                self.features.add("enum-label-UNSET")
            names.add(nm)
            if self.chance(0.2):
                out.append("enum %s { value %d; }" % (nm, (i + 1) * r.choice([3, 10, -2]) if r.random() < 0.9 else 2147483647 - i))
            else:
                out.append("enum %s;" % nm)
        # explicit values must stay increasing for implicit successors: keep it simple by re-numbering all when any value given
        if any("value" in e for e in out):
            vals = sorted(r.sample(range(-50, 200), len(out)))
            out = ["enum %s { value %d; }" % (e.split()[1].rstrip(";"), v) for e, v in zip(out, vals)]
        return " ".join(out)

    def identity_pool(self, here):
        """identities that have at least one derived identity (usable as identityref base)"""
        mods = (self.a,) if here is self.a else (self.a, self.b)
        allid = [(m, n, b) for m in (self.a, self.b) for n, b in m.identities]
        out = []
        for m in mods:
            for n, _ in m.identities:
                out.append((m, n))
        return out

    def rand_type(self, mod, depth=0, allow_typedef=True, no_leafref=False, key=False, in_union=False, siblings=None):
        """Returns (type statement text without the leading 'type', category)."""
        r = self.r
        cats = ["string", "int", "bool", "enum", "idref", "dec", "bin", "union", "typedef", "leafref", "empty", "strx", "intx"]
        w = [5, 6, 2, 3, 3, 1, 1, 2, 3, 2, 1, 2, 3]
        while True:
            c = r.choices(cats, w)[0]
            if c == "empty" and (key or in_union):
                continue
            if c == "bin" and key:
                continue
            if c == "dec" and key and self.chance(0.7):
                continue
            if c == "union" and (depth > 0 or in_union):
                continue
            if c == "typedef" and (not allow_typedef or not (mod.typedefs or self.a.typedefs)):
                continue
            if c == "leafref" and (no_leafref or in_union or not siblings or self._in_choice):
                continue
            break
        if c == "string":
            return "string", "string"
        if c == "strx":
            parts = []
            if self.chance(0.7):
                parts.append("length %s;" % r.choice(['"1..20"', '"2..4 | 8"', '"0..max"', '"3"']))
            if self.chance(0.6):
                parts.append("pattern %s;" % r.choice(["'[a-z]+[0-9]*'", "'[a-c]*'", "'.*b.*'", "'\\\\d{1,3}'"]))
                if self.chance(0.3):
                    parts.append("pattern '.*';")
            return "string { %s }" % " ".join(parts) if parts else "string", "string"
        if c == "int":
            k = r.choice(INTS)
            return k, k
        if c == "intx":
            k = r.choice(INTS)
            return "%s { range %s; }" % (k, r.choice(INT_RANGES[k])), k
        if c == "bool":
            return "boolean", "bool"
        if c == "dec":
            fd = r.choice([1, 2, 3, 14])
            if self.chance(0.3) and fd == 2:
                return 'decimal64 { fraction-digits 2; range "-5.5..5.5 | 100.01..200"; }', "dec"
            return "decimal64 { fraction-digits %d; }" % fd, "dec"
        if c == "bin":
            return ("binary { length \"2..3\"; }" if self.chance(0.3) else "binary"), "bin"
        if c == "empty":
            return "empty", "empty"
        if c == "enum":
            self.features.add("inline-enum")
            return "enumeration { %s }" % self.enum_body(), "enum"
        if c == "idref":
            m, n = r.choice(self.identity_pool(mod))
            return "identityref { base %s; }" % self.qual(m, n, mod), "idref"
        if c == "typedef":
            pool = [(m, t) for m in ((self.a,) if mod is self.a else (self.a, self.b)) for t in m.typedefs]
            if in_union:
                pool = [(m, t) for m, t in pool if t[2] not in ("union", "empty")]
            if key:
                pool = [(m, t) for m, t in pool if t[2] not in ("empty", "bin")]
            if not pool:
                return "string", "string"
            m, t = r.choice(pool)
            self.features.add("typedef:" + t[2])
            return self.qual(m, t[0], mod), t[2]
        if c == "union":
            ms = []
            for _ in range(r.randint(1, 3)):
                t, _c = self.rand_type(mod, depth + 1, allow_typedef, True, key, True)
                ms.append("type %s;" % t if "{" not in t else "type %s" % t)
            self.features.add("union")
            return "union { %s }" % " ".join(ms), "union"
        if c == "leafref":
            tgt = r.choice(siblings)
            self.features.add("leafref")
            return 'leafref { path "../%s"; }' % tgt, "leafref"

    @staticmethod
    def tstmt(t):
        return "type %s;" % t if not t.endswith("}") else "type %s" % t

    # ------------------------------------------------------------ plain style
    def leaf(self, mod, name, siblings, key=False, cfg_false_ok=False):
        t, cat = self.rand_type(mod, key=key, siblings=[s for s in siblings if s != name], no_leafref=key and self.chance(0.5))
        extra = ""
        if not key:
            if cat in INTS and "range" not in t and "-t" not in t and self.chance(0.25):
                extra += " default %s;" % INT_DEFAULT[cat]
            elif cat == "string" and t == "string" and self.chance(0.2):
                extra += ' default "hello";'
            elif cat == "bool" and self.chance(0.3):
                extra += " default true;"
            elif self.chance(0.05) and not extra:
                extra += " mandatory true;"
            if cfg_false_ok and self.chance(0.08):
                extra += " config false;"
                self.features.add("config-false-leaf")
        if self.chance(0.1):
            extra += ' description "d %s";' % name
        if self.chance(0.05) and cat in INTS:
            extra += ' units "pkts";'
        return "leaf %s { %s%s }" % (name, self.tstmt(t), extra), cat

    def leaflist(self, mod, name, ro):
        while True:
            t, cat = self.rand_type(mod, no_leafref=True)
            if cat not in ("empty",):
                break
        extra = ""
        if self.chance(0.2):
            extra += " max-elements %d;" % self.r.randint(1, 5)
        if self.chance(0.1):
            extra += " min-elements 1;"
        if self.chance(0.15):
            extra += " ordered-by user;"
            self.features.add("leaf-list-ordered-by-user")
        return "leaf-list %s { %s%s }" % (name, self.tstmt(t), extra)

    def plain_children(self, mod, depth, ro, parent_name, used=None, no_uses=False, in_grouping=False):
        """children statements of a container/list body"""
        r = self.r
        used = used if used is not None else set()
        out = []
        leaves = []
        n = r.randint(1, 5 if depth < 3 else 3)
        for _ in range(n):
            if self.budget <= 0:
                break
            self.budget -= 1
            k = r.choices(["leaf", "leaf-list", "container", "list", "choice", "uses", "unkeyed"],
                          [8, 3, 4 if depth < 4 else 0, 4 if depth < 3 else 0, 1.5, 0 if (no_uses or self._in_choice) else 2,
                           0 if (in_grouping or self._ing) else (0.7 if ro else 0.2)])[0]
            if k == "leaf":
                nm = self.fresh(used)
                if parent_name and self.hazards and self.chance(0.06) and parent_name not in used:
                    used.discard(nm)
                    nm = parent_name
                    used.add(nm)
                    self.features.add("leaf-named-like-parent")
                s, _ = self.leaf(mod, nm, leaves, cfg_false_ok=not ro)
                leaves.append(nm)
                out.append(s)
            elif k == "leaf-list":
                out.append(self.leaflist(mod, self.fresh(used), ro))
            elif k == "container":
                nm = self.fresh(used)
                pres = ' presence "p";' if self.chance(0.2) else ""
                cf = ""
                sub_ro = ro
                if not ro and self.chance(0.12):
                    cf, sub_ro = " config false;", True
                    self.features.add("config-false-subtree")
                out.append("container %s {%s%s %s }" % (nm, pres, cf, " ".join(self.plain_children(mod, depth + 1, sub_ro, nm)) or "leaf x { type string; }"))
            elif k == "list":
                out.append(self.plain_list(mod, self.fresh(used), depth, ro))
            elif k == "unkeyed":
                nm = self.fresh(used)
                cf = " config false;"
                self.features.add("unkeyed-list")
                out.append("list %s {%s %s }" % (nm, cf, " ".join(self.plain_children(mod, depth + 1, True, nm)) or "leaf x { type string; }"))
            elif k == "choice":
                cn = self.fresh(used)
                cases = []
                self._in_choice += 1
                for i in range(r.randint(1, 3)):
                    members = []
                    for _ in range(r.randint(1, 2)):
                        ln = self.fresh(used)
                        if self.chance(0.2) and depth < 3:
                            members.append("container %s { %s }" % (ln, " ".join(self.plain_children(mod, depth + 2, ro, ln)) or "leaf x { type string; }"))
                        else:
                            members.append(self.leaf(mod, ln, [])[0])
                    if len(members) == 1 and self.chance(0.3) and members[0].startswith("leaf "):
                        cases.append(members[0])   # shorthand case
                    else:
                        cases.append("case %s-c%d { %s }" % (cn, i, " ".join(members)))
                self._in_choice -= 1
                self.features.add("choice")
                out.append("choice %s { %s }" % (cn, " ".join(cases)))
            elif k == "uses":
                pool = [(m, g) for m in ((self.a,) if mod is self.a else (self.a, self.b)) for g in m.groupings
                        if not (set(g[2]) & used)]
                if pool:
                    m, g = r.choice(pool)
                    used.update(g[2])
                    self.features.add("uses")
                    out.append("uses %s;" % self.qual(m, g[0], mod))
        return out

    def plain_list(self, mod, name, depth, ro):
        r = self.r
        used = set()
        nkeys = r.choices([1, 2, 3], [6, 3, 1])[0]
        keys, stm, leaves = [], [], []
        for _ in range(nkeys):
            kn = self.fresh(used, hazard=False)
            s, cat = self.leaf(mod, kn, leaves, key=True)
            self.features.add("key:" + cat)
            keys.append(kn)
            leaves.append(kn)
            stm.append(s)
        extra = ""
        if self.chance(0.25):
            extra += " ordered-by user;"
            self.features.add("ordered-by-user")
        if self.chance(0.1):
            extra += " min-elements 1; max-elements 4;"
        if nkeys > 1:
            self.features.add("multi-key")
        if self.hazards and self.chance(0.08) and "key" not in used:
            # a child container named 'key' next to a multi-key list's generated <List>_Key struct
            used.add("key")
            stm.append("container key { leaf v { type string; } }")
            self.features.add("hazard-child:key")
        body = stm + self.plain_children(mod, depth + 1, ro, name, used)
        return 'list %s { key "%s";%s %s }' % (name, " ".join(keys), extra, " ".join(body))

    def make_groupings(self, mod):
        for i in range(self.r.randint(1, 3)):
            used = set()
            gname = "%s-g%d" % (mod.prefix, i)
            save = self.budget
            self.budget = 6
            self._ing = True
            body = self.plain_children(mod, 2, True, None, used, in_grouping=True)
            self._ing = False  # ro=True: no 'config false' inside (usable anywhere)
            self.budget = save
            if body:
                mod.groupings.append((gname, " ".join(body), sorted(used)))

    # ------------------------------------------------------------ OpenConfig style
    def oc_leafset(self, mod, used, nmin=1, nmax=4, key_names=()):
        """leaves for a config container -> (statements, names)"""
        out, names = [], []
        for kn in key_names:
            s, cat = self.leaf(mod, kn, [], key=True)
            s = s.replace(' default "hello";', "")
            out.append(s)
            names.append(kn)
            self.features.add("key:" + cat)
        for _ in range(self.r.randint(nmin, nmax)):
            nm = self.fresh(used)
            if self.chance(0.2):
                out.append(self.leaflist(mod, nm, False))
            else:
                out.append(self.leaf(mod, nm, [])[0])
            names.append(nm)
        return out, names

    def oc_dir(self, mod, depth, used_here, keys=()):
        """children statements of an OpenConfig-style directory (container or list entry)."""
        r = self.r
        out = []
        for k in keys:
            out.append('leaf %s { type leafref { path "../config/%s"; } }' % (k, k))
        leaf_used = set(keys)
        cfg, names = self.oc_leafset(mod, leaf_used, 0 if keys else 1, 4, keys)
        if self.chance(0.25) and cfg:
            # choice inside config
            cn = self.fresh(leaf_used, hazard=False)
            l1, l2 = self.fresh(leaf_used, hazard=False), self.fresh(leaf_used, hazard=False)
            cfg.append("choice %s { case c1 { leaf %s { type string; } } leaf %s { type uint8; } }" % (cn, l1, l2))
            self.features.add("choice-in-config")
        use_grouping = self.chance(0.6)
        if use_grouping:
            gname = "%s-cfg%d" % (mod.prefix, len(mod.groupings))
            mod.groupings.append((gname, " ".join(cfg), names))
            cfg_body = "uses %s;" % gname
        else:
            cfg_body = " ".join(cfg)
            if "enumeration" in cfg_body:
                self.features.add("inline-enum-in-config-and-state")
        st_extra, _ = self.oc_leafset(mod, leaf_used, 0, 2)
        st_cont = ""
        if self.chance(0.3) and "counters" not in leaf_used:
            leaf_used.add("counters")
            st_cont = " container counters { leaf in-pkts { type uint64; } leaf out-pkts { type uint64; } }"
        mode = r.choices(["both", "config-only", "state-only"], [8, 1, 1])[0]
        if keys:
            mode = "both"
        if mode in ("both", "config-only"):
            out.append("container config { %s }" % cfg_body)
        if mode in ("both", "state-only"):
            out.append("container state { config false; %s %s%s }" % (cfg_body if mode == "both" else "", " ".join(st_extra) or ("leaf x { type string; }" if mode != "both" else ""), st_cont))
        used_here |= leaf_used | {"config", "state"}
        # sub-directories
        if depth < 3:
            for _ in range(r.randint(0, 2 if depth else 3)):
                if self.budget <= 0:
                    break
                self.budget -= 4
                nm = self.fresh(used_here)
                if self.chance(0.5):
                    out.append("container %s { %s }" % (nm, " ".join(self.oc_dir(mod, depth + 1, set()))))
                else:
                    out.append(self.oc_list(mod, nm, depth, used_here))
        return out

    def oc_list(self, mod, item, depth, used_here):
        plural = item + "s"
        if plural in used_here:
            plural = item + "-list"
        used_here.add(plural)
        nkeys = self.r.choices([1, 2], [7, 3])[0]
        ku = set()
        keys = [self.fresh(ku, hazard=False) for _ in range(nkeys)]
        extra = ""
        if self.chance(0.25):
            extra = " ordered-by user;"
            self.features.add("ordered-by-user")
        if nkeys > 1:
            self.features.add("multi-key")
        body = self.oc_dir(mod, depth + 1, set(keys), keys)
        return 'container %s { list %s { key "%s";%s %s } }' % (plural, item, " ".join(keys), extra, " ".join(body))

    # ------------------------------------------------------------ module assembly
    def build(self):
        r = self.r
        self.make_defs()
        if self.style == "plain":
            self.make_groupings(self.a)
            self.make_groupings(self.b)
        top_used = set()
        tops = []
        for mod in (self.a, self.b):
            for _ in range(r.randint(1, 2) if mod is self.a else r.randint(0, 1)):
                nm = self.fresh(top_used, hazard=False)
                if mod is self.b:
                    nm = "b-" + nm
                if self.style == "plain":
                    body = self.plain_children(mod, 1, False, nm)
                    if self.chance(0.3):
                        mod.body.append(self.plain_list(mod, nm, 1, False))
                    else:
                        mod.body.append("container %s { %s }" % (nm, " ".join(body) or "leaf x { type string; }"))
                        tops.append((mod, nm))
                else:
                    mod.body.append("container %s { %s }" % (nm, " ".join(self.oc_dir(mod, 1, set()))))
                    tops.append((mod, nm))
        # augment from -b into a top container of -a
        a_tops = [nm for m, nm in tops if m is self.a]
        if a_tops and self.chance(0.85):
            tgt = r.choice(a_tops)
            used = set(["config", "state"])
            if self.style == "plain":
                save, self.budget = self.budget, 6
                self.name_prefix = "aug-"   # names already in the target are unknown here
                body = self.plain_children(self.b, 2, False, None, used, no_uses=True)
                self.name_prefix = ""
                self.budget = save
            else:
                nm = "aug-" + self.fresh(used, hazard=False)
                body = ["container %s { %s }" % (nm, " ".join(self.oc_dir(self.b, 2, set())))]
            if body:
                self.b.body.append('augment "/%s:%s" { %s }' % (self.a.prefix, tgt, " ".join(body)))
                self.features.add("augment")
        files = {}
        for mod in (self.a, self.b):
            files[mod.name + ".yang"] = self.render(mod)
        return files

    @staticmethod
    def _prefix_name(stmt, pfx):
        kw, rest = stmt.split(" ", 1)
        return "%s %s%s" % (kw, pfx, rest)

    def render(self, mod):
        L = ["module %s {" % mod.name, '  namespace "urn:verif:%s";' % mod.name, '  prefix "%s";' % mod.prefix]
        if mod is self.b:
            L.append('  import %s { prefix "%s"; }' % (self.a.name, self.a.prefix))
        L.append('  description "generated by yanggen (%s)";' % self.style)
        for n, b in mod.identities:
            L.append("  identity %s%s" % (n, " { base %s; }" % b if b else ";"))
        for n, t, _c, d in mod.typedefs:
            L.append("  typedef %s { %s%s }" % (n, self.tstmt(t), d))
        for n, body, _ in mod.groupings:
            L.append("  grouping %s { %s }" % (n, body))
        for s in mod.body:
            L.append("  " + s)
        L.append("}")
        return "\n".join(L) + "\n"


def generate(seed, style="plain", hazards=True):
    g = Gen(seed, style, hazards)
    files = g.build()
    return {"files": files, "main": [g.b.name + ".yang"], "all": sorted(files), "features": sorted(g.features), "style": style, "hazards": hazards,
            "prefix": g.pfx}


if __name__ == "__main__":
    import sys
    out = generate(int(sys.argv[1]), sys.argv[2] if len(sys.argv) > 2 else "plain")
    for f, t in out["files"].items():
        print("//", f)
        print(t)
    print("// features:", out["features"])
