"""C29 hook: generated path structs resolve to the schema's data-tree paths.

On every ./check C29:
  1. gencorpus.prepare: the corpus contains packages generated with -generate_path_structs
     (compressed code only: v-oc under prefer-config / prefer-state, random OpenConfig-style modules);
  2. the driver's stream `pathstructs` enumerates by reflection every accessor chain of the generated
     path API (all methods returning path structs; key arguments from per-type pools, wildcards via
     the Any variants), calls ygot.ResolvePath on each and writes Coq case files: the NodePaths read
     back from the path structs, the resolved path, the data path of the GoStruct field tags;
  3. coqc evaluates every case file against Gen/PathStructs.v: (a) model resolve = implementation
     (finding pathstruct/resolve), (b) element names = tag path (finding pathstruct/tags);
  4. the packages generated with -list_builder_key_threshold (builder-style list API: XxxAny() +
     With<Key>(v) = ygot.ModifyKey in place) are enumerated by the stream `pathbuilder`
     (harness/ydrive/c29_builder.go): programs of With calls and resolutions on one set of live
     path structs; coqc evaluates the traces against Gen/PathBuilder.v: the model state evolved by
     modify_key alone = the NodePaths read back at every resolution, model resolve = implementation
     (finding pathstruct/builder-model), element names = tag path (finding pathstruct/builder-tags).
Python stdlib only."""
import concurrent.futures, json, os, re, time
import gencorpus


def eval_file(path):
    ok, out = gencorpus.coqc(os.path.basename(path), os.path.dirname(path), timeout=1200)
    flat = " ".join(out.split())
    res = {}
    for name in ("M", "T"):
        m = re.search(name + r" = \[(.*?)\]\s*:", flat)
        if not ok or not m:
            return {"file": path, "error": out[-1200:]}
        body = m.group(1).strip()
        res[name] = [int(x.replace("%nat", "")) for x in body.split(";")] if body else []
    res["file"] = path
    return res


STREAMS = [
    # stream, cases quick/thorough, signature of a model mismatch, signature of a tag mismatch
    ("pathstructs", 3000, 20000, "pathstruct/resolve", "pathstruct/tags"),
    ("pathbuilder", 2000, 15000, "pathstruct/builder-model", "pathstruct/builder-tags"),
]


def pre(tier, seed):
    t0 = time.time()
    res = {"broken": [], "findings": [], "notes": [], "obligations": 0}
    info = gencorpus.prepare(tier, seed)
    res["broken"] += info.get("broken", [])
    if not info.get("driver") or info.get("broken"):
        return res
    res["notes"].append("corpus: %s (cached=%s)" % (info["timings"], info.get("cached")))
    missing = gencorpus.ensure_theories(["Gen/PathStructs", "Gen/PathStructsProofs", "Gen/PathBuilder", "Gen/PathBuilderProofs", "Properties/C29"])
    if missing:
        res["broken"].append({"theorem_files": missing, "output": "not built; the case files cannot be evaluated"})
        return res
    tot = {"cases": 0, "nontrivial": 0, "oracle_runs": 0, "files": 0, "mm": 0, "tm": 0}
    cov, rules, samples = {}, [], []
    for stream, nq, nt, sig_model, sig_tags in STREAMS:
        work = os.path.join(gencorpus.OUT, "work", stream)
        ok, out, summ = gencorpus.run_dump(info, stream, work, n=nq if tier == "quick" else nt)
        if not ok:
            res["broken"].append({"translator": "stream %s failed" % stream, "output": out})
            return res
        res["findings"] += summ.get("findings") or []
        files = [os.path.join(work, f) for f in (summ.get("extra") or {}).get("case_files", [])]
        if not files:
            what = "no package with path structs was generated and compiled" if stream == "pathstructs" else "no package with the builder-style list API (-list_builder_key_threshold) was generated and compiled"
            res["broken"].append({"translator": what, "output": json.dumps(info.get("timings"))})
        t1 = time.time()
        mm, tm = [], []
        with concurrent.futures.ThreadPoolExecutor(max_workers=8) as ex:
            for r in ex.map(eval_file, files):
                if "error" in r:
                    res["broken"].append({"correspondence": stream, "model_errors": [os.path.basename(r["file"]) + ": " + r["error"]]})
                    continue
                mm += [(os.path.basename(r["file"]), i) for i in r["M"]]
                tm += [(os.path.basename(r["file"]), i) for i in r["T"]]
        res["notes"].append("%s: coqc of %d case files: %.1fs" % (stream, len(files), time.time() - t1))
        have = {f["signature"] for f in res["findings"]}
        if mm:
            # the model and the implementation disagree: a correspondence failure unless the oracle explains it
            res["broken"].append({"correspondence": stream, "mismatching_cases": mm[:20]})
            if sig_model not in have:
                what = ("ygot.ResolvePath differs from the model's resolve on the dumped NodePath chain" if stream == "pathstructs" else
                        "a program of With/ModifyKey calls and resolutions: the NodePaths read back differ from the model state, or ygot.ResolvePath differs from the model's resolve on the current state")
                res["findings"].append({"signature": sig_model, "what": what, "input": {"cases": mm[:10], "seed": seed, "tier": tier}})
        if tm and sig_tags not in have:
            res["findings"].append({"signature": sig_tags, "what": "resolved element names differ from the data path of the GoStruct field tags (Coq check)",
                                    "input": {"cases": tm[:10], "seed": seed, "tier": tier}})
        tot["cases"] += summ["cases"]
        tot["nontrivial"] += summ["distinct_nontrivial"]
        tot["oracle_runs"] += summ.get("oracle_runs") or 0
        tot["files"] += len(files)
        tot["mm"] += len(mm)
        tot["tm"] += len(tm)
        rules.append("%s: %s" % (stream, summ["rule"]))
        samples += (summ.get("samples") or [])[:3]
        short = "c29" if stream == "pathstructs" else "c29b"
        cov.update({short + "_chains" if stream == "pathstructs" else short + "_resolutions": summ["cases"], short + "_distribution": summ.get("distribution"),
                    short + "_case_files": len(files), short + "_model_mismatches": len(mm), short + "_tag_mismatches": len(tm)})
        if stream == "pathbuilder":
            cov["c29b_programs"] = (summ.get("extra") or {}).get("programs")
            cov["c29b_packages"] = (summ.get("extra") or {}).get("builder_packages")
    cov.update({"oracle_runs": tot["oracle_runs"], "correspondence_mismatches": tot["mm"], "traces_validated_against_impl": tot["cases"],
                "c29_pre_s": round(time.time() - t0, 2)})
    res.update({
        "obligations": 0,
        "evaluations": tot["cases"],
        "distinct_nontrivial": tot["nontrivial"],
        "programs": tot["cases"],
        "disagreements_checked": tot["mm"] + tot["tm"],
        "rule": " | ".join(rules),
        "samples": samples[:6],
        "coverage": cov,
    })
    return res


if __name__ == "__main__":
    import sys
    r = pre(sys.argv[1] if len(sys.argv) > 1 else "quick", int(sys.argv[2]) if len(sys.argv) > 2 else 1)
    print(json.dumps(r, indent=1)[:5000])
