"""C29 hook: generated path structs resolve to the schema's data-tree paths.

On every ./check C29:
  1. gencorpus.prepare: the corpus contains packages generated with -generate_path_structs
     (compressed code only: v-oc under prefer-config / prefer-state, random OpenConfig-style modules);
  2. the driver's stream `pathstructs` enumerates by reflection every accessor chain of the generated
     path API (all methods returning path structs; key arguments from per-type pools, wildcards via
     the Any variants), calls ygot.ResolvePath on each and writes Coq case files: the NodePaths read
     back from the path structs, the resolved path, the data path of the GoStruct field tags;
  3. coqc evaluates every case file against Gen/PathStructs.v: (a) model resolve = implementation
     (finding pathstruct/resolve), (b) element names = tag path (finding pathstruct/tags).
Python stdlib only."""
import concurrent.futures, json, os, re, time
import gencorpus


def eval_file(path):
    ok, out = gencorpus.coqc(os.path.basename(path), os.path.dirname(path), timeout=1200)
    flat = " ".join(out.split())
    res = {}
    for name in ("M", "T"):
        m = re.search(name + r" = \[(.*?)\]\s*:", flat)
        if not ok or not m:
            return {"file": path, "error": out[-1200:]}
        body = m.group(1).strip()
        res[name] = [int(x.replace("%nat", "")) for x in body.split(";")] if body else []
    res["file"] = path
    return res


def pre(tier, seed):
    t0 = time.time()
    res = {"broken": [], "findings": [], "notes": [], "obligations": 0}
    info = gencorpus.prepare(tier, seed)
    res["broken"] += info.get("broken", [])
    if not info.get("driver") or info.get("broken"):
        return res
    res["notes"].append("corpus: %s (cached=%s)" % (info["timings"], info.get("cached")))
    work = os.path.join(gencorpus.OUT, "work", "pathstructs")
    n = 3000 if tier == "quick" else 20000
    ok, out, summ = gencorpus.run_dump(info, "pathstructs", work, n=n)
    if not ok:
        res["broken"].append({"translator": "stream pathstructs failed", "output": out})
        return res
    res["findings"] += summ.get("findings") or []
    missing = gencorpus.ensure_theories(["Gen/PathStructs", "Gen/PathStructsProofs", "Properties/C29"])
    if missing:
        res["broken"].append({"theorem_files": missing, "output": "not built; the case files cannot be evaluated"})
        return res
    files = [os.path.join(work, f) for f in (summ.get("extra") or {}).get("case_files", [])]
    if not files:
        res["broken"].append({"translator": "no package with path structs was generated and compiled", "output": json.dumps(info.get("timings"))})
    t1 = time.time()
    mm, tm = [], []
    with concurrent.futures.ThreadPoolExecutor(max_workers=8) as ex:
        for r in ex.map(eval_file, files):
            if "error" in r:
                res["broken"].append({"correspondence": "pathstructs", "model_errors": [os.path.basename(r["file"]) + ": " + r["error"]]})
                continue
            mm += [(os.path.basename(r["file"]), i) for i in r["M"]]
            tm += [(os.path.basename(r["file"]), i) for i in r["T"]]
    res["notes"].append("coqc of %d case files: %.1fs" % (len(files), time.time() - t1))
    have = {f["signature"] for f in res["findings"]}
    if mm:
        # the model and the implementation disagree on ResolvePath: a correspondence failure unless the oracle explains it
        res["broken"].append({"correspondence": "pathstructs", "mismatching_cases": mm[:20]})
        if "pathstruct/resolve" not in have:
            res["findings"].append({"signature": "pathstruct/resolve", "what": "ygot.ResolvePath differs from the model's resolve on the dumped NodePath chain",
                                    "input": {"cases": mm[:10], "seed": seed, "tier": tier}})
    if tm and "pathstruct/tags" not in have:
        res["findings"].append({"signature": "pathstruct/tags", "what": "resolved element names differ from the data path of the GoStruct field tags (Coq check)",
                                "input": {"cases": tm[:10], "seed": seed, "tier": tier}})
    res.update({
        "obligations": 0,
        "evaluations": summ["cases"],
        "distinct_nontrivial": summ["distinct_nontrivial"],
        "programs": summ["cases"],
        "disagreements_checked": len(mm) + len(tm),
        "rule": summ["rule"],
        "samples": (summ.get("samples") or [])[:4],
        "coverage": {"c29_chains": summ["cases"], "c29_distribution": summ.get("distribution"), "c29_case_files": len(files),
                     "c29_model_mismatches": len(mm), "c29_tag_mismatches": len(tm), "oracle_runs": summ.get("oracle_runs"),
                     "correspondence_mismatches": len(mm), "traces_validated_against_impl": summ["cases"],
                     "c29_pre_s": round(time.time() - t0, 2)},
    })
    return res


if __name__ == "__main__":
    import sys
    r = pre(sys.argv[1] if len(sys.argv) > 1 else "quick", int(sys.argv[2]) if len(sys.argv) > 2 else 1)
    print(json.dumps(r, indent=1)[:5000])
