"""C17 translator (the `pre` hook of property C17).

Runs before the Coq build on every ./check C17:
  1. runs /repo's generator (build/bin/generator, built from the working tree by vgen) over the
     schema corpus for every combination of the enum-naming flags
     (shorten_enum_leaf_names, typedef_enum_with_defmod, enum_suffix_for_simple_union_enums,
     skip_enum_deduplication, trim_enum_openconfig_prefix) x compress_paths, plus a supplemental
     OpenConfig-style module (so that trim_enum_openconfig_prefix has something to trim) and two
     adversarial modules, into build/c17gen/<cfg>/gen.go (not compiled);
  2. extracts every `ΛEnum = map[string]map[int64]ygot.EnumDefinition{...}` literal (also of the
     six standard packages in build/gen) with a small parser;
  3. writes build/c17gen/manifest.json (read by the Go stream `enum`, which cross-checks the
     parser against the compiled maps and the tables against the YANG statements), and
     build/coqgen/Gen_Enums.v + C17_tables.v, and compiles them:
        c17_all_generated_tables_ok : forallb (fun t => tbl_checkb (snd t)) generated_tables = true
     by vm_compute, lifted by Properties/C17.v's c17_colon_lift (tbl_checkb_statement + forallb_forall).
     tbl_checkb (Scalar/EnumColon.v) applies tbl_okb_full to a table without ':' in any name (which
     yields c17_table_statement, as before) and tblc_okb to a table with a ':' in some name
     (enum "ipv4:unicast": keys = names after StripModulePrefix distinct and non-empty; yields
     c17_colon_table_statement).  The choice is made inside Coq, not by this translator.
The adversarial tables are only diagnosed (tbl_check_diag); ill-formed ones become findings.
Python stdlib only."""
import concurrent.futures, hashlib, itertools, json, os, re, shutil, subprocess, time
import vcheck, vgen
from vcheck import VERIF, REPO, BUILD, COQ, log

THEORIES = os.environ.get("C17_THEORIES") or os.path.join(COQ, "theories")   # override: private test builds only
OUT = os.environ.get("C17_BUILD") or BUILD
GEN = os.path.join(OUT, "c17gen")
COQGEN = os.path.join(OUT, "coqgen")
Y = os.path.join(VERIF, "yang")

ENUM_FLAGS = ["shorten_enum_leaf_names", "typedef_enum_with_defmod", "enum_suffix_for_simple_union_enums",
              "skip_enum_deduplication", "trim_enum_openconfig_prefix"]
BASE = ["-generate_fakeroot", "-fakeroot_name=device"]

# Supplemental OpenConfig-style module: module name with the organisational prefix, typedef and
# inline enumerations, a union with an inline enumeration, config/state duplication, an identity
# hierarchy spread over two modules with distinct names.
SUPPLEMENT = {
    "openconfig-c17x.yang": """module openconfig-c17x {
  yang-version 1.1;
  namespace "urn:c17:ocx";
  prefix ocx;
  import openconfig-c17y { prefix ocy; }
  identity X_BASE;
  identity X_ONE { base X_BASE; }
  identity X_TWO { base X_ONE; }
  typedef speed-t { type enumeration { enum SPEED_10G; enum SPEED_100G { value 100; } enum speed-unknown { value -5; } } }
  typedef mixed-t { type union { type enumeration { enum AUTO; enum MANUAL; } type uint16; } }
  grouping cfg {
    leaf speed { type speed-t; }
    leaf mode { type enumeration { enum ACTIVE; enum PASSIVE { value 7; } enum "a.b_c-d"; } }
    leaf mixed { type mixed-t; }
    leaf inl { type union { type enumeration { enum LOW; enum HIGH; } type string; } }
    leaf kind { type identityref { base X_BASE; } }
    leaf far { type identityref { base ocy:Y_BASE; } }
    leaf-list speeds { type speed-t; }
  }
  container port {
    container config { uses cfg; }
    container state { config false; uses cfg; leaf oper { type enumeration { enum UP; enum DOWN; enum TESTING { value 3; } } } }
  }
}
""",
    "openconfig-c17y.yang": """module openconfig-c17y {
  yang-version 1.1;
  namespace "urn:c17:ocy";
  prefix ocy;
  import openconfig-c17x { prefix ocx; }
  identity Y_BASE;
  identity Y_ONE { base Y_BASE; }
  identity X_THREE { base ocx:X_BASE; }
  identity Y_FROM_X { base Y_BASE; base ocx:X_TWO; }
}
""",
}

# Adversarial modules: an enumeration value -1 (numbered value+1 = 0 = UNSET), int32 extremes,
# and two identities of the same name, in different modules, derived from one base.
ADVERSARIAL = {
    "c17-adv.yang": """module c17-adv {
  yang-version 1.1;
  namespace "urn:c17:adv";
  prefix ca;
  import c17-adv2 { prefix cb; }
  identity adv-base;
  identity same { base adv-base; }
  identity other { base adv-base; }
  identity clean-base;
  identity c-one { base clean-base; }
  typedef neg-t { type enumeration { enum MINUS_TWO { value -2; } enum MINUS_ONE { value -1; } enum ZERO { value 0; }
                                      enum BIG { value 2147483647; } enum SMALL { value -2147483648; } } }
  container adv {
    leaf neg { type neg-t; }
    leaf idr { type identityref { base adv-base; } }
    leaf clean { type identityref { base clean-base; } }
    leaf un { type union { type enumeration { enum x; enum y { value -1; } } type uint8; } }
    leaf fine { type enumeration { enum p { value -7; } enum q; } }
  }
}
""",
    "c17-adv2.yang": """module c17-adv2 {
  yang-version 1.1;
  namespace "urn:c17:adv2";
  prefix cb;
  import c17-adv { prefix ca; }
  identity same { base ca:adv-base; }
  identity zz { base ca:adv-base; }
}
""",
}

# ---------------------------------------------------------------- the parser (trusted translator)

RE_MAP = re.compile(r"var ΛEnum = map\[string\]map\[int64\]ygot\.EnumDefinition\{\n(.*?)\n\}\n", re.S)
RE_TYPE = re.compile(r'^\t"([^"\\]+)": \{$')
RE_ENTRY = re.compile(r'^\t\t(-?\d+): \{Name: "((?:[^"\\]|\\.)*)"(?:, DefiningModule: "((?:[^"\\]|\\.)*)")?\},$')


def go_unquote(s):
    return json.loads('"' + s + '"') if "\\" in s else s


def parse_enum_map(src):
    """Returns [{'type':..., 'entries':[{'num','name','mod'}...]}] sorted by type then num, or
    raises ValueError: every line of the literal must be understood."""
    ms = RE_MAP.findall(src)
    if not ms:
        if "ΛEnum" in src:
            raise ValueError("ΛEnum present but the literal was not recognised")
        return []
    if len(ms) != 1:
        raise ValueError("%d ΛEnum literals" % len(ms))
    tables, cur = [], None
    for line in ms[0].split("\n"):
        m = RE_TYPE.match(line)
        if m:
            if cur is not None:
                raise ValueError("nested type " + line)
            cur = {"type": m.group(1), "entries": []}
            continue
        m = RE_ENTRY.match(line)
        if m and cur is not None:
            cur["entries"].append({"num": int(m.group(1)), "name": go_unquote(m.group(2)), "mod": go_unquote(m.group(3) or "")})
            continue
        if line == "\t}," and cur is not None:
            cur["entries"].sort(key=lambda e: e["num"])
            tables.append(cur)
            cur = None
            continue
        raise ValueError("unrecognised line in ΛEnum literal: %r" % line)
    if cur is not None:
        raise ValueError("unterminated table")
    tables.sort(key=lambda t: t["type"])
    return tables


# ---------------------------------------------------------------- configurations

def std_yang(f):
    """vgen names derived corpus files '@<dir>/<file>' (kept under build/gen/<dir>)"""
    if f.startswith("@"):
        d, rest = f[1:].split("/", 1)
        return os.path.join(BUILD, "gen", d, rest)
    return os.path.join(Y, f)


def configs(tier):
    out = []
    for name, (yfiles, flags, props) in vgen.CONFIGS.items():
        out.append({"name": "std_" + name, "group": "standard", "yang": [std_yang(f) for f in yfiles], "path": [Y],
                    "flags": flags, "gen": os.path.join(BUILD, "gen", name, "gen.go"), "run": False})
    ydir = os.path.join(GEN, "yang")
    corpora = [("vmain", [os.path.join(Y, "v-main.yang"), os.path.join(Y, "v-types.yang")], [Y]),
               ("vcolon", [os.path.join(Y, "v-colon.yang")], [Y]),      # enumeration names with ':'
               ("voc", [os.path.join(Y, "v-oc.yang")], [Y]),
               ("ocx", [os.path.join(ydir, "openconfig-c17x.yang"), os.path.join(ydir, "openconfig-c17y.yang")], [ydir])]
    unions = [("s", ["-generate_simple_unions"])] + ([("w", [])] if tier == "thorough" else [])
    for cname, yfiles, path in corpora:
        for uname, uflags in unions:
            # v-main / v-colon are not written in the OpenConfig style: the generator rejects them under -compress_paths
            for compress in ((False,) if cname in ("vmain", "vcolon") else (False, True)):
                for bits in itertools.product((0, 1), repeat=len(ENUM_FLAGS)):
                    # shorten_enum_leaf_names and trim_enum_openconfig_prefix are documented to act only under
                    # compress_paths: the quick tier does not vary them without it (the thorough tier does)
                    if tier != "thorough" and not compress and (bits[0] or bits[4]):
                        continue
                    fl = BASE + uflags + (["-compress_paths"] if compress else []) + ["-%s" % f for f, b in zip(ENUM_FLAGS, bits) if b]
                    nm = "m_%s_%s_c%d_%s" % (cname, uname, int(compress), "".join(map(str, bits)))
                    out.append({"name": nm, "group": "matrix", "yang": yfiles, "path": path, "flags": fl,
                                "gen": os.path.join(GEN, nm, "gen.go"), "run": True})
    adv = [os.path.join(ydir, "c17-adv.yang"), os.path.join(ydir, "c17-adv2.yang")]
    for nm, fl in (("adv_plain", ["-generate_simple_unions"]), ("adv_wrapper", []),
                   ("adv_flags", ["-generate_simple_unions", "-typedef_enum_with_defmod", "-skip_enum_deduplication", "-enum_suffix_for_simple_union_enums"])):
        out.append({"name": nm, "group": "adversarial", "yang": adv, "path": [ydir], "flags": BASE + fl,
                    "gen": os.path.join(GEN, nm, "gen.go"), "run": True})
    return out


def run_generator(genbin, c):
    d = os.path.dirname(c["gen"])
    shutil.rmtree(d, ignore_errors=True)
    os.makedirs(d)
    cmd = [genbin, "-path=" + ",".join(c["path"]), "-output_file=" + c["gen"], "-package_name=c17"] + c["flags"] + c["yang"]
    p = subprocess.run(["timeout", "120"] + cmd, cwd=d, stdout=subprocess.PIPE, stderr=subprocess.STDOUT, text=True)
    return p.returncode == 0 and os.path.exists(c["gen"]), p.stdout[-800:]


# ---------------------------------------------------------------- Coq printers

def coq_str(s):
    return "[" + ";".join(str(ord(ch)) for ch in s) + "]"


def coq_z(n):
    return "(%d)%%Z" % n if n < 0 else "%d%%Z" % n


class Shared:
    """Names each distinct string / table once (c17s_<k>, c17t_<k>): the lists of ~1000 rows then
    consist of identifiers only, which keeps coqc's parsing time negligible."""
    def __init__(self):
        self.strs, self.tabs, self.defs = {}, {}, []

    def s(self, x):
        if x not in self.strs:
            self.strs[x] = "c17s_%d" % len(self.strs)
            self.defs.append("Definition %s : str := %s. (* %s *)" % (self.strs[x], coq_str(x), x.replace("*)", "* )")))
        return self.strs[x]

    def t(self, t):
        k = json.dumps(t["entries"], sort_keys=True)
        if k not in self.tabs:
            self.tabs[k] = "c17t_%d" % len(self.tabs)
            body = ";\n   ".join("{| ev_num := %s; ev_name := %s; ev_mod := %s |}" % (coq_z(e["num"]), self.s(e["name"]), self.s(e["mod"]))
                                 for e in t["entries"])
            self.defs.append("Definition %s : list enumval :=\n  [%s]." % (self.tabs[k], body))
        return self.tabs[k]


def coq_tables(sh, name, rows, chunk=40):
    """long list literals are slow to parse: rows are defined in chunks and appended"""
    out, parts = [], []
    for k in range(0, len(rows), chunk):
        body = ";\n".join("  ((%s, %s), %s)" % (sh.s(cfg), sh.s(t["type"]), sh.t(t)) for cfg, t in rows[k:k + chunk])
        parts.append("%s_%d" % (name, k // chunk))
        out.append("Definition %s : list (str * str * list enumval) := [\n%s\n].\n" % (parts[-1], body))
    out.append("Definition %s : list (str * str * list enumval) :=\n  %s.\n" % (name, " ++ ".join(parts) if parts else "[]"))
    return out


TABLES_V = """(* GENERATED by lib/c17_pre.py on every run of ./check C17 -- do not edit. *)
From Ygot Require Import Tree.Tree Tree.Codec Scalar.EnumTable Scalar.EnumTableProofs
  Scalar.EnumColon Scalar.EnumColonProofs Properties.C17.
From YgotGen Require Import Gen_Enums.
Open Scope N_scope.

(* diagnostics first, so that a failing obligation can be attributed to its tables:
   (index, (some name has a ':', the four checks of the predicate that applies)) *)
Definition c17_bad_generated := Eval vm_compute in bad_tables_c generated_tables.
Print c17_bad_generated.
Definition c17_bad_adversarial := Eval vm_compute in bad_tables_c adversarial_tables.
Print c17_bad_adversarial.
Definition c17_colon_generated := Eval vm_compute in
  length (filter (fun t => tbl_has_colonb (snd t)) generated_tables).
Print c17_colon_generated.

(* the regenerated obligation: every table of every generated package under every enum-naming
   flag combination is well formed (tbl_okb_full, or tblc_okb when a name contains ':') *)
Theorem c17_all_generated_tables_ok :
  forallb (fun t => tbl_checkb (snd t)) generated_tables = true.
Proof. vm_compute. reflexivity. Qed.
Print Assumptions c17_all_generated_tables_ok.

(* ... hence (tbl_checkb_statement + forallb_forall, packaged as c17_colon_lift) the C17 statement
   holds of each: the colon statement of every table, and the statement with the module-prefixed
   form of every table without ':' in its names *)
Theorem c17_generated_tables_bijective : forall t, In t generated_tables ->
  c17_colon_table_statement (snd t) /\ (tbl_has_colonb (snd t) = false -> c17_table_statement (snd t)).
Proof. exact (c17_colon_lift generated_tables c17_all_generated_tables_ok). Qed.
Print Assumptions c17_generated_tables_bijective.
"""


def coqc(args, cwd):
    cmd = ["timeout", "900", "coqc", "-Q", THEORIES, "Ygot", "-Q", COQGEN, "YgotGen"] + args
    p = subprocess.run(cmd, cwd=cwd, stdout=subprocess.PIPE, stderr=subprocess.STDOUT, text=True)
    return p.returncode == 0, p.stdout


RE_BAD = re.compile(r"\((\d+)(?:%nat)?,\s*\((true|false),\s*\((true|false),\s*(true|false),\s*(true|false),\s*(true|false)\)\)\)")
CHECKS = ["values-distinct", "names-distinct", "zero-free", "names-wellformed"]              # tbl_diag
CHECKS_COLON = ["values-distinct", "keys-distinct", "zero-free", "entries-wellformed"]       # tblc_diag


def parse_bad(out, which):
    m = re.search(which + r"\s*=\s*(.*?)\s*:\s*list", " ".join(out.split()))
    if not m:
        return None
    return [(int(a), [c for c, ok in zip(CHECKS_COLON if hc == "true" else CHECKS, (b1, b2, b3, b4)) if ok == "false"])
            for a, hc, b1, b2, b3, b4 in RE_BAD.findall(m.group(1))]


def classify(t, failed):
    """signature of an ill-formed table, the same classification as the Go oracle's"""
    sigs = []
    if "names-distinct" in failed:
        ident = any(e["mod"] for e in t["entries"])
        sigs.append("enum/duplicate-name/" + ("identity-across-modules" if ident else "enumeration"))
    if "zero-free" in failed:
        sigs.append("enum/not-bijective/zero-defined")
    if "values-distinct" in failed:
        sigs.append("enum/duplicate-value")
    if "names-wellformed" in failed:
        sigs.append("enum/bad-name")
    # a table with a ':' in some name (checked by tblc_okb)
    if "keys-distinct" in failed:
        sigs.append("enum/colon-name/duplicate-suffix")
    if "entries-wellformed" in failed:
        sigs.append("enum/colon-name/bad-name")
    return sigs


# ---------------------------------------------------------------- the hook

def pre(tier, seed):
    t0 = time.time()
    res = {"broken": [], "findings": [], "notes": [], "obligations": 0}
    genbin = os.path.join(BUILD, "bin", "generator")
    if not os.path.exists(genbin):
        res["broken"].append({"build": "build/bin/generator is missing (vgen builds it from /repo's working tree)"})
        return res
    os.makedirs(os.path.join(GEN, "yang"), exist_ok=True)
    os.makedirs(COQGEN, exist_ok=True)
    for fn, txt in list(SUPPLEMENT.items()) + list(ADVERSARIAL.items()):
        p = os.path.join(GEN, "yang", fn)
        if not os.path.exists(p) or open(p).read() != txt:
            open(p, "w").write(txt)
    cfgs = configs(tier)
    # the generator runs are reused while /repo, the corpus, this file and the generator binary are unchanged
    key = hashlib.sha256((vgen.gen_key() + vcheck.sha_files([os.path.abspath(__file__), genbin]) + tier).encode()).hexdigest()
    keyfile = os.path.join(GEN, ".key")
    outfile = os.path.join(GEN, "runs.json")
    runs = {}
    if os.path.exists(keyfile) and open(keyfile).read() == key and os.path.exists(outfile):
        runs = json.load(open(outfile))
    todo = [c for c in cfgs if c["run"] and not (c["name"] in runs and (not runs[c["name"]]["ok"] or os.path.exists(c["gen"])))]
    if todo:
        with concurrent.futures.ThreadPoolExecutor(max_workers=min(14, os.cpu_count() or 4)) as ex:
            for c, (ok, out) in zip(todo, ex.map(lambda c: run_generator(genbin, c), todo)):
                runs[c["name"]] = {"ok": ok, "output": out}
        json.dump(runs, open(outfile, "w"))
        open(keyfile, "w").write(key)
    res["notes"].append("generator runs: %d executed, %d reused, %.1fs" % (len(todo), len([c for c in cfgs if c["run"]]) - len(todo), time.time() - t0))

    # ---- translate
    manifest = []
    generated, adversarial = [], []
    for c in cfgs:
        ok = (os.path.exists(c["gen"]) and runs.get(c["name"], {}).get("ok", False)) if c["run"] else True
        entry = {"name": c["name"], "group": c["group"], "yang": c["yang"], "path": c["path"], "flags": c["flags"], "ok": ok, "tables": []}
        if not ok:
            why = runs.get(c["name"], {}).get("output", "no generated file") if c["run"] else "standard package %s was not generated" % c["gen"]
            cause = "enum-name-lookup" if "cannot retrieve type name for enumerated leaf without a name generated" in why else "other"
            res["findings"].append({"signature": "enum/generator-failed/" + cause, "what": "the generator fails for this flag combination: " + why[-400:],
                                    "input": {"config": c["name"], "flags": c["flags"], "yang": c["yang"]}})
        else:
            try:
                if c["run"]:
                    src = open(c["gen"], encoding="utf-8").read()
                else:
                    with vcheck.Lock("go"):      # vgen rewrites build/gen under this lock
                        src = open(c["gen"], encoding="utf-8").read()
                entry["tables"] = parse_enum_map(src)
            except (ValueError, OSError) as e:
                entry["ok"] = False
                res["broken"].append({"translator": "cannot parse the ΛEnum literal of %s: %s" % (c["gen"], e)})
            if entry["ok"] and not entry["tables"]:
                res["broken"].append({"translator": "%s has no ΛEnum table although its schema has enumerated types" % c["gen"]})
            for t in entry["tables"]:
                (adversarial if c["group"] == "adversarial" else generated).append((c["name"], t))
        manifest.append(entry)
    json.dump({"configs": manifest}, open(os.path.join(GEN, "manifest.json"), "w"))

    # ---- Coq
    sh = Shared()
    g, a = coq_tables(sh, "generated_tables", generated), coq_tables(sh, "adversarial_tables", adversarial)
    g, a = "".join(g), "".join(a)
    open(os.path.join(COQGEN, "Gen_Enums.v"), "w").write(
        "(* GENERATED by lib/c17_pre.py on every run of ./check C17 from the generator's output -- do not edit.\n"
        "   Rows: (configuration, Go type name, ΛEnum table in ascending value order); every distinct string\n"
        "   and table is defined once and shared. *)\n"
        "From Ygot Require Import Tree.Tree.\nOpen Scope N_scope.\n" + "\n".join(sh.defs) + "\n" + g + a)
    open(os.path.join(COQGEN, "C17_tables.v"), "w").write(TABLES_V)
    res["obligations"] = len(generated)
    need = os.path.join(THEORIES, "Properties", "C17.vo")
    if THEORIES.startswith(COQ):
        okb, failed, tail = vcheck.coq_build()        # the generated file needs Properties/C17.vo
    if not os.path.exists(need):
        res["broken"].append({"theorem_files": ["Properties/C17"], "output": "Properties/C17.vo was not built; the regenerated obligation cannot be checked"})
        return res
    t1 = time.time()
    ok1, out1 = coqc(["Gen_Enums.v"], COQGEN)
    ok2, out2 = coqc(["C17_tables.v"], COQGEN) if ok1 else (False, out1)
    res["notes"].append("coqc of the regenerated files: %.1fs" % (time.time() - t1))
    bad_gen = parse_bad(out2, "c17_bad_generated")
    bad_adv = parse_bad(out2, "c17_bad_adversarial")
    closed = out2.count("Closed under the global context")
    mc = re.search(r"c17_colon_generated\s*=\s*(\d+)", out2)
    n_colon = int(mc.group(1)) if mc else -1
    n_colon_py = len([1 for _, t in generated if any(":" in e["name"] for e in t["entries"])])
    if n_colon != n_colon_py:
        res["broken"].append({"translator": "tables with a ':' in a name: %d counted by Coq, %d by the translator" % (n_colon, n_colon_py)})
    for which, bad, rows in (("generated", bad_gen, generated), ("adversarial", bad_adv, adversarial)):
        for idx, failed in (bad or []):
            cfg, t = rows[idx]
            for sig in classify(t, failed):
                res["findings"].append({"signature": sig,
                                        "what": "generated table is not well formed (%s fails; checked by tbl_checkb in Coq): %s" % (", ".join(failed), json.dumps(t["entries"])),
                                        "input": {"config": cfg, "type": t["type"], "flags": next(c["flags"] for c in cfgs if c["name"] == cfg),
                                                  "yang": [os.path.basename(y) for y in next(c["yang"] for c in cfgs if c["name"] == cfg)]}})
    if not ok2 or closed < 2 or bad_gen is None or bad_adv is None:
        res["broken"].append({"theorem_files": ["build/coqgen/C17_tables.v"],
                              "output": ("ill-formed generated tables: %s\n" % [(generated[i][0], generated[i][1]["type"], f) for i, f in (bad_gen or [])]) + out2[-1500:]})
    if any("Axioms:" in l for l in out2.splitlines()):
        res["broken"].append({"axioms": ["build/coqgen/C17_tables.v prints axioms"], "output": out2[-800:]})
    distinct = len({json.dumps(t["entries"]) for _, t in generated + adversarial})
    res.update({
        "evaluations": len(generated) + len(adversarial),
        "distinct_nontrivial": distinct,
        "programs": len([m for m in manifest if m["ok"]]),
        "rule": "tables of %d generator configurations (%d standard, %d of the enum-naming flag matrix over 3 corpora, %d adversarial); distinct by table content" % (len(manifest), len([m for m in manifest if m["group"] == "standard"]), len([m for m in manifest if m["group"] == "matrix"]), len([m for m in manifest if m["group"] == "adversarial"])),
        "samples": [{"config": cfg, "type": t["type"], "table": t["entries"]} for cfg, t in (generated[:2] + adversarial[:1])],
        "coverage": {"c17_generated_tables": len(generated), "c17_adversarial_tables": len(adversarial), "c17_distinct_table_contents": distinct,
                     "c17_configurations": len(manifest), "c17_ill_formed_adversarial": len(bad_adv or []), "c17_ill_formed_generated": len(bad_gen or []), "c17_colon_name_tables": n_colon,
                     "c17_tables_checker_cmd": "coqc -Q coq/theories Ygot -Q build/coqgen YgotGen build/coqgen/C17_tables.v",
                     "c17_pre_s": round(time.time() - t0, 2)},
    })
    return res


if __name__ == "__main__":
    import sys
    r = pre(sys.argv[1] if len(sys.argv) > 1 else "quick", 1)
    print(json.dumps(r, indent=1)[:6000])
