"""Engine behind ./check. Python stdlib only."""
import argparse, concurrent.futures, fcntl, glob, hashlib, json, os, re, shutil, subprocess, sys, time

VERIF = os.path.dirname(os.path.dirname(os.path.abspath(__file__)))
REPO = os.environ.get("VERIF_REPO", "/repo")
COQ = os.path.join(VERIF, "coq")
# runs against another tree (VERIF_REPO: seeded changes held in a scratch worktree) have a build
# directory of their own (binaries, generated packages, caches, evidence, replays), so that they can
# run beside checks of /repo without either using the other's generator or driver
_ALT = "VERIF_REPO" in os.environ and os.path.realpath(REPO) != "/repo"
MAINBUILD = os.path.join(VERIF, "build")
BUILD = os.path.join(MAINBUILD, "alt", hashlib.sha256(os.path.realpath(REPO).encode()).hexdigest()[:10]) if _ALT else MAINBUILD
EVDIR = os.path.join(BUILD, "evidence") if _ALT else os.path.join(VERIF, "evidence")
RPDIR = os.path.join(BUILD, "replays") if _ALT else os.path.join(VERIF, "replays")
GOENV = dict(os.environ, GOFLAGS="-mod=mod", GOPROXY="off", GOSUMDB="off", GOTOOLCHAIN="local",
             CGO_ENABLED="0")
FORBIDDEN = re.compile(r"\b(Admitted|admit|Axiom|Axioms|Parameter|Parameters|Conjecture|Conjectures|"
                       r"Admit Obligations|Unset Guard Checking|bypass_check|Unset Positivity Checking|"
                       r"Unset Universe Checking|native_compute)\b")
NATIVE_REPLAY = {"pathstr"}
KERNEL = "Coq 8.16.1 kernel incl. vm_compute (no native_compute); full .vo build with coqc/make, no -vos"


def log(*a):
    print("[check]", *a, file=sys.stderr, flush=True)


class Lock:
    def __init__(self, name):
        os.makedirs(BUILD, exist_ok=True)
        # the Coq theories are shared by every run: one lock for them
        self.path = os.path.join(MAINBUILD if name == "coq" else BUILD, name + ".lock")

    def __enter__(self):
        self.f = open(self.path, "w")
        fcntl.flock(self.f, fcntl.LOCK_EX)

    def __exit__(self, *a):
        fcntl.flock(self.f, fcntl.LOCK_UN)
        self.f.close()


def sha_files(paths):
    h = hashlib.sha256()
    for p in sorted(paths):
        try:
            with open(p, "rb") as f:
                h.update(p.encode())
                h.update(hashlib.sha256(f.read()).digest())
        except OSError:
            h.update(b"missing:" + p.encode())
    return h.hexdigest()


def repo_go_files():
    out = []
    for root, dirs, files in os.walk(REPO):
        dirs[:] = [d for d in dirs if d not in (".git",)]
        for f in files:
            if f.endswith(".go") and not f.endswith("_test.go") or f in ("go.mod", "go.sum") or f.endswith(".yang") or f.endswith(".proto"):
                out.append(os.path.join(root, f))
    return out


def tree_key():
    files = repo_go_files()
    files += glob.glob(os.path.join(VERIF, "harness", "**", "*"), recursive=True)
    files += glob.glob(os.path.join(COQ, "theories", "**", "*.v"), recursive=True)
    files += glob.glob(os.path.join(VERIF, "yang", "*.yang"))
    files += glob.glob(os.path.join(VERIF, "lib", "*.py"))
    return sha_files([f for f in files if os.path.isfile(f)])[:24]


# ---------------------------------------------------------------- Coq side

def coq_sources():
    return sorted(glob.glob(os.path.join(COQ, "theories", "**", "*.v"), recursive=True))


def forbidden_scan():
    bad = []
    for f in coq_sources():
        txt = open(f).read()
        txt = re.sub(r"\(\*.*?\*\)", "", txt, flags=re.S)
        for m in FORBIDDEN.finditer(txt):
            bad.append("%s: %s" % (os.path.relpath(f, COQ), m.group(1)))
    # _CoqProject / Makefile flags
    cp = open(os.path.join(COQ, "_CoqProject")).read()
    for flag in ("-type-in-type", "-impredicative-set", "-vos", "-vok"):
        if flag in cp:
            bad.append("_CoqProject: " + flag)
    return bad


def coq_build():
    """Full incremental build. Returns (ok, failed_files, log_tail)."""
    with Lock("coq"):
        if not os.path.exists(os.path.join(COQ, "Makefile")) or \
           os.path.getmtime(os.path.join(COQ, "Makefile")) < os.path.getmtime(os.path.join(COQ, "_CoqProject")):
            subprocess.run(["coq_makefile", "-f", "_CoqProject", "-o", "Makefile"], cwd=COQ,
                           stdout=subprocess.DEVNULL, stderr=subprocess.DEVNULL, check=True)
        p = subprocess.run(["timeout", "3000", "make", "-k", "-j16"], cwd=COQ, stdout=subprocess.PIPE,
                           stderr=subprocess.STDOUT, text=True)
        failed = re.findall(r"\*\*\* \[[^\]]*?: (\S+?)\.vo\]", p.stdout)
        return p.returncode == 0, sorted(set(failed)), p.stdout[-3000:]


def coq_property_file(pid, extra_q=()):
    """Re-check Properties/<pid>.v alone, capturing Print Assumptions. Returns dict."""
    src = os.path.join(COQ, "theories", "Properties", pid + ".v")
    res = {"file": os.path.relpath(src, VERIF), "theorems": [], "assumptions": [], "ok": False, "output": ""}
    if not os.path.exists(src):
        res["output"] = "missing"
        return res
    txt = open(src).read()
    res["theorems"] = re.findall(r"^\s*(?:Theorem|Example|Lemma|Corollary)\s+(\w+)", txt, flags=re.M)
    tmp = os.path.join(BUILD, "props")
    os.makedirs(tmp, exist_ok=True)
    cmd = ["timeout", "1200", "coqc", "-Q", os.path.join(COQ, "theories"), "Ygot"]
    for q in extra_q:
        cmd += ["-Q", q[0], q[1]]
    cmd += ["-o", os.path.join(tmp, pid + ".vo"), src]
    p = subprocess.run(cmd, cwd=tmp, stdout=subprocess.PIPE, stderr=subprocess.STDOUT, text=True)
    res["ok"] = p.returncode == 0
    res["output"] = p.stdout[-4000:]
    res["checker_cmd"] = "make -C coq (coq_makefile, full .vo) && " + " ".join(cmd[2:])
    # split Print Assumptions output
    ass = []
    for blk in re.split(r"(?=Closed under the global context|Axioms:)", p.stdout):
        if blk.startswith("Closed under"):
            ass.append("Closed under the global context")
        elif blk.startswith("Axioms:"):
            ass.append(" ".join(blk.split()))
    res["assumptions"] = ass
    return res


def run_case_file(path, extra_q=()):
    cmd = ["timeout", "1800", "coqc", "-Q", os.path.join(COQ, "theories"), "Ygot"]
    for q in extra_q:
        cmd += ["-Q", q[0], q[1]]
    cmd.append(os.path.basename(path))
    p = subprocess.run(cmd, cwd=os.path.dirname(path), stdout=subprocess.PIPE, stderr=subprocess.STDOUT, text=True)
    out = " ".join(p.stdout.split())
    m = re.search(r"M = \[(.*?)\]\s*:", out)
    if p.returncode != 0 or not m:
        return {"file": path, "error": p.stdout[-1500:], "mismatches": None}
    body = m.group(1).strip()
    ids = [int(x.replace("%nat", "")) for x in body.split(";")] if body else []
    return {"file": path, "error": None, "mismatches": ids}


# ---------------------------------------------------------------- Go side

def write_overlay(extra=None):
    rep = {}
    for root, _, files in os.walk(os.path.join(VERIF, "harness")):
        for f in files:
            if f.endswith(".go"):
                rel = os.path.relpath(os.path.join(root, f), os.path.join(VERIF, "harness"))
                rep[os.path.join(REPO, "internal", "verifharness", rel)] = os.path.join(root, f)
    # accessor files: harness/accessors/<pkg path with __>/file.go  ->  /repo/<pkg path>/zz_verif_file.go
    if extra:
        rep.update(extra)
    os.makedirs(BUILD, exist_ok=True)
    path = os.path.join(BUILD, "overlay.json")
    json.dump({"Replace": rep}, open(path, "w"), indent=1)
    return path


def go_build(pkg, out, overlay=None, timeout=1500):
    overlay = overlay or write_overlay()
    cmd = ["go", "build", "-tags", "verif", "-overlay", overlay, "-o", out, pkg]
    p = subprocess.run(cmd, cwd=REPO, env=GOENV, stdout=subprocess.PIPE, stderr=subprocess.STDOUT, text=True,
                       timeout=timeout)
    return p.returncode == 0, p.stdout[-4000:]


def build_ydrive():
    with Lock("go"):
        os.makedirs(os.path.join(BUILD, "bin"), exist_ok=True)
        from vgen import prepare_overlay
        overlay, info = prepare_overlay()
        ok, out = go_build("./internal/verifharness/ydrive", os.path.join(BUILD, "bin", "ydrive"), overlay)
        return ok, out, info


# ---------------------------------------------------------------- streams

def run_stream(stream, n, tier, seed, workdir, replay=None, extra_q=(), extra_args=()):
    """Runs the Go driver then the model on every case file. Returns dict."""
    if os.path.isdir(workdir):
        shutil.rmtree(workdir)
    os.makedirs(workdir)
    cmd = [os.path.join(BUILD, "bin", "ydrive"), "-stream", stream, "-seed", str(seed), "-n", str(n),
           "-tier", tier, "-out", workdir] + list(extra_args)
    if replay:
        cmd += ["-replay", replay]
    t0 = time.time()
    p = subprocess.run(["timeout", "3000"] + cmd, cwd=VERIF, stdout=subprocess.PIPE, stderr=subprocess.STDOUT, text=True,
                       env=dict(GOENV, VERIF_DIR=VERIF, VERIF_REPO=REPO))
    res = {"stream": stream, "driver_ok": p.returncode == 0, "driver_output": p.stdout[-3000:], "driver_s": round(time.time() - t0, 2)}
    sfile = os.path.join(workdir, "summary_%s.json" % stream)
    if p.returncode != 0 or not os.path.exists(sfile):
        res["summary"] = None
        res["mismatches"] = []
        res["model_errors"] = ["driver failed: " + p.stdout[-1500:]]
        return res
    res["summary"] = json.load(open(sfile))
    files = sorted(glob.glob(os.path.join(workdir, "cases_*.v")))
    t1 = time.time()
    mism, errs = [], []
    # shared per-package definitions (schema, enum tables) are compiled first, once
    pre = sorted(glob.glob(os.path.join(workdir, "sch_*.v")))
    if pre:
        def comp(f):
            cmd = ["timeout", "1800", "coqc", "-Q", os.path.join(COQ, "theories"), "Ygot"]
            for q in extra_q:
                cmd += ["-Q", q[0], q[1]]
            p2 = subprocess.run(cmd + [os.path.basename(f)], cwd=workdir, stdout=subprocess.PIPE, stderr=subprocess.STDOUT, text=True)
            return (f, p2.returncode, p2.stdout[-800:])
        with concurrent.futures.ThreadPoolExecutor(max_workers=14) as ex:
            for f, rc, out in ex.map(comp, pre):
                if rc != 0:
                    errs.append("%s: %s" % (os.path.basename(f), out))
    with concurrent.futures.ThreadPoolExecutor(max_workers=14) as ex:
        for r in ex.map(lambda f: run_case_file(f, extra_q), files):
            if r["error"]:
                errs.append("%s: %s" % (os.path.basename(r["file"]), r["error"]))
            else:
                mism += [(os.path.basename(r["file"]), i) for i in r["mismatches"]]
    res["model_s"] = round(time.time() - t1, 2)
    res["case_files"] = len(files)
    res["mismatches"] = mism
    res["model_errors"] = errs
    return res


def cached_stream(key, stream, n, tier, seed, extra_q=(), extra_args=()):
    cdir = os.path.join(BUILD, "cache", key)
    os.makedirs(cdir, exist_ok=True)
    cfile = os.path.join(cdir, "%s-%s-%s-%d.json" % (stream, tier, seed, n))
    if os.path.exists(cfile):
        r = json.load(open(cfile))
        r["cached"] = True
        return r
    work = os.path.join(BUILD, "work", stream)
    with Lock("stream-" + stream):
        if os.path.exists(cfile):
            r = json.load(open(cfile))
            r["cached"] = True
            return r
        r = run_stream(stream, n, tier, seed, work, extra_q=extra_q, extra_args=extra_args)
        r["cached"] = False
        os.makedirs(cdir, exist_ok=True)
        json.dump(r, open(cfile, "w"))
    # keep the cache small: drop the entries of other trees once they are old (another check may
    # be using them right now)
    for d in glob.glob(os.path.join(BUILD, "cache", "*")):
        try:
            if os.path.basename(d) != key and time.time() - os.path.getmtime(d) > 3 * 3600:
                shutil.rmtree(d, ignore_errors=True)
        except OSError:
            pass
    return r


# ---------------------------------------------------------------- known findings

def load_known():
    p = os.path.join(VERIF, "known_findings.json")
    if not os.path.exists(p):
        return {"findings": [], "fixed": []}
    return json.load(open(p))


def match_known(known, pid, signature):
    for k in known["findings"]:
        if k["property"] != pid:
            continue
        s = k["signature"]
        if signature == s or signature.startswith(s + "/"):
            return k
    return None


# ---------------------------------------------------------------- main

def main(argv):
    from props import PROPS
    ap = argparse.ArgumentParser()
    ap.add_argument("pid")
    ap.add_argument("--tier", default=os.environ.get("VERIF_TIER") or "quick", choices=["quick", "thorough"])
    ap.add_argument("--replay")
    args = ap.parse_args(argv)
    pid = args.pid
    if pid not in PROPS:
        print("unknown or unclaimed property", pid)
        return 2
    spec = PROPS[pid]
    seed = int(os.environ.get("VERIF_SEED") or 1)
    tier = args.tier
    replay_sig = None
    if args.replay:
        try:
            rp = json.load(open(args.replay))
        except Exception as e:
            print("cannot read replay file:", e)
            return 2
        # streams with native single-case replay take the file; for the others the replay is the
        # (seed, tier) that produced the failing input: the stream is re-run deterministically and
        # only findings with the recorded signature count
        if rp.get("stream") not in NATIVE_REPLAY:
            seed = int(rp.get("seed", seed))
            tier = rp.get("tier", tier)
            replay_sig = rp.get("signature")
    t0 = time.time()
    os.makedirs(EVDIR, exist_ok=True)
    os.makedirs(RPDIR, exist_ok=True)
    known = load_known()

    broken = []          # names of theorem files / correspondence streams that no longer check
    notes = []

    # 1. Coq side
    bad = forbidden_scan()
    if bad:
        broken.append({"forbidden": bad})
    # regenerated tables (translators) must exist before the build
    gen_info = {}
    if spec.get("pre"):
        # translators need the Go side first
        ok, out, info = build_ydrive()
        if not ok:
            log(out)
            broken.append({"build": "go build of the driver failed", "output": out[-1500:]})
        else:
            gen_info = spec["pre"](tier, seed) or {}
            if gen_info.get("broken"):
                broken += gen_info["broken"]
    ok, failed, tail = coq_build()
    deps = spec.get("coq_files", [])
    if not ok:
        mine = [f for f in failed if any(f.endswith(d) for d in deps + ["Properties/" + pid])]
        if mine or not failed:
            broken.append({"theorem_files": mine or ["(make failed)"], "output": tail[-1500:]})
        else:
            notes.append("other Coq files fail to build: %s" % failed)
    pf = coq_property_file(pid, extra_q=spec.get("extra_q", ()))
    if not pf["ok"]:
        broken.append({"theorem_files": ["Properties/%s.v" % pid], "output": pf["output"][-1500:]})
    allowed_ax = spec.get("allowed_axioms", [])
    for a in pf["assumptions"]:
        if a != "Closed under the global context":
            names = re.findall(r"(\S+)\s*:", a[len("Axioms:"):])
            extra = [x for x in names if x not in allowed_ax]
            if extra:
                broken.append({"axioms": extra})

    # thorough tier: re-check the compiled property file and everything it depends on with the
    # independent checker coqchk, which also prints the axioms of every loaded library
    coqchk = None
    if tier == "thorough" and pf["ok"] and not args.replay:
        t1 = time.time()
        try:
            with Lock("coq"):
                p = subprocess.run(["timeout", "3000", "coqchk", "-silent", "-o", "-Q", os.path.join(COQ, "theories"), "Ygot",
                                    "Ygot.Properties." + pid], cwd=COQ, stdout=subprocess.PIPE, stderr=subprocess.STDOUT, text=True)
            coqchk = {"exit": p.returncode, "wall_s": round(time.time() - t1, 1), "output_tail": p.stdout[-1500:]}
            if p.returncode != 0:
                broken.append({"theorem_files": ["coqchk Ygot.Properties.%s" % pid], "output": p.stdout[-1500:]})
        except Exception as e:  # coqchk missing or killed
            coqchk = {"exit": None, "error": str(e)}

    # 2. Go side
    streams_out = []
    if spec.get("streams"):
        ok, out, info = build_ydrive()
        if not ok:
            log(out)
            broken.append({"build": "go build of the driver (against /repo's working tree) failed", "output": out[-2000:]})
        else:
            key = tree_key()
            for st in spec["streams"]:
                n = st["n"][tier]
                if args.replay and replay_sig is None and st["name"] in NATIVE_REPLAY:
                    r = run_stream(st["name"], 1, tier, seed, os.path.join(BUILD, "work", "replay-" + st["name"]),
                                   replay=os.path.abspath(args.replay), extra_q=spec.get("extra_q", ()))
                else:
                    r = cached_stream(key, st["name"], n, tier, seed, extra_q=spec.get("extra_q", ()))
                streams_out.append(r)
                log("stream %s: cached=%s driver=%ss model=%ss cases=%s mismatches=%d" % (
                    st["name"], r.get("cached"), r.get("driver_s"), r.get("model_s"),
                    (r.get("summary") or {}).get("cases"), len(r["mismatches"])))

    # 3. collect
    findings, known_hits = [], {}
    evaluations = nontrivial = oracle_runs = 0
    samples, distribution, rules = [], {}, []
    for r in streams_out:
        if r["model_errors"]:
            broken.append({"correspondence": r["stream"], "model_errors": r["model_errors"][:3]})
        if r["mismatches"]:
            broken.append({"correspondence": r["stream"], "mismatching_cases": r["mismatches"][:20]})
        s = r.get("summary")
        if not s:
            continue
        evaluations += s["cases"]
        nontrivial += s["distinct_nontrivial"]
        oracle_runs += s.get("oracle_runs", 0)
        samples += (s.get("samples") or [])[:4]
        distribution[r["stream"]] = s.get("distribution", {})
        rules.append("%s: %s" % (r["stream"], s["rule"]))
        want = spec.get("signatures")  # which oracle signatures belong to this property (None = all)
        # a finding whose signature no property that reads this stream lists would be reported by
        # nobody: it is counted against the property being checked
        owners = [q.get("signatures") for q in PROPS.values() if any(st["name"] == r["stream"] for st in (q.get("streams") or []))]
        def owned(sig):
            return any(w is None or any(sig == x or sig.startswith(x + "/") or sig.startswith(x) for x in w) for w in owners)
        for f in (s.get("findings") or []):
            sig = f["signature"]
            if want is not None and not any(sig == w or sig.startswith(w + "/") or sig.startswith(w) for w in want):
                if owned(sig):
                    continue
                notes.append("finding signature %s of stream %s is listed by no property: counted here" % (sig, r["stream"]))
            if replay_sig is not None and sig != replay_sig:
                continue
            k = match_known(known, pid, sig)
            if k:
                known_hits.setdefault(k["signature"], []).append(f)
            else:
                findings.append((r["stream"], f))
    if gen_info.get("findings"):
        for f in gen_info["findings"]:
            k = match_known(known, pid, f["signature"])
            if k:
                known_hits.setdefault(k["signature"], []).append(f)
            else:
                findings.append(("translator", f))

    # 4. verdict
    violation_lines = []
    if findings:
        # one replay per distinct signature
        seen = set()
        for stream, f in findings:
            if f["signature"] in seen:
                continue
            seen.add(f["signature"])
            rp = os.path.join(RPDIR, "%s-%d-%d.json" % (pid, seed, len(seen)))
            json.dump({"property": pid, "stream": stream, "seed": seed, "tier": tier, "signature": f["signature"],
                       "what": f["what"], "case": f["input"], "observed": f.get("observed"),
                       "expected": f.get("expected"), "broken": broken or None}, open(rp, "w"), indent=1, ensure_ascii=False)
            violation_lines.append("VIOLATION property=%s replay=%s" % (pid, rp))
    elif broken:
        rp = os.path.join(RPDIR, "%s-%d-broken.json" % (pid, seed))
        json.dump({"property": pid, "seed": seed, "tier": tier, "case": None, "broken": broken,
                   "note": "a proof obligation or the model/implementation correspondence no longer checks; "
                           "the failing-input search over the same generators found no input on which the property itself fails"},
                  open(rp, "w"), indent=1, ensure_ascii=False)
        violation_lines.append("VIOLATION property=%s replay=%s no-failing-input-found" % (pid, rp))

    for sig, fs in sorted(known_hits.items()):
        k = match_known(known, pid, sig)
        print("KNOWN-FINDING: property=%s %s [signature=%s, reproduced on %d inputs, e.g. %s]" % (
            pid, k["what"], sig, len(fs), json.dumps(fs[0]["input"], ensure_ascii=False)[:200]))

    # 5. evidence
    level = spec["level"]
    n_thm = len(pf["theorems"]) + int(gen_info.get("obligations", 0))
    discharged = n_thm if (pf["ok"] and not any("theorem_files" in b or "axioms" in b or "forbidden" in b for b in broken)) else 0
    cov = {
        "obligations": n_thm, "discharged": discharged,
        "checker_cmd": pf.get("checker_cmd", "make -C coq"),
        "trusted_base": [KERNEL,
                         "Print Assumptions under every theorem of %s: %s" % (pf["file"], sorted(set(pf["assumptions"])) or ["(none printed)"]),
                         "model hand-written; tie = correspondence check: cases evaluated by coqc vm_compute (no extraction on this path)",
                         "Go toolchain, go build -overlay, harness generators/canonicalisers in /verif/harness"] + spec.get("trusted", []),
        "theorems": pf["theorems"],
        "print_assumptions": pf["assumptions"],
        "evaluations": max(evaluations, 1) if streams_out else int(gen_info.get("evaluations", 1)),
        "distinct_nontrivial": nontrivial if streams_out else int(gen_info.get("distinct_nontrivial", 0)),
        "rule": " | ".join(rules) or gen_info.get("rule", ""),
        "samples": samples or gen_info.get("samples", []) or ["(no cases)"],
        "distribution": distribution,
        "oracle_runs": oracle_runs,
        "correspondence_mismatches": sum(len(r["mismatches"]) for r in streams_out),
        "traces_validated_against_impl": evaluations,
        "programs": int(gen_info.get("programs", evaluations or 1)),
        "disagreements_checked": int(gen_info.get("disagreements_checked", sum(len(r["mismatches"]) for r in streams_out))),
        "known_findings_reproduced": {k: len(v) for k, v in known_hits.items()},
        "broken": broken,
        "partial": spec.get("partial", ""),
        "explanation": spec.get("explanation", ""),
        "notes": notes + gen_info.get("notes", []),
        "coqchk": coqchk,
    }
    if gen_info.get("coverage"):
        cov.update(gen_info["coverage"])
    ev = {"property_id": pid, "tier": tier, "seed": seed, "level": level, "coverage": cov,
          "assumptions": spec.get("assumptions", []), "wall_s": round(time.time() - t0, 2),
          "violations": len(violation_lines)}
    json.dump(ev, open(os.path.join(EVDIR, pid + ".json"), "w"), indent=1, ensure_ascii=False)

    for l in violation_lines:
        print(l)
    if violation_lines:
        for b in broken:
            log("broken:", json.dumps(b)[:600])
        return 1
    print("OK property=%s tier=%s theorems=%d cases=%d mismatches=0 oracle_runs=%d wall=%.1fs" % (
        pid, tier, n_thm, evaluations, oracle_runs, time.time() - t0))
    return 0
