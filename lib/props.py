"""Per-property configuration of ./check (streams, theorem files, trusted base, partiality)."""

def N(q, t):
    return {"quick": q, "thorough": t}

UTF8 = "strings are modelled as code-point lists: exact for valid UTF-8; invalid UTF-8 is outside the model"

PROPS = {
    "C01": dict(
        level="proof",
        technique="Coq proof (unmarshal o render = id on schema-conforming trees, by induction over trees of any size/depth; render total) + differential correspondence check of renderer and decoder",
        claim="c01_roundtrip: for every enum environment, float oracle, RFC7951JSONConfig, schema and tree satisfying the boolean well-formedness predicates, "
              "unmarshalling the rendered JSON into an empty root gives back exactly the tree (all leaves, leaf-lists, list entries with keys, ordered-list "
              "order, presence containers); c01_render_total: a conforming tree always renders; c01_rerender: re-rendering is identical. No guard on the schema "
              "shape: compressed code (multi-element paths, several path alternatives, shadow paths), module prefixes and rewrites, all union representations "
              "(unions are transparent in the model) are covered. Every run checks that the trees generated from the real packages satisfy the hypotheses "
              "(wf_schemab/wf_envb/wf_cfgb/wf_treeb) and re-evaluates the conclusion with the model, besides comparing render/unmarshal outputs with ygot.",
        note="Trusted: Coq kernel; hand transcription of structJSON/jsonValue/mapJSON/unmarshalStruct/unmarshalList/... tied by the 'jsonrt' stream on seven generated "
             "packages (uncompressed simple/wrapper unions, compressed, prefer-state, shadow paths, uncompressed OC, second revision); the schema translator "
             "(harness/ydrive/tree.go schemaTerm) and tree printer; float text via the oracle tables (per-value check float_okb); the order ygot gives Go-map list "
             "entries in JSON arrays is abstracted (compared as a set); byte-identical re-rendering is checked by the implementation-side oracle.",
        coq_files=["Tree/Tree", "Tree/Codec", "Tree/CodecProofs", "Tree/Render", "Tree/TreeOps", "Tree/Unmarshal", "Tree/RoundTrip", "Tree/RoundTripObjProofs",
                   "Tree/RoundTripProofs", "Corr/TreeCorr", "Corr/WfCorr"],
        streams=[dict(name="jsonrt", n=N(900, 9000))],
        signatures=["roundtrip", "render"],
        trusted=["schema translator and tree printer (tree.go)", "float oracle tables produced with strconv by the harness"],
        partial="range/length/pattern restrictions are not part of wf_treeb (not needed for losslessness); a leaf-list whose first element is the string U+0000 is excluded (model's set marker); "
                "Internal-format JSON is not modelled.",
    ),
    "C08": dict(
        level="proof",
        technique="Coq proof (round-trip/injectivity by scanner invariants) + differential correspondence check",
        claim="StringToStructuredPath(PathToString p) = p, injectivity and the legacy slice law are Coq theorems about a transcription of "
              "elemToString/PathToString/SplitPath/PathStringToElements/extractKV/addKey for all paths of any length (guard: no backslash in "
              "key values, the full statement being refuted in Coq and reported as a known finding); totality (no panic) for every rune list. "
              "The transcription is compared with the real functions on generated paths, malformed paths and arbitrary strings on every run.",
        note="Trusted: Coq kernel; the hand transcription, tied only by the correspondence stream 'pathstr' (printer and parser directions, "
             "Ok/Err/Panic and full outputs compared); valid UTF-8 only; Go maps as sorted association lists.",
        coq_files=["Path/PathString", "Path/PathStringProofs", "Corr/PathStringCorr"],
        streams=[dict(name="pathstr", n=N(1600, 12000))],
        signatures=["roundtrip", "backslash-in-key-value"],
        trusted=[UTF8, "a Go map[string]string of keys is modelled by its sorted association list"],
        assumptions=[UTF8],
        partial="c08_roundtrip_partial/c08_injective_partial/c08_slice_roundtrip_partial are proved under the guard "
                "'no backslash in a key value'; c08_refuted_backslash proves the unguarded statement false of the model "
                "(known finding, pinned by TestStringToPath). c08_parse_total is unguarded.",
    ),
    "C09": dict(
        level="proof",
        technique="Coq proof (algorithm = set relation of denotations) + differential correspondence check",
        claim="ComparePaths returns the true set relation between the sets of concrete data paths two gNMI paths denote (c09_compare, for all "
              "well-formed paths of any length and any keys), swapping arguments swaps Subset/Superset (c09_swap), the per-element result does "
              "not depend on map iteration order (c09_order_independent), PathMatchesQuery/PathMatchesPathElemPrefix/TrimGNMIPathElemPrefix/"
              "JoinPaths/FindPathElemPrefix satisfy their denotational laws (c09_query, c09_trim_join, c09_common_prefix). The transcription of "
              "util/gnmi.go is compared with the real functions on every run, and a brute-force enumeration of the denotation over the bounded "
              "alphabet is the implementation-side oracle.",
        note="Trusted: Coq kernel; hand transcription of util/gnmi.go tied by the 'pathrel' stream (all eight functions, each ComparePaths call "
             "repeated 8 times to sample map orders); key values non-empty and key names distinct (wf_gpb); FindPathElemPrefix on an empty "
             "list of paths does not terminate in Go and is excluded; nil PathElems are not generated.",
        coq_files=["Path/PathRel", "Path/PathRelProofs", "Corr/PathRelCorr"],
        streams=[dict(name="pathrel", n=N(2400, 20000))],
        signatures=["compare", "trim-join", "common-prefix", "elem-equal", "join"],
        trusted=["a PathElem key map is an association list in arbitrary order (order independence is a theorem)"],
        partial="PathMatchesPrefix (string prefix) and PathElemsEqual are covered by the correspondence stream only.",
    ),
    "C18": dict(
        level="proof",
        technique="Coq proof (exact acceptance sets of the scalar decoder, re-render stability) + differential correspondence check",
        claim="For the transcription of sanitizeJSON/unmarshalUnion/yangFloatIntToGoType/checkJSONFloat64Range/castToEnumValue: an 8/16/32-bit "
              "integer leaf accepts a JSON number iff it denotes an in-range integer and stores exactly it (c18_int_exact), wrong JSON kinds are "
              "errors, whatever is accepted lies in the leaf's value space (c18_accepted_in_space), re-rendering an accepted scalar decodes to "
              "the same scalar (c18_rerender_stable), unknown enum names are errors, base64 yields bytes only. The model decoder is compared with "
              "ytypes.Unmarshal on every candidate scalar x every leaf of the corpus, and an independent RFC 7951 reading is the oracle.",
        note="Trusted: Coq kernel; hand transcription tied by the 'jsondec' stream; strconv float parsing/formatting enters as the float oracle "
             "(hypotheses fparse(ffmt b)=b and dec64_lexb(ffmt b), tested on every float of the run); decimal64 inputs with more than 15 "
             "significant digits are not judged (ygot holds decimal64 in a float64). TypedValue payloads (SetNode) are covered by the gNMI layer.",
        coq_files=["Tree/Codec", "Tree/CodecProofs", "Scalar/Dec", "Scalar/DecProofs", "Scalar/Base64", "Scalar/Base64Proofs", "Corr/TreeCorr"],
        streams=[dict(name="jsondec", n=N(1800, 12000))],
        signatures=["decode"],
        trusted=["float oracle tables produced with strconv by the harness"],
        partial="union member restrictions are not consulted by ygot when decoding (kind only): modelled as such; SetNode/TypedValue decoding is "
                "not in this file's theorems.",
    ),
    "C19": dict(
        level="proof",
        technique="Coq proof (lexical form per scalar kind, prefix rule) + differential correspondence check of the renderer",
        claim="enc_scalar (writeIETFScalarJSON/jsonValue scalar arms/enumFieldToString/binaryBase64) produces for every value the RFC 7951 form "
              "(c19_lexical: numbers for <=32-bit ints, decimal-digit strings for 64-bit, base64, [null], booleans, names), identityrefs carry "
              "'module:' exactly under AppendModuleName/PrependModuleNameIdentityref (c19_identityref_prefix), a member name is qualified exactly "
              "when its module differs from its parent's and always at top level (c19_member_prefix, c19_top_level_prefixed), undefined enum "
              "values make rendering fail (c19_undefined_enum_errors). The whole renderer model (structJSON incl. compressed multi-path fields, "
              "shadow paths, RewriteModuleNames) is compared with ConstructIETFJSON on random trees of six generated packages.",
        note="Trusted: Coq kernel; hand transcription tied by the 'jsonrt' stream; decimal64 text is the float oracle's (no-exponent is the "
             "hypothesis dec64_lexb(ffmt b), checked on every emitted float against strconv.FormatFloat(f,'f',-1,64)); order of Go-map list "
             "entries in JSON arrays is abstracted (compared as a set).",
        coq_files=["Tree/Codec", "Tree/CodecProofs", "Tree/Render", "Corr/TreeCorr"],
        streams=[dict(name="jsonrt", n=N(900, 9000))],
        signatures=["lexical", "render"],
        partial="the prefix rule is proved for the per-element function prepend_one; its use along multi-element paths is covered by correspondence.",
    ),
    "C20": dict(
        level="proof",
        technique="Coq proof of totality (no Panic outcome) of the decoder and path-parser models + differential correspondence on malformed input",
        claim="unmarshal (the transcription of ytypes.Unmarshal: containers, lists, leaf-lists, leaves, unions, options) never yields Panic for ANY "
              "JSON value, schema, existing tree and options (c20_unmarshal_total), and StringToPath's model never panics on any rune list. Every "
              "Go site with an unchecked assertion found while transcribing was either fixed in /repo or has a Panic arm in the model; the "
              "malformed-input stream compares Ok/Err/Panic outcomes with the real code and reports every real panic.",
        note="Trusted: Coq kernel; the model can only exclude panics in the code it transcribes: reflection glue below the model (util/reflect.go, "
             "struct-tag parsing) is covered by the streams only. The panic findings of the gNMI-layer streams (nodeops: SetNode/GetNode/DeleteNode with arbitrary paths and "
             "TypedValues; setreq: UnmarshalSetRequest/UnmarshalNotifications) are counted here too (their models' no-panic theorems are c10_get_total, c10_no_panic, c12_delete_total under "
             "C10/C12); the gnmidiff entry points are covered by C22/C23.",
        coq_files=["Tree/Unmarshal", "Tree/UnmarshalProofs", "Path/PathString", "Path/PathStringProofs", "Corr/TreeCorr"],
        streams=[dict(name="jsondec", n=N(1800, 12000)), dict(name="pathstr", n=N(1600, 12000)), dict(name="nodeops", n=N(900, 8000)), dict(name="setreq", n=N(700, 6000))],
        signatures=["panic", "setnode/panic", "getnode/panic", "deletenode/panic", "setrequest/panic", "setrequest/best-effort-join-error-panics", "key/setnode-panic", "gnmi/unmarshal-panic"],
        partial="coverage-guided fuzzing (go test -fuzz) is not wired in; generation is structural mutation of rendered documents.",
    ),
    "C26": dict(
        level="translation_validation",
        technique="translation validation with a validator verified in Coq: generated packages dumped into Coq terms, fits_b (proved = fits) decides them by vm_compute on every run; go build/go vet as supporting run",
        claim="c26_fits_b_spec: fits_b = true <-> fits (every schema data node reachable under the compression rule -- FindAllChildren/findRootEntries/findMapPaths transcribed as `expected` -- "
              "appears as exactly one field; every field's path/module/shadow tags resolve to such a node whose kind fits the field's Go type kind, recursively); per run "
              "c26_all_generated_structs_fit by vm_compute over corpus x flag matrix x random YANG, lifted by c26_lift; the schema is the embedded schema plus module names (c26_schema_is_embedded_schema).",
        note="Trusted: Coq kernel; translators harness/ydrive/c26_godump.go (reflection: tags, Go type kinds) and c27_schemadump.go (goyang tree printer), lib/gencorpus.py; compile/vet is testing "
             "(no Gallina model of Go's type checker).",
        coq_files=["Gen/SchemaEq", "Gen/SchemaEqProofs", "Gen/SchemaMatch", "Gen/SchemaMatchProofs"],
        streams=[],
        pre=lambda tier, seed: __import__("c26_pre").pre(tier, seed),
        trusted=["translators c26_godump.go/c27_schemadump.go", "goyang as reader of the input modules", "Go toolchain for the supporting run"],
        partial="leafref target types are not resolved (any leaf kind fits); a union fits an interface or any member's kind; 'all schemas' is per-run validation of the corpus; generator rejections "
                "with explicit messages (enum/identity name clash, non-OpenConfig shapes under compression) are counted as skipped.",
    ),
    "C27": dict(
        level="translation_validation",
        technique="translation validation with a validator verified in Coq (schema_eq_b, proved = equality with the transformed goyang tree), evaluated by vm_compute on every generated package on every run",
        claim="c27_schema_eq_b_spec: schema_eq_b o mods e = true <-> embed o mods = e; embed = fake root over non-excluded modules' entries, module names/descriptions erased, schemapath annotation, "
              "leafref config->state rewrite under prefer_operational_state (c27_embed_* theorems say nothing else changes); per run c27_all_embedded_schemas_faithful by vm_compute on every generated package.",
        note="Trusted: Coq kernel; printer c27_schemadump.go (same function for both trees); goyang itself.",
        coq_files=["Gen/SchemaEq", "Gen/SchemaEqProofs"],
        streams=[],
        pre=lambda tier, seed: __import__("c27_pre").pre(tier, seed),
        trusted=["c27_schemadump.go", "goyang (yang.NewModules/Read/Process/ToEntry)"],
        partial="identity bases are compared by name + derived names (module of an identity is not serialised); Exts/Augments/Uses/when/must are not compared; rpc/notification are not generated.",
    ),
    "C29": dict(
        level="translation_validation",
        technique="Coq proof about a transcription of ResolvePath/relPath/KeyValueAsString (induction over chains of any length) + per-run correspondence on every enumerated accessor chain + tag-path check "
                  "+ transcription of ygot.ModifyKey / generated XxxAny()+With<Key>() (induction over sequences of key writes) + per-run trace check of programs of With calls and resolutions on live path structs",
        claim="c29_resolve (any chain length): resolve = concatenation of relative paths; c29_resolve_names; keys rendered by key_to_string under their names (c29_rel_keys, c29_keys_rendered), "
              "wildcards '*' (c29_wildcard); errors propagate, bad root fails (c29_bad_root). Every run enumerates the generated path API by reflection and compares model = implementation "
              "and element names = GoStruct tag path. Builder-style list API: c29_builder_keys (closed form after any sequence of With calls: last write per key wins, '*' until set), "
              "c29_builder_resolve (end to end), c29_builder_frame / _frame_above / _names (only the written node's keys change), c29_builder_rekey, c29_builder_bad_value, c29_builder_nil_map; every "
              "run executes With/resolve programs and compares the model state with the NodePaths read back and the model's resolve with ygot.ResolvePath at every resolution.",
        note="Trusted: Coq kernel; c29_paths.go and c29_builder.go (reflection enumeration, accessor harness_accessors/ygot/c29_acc.go); %g float text as oracle table.",
        coq_files=["Gen/PathStructs", "Gen/PathStructsProofs", "Gen/PathBuilder", "Gen/PathBuilderProofs"],
        streams=[],
        pre=lambda tier, seed: __import__("c29_pre").pre(tier, seed),
        trusted=["c29_paths.go + c29_acc.go", "c29_builder.go (reflection enumeration, With-method/key mapping via path tags)", "float %g oracle"],
        partial="path structs exist for compressed code only; split_pathstructs_by_module is not enumerated; builder programs cover one chain at a time (two sibling children of one builder node are "
                "not resolved in the same program); generate_wildcard_paths=false is not in the corpus; accessors whose enum type has no defined value are skipped (counted).",
    ),
    "C28": dict(
        level="proof",
        technique="Coq proof about a transcription of fieldTag/FNV-1 and a verified well-formedness checker + correspondence check on regenerated protobufs + adversarial collision search",
        claim="fieldTag is a function of the hashed bytes only (c28_tag_deterministic, c28_tag_retry_spec); every number it returns is 0 or lies in "
              "1001..2^29-1 outside 19000..19999 (c28_tag_range_partial); the full range statement and injectivity on siblings are refuted in Coq with "
              "concrete schema paths (c28_tag_range_refuted, c28_tags_distinct_refuted) and reproduced on the real generator (known findings); "
              "msg_wf_b/enum_wf_b/file_wf_b decide the declarative well-formedness statement (c28_msg_wf_b_spec ...). Every run regenerates protobufs "
              "for the corpus, random and adversarial schemas under the option sets, re-computes every hashed string's tag with the model and evaluates "
              "the verified checker on every parsed message.",
        note="Trusted: Coq kernel; hand transcription of fieldTag and hash/fnv tied by the 'protowf' stream (TagCase/HashCase incl. generator-supplied "
             "strings via the accessor harness_accessors/protogen/c28_acc.go); 'valid proto3' = hand-written parser for the template subset + protoc's "
             "scoping, numbering, type-resolution and import rules re-implemented in Go (protoc is not installed); the statement quantified over all "
             "schemas is tested by the stream, not proved (the generator itself is not modelled).",
        coq_files=["Gen/FieldTag", "Gen/FieldTagProofs", "Gen/ProtoWF", "Gen/ProtoWFProofs", "Corr/ProtoCorr"],
        streams=[dict(name="protowf", n=N(3000, 20000))],
        signatures=["tag-zero", "tag-collision", "tag-unstable", "tag-text-mismatch", "tag-unexplained", "enum-", "symbol-collision", "proto-parse",
                    "import-missing", "type-unresolved", "field-number-range", "identity-value-lost", "nondeterministic-output", "generator-panic", "package-name"],
        trusted=["strings are hashed as their UTF-8 bytes (byte lists in the model)", "list-key field numbers (1..k+1) are checked by the oracle only"],
        partial="c28_tag_range_partial (0 not excluded; full statement refuted by /m/c/leaf-259424739); distinctness of sibling numbers refuted "
                "(c28_tags_distinct_refuted); well-formedness of generated files for all schemas is an oracle result with ten known-finding classes.",
    ),
    "C06": dict(
        level="proof",
        technique="Coq proof (Number order, range/length membership, fixYangRegexp case analysis, matcher = declarative regex semantics, anchored search = whole match, parser commutes with wrapping) + differential correspondence check + independent matcher oracle",
        claim="The five Validate*Restrictions accept exactly the values inside the union of range parts (integers; decimal64 given the Number the value stands for) / "
              "length parts (strings by characters, binary by bytes): c06_int_range, c06_uint_range, c06_decimal_range, c06_string_length, c06_binary_length, on top of "
              "number_less_spec (yang.Number.Less = order of the denoted rationals for <=18 fraction digits). Patterns: fix_shape (+ one lemma per case of fixYangRegexp), "
              "parse_wrap, anchored_search and c06_pattern_partial: for a plain pattern the verdict is membership of the whole value in the regular language of the pattern.",
        note="Trusted: Coq kernel; hand transcription of goyang Number, ytypes validators, util.fixYangRegexp and of Go's regexp parser/matcher for the supported subset, tied by "
             "streams 'restrict' and 'regex' (sanitized text, compile status, MatchString of raw and sanitized patterns, verdicts); \\d \\w \\s . have Go's ASCII meaning; the "
             "float64 -> decimal Number conversion is the harness's reference (shortest decimal text), not modelled in Coq.",
        coq_files=["Scalar/Number", "Scalar/NumberSpec", "Scalar/NumberProofs", "Scalar/Regex", "Scalar/RegexProofs", "Scalar/FixRegexp",
                   "Scalar/FixRegexpProofs", "Scalar/RegexParseProofs", "Scalar/Restrict", "Scalar/RestrictProofs", "Corr/RestrictCorr"],
        streams=[dict(name="restrict", n=N(1200, 6000)), dict(name="regex", n=N(2000, 12000))],
        signatures=["regex", "range", "length", "number", "decimal", "oracle"],
        trusted=[UTF8, "regex subset: literals, ., punctuation escapes, \\d\\w\\s and negations, classes, * + ? {n,m}, |, groups, ^ $; anything else is PUnsup and counts as a mismatch"],
        assumptions=[UTF8],
        partial="c06_pattern_partial is guarded by plainb (non-empty, no leading ^, no trailing $); the c06_refuted_* theorems are stated for the pre-fix configuration cfg_now and "
                "document the repaired defects; posix patterns and several patterns: correspondence only; empty pattern and posix multi-line anchors are known findings.",
    ),
    "C15": dict(
        level="proof",
        technique="Coq proof (representation invariant + simulation by induction over arbitrary call sequences) + differential correspondence check + reference-map oracle",
        claim="A transcription of goOrderedMapTemplate/goOrderedMapParentMethodsTemplate (Append, AppendNew, Delete, Get, Keys, Values, Len, nil receivers, parent helpers) keeps "
              "NoDup keys /\\ keys = dom valueMap (c15_inv), refines an insertion-ordered list of bindings with unique keys with equal outputs for every call (c15_refines, "
              "c15_abs_unique), rejects nil entries / nil key fields / duplicates without change (c15_reject_no_change, c15_append_rejects, c15_appendnew_rejects), appends accepted "
              "entries at the end (c15_append_accepts), for any key type and any call sequence. Compared with the generated code of every ordered list of every generated package on "
              "every run; plain-Go insertion-ordered map in lockstep, mutation of Keys()/Values() results, order through DeepCopy / RFC7951 JSON / gNMI.",
        note="Trusted: Coq kernel; hand transcription of the Go text templates tied behaviourally through the generated code (stream 'ordmap'); entries are values (pointer aliasing "
             "outside the model); nil valueMap identified with empty.",
        coq_files=["Gen/GoMap", "Gen/GoMapProofs", "Gen/OrderedMap", "Gen/OrderedMapProofs", "Corr/OrdMapCorr"],
        streams=[dict(name="ordmap", n=N(300, 1200))],
        signatures=["refmodel", "state", "alias", "roundtrip", "panic", "append-accepts-unset-key"],
        trusted=["keys abstracted to indices of a per-case key domain, entry pointers to ids (harness)"],
        partial="Order preservation through JSON/gNMI/DeepCopy and non-aliasing of Keys()/Values() are checked on the implementation only. 'nil keys rejected' is proved for "
                "pointer-typed keys (c15_nil_keys_rejected_partial) and refuted for enum/union keys (c15_nil_keys_refuted_enum_union).",
    ),
    "C34": dict(
        level="proof",
        technique="Coq proof (invariant + refinement of a finite map by induction over arbitrary call sequences) + differential correspondence check + reference-map oracle",
        claim="A transcription of the New/GetOrCreate/Get/Append/Delete/Rename/GetOrCreateMap templates of gogen/unordered_list.go stores every entry under its own key (c34_inv), "
              "refines K -> option V with equal outputs (c34_refines), New/Append reject duplicates (Append nil key fields) leaving the state unchanged "
              "(c34_new_append_reject_dup_no_change), GetOrCreate is idempotent and never panics, Get is pure, Rename moves the entry and rewrites its key leaves, for any key type and "
              "any call sequence. Compared with the generated helpers of every keyed list (all key types, single/multi key, nested) of every generated package on every run.",
        note="Trusted: Coq kernel; hand transcription tied by stream 'keyedmap'; entries are values (aliasing outside the model).",
        coq_files=["Gen/GoMap", "Gen/GoMapProofs", "Gen/KeyedMap", "Gen/KeyedMapProofs", "Corr/KeyedMapCorr"],
        streams=[dict(name="keyedmap", n=N(800, 2500))],
        signatures=["refmodel", "state", "panic", "entry-key-mismatch", "append-accepts-unset-key", "wrapper-union-key-identity"],
        trusted=["keys abstracted to indices of a per-case key domain, entry pointers to ids (harness)"],
        partial="'Append rejects nil keys' holds for pointer-typed key fields (c34_append_rejects_nil_partial) and is refuted for enum/identityref/union keys (known finding); uniqueness "
                "of YANG key values is refuted for wrapper unions (known finding).",
    ),
    "C16": dict(
        level="proof",
        technique="Coq proof (string_to_key o key_to_string = id for every key kind inside an executable guard, injectivity, key tuples, leaf paths resolve through GetNode) + differential correspondence check",
        claim="c16_key_codec / c16_key_codec_simple: the string ygot prints for a list key of any supported type parses back to the same value (all integer widths, string, bool, decimal64 under the "
              "float-oracle hypothesis fmt_g_okb, enumeration, identityref, union in its canonical alternative, leafref through its target); c16_key_to_string_total; c16_key_injective; c16_key_tuple "
              "(multi-key: make_entry of the printed keys gives the same map key and key leaves); c16_leaf_paths_resolve: every leaf path that findUpdatedLeaves produces resolves through GetNode to "
              "exactly that leaf; c16_created_entries_consistent_partial: an entry created from path keys has key leaves = map key = decoded keys.",
        note="Trusted: Coq kernel; hand transcriptions of KeyValueAsString / StringToType / makeKeyForInsert / retrieveNodeList tied by the 'nodeops' and 'gnmirt' streams; %g text of float64 keys and "
             "strconv parsing as oracle tables.",
        coq_files=["Tree/KeyCodec", "Tree/Leaves", "Tree/Node", "Tree/KeyCodecProofs", "Tree/NodeStepProofs", "Tree/GnmiRt", "Tree/GnmiRtProofs", "Tree/GnmiGetProofs", "Tree/GnmiExample", "Corr/GnmiCorr"],
        streams=[dict(name="nodeops", n=N(900, 8000)), dict(name="gnmirt", n=N(700, 6000))],
        signatures=["key/", "setnode/key-leaf-overwrite", "deletenode/key-leaf-deleted", "union/wrapper-binary-unsettable", "getnode/"],
        trusted=["schema translator and tree printer (tree.go)", "float and key oracle tables produced by the harness"],
        partial="created-entry consistency is per entry (the whole-tree invariant is false: c16_refuted_key_leaf_overwrite, c16_refuted_key_leaf_deleted); union keys only for the canonical alternative "
                "(c16_refuted_union_string); decimal64 under fmt_g_okb; a NaN decimal64 key string parses and SetNode panics (c16_refuted_nan_key).",
    ),
    "C17": dict(
        level="proof",
        technique="Coq proof (value -> name -> value on well-formed tables, UNSET/undefined handling, a verified table checker) + regenerated-table obligation (every generated table, every run) + differential correspondence check",
        claim="For the transcription of enumFieldToString/EnumName/EnumLogString and their callers and of castToEnumValue: on a table accepted by tbl_okb_full (values distinct, names "
              "distinct, 0 not defined, names non-empty without ':') every defined non-zero value renders to its name or module:name and each form parses back to the same value "
              "(c17_bijection, c17_render_parse, c17_bijection_json), names are unique (c17_names_unique), a field holding UNSET is never rendered (c17_unset_not_rendered_partial), "
              "undefined values make every renderer fail (c17_undefined_errors); tbl_okb_full decides the declarative statement (c17_tbl_ok_spec). Every run regenerates every ΛEnum "
              "table of the generated packages and of the enum-naming flag matrix and re-proves c17_all_generated_tables_ok by vm_compute, lifted by c17_lift. "
              "Names containing ':' (enum \"ipv4:unicast\"): on a table accepted by tblc_okb (keys = names after StripModulePrefix distinct and non-empty) render-then-parse is the identity "
              "(c17_colon_bijection, _render_parse, _bijection_json), the accepted strings are exactly those with strip(name e) = strip s (c17_colon_parse_iff), tbl_okb_full implies tblc_okb "
              "(c17_colon_generalises); the regenerated obligation is tbl_checkb on every table, lifted by c17_colon_lift.",
        note="Trusted: Coq kernel; hand transcription tied by the 'enum' and 'enumcolon' streams; the table translator lib/c17_pre.py (regexp over the ΛEnum literal; cross-checked against the compiled "
             "maps every run); goyang as the independent reader of enum/identity statements. Translation validation: the generator itself is not modelled beyond its numbering.",
        coq_files=["Tree/Codec", "Tree/CodecProofs", "Scalar/EnumTable", "Scalar/EnumTableProofs", "Scalar/EnumColon", "Scalar/EnumColonProofs", "Corr/EnumCorr"],
        streams=[dict(name="enum", n=N(5000, 12000)), dict(name="enumcolon", n=N(1500, 4000))],
        signatures=["enum/"],
        pre=lambda tier, seed: __import__("c17_pre").pre(tier, seed),
        trusted=["lib/c17_pre.py parses the generated Go source", "castToEnumValue ranges over a Go map: first match in ascending value order in the model (same on tables with distinct names)"],
        partial="c17_unset_not_rendered_partial covers struct fields and union members in JSON; the full statement is refuted (c17_unset_refuted: EnumName/KeyValueAsString/EncodeTypedValue/"
                "leaf-list elements render UNSET as \"\", wrapper unions panic: known findings). 'All schemas' is per-run validation of the corpus x flag matrix. "
                "For names with ':' 'an undefined name is rejected' is refuted (c17_colon_undefined_rejected_refuted: \"zz:unicast\" and \"unicast\" parse; the _partial form holds without colon "
                "names), a module prefix in front of a colon name is rejected (c17_colon_prefix_refuted), names with the same part after the ':' are confused (c17_colon_same_suffix_refuted).",
    ),
    "C02": dict(
        level="proof",
        technique="Coq proof (unmarshal_notifs o to_notifs = id by induction over arbitrary trees inside an executable guard; notifications = leaves, unguarded) + differential correspondence check of renderer, SetNode/DeleteNode and UnmarshalNotifications",
        claim="c02_render_total: TogNMINotifications succeeds on every tree of the guard gn_treeb (keyed Go-map lists of every key kind, containers, leaves, non-empty leaf-lists) under any prefix that "
              "repeats no key name; c02_notifs_are_leaves (no guard, ordered lists included): the notifications are exactly the leaves of the tree, one update per leaf, plus one atomic notification per "
              "ordered-list group; c02_roundtrip_partial: applying them (prefix stripped, or pfx = []: c02_roundtrip_noprefix_partial) with UnmarshalNotifications to an empty root gives back exactly the "
              "tree (tree equality, induction over arbitrary trees); c02_scalar_guard_simple: the per-leaf guard follows from typing for every non-union type. "
              "c02_render_total_ordered / c02_roundtrip_ordered: the same totality and exact round trip (order of ordered-list entries included, any prefix) for every tree of gn_treeb_ord, which adds "
              "`ordered-by user` lists in the OpenConfig shape `container xs { list x }` (compressed code: DeleteNode of the atomic prefix resolves to exactly that ordered-map field; uncompressed "
              "code: the list is the only field set in its container), any number of them, outside other ordered lists, keys of StringToType kinds; c02_guard_extends: gn_treeb implies gn_treeb_ord. "
              "The gnmirt stream evaluates the guard on every generated tree and, where it holds, the theorem's conclusion with the model (Corr/GnmiOrdCorr.v).",
        note="Trusted: Coq kernel; hand transcriptions of ygot/render.go (findUpdatedLeaves, TogNMINotifications) and ytypes/gnmi.go, node.go tied by the 'gnmirt' stream (every tree is rendered, "
             "unmarshalled into an empty root and compared, on all seven packages) and by 'nodeops'/'setreq'; float and key oracle tables from the harness.",
        coq_files=["Tree/KeyCodec", "Tree/Leaves", "Tree/Notif", "Tree/Node", "Tree/SetReq", "Tree/KeyCodecProofs", "Tree/NodeStepProofs", "Tree/GnmiRt", "Tree/GnmiRtProofs", "Tree/GnmiRtOrd",
                   "Tree/GnmiRtOrdProofs", "Tree/GnmiExample", "Corr/GnmiCorr", "Corr/GnmiOrdCorr"],
        streams=[dict(name="gnmirt", n=N(700, 6000))],
        signatures=["gnmi/", "key/float-text"],
        trusted=["schema translator and tree printer (tree.go)", "float and key oracle tables produced by the harness"],
        partial="Ordered lists are covered only in the OpenConfig shape (gn_treeb_ord / ord_field_okb); an ordered list with a sibling in its container is wiped by the atomic delete "
                "(c02_refuted_atomic_wipes, known finding); an ordered list directly in a list entry or the root (uncompressed), and decimal64/binary/multi-type-union ordered keys, are outside the "
                "guard; unkeyed lists are rejected by TogNMINotifications (c02_refuted_unkeyed, known finding); union leaves need the canonical alternative (tv_rtb).",
    ),
    "C03": dict(
        level="proof",
        technique="Coq proof (string-keyed diff algorithm = structural diff of leaf maps, pointwise characterisation of apply_diff, induction over version histories) + differential correspondence check + oracle with the real UnmarshalNotifications",
        claim="For the transcription of ygot/diff.go (findSetLeaves incl. the ForEachDataField2 walk, processedPaths, path annotations, DiffPathOpt; toStringPathMap; Diff/DiffWithAtomic; "
              "IgnoreAdditions; orderedMapLeaves for atomic groups; KeyValueAsString; EncodeTypedValue): applying the notifications to the leaf map of a gives the leaf map of b, ordered lists "
              "in b's order for DiffWithAtomic (c03_apply_partial, c03_apply_order_partial), every update/delete is justified and nothing is forgotten (c03_sound_updates_partial, "
              "c03_sound_deletes_partial, c03_complete_partial), Diff(a,a) is empty with no guard (c03_minimal), IgnoreAdditions omits exactly the updates of leaves new in b "
              "(c03_ignore_additions_partial), version histories replay to the last version (c03_history_partial, induction over the version list).",
        note="Trusted: Coq kernel; hand transcription tied by the 'diff' stream; apply_diff is a leaf-map semantics of UnmarshalNotifications (the real one is exercised by the oracle); Go map "
             "iteration order abstracted; float64 equality = bit equality. The dependence on PathToString injectivity is explicit (df_lm_wfb, via C08's print_injective).",
        coq_files=["Tree/Diff", "Tree/DiffProofs", "Corr/DiffCorr"],
        streams=[dict(name="diff", n=N(500, 2000))],
        signatures=["diff/"],
        trusted=["a Go map[string]*pathInfo is its sorted association list keyed by the PathToString text", "%g texts of floats from the harness table"],
        assumptions=[UTF8],
        partial="Guards (computable, evaluated per case): df_lm_wfb = wf_pathb on every leaf path (C08 injectivity, no backslash in key values), df_lm_nodupb, df_isolatedb (else c03_atomic_refuted: "
                "the atomic notification of a changed ordered list names its enclosing container, known finding). c03_minimal is unguarded.",
    ),
    "C04": dict(
        level="proof",
        technique="Coq proof on located trees (fresh-location supply, sharing relation, frame property by induction over the write list) + differential correspondence of the sharing relation with the real DeepCopy/MergeStructs",
        claim="For the transcription of copyStruct/copy*Field on located trees (every cell carries its address) every cell the result of DeepCopy/MergeStructs shares with an input is in lshared "
              "(c04_copy_sharing, c04_merge_sharing); for /repo as repaired (unkeyed-list entries and leaf-list members are copied) and no pointer-valued map keys the results are separate "
              "(c04_copy_separate_fixed, c04_merge_separate_fixed), so no sequence of in-place writes to one side changes the other (c04_frame, induction over the write list, c04_frame_copy_fixed), "
              "and the copy erases to the original (c04_copy_equal_partial).",
        note="Trusted: Coq kernel; hand transcription tied by stream 'alias' (cells named by address via reflect+unsafe, model compared up to names of new cells; the oracle overwrites every cell in turn); "
             "a destination keeps its cell on append; zero-length slices own no cell.",
        coq_files=["Tree/Merge", "Heap/Located", "Heap/Copy", "Heap/CopyProofs", "Corr/MergeCorr"],
        streams=[dict(name="alias", n=N(400, 4000))],
        signatures=["alias/", "copy/"],
        trusted=["a Go value = located tree; a write = replacement of the node owning the cell"],
        partial="Wrapper-union map keys are pointers stored as they are: shared also after the repair (c04_refuted_wrapper_key, known finding, guard lno_ptr_keys); c04_copy_equal_partial needs no empty "
                "slice/map/binary (c04_refuted_empty_binary, known finding) and is an implication (totality of the copy is not proved; non-vacuity from the Examples and the stream). The refutations "
                "c04_refuted_unkeyed_entry / c04_refuted_binary_leaflist / c04_refuted_frame are about the code before the repairs (fu = fe = false).",
    ),
    "C05": dict(
        level="proof",
        technique="Coq proof (exact success condition, leaf-set union) by induction over arbitrary schemas and trees + differential correspondence check + independent compatibility oracle on the implementation",
        claim="MergeStructs(a,b,opts) succeeds exactly when mg_compat opts S a b (c05_succeeds_iff, both options, on the inputs); the documented compatibility is sufficient (c05_succeeds_if_compatible); "
              "on success the leaves of the result are the union (c05_union_partial), swapping gives the same leaf set (c05_comm_partial), with MergeOverwriteExistingFields no leaf conflict is reported "
              "and b's leaves are all in the result (c05_overwrite_no_leaf_conflict, c05_overwrite_partial).",
        note="Trusted: Coq kernel; transcription tied by stream 'merge' (pairs derived from one tree: overlap/disjoint/one injected violation/same/empty side, both options; Go kind of every leaf field "
             "checked against mg_repr_of; inputs checked for mg_conforms and mg_wf_schema); oracle = independent compatibility predicate and union on a reflect flattening, inputs unchanged, swap.",
        coq_files=["Tree/Merge", "Tree/Prune", "Tree/PruneProofs", "Tree/MergeProofs", "Corr/MergeCorr"],
        streams=[dict(name="merge", n=N(450, 5000))],
        signatures=["merge/"],
        trusted=["Go maps as key-unique association lists compared as sets; wrapper-union keys identified by value (pairs share key objects)"],
        partial="The documented 'exactly when' fails in one direction (c05_refuted_binary_leaf, c05_refuted_ordered_overlap: known findings); union/comm/overwrite need mg_plain (no YANGEmpty/Binary "
                "leaf: c05_refuted_empty_leaf, c05_refuted_overwrite_binary) and mg_srcok, and are proved for the copySliceField variant that shares unkeyed entries (the leaf sets are the same); "
                "'inputs unchanged' is oracle-only (trivial in a functional model).",
    ),
    "C13": dict(
        level="proof",
        technique="Coq proof (phase structure by induction over the operation lists; refinement of a declarative leaf-map spec from two per-operation lemmas) + differential correspondence check",
        claim="UnmarshalSetRequest is one loop over deletes ++ replaces ++ updates in message order with every path joined to the prefix (c13_setrequest_one_loop: equality for any request, tree, "
              "options and outcome); success is exactly the left fold of DeleteNode / (DeleteNode;SetNode) / SetNode (c13_setrequest_is_fold, _opts, _fold_left); without BestEffortUnmarshal the first "
              "failing operation ends the request and its partial effect stays (c13_first_error_stops, c13_error_is_first_failure, c13_no_rollback); with it every operation is attempted "
              "(c13_best_effort_tree, c13_best_effort_attempts_all); UnmarshalNotifications is the sequence of per-notification requests and an atomic notification deletes the subtree at its prefix "
              "first (c13_notifs_are_requests(_fold), c13_atomic_replaces_prefix). Reference semantics on the leaf map (spec_delete/spec_update/spec_replace/spec_set, Tree/SetReqSpec.v): "
              "c13_refines_unconditional, c13_history_unconditional, c13_atomic_leaves_unconditional: 'leaves after = spec(leaves before)' for scalar payloads on leaf/leaf-list paths, for "
              "every guarded request, request history and atomic notification (the two per-operation statements leaves_after_delete_stmt / leaves_after_set_leaf_stmt are proved). The same reference semantics is the implementation-side oracle of the setreq stream.",
        note="Trusted: Coq kernel; hand transcription of ytypes/gnmi.go and node.go tied by the setreq, setreqkeys and nodeops streams; Go maps as sorted association lists. The premises are proved "
             "(c13_delete_premise_holds / c13_set_premise_holds, by induction on the fuel of set_rec / del_rec in lock-step with the schema walk); Corr/SetReqSpecCorr.v remains as a differential test.",
        coq_files=["Tree/SetReq", "Tree/SetReqSpec", "Tree/SetReqProofs", "Tree/LeavesBridgeProofs", "Tree/LeavesPartsProofs", "Tree/LeavesSetProofs", "Tree/LeavesDelProofs", "Tree/SetReqBridgeProofs",
                   "Tree/GnmiStatements", "Corr/GnmiCorr", "Corr/SetReqSpecCorr"],
        streams=[dict(name="setreq", n=N(700, 6000)), dict(name="setreqkeys", n=N(300, 900))],
        signatures=["setrequest/", "gnmi/empty-type", "gnmi/empty-leaflist", "union/wrapper-binary-unsettable"],
        trusted=["schema translator and tree printer (tree.go)", "float and key oracle tables produced by the harness"],
        partial="c13_refines_unconditional / c13_history_unconditional / c13_history_notifs_unconditional / c13_atomic_leaves_unconditional hold without premises inside executable guards. Invariant "
                "c13_inv2b = c13_schemab (gn_schemab: field path alternatives pairwise incomparable, no empty name, key lookups agree; swfb; every non-leaf field has one path) && root_okb (fields in "
                "struct order, kinds match, key leaves = map key, keys read back from their strings, Go-map entries in canonical order); the invariant is preserved by every guarded request. Requests: no "
                "key-leaf targets, scalar payloads of the leaf's type, paths with complete canonical name-sorted keys, no ordered or unkeyed list on the path. JSON payloads are covered by the structural "
                "theorems only. With tree_ok in place of root_ok the per-operation statements are false on the model (c13_set_premise_refuted: decimal64 payload outside the float oracle tables; "
                "c13_delete_premise_refuted: Go-map entries out of canonical order); both are artefacts of the model's representation. The conditional forms c13_refines_scalar / c13_history / "
                "c13_atomic_leaves stay for arbitrary sem / Inv / guards. c13_noncanonical_key_keeps_entry (fix 8c0e3a71), c13_refuted_ordered_list_merge (C31 limitation), c13_refuted_empty_leaflist, "
                "c13_refuted_best_effort_panic (NaN decimal64 key).",
    ),
    "C14": dict(
        level="proof",
        technique="Coq proof (totality, leaf preservation, idempotence, build/prune) by induction over arbitrary schemas and trees + differential correspondence check",
        claim="PruneEmptyBranches returns normally on every tree (c14_total_fixed; the code before the repair panicked exactly when mg_prune_safe is false: c14_panics_iff) and never errs (c14_never_err); "
              "leaves, leaf-list members and list entries are preserved (c14_preserves_leaves_partial), no container without data is left (c14_no_empty_partial), a second call changes nothing "
              "(c14_idempotent), PruneEmptyBranches after BuildEmptyTree equals PruneEmptyBranches alone (c14_build_prune).",
        note="Trusted: Coq kernel; transcription of pruneBranchesInternal/initialiseTree tied by stream 'prune' (emptyConts trees, empties sprinkled, ordered lists kept/partly/fully removed, three cases per tree, panics recovered).",
        coq_files=["Tree/Merge", "Tree/Prune", "Tree/PruneProofs", "Corr/MergeCorr"],
        streams=[dict(name="prune", n=N(450, 5000))],
        signatures=["prune/"],
        trusted=["read-only reflect.Value rules (Interface/Set panic below unexported fields) as encoded in mg_ro_panics (only the pre-repair variant uses them)"],
        partial="c14_refuted_empty_binary (an empty non-nil binary leaf counts as unset: guard mg_nobin, known finding), c14_refuted_unkeyed_entry (containers below unkeyed entries are not pruned, known finding).",
    ),
    "C22": dict(
        level="proof",
        technique="Coq proof (successful runs of the intent builder are determined by their set of leaf writes and delete markers; "
                  "sorted-map extensionality) + differential correspondence check + property oracle on the implementation (with and without schema)",
        claim="For the transcription of gnmidiff's schema-less path (flattenOCJSON, protoLeafToJSON, writeUpdate, populateUpdateNoSchema, "
              "prefixStr/fullPathStr, minimalSetRequestIntent incl. both trie conflict checks, DiffSetRequest): DiffSetRequest(a,a) has nothing "
              "missing/extra/mismatched (c22_refl); swapping the arguments swaps missing/extra and A/B and keeps the common entries, for arbitrary "
              "intents (c22_swap, c22_swap_requests); whenever both requests are accepted, reordering updates (c22_reorder_updates), moving common "
              "elements between prefix and paths (c22_prefix_split, full equality), turning a leaf replace into an update (c22_leaf_replace_vs_update), "
              "duplicating an update (c22_dup_identical) and replacing one JSON-IETF update by its leaf updates (c22_json_vs_leaves_partial) leave "
              "the intent unchanged. The statements that fail on the code as it is are refuted in Coq with the inputs the oracle also finds "
              "(c22_dup_identical_refuted: leaf-list written twice panics; c22_json_vs_leaves_refuted: list key values are not escaped) and are "
              "proved for the model of the repaired code (c22_dup_identical_fixed, c22_json_vs_leaves_fixed). The with-schema path "
              "(SetNode ; Marshal7951 ; flattenOCJSON) is not modelled: the oracle evaluates the same statements on it.",
        note="Trusted: Coq kernel; hand transcription tied by the 'gdiff' stream (requests from random trees of the generated packages and synthetic "
             "requests with arbitrary JSON; Ok/Err/Panic and the complete diff compared); Go maps as strictly sorted association lists; "
             "strconv float formatting enters as tables (theorems hold for every table); where a JSON update contains both an entry that errors and "
             "one that panics Go's map order decides which is seen: the checker accepts exactly the model's two schedules (c22_schedule_independent: "
             "successful results do not depend on it); JSON objects whose member names collide after namespace stripping, NUL runes and invalid UTF-8 "
             "are outside the model; derekparker/trie is modelled as a set of strings with prefix search.",
        coq_files=["Diffs/GnmiDiff", "Diffs/GnmiDiffProofs", "Corr/GnmiDiffCorr"],
        streams=[dict(name="gdiff", n=N(600, 4000))],
        signatures=["refl", "swap", "json-vs-leaves", "json-split", "prefix-split", "reorder", "leaf-replace-vs-update", "dup", "panic"],
        trusted=["gd_oracle tables (FormatFloat 'f', %g) written by the harness with strconv/fmt",
                 "the structured reading gd_sleaves of an RFC 7951 tree (specification side of c22_json_vs_leaves_*)"],
        partial="c22_prefix_split needs element names that do not end in '/'; c22_leaf_replace_vs_update needs that no later replace has the same "
                "path; c22_dup_identical_partial (the duplicate is accepted) holds for updates that write no leaf-list value, refuted in general "
                "(Panic); c22_json_vs_leaves_partial needs gd_keys_ok (every list key spelt as PathToString spells it: nothing to escape, numbers "
                "< 10^6; JSON without lists qualifies) and that no written leaf is also deleted/replaced by the request; refuted without the "
                "guard. Documented limitations of the schema-less mode (every scalar member of a list element is a key; 64-bit integers and "
                "module-qualified identityrefs differ between JSON and TypedValues; [] is read as an empty leaf-list) are known findings with "
                "Coq witnesses. With-schema behaviour: oracle only.",
    ),
    "C23": dict(
        level="proof",
        technique="Coq proof (sorted-map extensionality over the comparison of DiffSetRequestToNotifications) + differential correspondence "
                  "check + single-edit oracle on the implementation (with and without schema)",
        claim="For the comparison DiffSetRequestToNotifications performs between a SetRequest intent and the leaves of the notifications "
              "(diff_intent_notifs, for arbitrary intents): equal leaves give no missing/extra/mismatched update (c23_exact, c23_exact_request); "
              "removing one leaf makes exactly that leaf missing (c23_single_edit_remove), changing one leaf makes exactly that leaf mismatched "
              "(c23_single_edit_change), adding one leaf makes exactly that leaf extra iff it lies strictly below a deleted or replaced path and "
              "changes nothing otherwise (c23_single_edit_add). The way requests and notifications are flattened to these maps is the C22 model, "
              "compared with the real DiffSetRequestToNotifications on every run; the oracle performs the single edits on the real code.",
        note="Trusted: as C22 (same model and checker); correspondence stream 'gdiffnotifs'. The with-schema path is covered by the oracle only.",
        coq_files=["Diffs/GnmiDiff", "Diffs/GnmiDiffProofs", "Corr/GnmiDiffCorr"],
        streams=[dict(name="gdiffnotifs", n=N(450, 3000))],
        signatures=["exact", "single-edit", "unescaped-key", "backslash-in-key", "non-key-scalar-as-key", "numeric-key-exponent",
                    "int64-as-string", "identityref-module-prefix", "empty-list-as-leaf", "panic"],
        trusted=["gd_oracle tables written by the harness with strconv/fmt"],
        partial="'below a deleted path' is strict: a leaf AT a deleted path is not reported (c23_at_deleted_path_witness, known finding); "
                "leaves outside every deleted sub-tree are ignored by design. The C22 findings about list-key spelling make the classification "
                "fail on the implementation for the affected leaves (known findings); with-schema behaviour: oracle only.",
    ),
    "C25": dict(
        level="translation_validation",
        technique="regenerated table of map-range sites (Go translator over go/types) + Coq theorems about the site classes and pipelines + multi-process byte comparison of generator output",
        claim="Every `for ... range` over a Go map (or over a slice filled in map order and returned unsorted) in the code the generators run is listed, with a conservative syntactic class of its "
              "loop body, in Gen_MapRanges.v, regenerated from /repo's working tree on every run; c25_sites (vm_compute on that table) shows every site is of an order-insensitive class or "
              "allow-listed under the hash of its current body. Properties/C25.v proves for all inputs that each accepted class is insensitive to the iteration order and that a pipeline whose "
              "stages are order-insensitive gives the same result in every run (c25_pipeline, c25_pipeline_table). The failing-input search runs generator and proto_generator k times in "
              "independent processes per schema x flag set and compares output bytes.",
        note="Trusted: Coq kernel; the classifier (harness/maprange) and the reviewed allow-list maprange_allow.json, i.e. the hypothesis of c25_pipeline_table that an accepted site denotes an "
             "order-insensitive stage; purity whitelist of external packages; 'no output is produced on error'.",
        coq_files=["Gen/Determinism", "Gen/DeterminismProofs"],
        pre=lambda tier, seed: __import__("c25_pre").pre(tier, seed),
        trusted=["syntactic classifier /verif/harness/maprange and the justifications in /verif/maprange_allow.json (keyed by package, function, body hash)",
                 "build/coqgen/Gen_MapRanges.v and C25_sites.v are compiled by the pre hook with coqc -Q build/coqgen YgotGen"],
        partial="The theorems are about the classified sites and an abstract pipeline of stages, not about the generator's code: nesting, aliasing and the meaning of called functions are covered by "
                "the classifier's conservativeness and the allow-list only. Process-level nondeterminism other than map iteration order, and goyang's own map ranges, are covered by the "
                "multi-process experiment only.",
    ),
    "C07": dict(
        level="proof",
        technique="Coq proof (tree induction: Validate = declarative validity minus named unchecked classes) + differential correspondence with single-fault mutation",
        claim="validate (transcription of ytypes.Validate at tree level: containers, choices, lists incl. checkKeys and min/max, leaf-lists, leaves, unions, per-type validators; "
              "parametrised by repair flags that are probed in the code under test on every run) accepts exactly the RFC 7950-valid trees (c07_exact, for all trees/schemas, under the "
              "guards schema_ok/tree_ok); each fault class the pre-fix code missed is refuted in Coq for the flag setting fx_head and reported by the oracle. Every run validates random "
              "valid trees and one single-fault mutation per fault class through the generated Validate; error classes are compared with the model; oracle: the verdict flips exactly on faults.",
        note="Trusted: Coq kernel; hand transcription tied by stream 'validate'; regex patterns, decimal64 ranges, mandatory/must/when are outside the schema term (patterns and ranges are "
             "C06); Go static typing is a guard (tree_ok). Repair flags fx are probed at run time with hand-built schemas, so the model follows the tree.",
        coq_files=["Tree/Validate", "Tree/ValidateProofs", "Corr/ValidCorr"],
        streams=[dict(name="validate", n=N(600, 2000))],
        signatures=["validate/"],
        trusted=["error texts are classified into the model's error classes by substring"],
        partial="c07_sound/c07_complete hold under schema_ok and tree_ok (c07_exact); remaining refuted classes with all repairs: union with enum and int64 members accepts an out-of-range int64 "
                "(c07_refuted_union_enum_int64), unset enum key leaf (c07_refuted_unset_enum_key), leafref member inside a union (c07_refuted_complete).",
    ),
    "C24": dict(
        level="proof",
        technique="Coq proof (round trip for every map iteration order, by nested induction over the message) + differential correspondence check + implementation-side oracle",
        claim="For the transcription of protomap/proto.go on abstract ygen messages of any depth: PathsFromProto emits exactly the relative specification (c24_paths_spec), every emitted path "
              "stripped of keys is a schemapath annotation (c24_paths_annotated), and ProtoFromPaths on ANY permutation of those paths rebuilds the message up to keyed-list entry order "
              "(c24_roundtrip_partial, for each combination of the three repairs under the matching guard; c24_roundtrip_fixed for the repaired code). The model variant is selected by probing "
              "the code; every case is compared with the real functions.",
        note="Trusted: Coq kernel; hand transcription tied by stream 'protomap'; the translator protobuf descriptor/message -> Coq terms and protobuf reflection itself; Go map iteration = "
             "arbitrary permutation (the theorem quantifies over it); TypedValue inputs, map fields, non-blank targets not modelled.",
        coq_files=["Diffs/ProtoMap", "Diffs/ProtoMapProofs", "Corr/ProtoMapCorr"],
        streams=[dict(name="protomap", n=N(400, 2400))],
        signatures=["roundtrip", "path-not-annotated", "path-keys"],
        trusted=["descriptor/message translator in c24_protomap.go", "protobuf-go reflection"],
        partial="strict equality is refuted for any repairs (c24_refuted_list_order: entries come back in map order) and the full statement even with all repairs (c24_refuted_union: an enum "
                "after a string member of a union comes back as the string): proved is equality up to keyed-list entry order under guard_msg.",
    ),
    "C30": dict(
        level="proof",
        technique="Coq proof (upward walk = XPath parent; key predicates substituted then selected; traversal = set of leafref leaves) + differential correspondence + independent XPath oracle",
        claim="validate_leafrefs reports an error exactly when some set leafref leaf's value is not among the values its path selects (c30_iff), the two-step algorithm's upward walk selects what "
              "the path denotes (c30_two_step_is_select), nothing is reported with IgnoreMissingData (c30_ignore_missing). With key predicates [k=current()/rel]: c30p_iff / c30p_leaf_iff (error iff "
              "the value is not among the values the path with predicates selects), c30p_step_one, c30p_step_two_is_select, c30p_plain_paths (the generalised model = Leafref.v on predicate-free "
              "tables), c30p_ignore_missing. Checked against Validate in three option modes; stream leafrefp compares classified errors (class, field); the oracle evaluates every leafref path "
              "XPath-style on a plain node tree.",
        note="Trusted: Coq kernel; uncompressed structs only (in compressed code key and target are one field); key predicates [k=current()/rel] and literals; ytypes.GetNode modelled by its result.",
        coq_files=["Tree/Leafref", "Tree/LeafrefProofs", "Tree/LeafrefPred", "Tree/LeafrefPredProofs", "Corr/ValidCorr", "Corr/LeafrefPredCorr"],
        streams=[dict(name="leafref", n=N(600, 1500)), dict(name="leafrefp", n=N(400, 3000))],
        signatures=["leafref/"],
        trusted=["leafref side table printed by vd_leafref.go", "predicate side table printed by vd_leafrefp.go (own RFC 7950 9.9.2 path parser; `prefixed` = operand text holds ':')"],
        partial="c30_iff guarded by: no leafref inside an unkeyed list, no binary leafref value (c30_refuted_binary, c30_refuted_unkeyed). Predicates (c30p_iff) additionally guarded by leaf_regular: "
                "at most one predicate per element (c30p_refuted_two_predicates), unprefixed single-valued operand (c30p_refuted_prefixed_operand, c30p_refuted_operand_node_set), operand value not '*' "
                "(c30p_refuted_star), no entry keyed by the substituted '' when the operand is unset (c30p_refuted_empty_key: ~c30p_full), predicate names a key, single-key entries print differently; "
                "ordered-by-user lists with predicates and the per-node memo not modelled.",
    ),
    "C31": dict(
        level="proof",
        technique="Coq proof (frame/overwrite/merge-by-key lemmas per struct level and a whole-tree frame theorem by induction; option lemmas) + differential correspondence check + leaf-map oracle",
        claim="On the transcription of ytypes.Unmarshal into a populated tree: IgnoreExtraFields only removes a test (c31_ignore_extra_mono); an unknown member is an error without it "
              "(c31_unknown_member_rejected) and with it the result equals the result on the document with every unknown member removed at any depth (c31_strip_unknown_lenient/_strict); at each "
              "struct level unmentioned fields are unchanged, mentioned leaves overwritten, leaf-lists replaced wholesale (c31_unmentioned_unchanged, c31_leaf_overwritten, c31_leaflist_replaced); "
              "unordered list entries are merged by key, unmentioned entries kept (c31_list_merge_by_key, c31_list_unmentioned_kept, c31_list_entry_merged); every leaf of the existing tree that "
              "the document does not touch is a leaf of the result (c31_leaves, any depth).",
        note="Trusted: Coq kernel; same model and tie as C01/C20 (stream 'jsondec', merge family: JSON of tree B plus unknown members into populated tree A, both option settings); the oracle "
             "compares leaf maps with a reference merge.",
        coq_files=["Tree/Unmarshal", "Tree/MergeJson", "Tree/MergeJsonProofs", "Corr/TreeCorr"],
        streams=[dict(name="jsondec", n=N(1800, 12000))],
        signatures=["merge"],
        partial="ordered-by-user lists: an element whose key already exists is an error (c31_ordered_existing_key_err), as ygot documents; known finding. Wrapper-union keyed lists never merge by "
                "key (pointer keys): excluded from the stream, reported under C34.",
    ),
    "C32": dict(
        level="proof",
        technique="Coq proof (tree induction on a leaf abstraction) + differential correspondence",
        claim="prune_config_false removes exactly the leaves with a config-false, non-annotated field on their path and leaves every other leaf unchanged (c32_spec: leaves after = filter kept "
              "(leaves before)), for all trees and side tables; compared with ygot.PruneConfigFalse on all compressed/uncompressed packages; oracle: leaf map filtered by config flags derived from "
              "the raw yang entries.",
        note="Trusted: Coq kernel; transcription tied by stream 'prunecf'; per-alternative config/annotation facts come from a side table printed from the embedded schema.",
        coq_files=["Tree/ConfigFalse", "Tree/ConfigFalseProofs", "Corr/ValidCorr"],
        streams=[dict(name="prunecf", n=N(600, 1400))],
        signatures=["prunecf/"],
        trusted=["side table printed by vd_prunecf.go via util.FirstChild/IsConfig/Annotation"],
        partial="",
    ),
    "C33": dict(
        level="proof",
        technique="Coq proof (schema induction) + differential correspondence",
        claim="populate_defaults (transcription of the generated PopulateDefaults incl. BuildEmptyTree and the generator's default literal conversion): every reachable struct keeps set leaves and "
              "gives unset leaves exactly their default (c33_fills, c33_fills_only, c33_leaflists_kept), accepted default literals are in the value space (c33_default_in_space), valid trees stay "
              "valid when nothing PopulateDefaults creates lies inside a choice (c33_valid_partial); unguarded validity preservation is refuted (known finding).",
        note="Trusted: Coq kernel; transcription tied by stream 'defaults' (tree after the call and Validate verdicts before/after); decimal integer literals only; typedef-inherited and leaf-list "
             "defaults not in the schema term.",
        coq_files=["Tree/Defaults", "Tree/DefaultsProofs", "Tree/Validate", "Corr/ValidCorr"],
        streams=[dict(name="defaults", n=N(560, 1400))],
        signatures=["defaults/"],
        trusted=["float parsing of decimal64 default literals via the float oracle"],
        partial="c33_valid only under defaults_ok (c33_valid_partial); refuted: c33_refuted_two_cases, c33_refuted_one_case, c33_refuted_container_in_case; presence containers are instantiated.",
    ),
    "C10": dict(
        level="proof",
        technique="Coq proof (structural address of a gNMI path; frame theorem for set_rec by induction on the fuel through the three list loops; GetNode reads the address) + differential correspondence check",
        claim="For every schema/tree satisfying swfb/root_okb and every leaf or leaf-list path with complete canonical keys (addr_of defined): a successful SetNode (any InitMissingElements setting; "
              "scalar TypedValue, JSON_IETF or leaflist_val) leaves exactly the decoded value at the structural address of the path, GetNode returns exactly one node with it "
              "(c10_get_after_set_partial/_json_partial/_leaflist_partial, c10_set_general_partial, c10_get_reads_address), every subtree not on the spine is unchanged or is a key leaf of an entry "
              "created on the way holding a key named in the path (c10_frame, c10_frame_leaf_at), the guard is preserved, hence sequences of sets (c10_history_partial, c10_history_last_partial: last "
              "write wins). Totality: c10_get_total (GetNode never panics, no hypothesis), c10_no_panic (SetNode with a non-JSON payload panics only on a NaN decimal64 key string; c10_panic_nan_witness).",
        note="Trusted: Coq kernel; hand transcription of ytypes/node.go (Tree/Node.v) tied by the 'nodeops' stream; Go maps as sorted association lists; float/key oracle tables. Leaf-level claims are "
             "about structural paths (sub_at / MergeJson.leaf_at), not Leaves.leaves.",
        coq_files=["Tree/Node", "Tree/KeyCodec", "Tree/Leaves", "Tree/GnmiStatements", "Tree/NodeExamples", "Tree/NodeFrameProofs", "Tree/NodeProofs", "Tree/NodeTotalProofs", "Tree/SetReqBridgeProofs", "Corr/GnmiCorr"],
        streams=[dict(name="nodeops", n=N(900, 8000))],
        signatures=["setnode/", "getnode/", "gnmi/empty-type", "union/wrapper-binary-unsettable", "panic"],
        trusted=["schema translator and tree printer (tree.go)", "float and key oracle tables produced by the harness"],
        partial="Guards: swfb (schema), root_okb (tree: struct order, kinds, key leaves = map key, keys read back from their strings, canonical entry order), addr_of (complete canonical keys, "
                "non-shadow tags, target not a key leaf), s_shadow = s_ignore_extra = false. The candidate GnmiStatements.c10_get_after_set is refuted (c10_refuted_noncanonical_key: key \"07\"; the "
                "reported Path has sorted keys); c10_refuted_failed_set_mutates (failed SetNode with InitMissingElements leaves entries behind). The leaf-level form on Leaves.leaves is "
                "c10_leaves_after_set (leaves after = spec_update of leaves before, guards c13_inv2 / update_guardb: no ordered or unkeyed list on the path). Not proved: the reported gn_path "
                "(existential), success conditions (c10_set_succeeds), JSON payloads on containers, PreferShadowPath.",
    ),
    "C12": dict(
        level="proof",
        technique="Coq proof (del_rec_spec: total on addressable paths, removal, frame, pruning, identity on absent nodes, by induction on the fuel through the three list loops) + differential correspondence check",
        claim="For every schema/tree satisfying swfb/root_okb and every container / list-entry / leaf / leaf-list path with complete canonical keys (present or absent, Go maps and ordered maps): "
              "DeleteNode succeeds, nothing is left at or below the address and GetNode finds no data (c12_delete_removes_subtree_partial, c12_get_after_delete_partial), every subtree off the spine is "
              "unchanged (c12_delete_frame_partial), no prunable node on the spine is left empty - containers incl. presence containers, Go maps, entries without any field; emptied ordered maps stay "
              "(c12_no_empty_on_spine_partial, c12_presence_container_pruned), deleting an absent node with a clean spine is the identity and deleting twice = once (c12_delete_absent_noop_partial, "
              "c12_delete_idempotent_partial), sequences (c12_history_partial). c12_delete_total: DeleteNode never panics (no hypothesis); c12_delete_root.",
        note="Trusted: Coq kernel; hand transcription of ytypes/node.go tied by the 'nodeops' stream; Go maps as sorted association lists. Leaf-level claims are about structural paths (sub_at / leaf_at).",
        coq_files=["Tree/Node", "Tree/KeyCodec", "Tree/Leaves", "Tree/GnmiStatements", "Tree/NodeExamples", "Tree/NodeFrameProofs", "Tree/NodeProofs", "Tree/NodeTotalProofs", "Corr/GnmiCorr"],
        streams=[dict(name="nodeops", n=N(900, 8000))],
        signatures=["deletenode/"],
        trusted=["schema translator and tree printer (tree.go)", "key oracle tables produced by the harness"],
        partial="Guards as for C10 (addr_of: complete canonical keys; non-canonical key strings make DeleteNode a silent no-op). c12_refuted_keyless_list_path: naming a non-empty list without keys is an "
                "error. Deleting a key leaf (kl = true): removal and frame hold, the tree guard is lost (C16), so GetNode-after, idempotence and sequences require kl = false. PreferShadowPath only in "
                "c12_delete_total and the example c12_shadow_path_noop. The leaf-level form on Leaves.leaves is c12_leaves_after_delete (leaves after = spec_delete of leaves before, guards c13_inv2 / "
                "delete_guardb: no ordered or unkeyed list on the path).",
    ),
    "C11": dict(
        level="proof",
        technique="Coq effect model (write set of every API over the cells of its arguments, frame/sequence theorem by induction over operation lists) + snapshot correspondence (changed-cell sets EQUAL, TypedValue after SetNode equal)",
        claim="writes is a subset of the documented outputs for every API and every argument (c11_fixed for the code as repaired; c11_now_partial/c11_refuted document the pre-repair code with its "
              "three witnesses); per-API c11_<api>_pure; SetNode without tolerance never touches the TypedValue for any target/payload (c11_SetNode_strict_pure); schema entries, decoded JSON, "
              "paths and source trees are in no write set; sequences of operations with empty write sets leave every cell unchanged (c11_sequence_frame).",
        note="Trusted: Coq kernel; the write-set table and the transcription of gNMIToYANGTypeMatches/sanitizeGNMI/unmarshalUnion/unmarshalLeafList/populateUpdate control flow, tied by the "
             "'purity' stream (17 APIs x 7 packages); snapshots = canonical reflective dump incl. slice spare capacity, unexported fields, whole yang.Entry graph; a write-then-restore is "
             "invisible to snapshots; per-update gnmidiff outcomes are measured by isolated dry runs.",
        coq_files=["Heap/Effects", "Heap/EffectsProofs", "Corr/EffectsCorr"],
        streams=[dict(name="purity", n=N(1500, 12000))],
        signatures=["mutates"],
        trusted=["TvString stands for a string that is no enum name of the target (generator invariant)"],
        partial="pointer-identity changes and write-then-restore are not observable; the effect model is table-like: its force comes from the equality check against snapshots on every run.",
    ),
    "C21": dict(
        level="proof",
        technique="Coq interleaving semantics of the regexp-cache RW-lock protocol (induction over ALL schedules) + generic disjoint-footprint theorem + C11 write sets as the read-only premise; race detector (-race) search over shared inputs",
        claim="c21_cache_drf (lock invariant; a pending map write excludes every other map access), c21_cache_results (every result = compile p; cache a sub-graph of compile), c21_cache_complete, "
              "c21_cache_progress for any number of goroutines, pattern lists, initial cache and ANY schedule; c21_readers / c21_disjoint_footprints (threads that only read shared cells return "
              "their sequential results in every interleaving); c21_schema_readonly. Real code: K goroutines x randomized GOMAXPROCS on shared tree/schema/messages under the race detector, "
              "results compared with sequential runs; cache rounds are re-computed by the model.",
        note="Outside Coq (the property is partly about the runtime): the Go memory model, the scheduler, the race detector's coverage (only executed interleavings), sync.RWMutex itself "
             "(modelled as reader count + writer flag); regexp.Compile is a section parameter; util/debug.go globals are off.",
        coq_files=["Conc/Cache", "Conc/CacheProofs", "Heap/Effects", "Heap/EffectsProofs", "Corr/CacheCorr", "Corr/EffectsCorr"],
        streams=[dict(name="race", n=N(60, 600)), dict(name="purity", n=N(1500, 12000))],
        signatures=["race", "schedule-dependent", "mutates-global"],
        trusted=["second driver binary built with go build -race (CGO)", "accessor harness_accessors/ytypes/c21_acc.go"],
        partial="the race search is a test, not a proof; a same-value or write-then-restore race is not exhibited by the model.",
    ),
}

NOT_APPLICABLE = {}
