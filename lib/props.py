"""Per-property configuration of ./check (streams, theorem files, trusted base, partiality)."""

def N(q, t):
    return {"quick": q, "thorough": t}

UTF8 = "strings are modelled as code-point lists: exact for valid UTF-8; invalid UTF-8 is outside the model"

PROPS = {
    "C08": dict(
        level="proof",
        technique="Coq proof (round-trip/injectivity by scanner invariants) + differential correspondence check",
        claim="StringToStructuredPath(PathToString p) = p, injectivity and the legacy slice law are Coq theorems about a transcription of "
              "elemToString/PathToString/SplitPath/PathStringToElements/extractKV/addKey for all paths of any length (guard: no backslash in "
              "key values, the full statement being refuted in Coq and reported as a known finding); totality (no panic) for every rune list. "
              "The transcription is compared with the real functions on generated paths, malformed paths and arbitrary strings on every run.",
        note="Trusted: Coq kernel; the hand transcription, tied only by the correspondence stream 'pathstr' (printer and parser directions, "
             "Ok/Err/Panic and full outputs compared); valid UTF-8 only; Go maps as sorted association lists.",
        coq_files=["Path/PathString", "Path/PathStringProofs", "Corr/PathStringCorr"],
        streams=[dict(name="pathstr", n=N(1600, 12000))],
        signatures=["roundtrip", "backslash-in-key-value"],
        trusted=[UTF8, "a Go map[string]string of keys is modelled by its sorted association list"],
        assumptions=[UTF8],
        partial="c08_roundtrip_partial/c08_injective_partial/c08_slice_roundtrip_partial are proved under the guard "
                "'no backslash in a key value'; c08_refuted_backslash proves the unguarded statement false of the model "
                "(known finding, pinned by TestStringToPath). c08_parse_total is unguarded.",
    ),
    "C09": dict(
        level="proof",
        technique="Coq proof (algorithm = set relation of denotations) + differential correspondence check",
        claim="ComparePaths returns the true set relation between the sets of concrete data paths two gNMI paths denote (c09_compare, for all "
              "well-formed paths of any length and any keys), swapping arguments swaps Subset/Superset (c09_swap), the per-element result does "
              "not depend on map iteration order (c09_order_independent), PathMatchesQuery/PathMatchesPathElemPrefix/TrimGNMIPathElemPrefix/"
              "JoinPaths/FindPathElemPrefix satisfy their denotational laws (c09_query, c09_trim_join, c09_common_prefix). The transcription of "
              "util/gnmi.go is compared with the real functions on every run, and a brute-force enumeration of the denotation over the bounded "
              "alphabet is the implementation-side oracle.",
        note="Trusted: Coq kernel; hand transcription of util/gnmi.go tied by the 'pathrel' stream (all eight functions, each ComparePaths call "
             "repeated 8 times to sample map orders); key values non-empty and key names distinct (wf_gpb); FindPathElemPrefix on an empty "
             "list of paths does not terminate in Go and is excluded; nil PathElems are not generated.",
        coq_files=["Path/PathRel", "Path/PathRelProofs", "Corr/PathRelCorr"],
        streams=[dict(name="pathrel", n=N(2400, 20000))],
        signatures=["compare", "trim-join", "common-prefix"],
        trusted=["a PathElem key map is an association list in arbitrary order (order independence is a theorem)"],
        partial="PathMatchesPrefix (string prefix) and PathElemsEqual are covered by the correspondence stream only.",
    ),
}

NOT_APPLICABLE = {}
