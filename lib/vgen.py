"""Generated-package preparation for the driver: builds /repo's generator from the working
tree, runs it over the schema corpus and maps the result into the overlay."""
import os
from vcheck import write_overlay


def prepare_overlay():
    return write_overlay(), {}
