"""Generated-package preparation for the driver: builds /repo's generator from the working
tree, runs it over the schema corpus (/verif/yang) for each code-generation configuration and
maps the result into the build overlay (nothing is written to /repo)."""
import glob, json, os, shutil, subprocess
import vcheck
from vcheck import VERIF, REPO, BUILD, GOENV, write_overlay, sha_files, repo_go_files, log

Y = os.path.join(VERIF, "yang")
COMMON = ["-generate_fakeroot", "-fakeroot_name=device", "-generate_getters", "-generate_append", "-generate_delete",
          "-generate_rename", "-generate_populate_defaults", "-generate_leaf_getters", "-yangpresence", "-include_schema"]

# name -> (yang files, flags, properties of the configuration)
CONFIGS = {
    "vmain_u": (["v-main.yang", "v-types.yang", "v-defu.yang", "a-zones.yang"], ["-generate_simple_unions"], {"compress": False, "wrapper_unions": False}),
    "vmain_w": (["v-main.yang", "v-types.yang", "a-zones.yang"], [], {"compress": False, "wrapper_unions": True}),
    "voc_c": (["v-oc.yang"], ["-generate_simple_unions", "-compress_paths"], {"compress": True, "wrapper_unions": False}),
    "voc_s": (["v-oc.yang"], ["-generate_simple_unions", "-compress_paths", "-prefer_operational_state"],
              {"compress": True, "wrapper_unions": False, "prefer_state": True}),
    "voc_i": (["v-oc.yang"], ["-generate_simple_unions", "-compress_paths", "-ignore_shadow_schema_paths"],
              {"compress": True, "wrapper_unions": False, "shadow": True}),
    # a second revision of v-main whose enumeration `color` has different members: two generated
    # packages in one process then define a same-named Go enum type with different tables
    "vmain_r2": (["@rev2/v-main.yang", "v-types.yang", "v-defu.yang", "a-zones.yang"], ["-generate_simple_unions"], {"compress": False, "wrapper_unions": False, "rev2": True, "go_package:vmain_u": True}),
    "voc_u": (["v-oc.yang"], ["-generate_simple_unions"], {"compress": False, "wrapper_unions": False}),
    "vlref_u": (["v-lref.yang"], ["-generate_simple_unions"], {"compress": False, "wrapper_unions": False, "lrefp": True, "private": True}),
    "vcolon_u": (["v-colon.yang"], ["-generate_simple_unions"], {"compress": False, "wrapper_unions": False, "colon": True, "private": True}),
}

REGISTER = '''//go:build verif

package %(gopkg)s

import (
	"github.com/openconfig/ygot/internal/verifharness/reg"
	"github.com/openconfig/ygot/ygot"
)

func init() {
	reg.Register(&reg.Pkg{
		Name:       "%(name)s",
		Flags:      map[string]bool{%(flags)s},
		NewRoot:    func() ygot.ValidatedGoStruct { return &Device{} },
		Schema:     Schema,
		Unmarshal:  Unmarshal,
		Enum:       ΛEnum,
		SchemaTree: SchemaTree,
	})
}
'''


def gen_key():
    files = repo_go_files() + glob.glob(os.path.join(Y, "*.yang")) + [os.path.join(VERIF, "lib", "vgen.py")]
    return sha_files(files)


def prepare_overlay():
    """Returns (overlay path, info). info['generator'] holds per-config outcomes."""
    gen_root = os.path.join(BUILD, "gen")
    os.makedirs(gen_root, exist_ok=True)
    key = gen_key()
    keyfile = os.path.join(gen_root, ".key")
    info_file = os.path.join(gen_root, "info.json")
    if os.path.exists(keyfile) and open(keyfile).read() == key and os.path.exists(info_file):
        info = json.load(open(info_file))
    else:
        info = {"generator": {}, "generator_build": None}
        genbin = os.path.join(BUILD, "bin", "generator")
        os.makedirs(os.path.dirname(genbin), exist_ok=True)
        p = subprocess.run(["go", "build", "-o", genbin, "./generator"], cwd=REPO, env=GOENV,
                           stdout=subprocess.PIPE, stderr=subprocess.STDOUT, text=True)
        info["generator_build"] = "ok" if p.returncode == 0 else p.stdout[-2000:]
        # derived corpus: revision 2 of v-main
        rev2 = os.path.join(gen_root, "rev2")
        os.makedirs(rev2, exist_ok=True)
        src = open(os.path.join(Y, "v-main.yang")).read()
        a = "enum RED;\n      enum GREEN { value 5; }\n      enum BLUE;"
        b = "enum RED;\n      enum BLUE;\n      enum GREEN { value 5; }\n      enum PURPLE;"
        assert a in src
        open(os.path.join(rev2, "v-main.yang"), "w").write(src.replace(a, b))
        for name, (yfiles, flags, props) in CONFIGS.items():
            d = os.path.join(gen_root, name)
            shutil.rmtree(d, ignore_errors=True)
            os.makedirs(d)
            if p.returncode != 0:
                info["generator"][name] = {"ok": False, "output": "generator does not build"}
                continue
            yf = [os.path.join(rev2, f[len("@rev2/"):]) if f.startswith("@rev2/") else os.path.join(Y, f) for f in yfiles]
            # the Go package NAME (not its import path) can be shared: vmain_r2 is `package vmain_u`, so
            # reflect.Type.String() is the same for its types as for vmain_u's (two revisions of a
            # model in one binary, as when both are vendored under the same package name)
            gopkg = next((k.split(":", 1)[1] for k in props if k.startswith("go_package:")), name)
            cmd = [genbin, "-logtostderr", "-path=" + Y, "-output_file=" + os.path.join(d, "gen.go"), "-package_name=" + gopkg] + COMMON + flags + yf
            q = subprocess.run(cmd, cwd=d, stdout=subprocess.PIPE, stderr=subprocess.STDOUT, text=True)
            ok = q.returncode == 0 and os.path.exists(os.path.join(d, "gen.go"))
            info["generator"][name] = {"ok": ok, "output": q.stdout[-1500:], "flags": flags, "yang": yfiles}
            if ok:
                fl = ", ".join('"%s": %s' % (k, "true" if v else "false") for k, v in sorted(props.items()))
                open(os.path.join(d, "zz_register.go"), "w").write(REGISTER % {"name": name, "gopkg": gopkg, "flags": fl})
        imports = "\n".join('\t_ "github.com/openconfig/ygot/internal/verifharness/gen/%s"' % n
                            for n, r in sorted(info["generator"].items()) if r["ok"])
        open(os.path.join(gen_root, "zz_gen_imports.go"), "w").write(
            "//go:build verif\n\npackage main\n\nimport (\n%s\n)\n" % imports)
        json.dump(info, open(info_file, "w"), indent=1)
        open(keyfile, "w").write(key)
    extra = {}
    for name, r in info["generator"].items():
        if r["ok"]:
            for f in ("gen.go", "zz_register.go"):
                extra[os.path.join(REPO, "internal", "verifharness", "gen", name, f)] = os.path.join(gen_root, name, f)
    extra[os.path.join(REPO, "internal", "verifharness", "ydrive", "zz_gen_imports.go")] = os.path.join(gen_root, "zz_gen_imports.go")
    # accessor files exposing unexported functions: harness/accessors/<pkg dir with '__' for '/'>/<file>.go
    for f in glob.glob(os.path.join(VERIF, "harness_accessors", "*", "*.go")):
        pkgdir = os.path.basename(os.path.dirname(f)).replace("__", "/")
        extra[os.path.join(REPO, pkgdir, "zz_verif_" + os.path.basename(f))] = f
    return write_overlay(extra), info
