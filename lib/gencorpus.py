"""gencorpus — the generated-package corpus shared by the translation-validation checks C26, C27, C29.

prepare(tier, seed) (cached by a hash of /repo's sources, the harness, this file, tier and seed):
  1. package specs: the standard packages of vgen (reused from build/gen), a flag matrix over the
     fixed corpus (/verif/yang), random module sets of lib/yanggen.py under random flag
     combinations, packages with path structs (C29; some with the builder-style list API of
     -list_builder_key_threshold, stream pathbuilder), and fixed schemas that reproduce known
     generator defects;
  2. runs build/bin/generator (built by vgen from /repo's working tree) for each spec;
  3. `go build` and `go vet` of every generated package inside a shadow of /repo's module
     (build/gencorpus/shadow: go.mod/go.sum copied, every directory of /repo symlinked, generated
     packages as real directories -- go vet needs real directories; nothing is written to /repo);
  4. builds build/bin/ydrive-gen: the driver with all packages that compile registered in it
     (go build -overlay), and writes build/gencorpus/manifest.json for the dump streams.
Python stdlib only."""
import concurrent.futures, glob, hashlib, json, os, random, re, shutil, subprocess, sys, time
import vcheck, vgen, yanggen
from vcheck import VERIF, REPO, BUILD, COQ, GOENV, log

OUT = os.environ.get("GENCORPUS_BUILD") or BUILD                      # private test builds only
THEORIES = os.environ.get("GENCORPUS_THEORIES") or os.path.join(COQ, "theories")
EXTRA_GO = [f for f in (os.environ.get("GENCORPUS_EXTRA_GO") or "").split(":") if f]
EXTRA_ACC = [f for f in (os.environ.get("GENCORPUS_EXTRA_ACC") or "").split(":") if f]   # pkgdir=file
GEN = os.path.join(OUT, "gencorpus")
COQGEN = os.path.join(OUT, "coqgen")
Y = os.path.join(VERIF, "yang")
IMPORT = "github.com/openconfig/ygot/internal/verifharness/gen/"
COMMON = list(vgen.COMMON)

REGISTER = '''//go:build verif

package %(name)s

import (
	"github.com/openconfig/ygot/internal/verifharness/reg"
	"github.com/openconfig/ygot/ygot"
)

func init() {
	reg.Register(&reg.Pkg{
		Name:       "%(name)s",
		Flags:      map[string]bool{%(flags)s},
		NewRoot:    func() ygot.ValidatedGoStruct { return &%(root)s{} },
		Schema:     Schema,
		Unmarshal:  Unmarshal,
%(enum)s		SchemaTree: SchemaTree,
	})
}
'''

# fixed schemas that reproduce generator defects (kept small; each is a known finding or a fixed bug)
DEFECT_YANG = {
    "d-enum.yang": """module d-enum {
  namespace "urn:verif:d-enum"; prefix de;
  container top {
    container config { leaf action { type enumeration { enum ACCEPT; enum DROP; } } }
    container state { config false; leaf action { type enumeration { enum ACCEPT; enum DROP; } } }
  }
}
""",
    "d-unset.yang": """module d-unset {
  namespace "urn:verif:d-unset"; prefix du;
  container top { leaf st { type enumeration { enum UNSET; enum SET; } } }
}
""",
    "d-keyclash.yang": """module d-keyclash {
  namespace "urn:verif:d-keyclash"; prefix dk;
  container top { list l { key "peer"; leaf peer { type string; } leaf Peer { type uint8; } } }
}
""",
    "d-validate.yang": """module d-validate {
  namespace "urn:verif:d-validate"; prefix dv;
  container c { leaf validate { type string; } }
}
""",
    "d-pathclash.yang": """module d-pathclash {
  namespace "urn:verif:d-pathclash"; prefix dp;
  container top {
    container config { leaf lam { type string; } }
    container Lams { list Lam { key "k"; leaf k { type leafref { path "../config/k"; } } container config { leaf k { type string; } } } }
    container lam_ { container config { leaf y { type string; } } }
  }
}
""",
    "d-rootid.yang": """module d-rootid {
  namespace "urn:verif:d-rootid"; prefix dr;
  container id { container config { leaf x { type string; } } }
}
""",
    "d-lref.yang": """module d-lref {
  namespace "urn:verif:d-lref"; prefix dl;
  container top {
    choice ch { case c1 { container addr { leaf v { type string; } leaf r { type leafref { path "../v"; } } } } }
  }
}
""",
}


# OpenConfig-style schema with multi-key lists for the builder-style path API (C29, stream pathbuilder):
# 3 keys (string, uint16, enumeration), nested 2 keys (identityref, union), 2 keys (int32, boolean),
# 2 keys (decimal64, string), a multi-key list directly below the fake root, single-key lists below them.
BUILDER_YANG = {
    "b-multi.yang": """module b-multi {
  namespace "urn:verif:b-multi"; prefix bm;
  identity proto;
  identity tcp { base proto; }
  identity udp { base proto; }
  typedef dir-t { type enumeration { enum IN; enum OUT { value 7; } } }
  grouping link-cfg { leaf node { type string; } leaf port { type uint16; } leaf dir { type dir-t; } leaf cost { type uint32; } }
  grouping flow-cfg { leaf proto { type identityref { base proto; } } leaf id { type union { type uint32; type string; } } leaf weight { type decimal64 { fraction-digits 2; } } }
  grouping hop-cfg { leaf index { type uint8; } leaf addr { type string; } }
  grouping zone-cfg { leaf prio { type int32; } leaf strict { type boolean; } leaf label { type string; } }
  grouping member-cfg { leaf name { type string; } leaf share { type decimal64 { fraction-digits 3; } } }
  grouping rate-cfg { leaf bw { type decimal64 { fraction-digits 2; } } leaf unit { type string; } leaf burst { type uint64; } }
  grouping tunnel-cfg { leaf src { type string; } leaf dst { type string; } leaf ttl { type uint8; } }
  container fabric {
    container config { leaf fabric-name { type string; } }
    container state { config false; leaf fabric-name { type string; } }
    container links {
      list link {
        key "node port dir";
        leaf node { type leafref { path "../config/node"; } }
        leaf port { type leafref { path "../config/port"; } }
        leaf dir { type leafref { path "../config/dir"; } }
        container config { uses link-cfg; }
        container state { config false; uses link-cfg; leaf up { type boolean; } }
        container flows {
          list flow {
            key "proto id";
            leaf proto { type leafref { path "../config/proto"; } }
            leaf id { type leafref { path "../config/id"; } }
            container config { uses flow-cfg; }
            container state { config false; uses flow-cfg; leaf pkts { type uint64; } }
            container hops {
              list hop {
                key "index";
                leaf index { type leafref { path "../config/index"; } }
                container config { uses hop-cfg; }
                container state { config false; uses hop-cfg; }
              }
            }
          }
        }
      }
    }
    container zones {
      list zone {
        key "prio strict";
        leaf prio { type leafref { path "../config/prio"; } }
        leaf strict { type leafref { path "../config/strict"; } }
        container config { uses zone-cfg; }
        container state { config false; uses zone-cfg; }
        container members {
          list member {
            key "name";
            leaf name { type leafref { path "../config/name"; } }
            container config { uses member-cfg; }
            container state { config false; uses member-cfg; }
          }
        }
      }
    }
    container rates {
      list rate {
        key "bw unit";
        leaf bw { type leafref { path "../config/bw"; } }
        leaf unit { type leafref { path "../config/unit"; } }
        container config { uses rate-cfg; }
        container state { config false; uses rate-cfg; }
      }
    }
  }
  container tunnels {
    list tunnel {
      key "src dst";
      leaf src { type leafref { path "../config/src"; } }
      leaf dst { type leafref { path "../config/dst"; } }
      container config { uses tunnel-cfg; }
      container state { config false; uses tunnel-cfg; leaf hits { type uint64; } }
    }
  }
}
""",
}


# hazards for the generator's text handling (group "hazard"): string defaults holding backslashes and
# double quotes (the generated Go literal must denote exactly the default), posix-pattern
# restrictions without anchors on types that have a default (the generator validates the default
# while it writes the code; the embedded schema must still hold the pattern as written), a multi-key
# list directly below the fake root in a module whose name sorts before the fake root's.
HAZARD_YANG = {
    "openconfig-extensions.yang": """module openconfig-extensions {
  yang-version "1";
  namespace "http://openconfig.net/yang/openconfig-ext";
  prefix "oc-ext";
  extension posix-pattern { argument "pattern"; }
  extension openconfig-version { argument "semver"; }
}
""",
    "a-haz.yang": """module a-haz {
  yang-version "1.1";
  namespace "urn:verif:a-haz";
  prefix "ah";
  import openconfig-extensions { prefix "oc-ext"; }
  typedef hostname { type string { pattern '[a-z][a-z0-9]*'; oc-ext:posix-pattern '[a-z][a-z0-9]*'; } default "localhost"; }
  typedef winpath { type string; default 'C:\\logs\\app'; }
  container settings {
    leaf dir { type winpath; }
    leaf re { type string; default '^\\d+$'; }
    leaf quote { type string; default 'say "hi" now'; }
    leaf both { type string; default 'a\\"b'; }
    leaf-list paths { type string; default 'x\\y'; default 'plain'; }
    leaf un { type union { type uint8; type string; } default 'rack\\7'; }
    leaf host { type hostname; }
    leaf host2 { type string { oc-ext:posix-pattern '[a-z]+(\\.[a-z]+)*'; } default "a.b"; }
    leaf domain { type string { pattern '[a-z]+'; oc-ext:posix-pattern '[a-z]+'; } }
    leaf location { type string { pattern '[A-Z]+'; oc-ext:posix-pattern '^[A-Z]+$'; } default "LAB"; }
    leaf banner { type union { type uint8; type string { oc-ext:posix-pattern 'motd-[a-z]+'; } } default "motd-hello"; }
  }
  list zone {
    key "region area";
    leaf region { type string; }
    leaf area { type string; }
    leaf note { type string; default 'n\\a'; }
  }
}
""",
}


def camel(s):
    # yang.CamelCase for the plain names used as fake root names here
    return "".join(p[:1].upper() + p[1:] for p in re.split(r"[-_.]", s) if p)


def mkspec(name, group, yang, path, flags, **kw):
    fl = list(flags)
    s = dict(name=name, group=group, yang=yang, path=path, flags=fl,
             rootname="device", compress="-compress_paths" in fl, prefer_state="-prefer_operational_state" in fl,
             exclude_state="-exclude_state" in fl, ordered_maps="-generate_ordered_maps=false" not in fl,
             descriptions="-include_descriptions" in fl, excluded=[], path_structs="-generate_path_structs" in fl,
             wrapper_unions="-generate_simple_unions" not in fl, features=[], standard=False)
    s["path_builder"] = 0          # -list_builder_key_threshold: lists with at least that many keys get XxxAny() + With<Key>()
    for f in fl:
        if f.startswith("-fakeroot_name="):
            s["rootname"] = f.split("=", 1)[1]
        if f.startswith("-list_builder_key_threshold="):
            s["path_builder"] = int(f.split("=", 1)[1])
    s.update(kw)
    return s


def specs(tier, seed):
    out = []
    rev2 = os.path.join(BUILD, "gen", "rev2")
    for name, (yfiles, flags, props) in vgen.CONFIGS.items():
        yf = [os.path.join(rev2, f[len("@rev2/"):]) if f.startswith("@rev2/") else os.path.join(Y, f) for f in yfiles]
        path = [Y]
        out.append(mkspec(name, "standard", yf, path, COMMON + flags, standard=True))
    oc, main = [os.path.join(Y, "v-oc.yang")], [os.path.join(Y, "v-main.yang"), os.path.join(Y, "v-types.yang")]
    SU, CP = "-generate_simple_unions", "-compress_paths"
    PS = ["-generate_path_structs"]
    LB = "-list_builder_key_threshold=%d"
    matrix = [
        ("c29_voc_c", oc, [SU, CP] + PS, True),
        ("c29_voc_s", oc, [SU, CP, "-prefer_operational_state"] + PS, True),
        ("m_oc_x", oc, [SU, CP, "-exclude_state"], True),
        ("m_main_o", main, [SU, "-generate_ordered_maps=false", "-include_descriptions", "-fakeroot_name=root"], True),
        ("m_oc_w", oc, [CP], False),
        ("m_oc_so", oc, [SU, CP, "-prefer_operational_state", "-generate_ordered_maps=false", "-shorten_enum_leaf_names"], False),
        ("m_main_x", main, [SU, "-exclude_state"], False),
        ("m_main_sk", main, [SU, "-skip_enum_deduplication", "-typedef_enum_with_defmod"], False),
        ("c29_voc_w", oc, [CP, "-simplify_wildcard_paths"] + PS, False),
        ("c29_voc_x", oc, [SU, CP, "-exclude_state"] + PS, False),
        # builder-style list API (stream pathbuilder): lists with >= N keys get XxxAny() + With<Key>()
        ("c29b_voc_2", oc, [SU, CP] + PS + [LB % 2], True),
        ("c29b_voc_1", oc, [SU, CP, "-prefer_operational_state"] + PS + [LB % 1], True),
        ("c29b_voc_w", oc, [CP, "-simplify_wildcard_paths"] + PS + [LB % 2], True),
    ]
    for name, yf, flags, quick in matrix:
        if quick or tier == "thorough":
            out.append(mkspec(name, "matrix", yf, [Y], COMMON + flags))
    bd = os.path.join(GEN, "yang", "builder")
    bm = [os.path.join(bd, "b-multi.yang")]
    for name, flags, quick in [
        ("c29b_multi_2", [SU, CP] + PS + [LB % 2], True),
        ("c29b_multi_3", [CP, "-prefer_operational_state"] + PS + [LB % 3], False),      # wrapper unions; only the 3-key list is a builder
        ("c29b_multi_1", [SU, CP, "-exclude_state", "-simplify_wildcard_paths"] + PS + [LB % 1], False),
    ]:
        if quick or tier == "thorough":
            out.append(mkspec(name, "matrix", bm, [bd], COMMON + flags, yang_text=dict(BUILDER_YANG), yang_dir=bd))
    # random module sets
    ydir = os.path.join(GEN, "yang")
    rng = random.Random(seed * 7919 + (1 if tier == "thorough" else 0))
    nrand = 6 if tier == "quick" else 100
    for i in range(nrand):
        style = "oc" if i % 2 else "plain"
        mseed = seed * 100000 + i
        m = yanggen.generate(mseed, style, hazards=(i % 3 == 2))
        d = os.path.join(ydir, m["prefix"])
        flags = [SU] if rng.random() < 0.7 else []
        if rng.random() < 0.25:
            flags.append("-generate_ordered_maps=false")
        if rng.random() < 0.15:
            flags.append("-include_descriptions")
        if rng.random() < 0.1:
            flags.append("-fakeroot_name=root")
        if rng.random() < 0.1:
            flags.append("-skip_enum_deduplication")
        if rng.random() < 0.1:
            flags.append("-typedef_enum_with_defmod")
        if style == "oc":
            flags.append(CP)
            r = rng.random()
            if r < 0.3:
                flags.append("-prefer_operational_state")
            elif r < 0.45:
                flags.append("-exclude_state")
            if rng.random() < 0.3:
                flags.append("-shorten_enum_leaf_names")
            if rng.random() < 0.2:
                flags.append("-ignore_shadow_schema_paths")
            if rng.random() < 0.5 or i in (1, 3):
                flags += PS
        elif rng.random() < 0.12:
            flags.append("-exclude_state")
        name = "g%s%s_%d_%d" % (style[0], tier[0], seed, i)
        out.append(mkspec(name, "random", [os.path.join(d, f) for f in m["main"]], [d], COMMON + flags,
                          features=m["features"], yang_text=m["files"], yang_dir=d, yang_seed=mseed, style=style))
        if style == "oc" and i % 4 == 1 and (tier == "thorough" or i == 1):
            # the same modules once more with the builder-style list API (no draw from rng: the other specs stay as they were)
            bflags = [f for f in flags if f not in PS] + PS + [LB % (2 if i % 8 == 1 else 1)]
            out.append(mkspec(name + "b", "random", [os.path.join(d, f) for f in m["main"]], [d], COMMON + bflags,
                              features=m["features"], yang_text=m["files"], yang_dir=d, yang_seed=mseed, style=style))
    # text-handling hazards (simple unions: the generator documents that defaults of wrapper unions are not supported)
    hd = os.path.join(ydir, "hazard")
    for nm, fl in (("h_haz_u", [SU]),):
        out.append(mkspec(nm, "hazard", [os.path.join(hd, "a-haz.yang")], [hd], COMMON + fl, yang_text=dict(HAZARD_YANG), yang_dir=hd))
    # known-defect schemas
    dd = os.path.join(ydir, "defect")
    out.append(mkspec("d_enum_s", "defect", [os.path.join(dd, "d-enum.yang")], [dd], COMMON + [SU, CP, "-prefer_operational_state"],
                      yang_text={"d-enum.yang": DEFECT_YANG["d-enum.yang"]}, yang_dir=dd))
    out.append(mkspec("d_enum_c", "defect", [os.path.join(dd, "d-enum.yang")], [dd], COMMON + [SU, CP],
                      yang_text={"d-enum.yang": DEFECT_YANG["d-enum.yang"]}, yang_dir=dd))
    out.append(mkspec("d_pathclash", "defect", [os.path.join(dd, "d-pathclash.yang")], [dd], COMMON + [SU, CP] + PS,
                      yang_text={"d-pathclash.yang": DEFECT_YANG["d-pathclash.yang"]}, yang_dir=dd))
    for nm in ("d-unset", "d-keyclash", "d-validate"):
        out.append(mkspec(nm.replace("-", "_"), "defect", [os.path.join(dd, nm + ".yang")], [dd], COMMON + [SU],
                          yang_text={nm + ".yang": DEFECT_YANG[nm + ".yang"]}, yang_dir=dd))
    out.append(mkspec("d_rootid", "defect", [os.path.join(dd, "d-rootid.yang")], [dd], COMMON + [SU, CP] + PS,
                      yang_text={"d-rootid.yang": DEFECT_YANG["d-rootid.yang"]}, yang_dir=dd))
    out.append(mkspec("d_lref", "defect", [os.path.join(dd, "d-lref.yang")], [dd], COMMON + [SU],
                      yang_text={"d-lref.yang": DEFECT_YANG["d-lref.yang"]}, yang_dir=dd))
    return out


# ---------------------------------------------------------------- classification

GEN_FAIL = [
    (r"cannot retrieve type name for enumerated leaf without a name generated", "finding", "generate/enum-name-lookup"),
    (r"could not resolve leafref path", "finding", "generate/leafref-unresolved"),
    (r"clash in enumerated name occurred|cannot resolve enumeration name clash", "skip", "unsupported/enum-name-clash"),
    (r"had a leafref key .* that did not exist", "skip", "unsupported/openconfig-shape"),
    (r"identity name conflict", "skip", "unsupported/identity-name-clash"),
    (r"was duplicate with", "skip", "unsupported/compression-duplicate"),
    (r"invalid compressed schema", "skip", "unsupported/openconfig-shape"),
    (r"no key specified for a config true list", "skip", "unsupported/invalid-yang"),
    (r"duplicate key from|unknown (type|prefix|group)|invalid|syntax error", "skip", "unsupported/invalid-yang"),
]


def classify_gen_failure(out):
    for rx, kind, sig in GEN_FAIL:
        if re.search(rx, out):
            return kind, sig
    return "finding", "generate/other"


def classify_compile(out, src=""):
    if re.search(r"_UNSET redeclared", out):
        return "compile/enum-label-unset"
    if re.search(r"redeclared|already declared|duplicate (field|method|case)", out) and not re.search(r"cannot use", out):
        return "compile/redeclared"
    # a field renamed X_ by MakeNameUnique is still referred to as X: the compiler's message names X
    # (only then: a package that merely HAS such a field and fails for another reason is not this finding)
    if any(re.search(r"\b%s\b" % re.escape(n), out) for n in set(re.findall(r"^\t(\w+)_\t", src, re.M))):
        return "compile/uniquified-field-name"
    if re.search(r"field and method with the same name", out):
        return "compile/field-method-clash"
    if re.search(r"redeclared|already declared|duplicate (field|method|case)", out):
        return "compile/redeclared"
    if re.search(r"undefined:", out):
        return "compile/undefined"
    if re.search(r"cannot use|mismatched types|not enough arguments|too many arguments", out):
        return "compile/type-error"
    return "compile/other"


def classify_vet(out):
    m = re.search(r"vet: |: (\w[\w ]*?) (?:call|literal|possible|struct|self-|unreachable|result)", out)
    for key in ("composite", "unreachable", "copylocks", "printf", "self-assignment", "unusedresult", "structtag", "lostcancel", "shift", "nilfunc"):
        if key in out.lower().replace(" ", ""):
            return "vet/" + key
    if "struct field tag" in out:
        return "vet/structtag"
    return "vet/other"


# ---------------------------------------------------------------- steps

def run_generator(genbin, s):
    d = os.path.join(GEN, "pkgs", s["name"])
    shutil.rmtree(d, ignore_errors=True)
    os.makedirs(d)
    if s.get("yang_text"):
        os.makedirs(s["yang_dir"], exist_ok=True)
        for fn, txt in s["yang_text"].items():
            # several specs share a directory and run in parallel: never truncate a file another
            # generator may be reading (write aside and rename, and only when the text differs)
            dst = os.path.join(s["yang_dir"], fn)
            try:
                if open(dst).read() == txt:
                    continue
            except OSError:
                pass
            tmp = "%s.%d.%s.tmp" % (dst, os.getpid(), s["name"])
            open(tmp, "w").write(txt)
            os.replace(tmp, dst)
    cmd = [genbin, "-logtostderr", "-path=" + ",".join(s["path"]), "-output_file=" + os.path.join(d, "gen.go"), "-package_name=" + s["name"]] + s["flags"]
    if s["path_structs"]:
        cmd.append("-path_structs_output_file=" + os.path.join(d, "paths.go"))
    cmd += s["yang"]
    p = subprocess.run(["timeout", "180"] + cmd, cwd=d, stdout=subprocess.PIPE, stderr=subprocess.STDOUT, text=True)
    ok = p.returncode == 0 and os.path.exists(os.path.join(d, "gen.go"))
    if ok:
        fl = ", ".join('"%s": %s' % (k, "true" if s[k] else "false") for k in ("compress", "wrapper_unions", "prefer_state", "exclude_state", "path_structs"))
        src = open(os.path.join(d, "gen.go"), encoding="utf-8").read()
        enum = "\t\tEnum:       ΛEnum,\n" if re.search(r"^var ΛEnum = ", src, re.M) else ""
        open(os.path.join(d, "zz_register.go"), "w").write(REGISTER % {"name": s["name"], "flags": fl, "root": camel(s["rootname"]), "enum": enum})
    out = [l for l in p.stdout.splitlines() if l.strip()]
    k = p.stdout.find("ERROR Generating")
    msg = p.stdout[k:k + 600].replace("\n", " ") if k >= 0 else "\n".join(out[-3:])[-700:]
    return ok, re.sub(r"^[FEW]\d{4} [\d:.]+\s+\d+ ", "", msg)


def pkg_dir(s):
    return os.path.join(BUILD, "gen", s["name"]) if s["standard"] else os.path.join(GEN, "pkgs", s["name"])


def make_shadow(specs_ok):
    """A module directory equal to /repo plus the generated packages, made of symlinks."""
    sh = os.path.join(GEN, "shadow")
    shutil.rmtree(sh, ignore_errors=True)
    os.makedirs(os.path.join(sh, "internal", "verifharness", "gen"))
    for f in ("go.mod", "go.sum"):
        shutil.copy(os.path.join(REPO, f), os.path.join(sh, f))
    for n in os.listdir(REPO):
        p = os.path.join(REPO, n)
        if os.path.isdir(p) and n not in ("internal", ".git"):
            os.symlink(p, os.path.join(sh, n))
    for n in os.listdir(os.path.join(REPO, "internal")):
        if n != "verifharness":
            os.symlink(os.path.join(REPO, "internal", n), os.path.join(sh, "internal", n))
    os.symlink(os.path.join(VERIF, "harness", "reg"), os.path.join(sh, "internal", "verifharness", "reg"))
    for s in specs_ok:
        os.symlink(pkg_dir(s), os.path.join(sh, "internal", "verifharness", "gen", s["name"]))
    return sh


def go_each(cwd, verb, names, extra=()):
    """go <verb> on all packages at once; on failure re-run the failing ones alone for clean messages."""
    pk = lambda n: "./internal/verifharness/gen/" + n
    base = ["go", verb, "-tags", "verif"] + list(extra)
    p = subprocess.run(base + [pk(n) for n in names], cwd=cwd, env=GOENV, stdout=subprocess.PIPE, stderr=subprocess.STDOUT, text=True)
    res = {n: (True, "") for n in names}
    if p.returncode != 0:
        bad = sorted({m for m in re.findall(r"verifharness/gen/(\w+)", p.stdout) if m in res})
        if not bad:
            bad = list(names)

        def one(n):
            q = subprocess.run(base + [pk(n)], cwd=cwd, env=GOENV, stdout=subprocess.PIPE, stderr=subprocess.STDOUT, text=True)
            return n, q.returncode, q.stdout
        with concurrent.futures.ThreadPoolExecutor(max_workers=4) as ex:
            for n, rc, out in ex.map(one, bad):
                if rc != 0:
                    res[n] = (False, out[-1500:])
    return res


def harness_key():
    files = glob.glob(os.path.join(VERIF, "harness", "**", "*.go"), recursive=True) + glob.glob(os.path.join(VERIF, "harness_accessors", "*", "*.go"))
    files += [os.path.abspath(__file__), yanggen.__file__, os.path.join(VERIF, "lib", "vgen.py")] + EXTRA_GO + [a.split("=", 1)[1] for a in EXTRA_ACC]
    return vcheck.sha_files(files)


def prepare(tier, seed):
    """Returns the info dict {packages: [...], manifest, driver, broken: [...], timings}."""
    os.makedirs(GEN, exist_ok=True)
    with vcheck.Lock("gencorpus"):
        return _prepare(tier, seed)


def _prepare(tier, seed):
    t0 = time.time()
    with vcheck.Lock("go"):
        base_overlay, vinfo = vgen.prepare_overlay()
        base = json.load(open(base_overlay))["Replace"]
    genbin = os.path.join(BUILD, "bin", "generator")
    key = hashlib.sha256((vgen.gen_key() + harness_key() + tier + str(seed)).encode()).hexdigest()
    info_file = os.path.join(GEN, "info-%s-%s.json" % (tier, seed))
    driver = os.path.join(OUT, "bin", "ydrive-gen-%s-%s" % (tier, seed))
    if os.path.exists(info_file) and os.path.exists(driver):
        info = json.load(open(info_file))
        if info.get("key") == key:
            info["cached"] = True
            return info
    info = {"key": key, "tier": tier, "seed": seed, "broken": [], "timings": {}, "cached": False}
    if not os.path.exists(genbin):
        info["broken"].append({"build": "build/bin/generator is missing: " + str(vinfo.get("generator_build"))})
        return info
    sp = specs(tier, seed)
    # 1. generate
    todo = [s for s in sp if not s["standard"]]
    with concurrent.futures.ThreadPoolExecutor(max_workers=min(12, os.cpu_count() or 4)) as ex:
        for s, (ok, out) in zip(todo, ex.map(lambda s: run_generator(genbin, s), todo)):
            s["gen_ok"], s["gen_out"] = ok, out
    for s in sp:
        if s["standard"]:
            r = vinfo.get("generator", {}).get(s["name"], {})
            s["gen_ok"], s["gen_out"] = bool(r.get("ok")), r.get("output", "")
        s.pop("yang_text", None)
    info["timings"]["generate_s"] = round(time.time() - t0, 1)
    # 2. go build (overlay inside /repo's module: the driver build below reuses the compiled packages)
    #    and go vet (shadow module: vet needs real directories), concurrently
    gen_ok = [s for s in sp if s["gen_ok"]]
    names = [s["name"] for s in gen_ok]
    ov = dict(base)
    for s in gen_ok:
        d = pkg_dir(s)
        for f in os.listdir(d):
            if f.endswith(".go"):
                ov[os.path.join(REPO, "internal", "verifharness", "gen", s["name"], f)] = os.path.join(d, f)
    ovf0 = os.path.join(GEN, "overlay-packages.json")
    json.dump({"Replace": ov}, open(ovf0, "w"), indent=1)
    sh = make_shadow(gen_ok)
    t1 = time.time()
    with concurrent.futures.ThreadPoolExecutor(max_workers=2) as ex:
        fb = ex.submit(go_each, REPO, "build", names, ("-overlay", ovf0))
        fv = ex.submit(go_each, sh, "vet", names)
        b, v = fb.result(), fv.result()
    info["timings"]["build_and_vet_s"] = round(time.time() - t1, 1)
    for s in gen_ok:
        s["build_ok"], s["build_out"] = b[s["name"]]
        s["vet_ok"], s["vet_out"] = v[s["name"]] if s["build_ok"] else (False, "not vetted (does not compile)")
    # 3. the driver with every compiling package
    imports, roots = [], []
    for s in gen_ok:
        if not s["build_ok"]:
            continue
        imports.append(s["name"])
        if s["path_structs"]:
            roots.append(s)
    gi = os.path.join(GEN, "zz_gen_imports.go")
    open(gi, "w").write("//go:build verif\n\npackage main\n\nimport (\n%s\n)\n" % "\n".join('\t_ "%s%s"' % (IMPORT, n) for n in sorted(imports)))
    ov[os.path.join(REPO, "internal", "verifharness", "ydrive", "zz_gen_imports.go")] = gi
    rf = os.path.join(GEN, "zz_c29_roots.go")
    # packages with the builder-style list API are enumerated by stream pathbuilder (c29bRoots, harness/ydrive/c29_builder.go),
    # the others by stream pathstructs (c29Roots)
    body = "//go:build verif\n\npackage main\n\nimport (\n\t\"github.com/openconfig/ygot/ygot\"\n%s\n)\n\nfunc init() {\n%s\n}\n" % (
        "\n".join('\tr%d "%s%s"' % (i, IMPORT, s["name"]) for i, s in enumerate(roots)),
        "\n".join('\t%s["%s"] = func(id string) ygot.PathStruct { return r%d.DeviceRoot(id) }' % ("c29bRoots" if s.get("path_builder") else "c29Roots", s["name"], i)
                  for i, s in enumerate(roots)))
    if roots:
        open(rf, "w").write(body)
        ov[os.path.join(REPO, "internal", "verifharness", "ydrive", "zz_c29_roots.go")] = rf
    for f in EXTRA_GO:
        ov[os.path.join(REPO, "internal", "verifharness", "ydrive", os.path.basename(f))] = os.path.abspath(f)
    for acc in EXTRA_ACC:
        pkg, f = acc.split("=", 1)
        ov[os.path.join(REPO, pkg, "zz_verif_" + os.path.basename(f))] = os.path.abspath(f)
    ovf = os.path.join(GEN, "overlay.json")
    json.dump({"Replace": ov}, open(ovf, "w"), indent=1)
    t1 = time.time()
    os.makedirs(os.path.dirname(driver), exist_ok=True)
    ok, out = vcheck.go_build("./internal/verifharness/ydrive", driver, ovf)
    info["timings"]["driver_s"] = round(time.time() - t1, 1)
    if not ok:
        info["broken"].append({"build": "go build of the driver with the generated packages failed", "output": out[-2000:]})
    manifest = os.path.join(GEN, "manifest-%s-%s.json" % (tier, seed))
    json.dump({"packages": [s for s in sp if s["gen_ok"] and s.get("build_ok")]}, open(manifest, "w"), indent=1)
    info.update({"packages": sp, "manifest": manifest, "driver": driver, "overlay": ovf})
    info["timings"]["total_s"] = round(time.time() - t0, 1)
    if ok:
        json.dump(info, open(info_file, "w"), indent=1)
    for old in glob.glob(os.path.join(OUT, "bin", "ydrive-gen-*")):
        if old != driver and time.time() - os.path.getmtime(old) > 6 * 3600:
            os.remove(old)
    return info


def run_dump(info, stream, workdir, n=0, extra_env=None):
    """Runs a dump stream of the driver; returns (ok, output, summary dict or None)."""
    shutil.rmtree(workdir, ignore_errors=True)
    os.makedirs(workdir)
    env = dict(GOENV, VERIF_DIR=VERIF, VERIF_REPO=REPO, C26_MANIFEST=info["manifest"])
    env.update(extra_env or {})
    p = subprocess.run(["timeout", "1500", info["driver"], "-stream", stream, "-seed", str(info["seed"]), "-n", str(n), "-tier", info["tier"],
                        "-out", workdir], cwd=VERIF, env=env, stdout=subprocess.PIPE, stderr=subprocess.STDOUT, text=True)
    sf = os.path.join(workdir, "summary_%s.json" % stream)
    if p.returncode != 0 or not os.path.exists(sf):
        return False, p.stdout[-2000:], None
    return True, p.stdout[-2000:], json.load(open(sf))


def coqc(f, cwd, timeout=1500):
    cmd = ["timeout", str(timeout), "coqc", "-Q", THEORIES, "Ygot", "-Q", COQGEN, "YgotGen", f]
    p = subprocess.run(cmd, cwd=cwd, stdout=subprocess.PIPE, stderr=subprocess.STDOUT, text=True)
    return p.returncode == 0, p.stdout


def ensure_theories(need):
    """The regenerated files need the compiled theories; the shared build is incremental."""
    if THEORIES.startswith(COQ):
        vcheck.coq_build()
    missing = [n for n in need if not os.path.exists(os.path.join(THEORIES, n + ".vo"))]
    return missing


def generation_findings(info, pid_prefix=""):
    """Findings / skips from the generator, go build and go vet (used by C26)."""
    findings, skipped = [], {}
    for s in info.get("packages", []):
        inp = {"package": s["name"], "group": s["group"], "flags": [f for f in s["flags"] if f not in COMMON],
               "yang": [os.path.basename(y) for y in s["yang"]], "yang_seed": s.get("yang_seed"), "style": s.get("style")}
        if not s["gen_ok"]:
            kind, sig = classify_gen_failure(s["gen_out"])
            if kind == "skip":
                skipped[sig] = skipped.get(sig, 0) + 1
            else:
                findings.append({"signature": sig, "what": "the generator produces no package for a supported schema x flag combination: " + s["gen_out"][-500:], "input": inp})
        elif not s.get("build_ok"):
            try:
                src = open(os.path.join(pkg_dir(s), "gen.go"), encoding="utf-8").read()
            except OSError:
                src = ""
            findings.append({"signature": classify_compile(s["build_out"], src), "what": "generated package does not compile: " + s["build_out"][-700:], "input": inp})
        elif not s.get("vet_ok"):
            findings.append({"signature": classify_vet(s["vet_out"]), "what": "go vet reports: " + s["vet_out"][-700:], "input": inp})
    return findings, skipped


if __name__ == "__main__":
    i = prepare(sys.argv[1] if len(sys.argv) > 1 else "quick", int(sys.argv[2]) if len(sys.argv) > 2 else 1)
    print(json.dumps({k: v for k, v in i.items() if k != "packages"}, indent=1))
    for s in i.get("packages", []):
        print(s["name"], s["group"], "gen" if s["gen_ok"] else "GEN-FAIL", "build" if s.get("build_ok") else "-", "vet" if s.get("vet_ok") else "-",
              (s["gen_out"] if not s["gen_ok"] else s.get("build_out") or s.get("vet_out") or "")[-300:].replace("\n", " | "))


# ---------------------------------------------------------------- reading Coq output

def parse_coq_term(text):
    """Parses a printed Coq term made of constructor applications, lists, pairs-free atoms and
    numbers into Python: int | str (identifier) | list | tuple(head, *args)."""
    toks = re.findall(r"\[|\]|\(|\)|;|[A-Za-z_][\w']*|-?\d+(?:%\w+)?", text)
    pos = [0]

    def atom():
        t = toks[pos[0]]
        pos[0] += 1
        if t == "[":
            items = []
            if toks[pos[0]] == "]":
                pos[0] += 1
                return items
            while True:
                items.append(term())
                t2 = toks[pos[0]]
                pos[0] += 1
                if t2 == "]":
                    return items
        if t == "(":
            v = term()
            pos[0] += 1      # ')'
            return v
        if re.match(r"-?\d", t):
            return int(t.split("%")[0])
        return t

    def term():
        parts = [atom()]
        while pos[0] < len(toks) and toks[pos[0]] not in ("]", ")", ";"):
            parts.append(atom())
        return parts[0] if len(parts) == 1 else tuple(parts)

    return term()


def coq_to_str(l):
    try:
        return "".join(chr(c) for c in l)
    except Exception:
        return repr(l)


def printed_values(out, prefix):
    """{k: text} for every 'prefix<k> = <text> : <type>' printed by coqc"""
    flat = " ".join(out.split())
    res = {}
    for m in re.finditer(re.escape(prefix) + r"(\d+) = (.*?) : (?:list|option|bool)", flat):
        res[int(m.group(1))] = m.group(2).strip()
    return res
