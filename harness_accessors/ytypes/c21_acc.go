//go:build verif

package ytypes

// Accessors for the C11/C21 checks (purity of read-only APIs, race-freedom). This file is mapped
// into package ytypes by the build overlay. It exposes the key sets of the package-global regexp
// cache (read under the cache's own read locks, i.e. through the same protocol as the library)
// and a reset used by the harness between rounds so that the cache-miss path of compilePattern
// is exercised more than once per process. It does not change the behaviour of any library
// function.

import "sort"

// VerifRegexpCacheKeys returns the sorted keys of the POSIX and RE2 maps of reCache.
func VerifRegexpCacheKeys() (posix []string, re2 []string) {
	c := reCache
	c.posixMu.RLock()
	for k := range c.posix {
		posix = append(posix, k)
	}
	c.posixMu.RUnlock()
	c.re2Mu.RLock()
	for k := range c.re2 {
		re2 = append(re2, k)
	}
	c.re2Mu.RUnlock()
	sort.Strings(posix)
	sort.Strings(re2)
	return posix, re2
}

// VerifResetRegexpCache empties both maps under their write locks (the cache object itself is
// kept, so goroutines that already hold a reference keep following the locking protocol). The
// harness only calls it between rounds, when no library call is in flight.
func VerifResetRegexpCache() {
	c := reCache
	c.posixMu.Lock()
	for k := range c.posix {
		delete(c.posix, k)
	}
	c.posixMu.Unlock()
	c.re2Mu.Lock()
	for k := range c.re2 {
		delete(c.re2, k)
	}
	c.re2Mu.Unlock()
}

// VerifCompilePattern is reCache.compilePattern; it returns the printed form of the compiled
// regexp ("" on error) so that results can be compared across goroutines.
func VerifCompilePattern(pattern string, isPOSIX bool) (string, bool) {
	re, err := reCache.compilePattern(pattern, isPOSIX)
	if err != nil || re == nil {
		return "", false
	}
	return re.String(), true
}
