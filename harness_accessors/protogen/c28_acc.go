//go:build verif

package protogen

// Accessors for the C28 check (generated protobufs are well-formed). This file is mapped into
// package protogen by the build overlay; it only reads the generator's own data structures and
// calls its unexported functions, it does not change any behaviour.

import (
	"fmt"
	"sort"
	"strings"

	"github.com/openconfig/ygot/ygen"
)

// VerifFieldTag is fieldTag.
func VerifFieldTag(s string) (uint32, error) { return fieldTag(s) }

// VerifTag is one number that the generator derived from fieldTag: the string that was hashed
// and the number the generator's own code assigned.
type VerifTag struct {
	Kind   string // field | oneof | llunion | keyoneof | identity
	Msg    string // proto message (or enum) name
	Dir    string // YANG path of the directory (or identity base name)
	Name   string // proto field name / enum value label
	Hashed string // the argument of fieldTag ("" when no candidate string explains the number)
	Tag    uint32
}

// VerifField / VerifMsg: the protoMsg structures built by genProto3Msg, with oneofs flattened.
type VerifField struct {
	Name string
	Tag  uint32
	Key  bool // number assigned by the list-key counter rather than by fieldTag
}
type VerifMsg struct {
	Name   string
	Dir    string
	Fields []VerifField
	Enums  map[string]map[int64]string
}

// VerifIdentityEnum: what writeProtoEnums computes for one identity enumeration.
type VerifIdentityEnum struct {
	Name     string
	Base     string
	Values   []VerifTag       // one per identity, in IR order
	Rendered map[int64]string // the map that is handed to the template (label by number)
}

type VerifData struct {
	Tags       []VerifTag
	Msgs       []VerifMsg
	Identities []VerifIdentityEnum
	EnumLoss   []string // enumerations whose generated value map has fewer entries than the YANG type has values
	Errors     []string
}

func verifMsgOf(d *protoMsg, dir string, keyMsg bool) VerifMsg {
	vm := VerifMsg{Name: d.Name, Dir: dir, Enums: map[string]map[int64]string{}}
	for _, f := range d.Fields {
		if f.IsOneOf {
			for _, oo := range f.OneOfFields {
				vm.Fields = append(vm.Fields, VerifField{Name: oo.Name, Tag: oo.Tag})
			}
			continue
		}
		vm.Fields = append(vm.Fields, VerifField{Name: f.Name, Tag: f.Tag, Key: keyMsg})
	}
	for n, e := range d.Enums {
		vm.Enums[n] = map[int64]string{}
		for i, v := range e.Values {
			vm.Enums[n][i] = strings.ToUpper(n) + "_" + v.ProtoLabel
		}
	}
	return vm
}

// VerifCollect builds the IR exactly as Generate does and runs genProto3Msg on every directory
// (with nestedMessages off so that key and union messages are returned as structures instead of
// text; the numbers do not depend on that flag, and the driver cross-checks them against the text
// that Generate emits under the real options).
func (cg *CodeGenerator) VerifCollect(yangFiles, includePaths []string) (*VerifData, error) {
	basePackageName := cg.ProtoOptions.PackageName
	if basePackageName == "" {
		basePackageName = DefaultBasePackageName
	}
	enumPackageName := cg.ProtoOptions.EnumPackageName
	if enumPackageName == "" {
		enumPackageName = DefaultEnumPackageName
	}
	topts := cg.IROptions.TransformationOptions
	topts.UseDefiningModuleForTypedefEnumNames = true
	opts := ygen.IROptions{
		ParseOptions:                        cg.IROptions.ParseOptions,
		TransformationOptions:               topts,
		NestedDirectories:                   cg.ProtoOptions.NestedMessages,
		AbsoluteMapPaths:                    true,
		AppendEnumSuffixForSimpleUnionEnums: true,
	}
	ir, err := ygen.GenerateIR(yangFiles, includePaths, NewProtoLangMapper(basePackageName, enumPackageName), opts)
	if err != nil {
		return nil, err
	}
	out := &VerifData{}
	cfg := &protoMsgConfig{
		compressPaths:       topts.CompressBehaviour.CompressEnabled(),
		basePackageName:     basePackageName,
		enumPackageName:     enumPackageName,
		baseImportPath:      cg.ProtoOptions.BaseImportPath,
		annotateSchemaPaths: cg.ProtoOptions.AnnotateSchemaPaths,
		annotateEnumNames:   cg.ProtoOptions.AnnotateEnumNames,
		nestedMessages:      false,
	}

	// identity enumerations: the string hashed is <base name><identity name>
	var enames []string
	for k := range ir.Enums {
		enames = append(enames, k)
	}
	sort.Strings(enames)
	for _, k := range enames {
		enum := ir.Enums[k]
		if enum.Kind != ygen.IdentityType {
			continue
		}
		ie := VerifIdentityEnum{Name: enum.Name, Base: enum.IdentityBaseName, Rendered: map[int64]string{0: strings.ToUpper(enum.Name) + "_" + protoEnumZeroName}}
		for _, ed := range enum.ValToYANGDetails {
			h := fmt.Sprintf("%s%s", enum.IdentityBaseName, ed.Name)
			tag, err := fieldTag(h)
			if err != nil {
				out.Errors = append(out.Errors, err.Error())
				continue
			}
			label := strings.ToUpper(enum.Name) + "_" + safeProtoIdentifierName(ed.Name)
			vt := VerifTag{Kind: "identity", Msg: enum.Name, Dir: enum.IdentityBaseName, Name: label, Hashed: h, Tag: tag}
			ie.Values = append(ie.Values, vt)
			out.Tags = append(out.Tags, vt)
			ie.Rendered[int64(tag)] = label
		}
		out.Identities = append(out.Identities, ie)
	}

	// enumerations: genProtoEnum keys the values by number (YANG value + 1, the type default at 0),
	// so an entry can be overwritten
	for _, k := range enames {
		enum := ir.Enums[k]
		if enum.Kind == ygen.IdentityType {
			continue
		}
		ge, err := genProtoEnum(enum, false, true)
		if err != nil {
			continue
		}
		hasDefault := false
		var have []string
		for i, v := range ge.Values {
			have = append(have, fmt.Sprintf("%d:%s", i, v.ProtoLabel))
		}
		sort.Strings(have)
		for _, ed := range enum.ValToYANGDetails {
			num := int64(ed.Value) + 1
			if ed.Name == enum.TypeDefaultValue {
				hasDefault = true
				num = 0
			}
			if got, ok := ge.Values[num]; !ok || got.ProtoLabel != safeProtoIdentifierName(ed.Name) {
				out.EnumLoss = append(out.EnumLoss, fmt.Sprintf("value-lost: enum %s (%s): YANG value %q (number %d) is not in the generated map %v", enum.Name, enum.TypeName, ed.Name, num, have))
			}
		}
		if z, ok := ge.Values[0]; !hasDefault && (!ok || z.ProtoLabel != protoEnumZeroName) {
			out.EnumLoss = append(out.EnumLoss, fmt.Sprintf("unset-overwritten: enum %s (%s): a YANG enum with value -1 takes the number 0 and replaces UNSET; generated map %v", enum.Name, enum.TypeName, have))
		}
	}

	for _, dp := range ir.OrderedDirectoryPaths() {
		m := ir.Directories[dp]
		msgDefs, errs := genProto3Msg(m, ir, cfg, m.PackageName, nil)
		if errs != nil {
			out.Errors = append(out.Errors, fmt.Sprintf("%s: %v", dp, errs))
			continue
		}
		main := msgDefs[len(msgDefs)-1]
		byName := map[string]*protoMsg{}
		for _, d := range msgDefs[:len(msgDefs)-1] {
			byName[d.Name] = d
		}
		var names []string
		for n := range m.Fields {
			if _, ok := m.ListKeys[n]; !ok {
				names = append(names, n)
			}
		}
		sort.Strings(names)
		if len(names) != len(main.Fields) {
			out.Errors = append(out.Errors, fmt.Sprintf("%s: %d fields for %d schema nodes", dp, len(main.Fields), len(names)))
			continue
		}
		out.Msgs = append(out.Msgs, verifMsgOf(main, dp, false))
		for i, fd := range main.Fields {
			f := m.Fields[names[i]]
			p := f.YANGDetails.Path
			if fd.IsOneOf {
				for _, oo := range fd.OneOfFields {
					out.Tags = append(out.Tags, VerifTag{Kind: "oneof", Msg: main.Name, Dir: dp, Name: oo.Name, Hashed: p + strings.TrimPrefix(oo.Name, fd.Name), Tag: oo.Tag})
				}
				continue
			}
			out.Tags = append(out.Tags, VerifTag{Kind: "field", Msg: main.Name, Dir: dp, Name: fd.Name, Hashed: p, Tag: fd.Tag})
			sub, ok := byName[fd.Type]
			if !ok {
				continue
			}
			switch f.Type {
			case ygen.LeafListNode:
				// message holding the members of a leaf-list of unions
				out.Msgs = append(out.Msgs, verifMsgOf(sub, dp, false))
				for _, oo := range sub.Fields {
					out.Tags = append(out.Tags, VerifTag{Kind: "llunion", Msg: sub.Name, Dir: dp, Name: oo.Name, Hashed: p + strings.TrimPrefix(oo.Name, fd.Name), Tag: oo.Tag})
				}
			case ygen.ListNode:
				out.Msgs = append(out.Msgs, verifMsgOf(sub, p, true))
				lm := ir.Directories[p]
				if lm == nil {
					continue
				}
				// the union members of a key: the hashed prefix is the leafref target path or the key's own path
				var cands []string
				for _, k := range lm.OrderedListKeyNames() {
					if kf, ok := lm.Fields[k]; ok {
						cands = append(cands, kf.YANGDetails.LeafrefTargetPath, kf.YANGDetails.Path)
					}
				}
				for _, kfd := range sub.Fields {
					if !kfd.IsOneOf {
						continue
					}
					for _, oo := range kfd.OneOfFields {
						vt := VerifTag{Kind: "keyoneof", Msg: sub.Name, Dir: p, Name: oo.Name, Tag: oo.Tag}
						sfx := strings.TrimPrefix(oo.Name, kfd.Name)
						for _, c := range cands {
							if c == "" {
								continue
							}
							if t, err := fieldTag(c + sfx); err == nil && t == oo.Tag {
								vt.Hashed = c + sfx
								break
							}
						}
						out.Tags = append(out.Tags, vt)
					}
				}
			}
		}
	}
	return out, nil
}
