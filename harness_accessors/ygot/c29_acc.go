//go:build verif

package ygot

import "reflect"

// C29NodeParts exposes, for the verification harness only, the unexported fields of the NodePath
// embedded in a generated path struct (relSchemaPath, keys, parent).
func C29NodeParts(p PathStruct) (rel []string, keys map[string]interface{}, parent PathStruct, ok bool) {
	v := reflect.ValueOf(p)
	if v.Kind() != reflect.Ptr || v.IsNil() || v.Elem().Kind() != reflect.Struct {
		return nil, nil, nil, false
	}
	f := v.Elem().FieldByName("NodePath")
	if !f.IsValid() {
		return nil, nil, nil, false
	}
	np, isNP := f.Interface().(*NodePath)
	if !isNP || np == nil {
		return nil, nil, nil, false
	}
	return np.relSchemaPath, np.keys, np.p, true
}
