//go:build verif

// maprange — translator for property C25 ("code generation is deterministic").
//
// It type-checks the packages of /repo's CURRENT working tree that the code generators
// (./generator, ./proto_generator) are built from, finds every `for ... range X` whose X is a Go
// map -- or a slice that some function filled in map order and returned without sorting it (an
// "enumeration": util.Children is the prime example) -- classifies the loop body syntactically and
// conservatively, and prints the table as a Coq file (Gen_MapRanges.v) plus a JSON rendering for
// the Python side.  Only the standard library is used (go/parser, go/types; imports that are not
// part of the ygot module are read from the compiler's export data via `go list -export`).
//
// usage: maprange -repo /repo -coq OUT/Gen_MapRanges.v -json OUT/maprange_sites.json
package main

import (
	"bytes"
	"crypto/sha256"
	"encoding/hex"
	"encoding/json"
	"flag"
	"fmt"
	"go/ast"
	"go/importer"
	"go/parser"
	"go/printer"
	"go/token"
	"go/types"
	"io"
	"os"
	"os/exec"
	"path/filepath"
	"sort"
	"strings"
)

const c25Module = "github.com/openconfig/ygot"

// Packages whose every function is analysed.  Functions of the other ygot packages the
// generators link (util, ygot, ytypes, ...) are analysed only if they are reachable from these.
var c25Primary = map[string]bool{
	c25Module + "/generator":         true,
	c25Module + "/proto_generator":   true,
	c25Module + "/gogen":             true,
	c25Module + "/protogen":          true,
	c25Module + "/ypathgen":          true,
	c25Module + "/ygen":              true,
	c25Module + "/genutil":           true,
	c25Module + "/internal/igenutil": true,
	c25Module + "/yangschema":        true,
}

// Packages outside the scanned scope whose functions are taken to have no effect that matters
// for the order of a loop (they compute a value from their arguments, or only log/terminate).
var c25PurePkgs = map[string]bool{
	"strings": true, "strconv": true, "fmt": true, "errors": true, "path": true, "path/filepath": true,
	"unicode": true, "unicode/utf8": true, "reflect": true, "regexp": true, "math": true, "bytes": true,
	"github.com/openconfig/goyang/pkg/yang": true,
	"github.com/golang/glog":                true,
	"google.golang.org/protobuf/proto":      true,
}

// ... except these, which write to a stream or mutate their receiver.
var c25ImpureNames = map[string]bool{
	"fmt.Print": true, "fmt.Println": true, "fmt.Printf": true, "fmt.Fprint": true, "fmt.Fprintf": true, "fmt.Fprintln": true,
	"(*bytes.Buffer).WriteString": true, "(*bytes.Buffer).Write": true, "(*bytes.Buffer).WriteByte": true,
	"(*bytes.Buffer).WriteRune": true, "(*bytes.Buffer).Reset": true, "(*bytes.Buffer).ReadFrom": true,
	"(*strings.Builder).WriteString": true, "(*strings.Builder).Write": true, "(*strings.Builder).WriteByte": true,
	"(*strings.Builder).WriteRune": true, "(*strings.Builder).Reset": true,
	"reflect.Copy": true,
}

type c25Pkg struct {
	Path    string
	Dir     string
	GoFiles []string
	Export  string
	Module  *struct{ Path string }

	files []*ast.File
	info  *types.Info
	tpkg  *types.Package
}

type c25Func struct {
	pkg   *c25Pkg
	name  string // "Recv.Method" or "Func" or "<pkgvar>"
	decl  ast.Node
	body  ast.Node // *ast.BlockStmt or the initialiser expression
	obj   *types.Func
	reach bool
	pure  int // 0 unknown, 1 in progress, 2 pure, 3 impure
	taint bool
}

type c25Site struct {
	Pkg      string `json:"pkg"`
	File     string `json:"file"`
	Func     string `json:"func"`
	Line     int    `json:"line"`
	Kind     string `json:"kind"` // map | enumeration | enumeration-use
	Over     string `json:"over"`
	Class    string `json:"class"`
	Reason   string `json:"reason"`
	BodyHash string `json:"body_hash"`
	FuncHash string `json:"func_hash"`
	Body     string `json:"body"`
}

var (
	c25Fset  = token.NewFileSet()
	c25Pkgs  = map[string]*c25Pkg{}
	c25Order []*c25Pkg
	c25Funcs = map[*types.Func]*c25Func{}
	c25All   []*c25Func
	// methods by name: the possible callees of an interface method call
	c25Methods = map[string][]*c25Func{}
)

func c25Die(f string, a ...interface{}) {
	fmt.Fprintf(os.Stderr, "maprange: "+f+"\n", a...)
	os.Exit(2)
}

func c25Text(n ast.Node) string {
	var b bytes.Buffer
	printer.Fprint(&b, c25Fset, n)
	return strings.Join(strings.Fields(b.String()), " ")
}

func c25Hash(s string) string {
	h := sha256.Sum256([]byte(s))
	return hex.EncodeToString(h[:])[:16]
}

// ---------------------------------------------------------------- loading

type c25Importer struct{ gc types.Importer }

func (i c25Importer) Import(path string) (*types.Package, error) {
	if p, ok := c25Pkgs[path]; ok && p.tpkg != nil {
		return p.tpkg, nil
	}
	return i.gc.Import(path)
}

func c25Load(repo string) {
	cmd := exec.Command("go", "list", "-deps", "-export", "-json=ImportPath,Dir,GoFiles,Export,Module", "./generator", "./proto_generator")
	cmd.Dir = repo
	cmd.Stderr = os.Stderr
	out, err := cmd.Output()
	if err != nil {
		c25Die("go list failed: %v", err)
	}
	exports := map[string]string{}
	dec := json.NewDecoder(bytes.NewReader(out))
	for {
		var raw struct {
			ImportPath string
			Dir        string
			GoFiles    []string
			Export     string
			Module     *struct{ Path string }
		}
		if err := dec.Decode(&raw); err == io.EOF {
			break
		} else if err != nil {
			c25Die("go list output: %v", err)
		}
		exports[raw.ImportPath] = raw.Export
		if raw.Module != nil && raw.Module.Path == c25Module {
			p := &c25Pkg{Path: raw.ImportPath, Dir: raw.Dir, GoFiles: raw.GoFiles}
			c25Pkgs[p.Path] = p
			c25Order = append(c25Order, p) // go list -deps prints dependencies first
		}
	}
	gc := importer.ForCompiler(c25Fset, "gc", func(path string) (io.ReadCloser, error) {
		f := exports[path]
		if f == "" {
			return nil, fmt.Errorf("no export data for %s", path)
		}
		return os.Open(f)
	})
	imp := c25Importer{gc}
	for _, p := range c25Order {
		for _, f := range p.GoFiles {
			af, err := parser.ParseFile(c25Fset, filepath.Join(p.Dir, f), nil, 0)
			if err != nil {
				c25Die("parse: %v", err)
			}
			p.files = append(p.files, af)
		}
		p.info = &types.Info{Types: map[ast.Expr]types.TypeAndValue{}, Defs: map[*ast.Ident]types.Object{},
			Uses: map[*ast.Ident]types.Object{}, Selections: map[*ast.SelectorExpr]*types.Selection{}}
		conf := types.Config{Importer: imp}
		tp, err := conf.Check(p.Path, c25Fset, p.files, p.info)
		if err != nil {
			c25Die("type check %s: %v", p.Path, err)
		}
		p.tpkg = tp
	}
}

func c25Short(path string) string { return strings.TrimPrefix(path, c25Module+"/") }

func c25Index() {
	for _, p := range c25Order {
		for _, f := range p.files {
			for _, d := range f.Decls {
				switch d := d.(type) {
				case *ast.FuncDecl:
					if d.Body == nil {
						continue
					}
					name := d.Name.Name
					if d.Recv != nil && len(d.Recv.List) == 1 {
						t := d.Recv.List[0].Type
						if s, ok := t.(*ast.StarExpr); ok {
							t = s.X
						}
						if ix, ok := t.(*ast.IndexExpr); ok {
							t = ix.X
						}
						name = c25Text(t) + "." + name
					}
					fn := &c25Func{pkg: p, name: name, decl: d, body: d.Body}
					if o, ok := p.info.Defs[d.Name].(*types.Func); ok {
						fn.obj = o
						c25Funcs[o] = fn
						if d.Recv != nil {
							c25Methods[d.Name.Name] = append(c25Methods[d.Name.Name], fn)
						}
					}
					c25All = append(c25All, fn)
				case *ast.GenDecl:
					if d.Tok != token.VAR {
						continue
					}
					for _, sp := range d.Specs {
						vs := sp.(*ast.ValueSpec)
						for _, v := range vs.Values {
							c25All = append(c25All, &c25Func{pkg: p, name: "<pkgvar>", decl: vs, body: v})
						}
					}
				}
			}
		}
	}
}

// c25Reach marks the functions that can run in a generator process.
func c25Reach() {
	var work []*c25Func
	mark := func(f *c25Func) {
		if f != nil && !f.reach {
			f.reach = true
			work = append(work, f)
		}
	}
	byName := map[string][]*c25Func{}
	for _, f := range c25All {
		if f.obj != nil && f.obj.Type().(*types.Signature).Recv() != nil {
			byName[f.obj.Name()] = append(byName[f.obj.Name()], f)
		}
		if c25Primary[f.pkg.Path] || f.name == "<pkgvar>" || f.name == "init" {
			mark(f)
		}
	}
	for len(work) > 0 {
		f := work[len(work)-1]
		work = work[:len(work)-1]
		ast.Inspect(f.body, func(n ast.Node) bool {
			id, ok := n.(*ast.Ident)
			if !ok {
				return true
			}
			o, ok := f.pkg.info.Uses[id].(*types.Func)
			if !ok {
				return true
			}
			if g := c25Funcs[o]; g != nil {
				mark(g)
				return true
			}
			if sig := o.Type().(*types.Signature); sig.Recv() != nil {
				if _, isIface := sig.Recv().Type().Underlying().(*types.Interface); isIface {
					for _, g := range byName[o.Name()] { // any implementation may be the callee
						mark(g)
					}
				}
			}
			return true
		})
	}
}

// ---------------------------------------------------------------- purity

func c25Callee(p *c25Pkg, call *ast.CallExpr) types.Object {
	switch f := ast.Unparen(call.Fun).(type) {
	case *ast.Ident:
		return p.info.Uses[f]
	case *ast.SelectorExpr:
		return p.info.Uses[f.Sel]
	case *ast.IndexExpr: // generic instantiation
		switch g := f.X.(type) {
		case *ast.Ident:
			return p.info.Uses[g]
		case *ast.SelectorExpr:
			return p.info.Uses[g.Sel]
		}
	}
	return nil
}

// c25CallPure: does the call have no effect besides computing its result (or terminating the
// process / logging)?  why is set when the answer is no.
func c25CallPure(p *c25Pkg, call *ast.CallExpr) (ok bool, why string) {
	if tv, isT := p.info.Types[call.Fun]; isT && tv.IsType() {
		return true, ""
	}
	o := c25Callee(p, call)
	switch o := o.(type) {
	case *types.Builtin:
		switch o.Name() {
		case "len", "cap", "make", "new", "append", "min", "max", "panic", "complex", "real", "imag":
			return true, ""
		}
		return false, "builtin " + o.Name()
	case *types.Func:
		if g := c25Funcs[o]; g != nil {
			if c25FuncPure(g) {
				return true, ""
			}
			return false, "call of " + c25Short(g.pkg.Path) + "." + g.name
		}
		sig := o.Type().(*types.Signature)
		if sig.Recv() != nil {
			if _, isIface := sig.Recv().Type().Underlying().(*types.Interface); isIface {
				if o.Name() == "Error" || o.Name() == "String" || (o.Pkg() != nil && c25PurePkgs[o.Pkg().Path()]) {
					return true, ""
				}
				impls := c25Methods[o.Name()]
				for _, g := range impls {
					if !c25FuncPure(g) {
						return false, "interface method call " + o.Name() + " (implementation " + c25Short(g.pkg.Path) + "." + g.name + " has effects)"
					}
				}
				if len(impls) > 0 {
					return true, ""
				}
				return false, "interface method call " + o.Name()
			}
		}
		if o.Pkg() != nil && c25PurePkgs[o.Pkg().Path()] && !c25ImpureNames[o.FullName()] {
			return true, ""
		}
		return false, "call of " + o.FullName()
	}
	return false, "call of a function value (" + c25Text(call.Fun) + ")"
}

func c25ExprPure(p *c25Pkg, e ast.Node) (ok bool, why string) {
	ok = true
	if e == nil {
		return
	}
	ast.Inspect(e, func(n ast.Node) bool {
		if !ok {
			return false
		}
		switch n := n.(type) {
		case *ast.CallExpr:
			if k, w := c25CallPure(p, n); !k {
				ok, why = false, w
			}
		case *ast.FuncLit:
			ok, why = false, "function literal"
			return false
		case *ast.UnaryExpr:
			if n.Op == token.ARROW {
				ok, why = false, "channel receive"
			}
		}
		return true
	})
	return
}

// c25FreshLocal: is id a variable declared inside fn (not a parameter, receiver or result
// passed in) whose declaration creates a fresh object?
func c25LocalIn(p *c25Pkg, id *ast.Ident, body ast.Node) (types.Object, bool) {
	o := p.info.Uses[id]
	if o == nil {
		o = p.info.Defs[id]
	}
	v, ok := o.(*types.Var)
	if !ok || v.IsField() {
		return o, false
	}
	return o, v.Pos() >= body.Pos() && v.Pos() < body.End()
}

func c25Root(e ast.Expr) *ast.Ident {
	for {
		switch x := e.(type) {
		case *ast.Ident:
			return x
		case *ast.SelectorExpr:
			e = x.X
		case *ast.IndexExpr:
			e = x.X
		case *ast.StarExpr:
			e = x.X
		case *ast.ParenExpr:
			e = x.X
		case *ast.SliceExpr:
			e = x.X
		default:
			return nil
		}
	}
}

// c25Fresh: variables declared in body whose declaration creates a new object (composite
// literal, make, new, zero value), so that writes through them stay inside the function.
func c25Fresh(p *c25Pkg, body ast.Node) map[types.Object]bool {
	fresh := map[types.Object]bool{}
	isFreshInit := func(e ast.Expr) bool {
		switch x := ast.Unparen(e).(type) {
		case *ast.CompositeLit:
			return true
		case *ast.UnaryExpr:
			_, ok := x.X.(*ast.CompositeLit)
			return ok && x.Op == token.AND
		case *ast.CallExpr:
			if b, ok := c25Callee(p, x).(*types.Builtin); ok && (b.Name() == "make" || b.Name() == "new") {
				return true
			}
		case *ast.BasicLit:
			return true
		}
		return false
	}
	ast.Inspect(body, func(n ast.Node) bool {
		switch n := n.(type) {
		case *ast.AssignStmt:
			if n.Tok == token.DEFINE && len(n.Lhs) == len(n.Rhs) {
				for i, l := range n.Lhs {
					if id, ok := l.(*ast.Ident); ok && isFreshInit(n.Rhs[i]) {
						if o := p.info.Defs[id]; o != nil {
							fresh[o] = true
						}
					}
				}
			}
		case *ast.ValueSpec:
			for i, id := range n.Names {
				if len(n.Values) == 0 || (i < len(n.Values) && isFreshInit(n.Values[i])) {
					if o := p.info.Defs[id]; o != nil {
						fresh[o] = true
					}
				}
			}
		}
		return true
	})
	// a variable that is assigned again from something that is not fresh may alias
	ast.Inspect(body, func(n ast.Node) bool {
		if a, ok := n.(*ast.AssignStmt); ok && a.Tok == token.ASSIGN && len(a.Lhs) == len(a.Rhs) {
			for i, l := range a.Lhs {
				if id, ok := l.(*ast.Ident); ok {
					if o := p.info.Uses[id]; o != nil && fresh[o] && !isFreshInit(a.Rhs[i]) {
						if call, isCall := ast.Unparen(a.Rhs[i]).(*ast.CallExpr); isCall {
							if b, isB := c25Callee(p, call).(*types.Builtin); isB && b.Name() == "append" && c25Text(call.Args[0]) == id.Name {
								continue
							}
						}
						delete(fresh, o)
					}
				}
			}
		}
		return true
	})
	return fresh
}

// c25FuncPure: conservative inference that calling g changes nothing but objects it created.
func c25FuncPure(g *c25Func) bool {
	switch g.pure {
	case 1, 2:
		return true // in progress: assume (checked coinductively)
	case 3:
		return false
	}
	g.pure = 1
	p := g.pkg
	fresh := c25Fresh(p, g.body)
	okLHS := func(l ast.Expr) bool {
		l = ast.Unparen(l)
		if id, ok := l.(*ast.Ident); ok {
			if id.Name == "_" {
				return true
			}
			o := p.info.Uses[id]
			if o == nil {
				o = p.info.Defs[id]
			}
			v, isVar := o.(*types.Var)
			if !isVar {
				return false
			}
			// any variable of this function (locals, parameters, named results): rebinding it is local
			return v.Pos() >= g.decl.Pos() && v.Pos() < g.decl.End()
		}
		r := c25Root(l)
		if r == nil {
			return false
		}
		o := p.info.Uses[r]
		return o != nil && fresh[o]
	}
	pure := true
	ast.Inspect(g.body, func(n ast.Node) bool {
		if !pure {
			return false
		}
		switch n := n.(type) {
		case *ast.AssignStmt:
			for _, l := range n.Lhs {
				if !okLHS(l) {
					pure = false
				}
			}
		case *ast.IncDecStmt:
			if !okLHS(n.X) {
				pure = false
			}
		case *ast.RangeStmt:
			if n.Tok == token.ASSIGN {
				if n.Key != nil && !okLHS(n.Key) {
					pure = false
				}
				if n.Value != nil && !okLHS(n.Value) {
					pure = false
				}
			}
		case *ast.GoStmt, *ast.DeferStmt, *ast.SendStmt, *ast.SelectStmt:
			pure = false
		case *ast.FuncLit:
			pure = false
		case *ast.UnaryExpr:
			if n.Op == token.ARROW {
				pure = false
			}
		case *ast.CallExpr:
			if k, _ := c25CallPure(p, n); !k {
				// a method call on a fresh local buffer (b.WriteString on a local bytes.Buffer) is local
				if sel, ok := n.Fun.(*ast.SelectorExpr); ok {
					if r := c25Root(sel.X); r != nil {
						if o := p.info.Uses[r]; o != nil && fresh[o] {
							if f, isF := p.info.Uses[sel.Sel].(*types.Func); isF && c25Funcs[f] == nil {
								return true
							}
						}
					}
				}
				pure = false
			}
		}
		return true
	})
	if pure {
		g.pure = 2
	} else {
		g.pure = 3
	}
	return pure
}

// ---------------------------------------------------------------- classification

type c25Eff struct {
	p         *c25Pkg
	fn        *c25Func
	rs        *ast.RangeStmt
	collects  []string // appended-to slices (text)
	collectEx map[string]ast.Expr
	mapW      []string
	derived   []string // map writes whose index is not the range key
	reduces   []string
	consts    map[string]string
	selects   []string
	errs      bool
	impure    []string
	first     []string
	unknown   []string
	expected  map[string]int // accounted occurrences of a written location's text
	fresh     map[types.Object]bool
	exists    bool
	guards    map[string]ast.Node // M[K] texts tested by `if _, ok := M[K]; ok { fail }` -> the block of the test
	guarded   bool
	block     ast.Node
}

// local: is the assignment target a variable of the loop body, or a component of an object the
// body created (so that the write is a computation local to one iteration)?
func (e *c25Eff) local(l ast.Expr) bool {
	l = ast.Unparen(l)
	if id, ok := l.(*ast.Ident); ok {
		return e.inner(id)
	}
	r := c25Root(l)
	if r == nil || !e.inner(r) {
		return false
	}
	o := e.p.info.Uses[r]
	if o != nil && e.fresh[o] {
		return true
	}
	// a field of a range variable that is a struct VALUE: the variable is a per-iteration copy
	if sel, ok := l.(*ast.SelectorExpr); ok {
		if id, ok := ast.Unparen(sel.X).(*ast.Ident); ok && o != nil && id == r {
			if _, isStruct := o.Type().Underlying().(*types.Struct); isStruct {
				for _, kv := range []ast.Expr{e.rs.Key, e.rs.Value} {
					if kid, ok := kv.(*ast.Ident); ok && e.p.info.Defs[kid] == o {
						return true
					}
				}
			}
		}
	}
	return false
}

func (e *c25Eff) inner(id *ast.Ident) bool {
	if id.Name == "_" {
		return true
	}
	o := e.p.info.Defs[id]
	if o == nil {
		o = e.p.info.Uses[id]
	}
	if o == nil {
		return false
	}
	return o.Pos() >= e.rs.Pos() && o.Pos() < e.rs.End()
}

func (e *c25Eff) pure(n ast.Node) {
	if n == nil {
		return
	}
	if ok, why := c25ExprPure(e.p, n); !ok {
		e.impure = append(e.impure, why)
	}
}

func c25IsErrType(t types.Type) bool {
	if t == nil {
		return false
	}
	s := t.String()
	if s == "error" || s == "[]error" || strings.HasSuffix(s, "util.Errors") {
		return true
	}
	if sl, ok := t.Underlying().(*types.Slice); ok {
		return sl.Elem().String() == "error"
	}
	return false
}

func (e *c25Eff) isErrAppendCall(call *ast.CallExpr) bool {
	o, _ := c25Callee(e.p, call).(*types.Func)
	if o == nil || o.Pkg() == nil {
		return false
	}
	if o.Pkg().Path() == c25Module+"/util" {
		switch o.Name() {
		case "AppendErr", "AppendErrs", "AppendErrsInFunction", "PrefixErrors", "UniqueErrors":
			return true
		}
	}
	return false
}

func (e *c25Eff) isTerminate(call *ast.CallExpr) bool {
	switch o := c25Callee(e.p, call).(type) {
	case *types.Builtin:
		return o.Name() == "panic"
	case *types.Func:
		if o.Pkg() == nil {
			return false
		}
		pp := o.Pkg().Path()
		if pp == "github.com/golang/glog" || pp == "log" {
			return strings.HasPrefix(o.Name(), "Exit") || strings.HasPrefix(o.Name(), "Fatal") || strings.HasPrefix(o.Name(), "Panic")
		}
		return pp == "os" && o.Name() == "Exit"
	}
	return false
}

func (e *c25Eff) write(text string, n int) { e.expected[text] += n }

func (e *c25Eff) assign(s *ast.AssignStmt) {
	// all targets local to the loop body: a pure computation
	allInner := true
	for _, l := range s.Lhs {
		if !e.local(l) {
			allInner = false
		}
	}
	if allInner {
		for _, r := range s.Rhs {
			e.pure(r)
		}
		return
	}
	if len(s.Lhs) != 1 || len(s.Rhs) != 1 {
		e.unknown = append(e.unknown, "multi-assignment to a variable of the enclosing function: "+c25Text(s))
		return
	}
	lhs, rhs := ast.Unparen(s.Lhs[0]), ast.Unparen(s.Rhs[0])
	lt := c25Text(lhs)
	ltyp := e.p.info.Types[lhs].Type
	if id, ok := lhs.(*ast.Ident); ok && ltyp == nil {
		if o := e.p.info.Uses[id]; o != nil {
			ltyp = o.Type()
		}
	}
	if s.Tok == token.ASSIGN || s.Tok == token.DEFINE {
		if call, ok := rhs.(*ast.CallExpr); ok {
			if b, isB := c25Callee(e.p, call).(*types.Builtin); isB && b.Name() == "append" && len(call.Args) > 0 && c25Text(call.Args[0]) == lt {
				for _, a := range call.Args[1:] {
					e.pure(a)
				}
				if c25IsErrType(ltyp) {
					e.errs = true
					e.write(lt, -1000000)
					return
				}
				e.collects = append(e.collects, lt)
				e.collectEx[lt] = lhs
				e.write(lt, 2)
				return
			}
			if e.isErrAppendCall(call) && len(call.Args) > 0 && c25Text(call.Args[0]) == lt {
				for _, a := range call.Args[1:] {
					e.pure(a)
				}
				e.errs = true
				e.write(lt, -1000000)
				return
			}
		}
		if ix, ok := lhs.(*ast.IndexExpr); ok {
			if _, isMap := e.p.info.Types[ix.X].Type.Underlying().(*types.Map); isMap {
				mt := c25Text(ix.X)
				e.pure(ix.Index)
				e.pure(rhs)
				e.mapW = append(e.mapW, mt)
				e.write(mt, 1)
				if gb, ok := e.guards[c25Text(ix)]; ok && gb == e.block {
					e.guarded = true // a second binding for the same key is an error, so the insertions commute
				} else if kid, isID := ast.Unparen(ix.Index).(*ast.Ident); !(isID && e.isRangeKey(kid)) {
					rt := c25Text(rhs)
					if tv := e.p.info.Types[rhs]; tv.Value != nil || rt == "true" || rt == "struct{}{}" {
						// inserting one constant: idempotent, so colliding keys do no harm
						if old, ok := e.consts[mt+"[]"]; ok && old != rt {
							e.derived = append(e.derived, mt+"["+c25Text(ix.Index)+"]")
						}
						e.consts[mt+"[]"] = rt
					} else {
						e.derived = append(e.derived, mt+"["+c25Text(ix.Index)+"]")
					}
				}
				return
			}
		}
		if c25IsErrType(ltyp) {
			e.pure(rhs)
			e.errs = true
			e.write(lt, -1000000)
			return
		}
		e.pure(rhs)
		if tv := e.p.info.Types[rhs]; tv.Value != nil || c25Text(rhs) == "true" || c25Text(rhs) == "false" || c25Text(rhs) == "nil" {
			c := c25Text(rhs)
			if old, ok := e.consts[lt]; ok && old != c {
				e.unknown = append(e.unknown, "different constants assigned to "+lt)
			}
			e.consts[lt] = c
			e.reduces = append(e.reduces, lt)
			e.write(lt, 1)
			return
		}
		e.selects = append(e.selects, lt)
		e.write(lt, 1)
		return
	}
	// op-assignment
	e.pure(rhs)
	if b, ok := ltyp.Underlying().(*types.Basic); ok && b.Info()&types.IsString == 0 {
		switch s.Tok {
		case token.ADD_ASSIGN, token.MUL_ASSIGN, token.OR_ASSIGN, token.AND_ASSIGN, token.XOR_ASSIGN:
			e.reduces = append(e.reduces, lt)
			e.write(lt, 1)
			return
		}
	}
	e.unknown = append(e.unknown, "order-dependent accumulation: "+c25Text(s))
}

func (e *c25Eff) isRangeKey(id *ast.Ident) bool {
	k, ok := e.rs.Key.(*ast.Ident)
	if !ok || k.Name == "_" {
		return false
	}
	_, isMap := e.p.info.Types[e.rs.X].Type.Underlying().(*types.Map)
	if !isMap {
		return false
	}
	ko := e.p.info.Defs[k]
	return ko != nil && e.p.info.Uses[id] == ko
}

// stmt walks one statement of the loop body. depth counts enclosing breakable statements inside
// the map loop (a `break` at depth 0 leaves the map loop itself).
func (e *c25Eff) stmt(s ast.Stmt, depth int) {
	switch s := s.(type) {
	case nil, *ast.EmptyStmt:
	case *ast.BlockStmt:
		saved := e.block
		e.block = s
		for _, x := range s.List {
			e.stmt(x, depth)
		}
		e.block = saved
	case *ast.LabeledStmt:
		e.stmt(s.Stmt, depth)
	case *ast.ExprStmt:
		call, ok := s.X.(*ast.CallExpr)
		if !ok {
			e.pure(s.X)
			return
		}
		if e.isTerminate(call) {
			for _, a := range call.Args {
				e.pure(a)
			}
			e.errs = true
			return
		}
		if f, isF := c25Callee(e.p, call).(*types.Func); isF && f.Pkg() != nil && (f.Pkg().Path() == "sort" || f.Pkg().Path() == "slices") && len(call.Args) > 0 && e.local(call.Args[0]) {
			for _, a := range call.Args[1:] {
				if fl, isLit := a.(*ast.FuncLit); isLit {
					e.pure(fl.Body)
				} else {
					e.pure(a)
				}
			}
			return // sorting a slice that belongs to this iteration
		}
		if b, isB := c25Callee(e.p, call).(*types.Builtin); isB && b.Name() == "delete" && len(call.Args) == 2 {
			mt := c25Text(call.Args[0])
			e.pure(call.Args[1])
			e.mapW = append(e.mapW, mt)
			e.write(mt, 1)
			if kid, isID := ast.Unparen(call.Args[1]).(*ast.Ident); !(isID && e.isRangeKey(kid)) {
				e.derived = append(e.derived, "delete("+mt+", "+c25Text(call.Args[1])+")")
			}
			return
		}
		e.pure(call)
	case *ast.AssignStmt:
		e.assign(s)
	case *ast.IncDecStmt:
		if e.local(s.X) {
			return
		}
		t := c25Text(s.X)
		e.reduces = append(e.reduces, t)
		e.write(t, 1)
	case *ast.DeclStmt:
		if gd, ok := s.Decl.(*ast.GenDecl); ok {
			for _, sp := range gd.Specs {
				if vs, ok := sp.(*ast.ValueSpec); ok {
					for _, v := range vs.Values {
						e.pure(v)
					}
				}
			}
		}
	case *ast.IfStmt:
		if g, mt := e.failGuard(s); g != "" {
			e.guards[g] = e.block
			e.write(mt, 1)
			e.errs = true
			return
		}
		e.stmt(s.Init, depth)
		e.pure(s.Cond)
		e.stmt(s.Body, depth)
		e.stmt(s.Else, depth)
	case *ast.SwitchStmt:
		e.stmt(s.Init, depth)
		e.pure(s.Tag)
		for _, c := range s.Body.List {
			cc := c.(*ast.CaseClause)
			for _, x := range cc.List {
				e.pure(x)
			}
			for _, x := range cc.Body {
				e.stmt(x, depth+1)
			}
		}
	case *ast.TypeSwitchStmt:
		e.stmt(s.Init, depth)
		switch a := s.Assign.(type) {
		case *ast.ExprStmt:
			e.pure(a.X)
		case *ast.AssignStmt:
			for _, r := range a.Rhs {
				e.pure(r)
			}
		}
		for _, c := range s.Body.List {
			for _, x := range c.(*ast.CaseClause).Body {
				e.stmt(x, depth+1)
			}
		}
	case *ast.ForStmt:
		e.stmt(s.Init, depth)
		e.pure(s.Cond)
		e.stmt(s.Post, depth)
		e.stmt(s.Body, depth+1)
	case *ast.RangeStmt:
		e.pure(s.X)
		if s.Tok == token.ASSIGN {
			for _, kv := range []ast.Expr{s.Key, s.Value} {
				if id, ok := kv.(*ast.Ident); ok && !e.inner(id) {
					e.selects = append(e.selects, id.Name)
					e.write(id.Name, 1)
				}
			}
		}
		e.stmt(s.Body, depth+1)
	case *ast.BranchStmt:
		switch s.Tok {
		case token.CONTINUE:
			if s.Label != nil {
				e.unknown = append(e.unknown, "labelled continue")
			}
		case token.BREAK:
			if depth == 0 || s.Label != nil {
				e.first = append(e.first, "break out of the map loop")
			}
		default:
			e.unknown = append(e.unknown, s.Tok.String())
		}
	case *ast.ReturnStmt:
		for _, r := range s.Results {
			e.pure(r)
		}
		if n := len(s.Results); n > 0 {
			last := ast.Unparen(s.Results[n-1])
			if t := e.p.info.Types[last].Type; c25Text(last) != "nil" && t != nil && (c25IsErrType(t) || types.Implements(t, c25ErrorIface())) {
				e.errs = true
				return
			}
		}
		allConst := true
		for _, r := range s.Results {
			t := c25Text(r)
			if tv := e.p.info.Types[r]; tv.Value == nil && t != "true" && t != "false" && t != "nil" {
				allConst = false
			}
		}
		if allConst {
			// "is there an element with ...": the same constants whichever element triggers it
			key := "return " + c25Text(s)
			if old, ok := e.consts["return"]; ok && old != key {
				e.unknown = append(e.unknown, "different constant results returned from inside the loop")
			}
			e.consts["return"] = key
			e.exists = true
			return
		}
		e.first = append(e.first, "return of a value from inside the loop: "+c25Text(s))
	default:
		e.unknown = append(e.unknown, fmt.Sprintf("%T", s))
	}
}

// failGuard recognises `if _, ok := M[K]; ok { <fail> }` where <fail> only reports an error and
// leaves the iteration (return err / append to an error list; continue).  Returns "M[K]" and "M".
func (e *c25Eff) failGuard(s *ast.IfStmt) (string, string) {
	a, ok := s.Init.(*ast.AssignStmt)
	if !ok || a.Tok != token.DEFINE || len(a.Lhs) != 2 || len(a.Rhs) != 1 || s.Else != nil {
		return "", ""
	}
	ix, ok := ast.Unparen(a.Rhs[0]).(*ast.IndexExpr)
	if !ok {
		return "", ""
	}
	if _, isMap := e.p.info.Types[ix.X].Type.Underlying().(*types.Map); !isMap {
		return "", ""
	}
	okID, isID := a.Lhs[1].(*ast.Ident)
	cond, isCond := ast.Unparen(s.Cond).(*ast.Ident)
	if !isID || !isCond || e.p.info.Uses[cond] != e.p.info.Defs[okID] || len(s.Body.List) == 0 {
		return "", ""
	}
	if pure, _ := c25ExprPure(e.p, ix.Index); !pure {
		return "", ""
	}
	sub := &c25Eff{p: e.p, fn: e.fn, rs: e.rs, collectEx: map[string]ast.Expr{}, consts: map[string]string{}, expected: map[string]int{},
		guards: map[string]ast.Node{}, fresh: e.fresh}
	sub.stmt(s.Body, 1)
	if len(sub.collects)+len(sub.mapW)+len(sub.reduces)+len(sub.selects)+len(sub.impure)+len(sub.first)+len(sub.unknown) > 0 || !sub.errs {
		return "", ""
	}
	switch last := s.Body.List[len(s.Body.List)-1].(type) {
	case *ast.ReturnStmt:
	case *ast.BranchStmt:
		if last.Tok != token.CONTINUE {
			return "", ""
		}
	default:
		return "", ""
	}
	return c25Text(ix), c25Text(ix.X)
}

func c25ErrorIface() *types.Interface {
	return types.Universe.Lookup("error").Type().Underlying().(*types.Interface)
}

// occurrences of an expression text inside node n within (from, to)
func c25Occ(n ast.Node, text string, from, to token.Pos, p *c25Pkg, skipDefs bool) []ast.Expr {
	var out []ast.Expr
	ast.Inspect(n, func(x ast.Node) bool {
		ex, ok := x.(ast.Expr)
		if !ok || x == nil {
			return true
		}
		if ex.Pos() < from || ex.End() > to {
			return true
		}
		switch ex.(type) {
		case *ast.Ident, *ast.SelectorExpr, *ast.IndexExpr, *ast.StarExpr:
		default:
			return true
		}
		if c25Text(ex) == text {
			if id, isID := ex.(*ast.Ident); isID && skipDefs {
				if _, isDef := p.info.Defs[id]; isDef {
					return true
				}
			}
			// the Sel of a selector x.text is not an occurrence of text
			out = append(out, ex)
			return false
		}
		return true
	})
	return out
}

// c25Path returns the chain of nodes from root down to target.
func c25Path(root ast.Node, target ast.Node) []ast.Node {
	var stack, found []ast.Node
	ast.Inspect(root, func(n ast.Node) bool {
		if found != nil {
			return false
		}
		if n == nil {
			stack = stack[:len(stack)-1]
			return true
		}
		stack = append(stack, n)
		if n == target {
			found = append([]ast.Node{}, stack...)
			return false
		}
		return true
	})
	return found
}

func c25StmtList(n ast.Node) []ast.Stmt {
	switch n := n.(type) {
	case *ast.BlockStmt:
		return n.List
	case *ast.CaseClause:
		return n.Body
	case *ast.CommClause:
		return n.Body
	}
	return nil
}

// c25SortCall: is s a statement sorting the slice `text`?  total = the order is the natural total
// order of a basic element type (no caller-supplied comparison).
func c25SortCall(p *c25Pkg, s ast.Stmt, text string) (is bool, total bool) {
	es, ok := s.(*ast.ExprStmt)
	if !ok {
		return
	}
	call, ok := es.X.(*ast.CallExpr)
	if !ok || len(call.Args) == 0 {
		return
	}
	o, _ := c25Callee(p, call).(*types.Func)
	if o == nil || o.Pkg() == nil {
		return
	}
	arg := ast.Unparen(call.Args[0])
	full := o.Pkg().Path() + "." + o.Name()
	switch full {
	case "sort.Strings", "sort.Ints", "sort.Float64s", "slices.Sort":
		return c25Text(arg) == text, true
	case "sort.Slice", "sort.SliceStable", "slices.SortFunc", "slices.SortStableFunc":
		if c25Text(arg) != text {
			return false, false
		}
		// sort.Slice(x, func(i, j int) bool { return x[i] < x[j] }) is the natural order
		if len(call.Args) == 2 {
			if fl, ok := call.Args[1].(*ast.FuncLit); ok && len(fl.Body.List) == 1 && len(fl.Type.Params.List) >= 1 {
				var names []string
				for _, f := range fl.Type.Params.List {
					for _, n := range f.Names {
						names = append(names, n.Name)
					}
				}
				if r, ok := fl.Body.List[0].(*ast.ReturnStmt); ok && len(r.Results) == 1 && len(names) == 2 {
					if c25Text(r.Results[0]) == fmt.Sprintf("%s[%s] < %s[%s]", text, names[0], text, names[1]) {
						if sl, ok := p.info.Types[arg].Type.Underlying().(*types.Slice); ok {
							if _, basic := sl.Elem().Underlying().(*types.Basic); basic {
								return true, true
							}
						}
					}
				}
			}
		}
		return true, false
	case "sort.Sort", "sort.Stable":
		if c25Text(arg) == text {
			return true, false
		}
		if conv, isC := arg.(*ast.CallExpr); isC && len(conv.Args) == 1 && c25Text(conv.Args[0]) == text {
			if tv, isT := p.info.Types[conv.Fun]; isT && tv.IsType() {
				switch tv.Type.String() {
				case "sort.StringSlice", "sort.IntSlice", "sort.Float64Slice":
					return true, true
				}
				return true, false
			}
		}
	}
	return
}

// c25AfterLoop decides what happens to a slice that the loop appended to.
// result: "sorted", "sortedby", "returned", or "" with a reason.
func c25AfterLoop(fn *c25Func, rs *ast.RangeStmt, text string, ex ast.Expr) (string, string) {
	p := fn.pkg
	// the innermost function (declaration or literal) containing the loop
	path := c25Path(fn.decl, rs)
	if path == nil {
		return "", "internal: loop not found"
	}
	start := 0
	for i, n := range path {
		if _, ok := n.(*ast.FuncLit); ok {
			start = i
		}
	}
	path = path[start:]
	okUse := func(scope ast.Node, from, to token.Pos, allowReturn bool) (bool, string) {
		for _, occ := range c25Occ(scope, text, from, to, p, true) {
			pp := c25Path(scope, occ)
			good := false
			for i := len(pp) - 2; i >= 0 && !good; i-- {
				switch a := pp[i].(type) {
				case *ast.AssignStmt:
					if len(a.Lhs) == 1 && len(a.Rhs) == 1 && c25Text(a.Lhs[0]) == text {
						if call, ok := ast.Unparen(a.Rhs[0]).(*ast.CallExpr); ok {
							if b, isB := c25Callee(p, call).(*types.Builtin); isB && b.Name() == "append" && c25Text(call.Args[0]) == text {
								// occurrence must be the LHS or the first argument, not an appended value
								if occ == ast.Unparen(a.Lhs[0]) || occ == ast.Unparen(call.Args[0]) {
									good = true
								}
							}
						}
					}
				case *ast.CallExpr:
					if b, isB := c25Callee(p, a).(*types.Builtin); isB && (b.Name() == "len" || b.Name() == "cap") && len(a.Args) == 1 && ast.Unparen(a.Args[0]) == occ {
						good = true
					}
				case *ast.ReturnStmt:
					if allowReturn {
						for _, r := range a.Results {
							if ast.Unparen(r) == occ {
								good = true
							}
						}
					}
				case ast.Stmt:
					i = -1
				}
			}
			if !good {
				return false, fmt.Sprintf("%s is used at line %d before being sorted", text, c25Fset.Position(occ.Pos()).Line)
			}
		}
		return true, ""
	}
	// walk outwards: statement lists that contain the loop (or a statement containing it)
	for i := len(path) - 2; i >= 0; i-- {
		list := c25StmtList(path[i])
		if list == nil {
			continue
		}
		child := path[i+1]
		idx := -1
		for j, s := range list {
			if ast.Node(s) == child {
				idx = j
			}
		}
		if idx < 0 {
			continue
		}
		for _, s := range list[idx+1:] {
			is, total := c25SortCall(p, s, text)
			if !is {
				continue
			}
			// region to inspect: from the loop's end -- or, if the loop sits inside another loop
			// below this statement list, from that loop's start -- to the sort call
			from := rs.End()
			for _, n := range path[i+1:] {
				switch n.(type) {
				case *ast.ForStmt, *ast.RangeStmt:
					if n != ast.Node(rs) && n.Pos() < from {
						from = n.Pos()
					}
				}
			}
			if ok, why := okUse(path[0], from, s.Pos(), false); !ok {
				return "", why
			}
			// inside the region before the loop itself only appends may occur; the loop's own
			// body is checked by the caller
			if total {
				return "sorted", ""
			}
			return "sortedby", ""
		}
	}
	// not sorted: returned as is?
	id, isID := ex.(*ast.Ident)
	if isID {
		if _, local := c25LocalIn(p, id, path[0]); local {
			if _, isSlice := p.info.Types[ex].Type.Underlying().(*types.Slice); isSlice {
				returned := false
				ast.Inspect(path[0], func(n ast.Node) bool {
					if r, ok := n.(*ast.ReturnStmt); ok && r.Pos() > rs.End() {
						for _, x := range r.Results {
							if c25Text(x) == text {
								returned = true
							}
						}
					}
					return true
				})
				// named result returned by a bare return
				if returned {
					from := rs.End()
					for _, n := range path[1:] {
						switch n.(type) {
						case *ast.ForStmt, *ast.RangeStmt:
							if n != ast.Node(rs) && n.Pos() < from {
								from = n.Pos()
							}
						}
					}
					if ok, why := okUse(path[0], from, path[0].End(), true); ok {
						if _, lit := path[0].(*ast.FuncLit); !lit {
							return "returned", ""
						}
					} else {
						return "", why + " (and is never sorted)"
					}
				}
			}
		}
	}
	return "", fmt.Sprintf("%s is filled in iteration order and never sorted in this function", text)
}

var c25Rank = map[string]int{"singleton": -1, "error_only": 0, "commutative_reduce": 1, "map_write_only": 2, "insert_or_fail": 2, "collect_then_sort": 3, "enumerate": 4,
	"collect_then_sort_by": 5, "map_write_derived_key": 6, "unique_select": 7, "recursive_or_call": 8, "order_sensitive": 9}

// c25Singleton: is node n only executed when len(<text>) == 1 ?  (an enclosing `if len(x) == 1`,
// a `case 1:` of `switch len(x)`, or a `case len(x) == 1 && ...:` clause)
func c25Singleton(fn *c25Func, n ast.Node, text string) bool {
	want := "len(" + text + ") == 1"
	conj := func(e ast.Expr) bool {
		var walk func(e ast.Expr) bool
		walk = func(e ast.Expr) bool {
			e = ast.Unparen(e)
			if c25Text(e) == want {
				return true
			}
			if b, ok := e.(*ast.BinaryExpr); ok && b.Op == token.LAND {
				return walk(b.X) || walk(b.Y)
			}
			return false
		}
		return e != nil && walk(e)
	}
	path := c25Path(fn.decl, n)
	for i := len(path) - 2; i >= 0; i-- {
		switch a := path[i].(type) {
		case *ast.IfStmt:
			if path[i+1] == ast.Node(a.Body) && conj(a.Cond) {
				return true
			}
		case *ast.CaseClause:
			inBody := false
			for _, st := range a.Body {
				if ast.Node(st) == path[i+1] {
					inBody = true
				}
			}
			if !inBody || len(a.List) != 1 || i == 0 {
				continue
			}
			if conj(a.List[0]) {
				return true
			}
			if i >= 2 {
				if sw, ok := path[i-2].(*ast.SwitchStmt); ok && sw.Tag != nil && c25Text(sw.Tag) == "len("+text+")" && c25Text(a.List[0]) == "1" {
					return true
				}
			}
		case *ast.BinaryExpr:
			// len(x) == 1 && ... x[0] ...
			if a.Op == token.LAND && path[i+1] == ast.Node(a.Y) && conj(a.X) {
				return true
			}
		case *ast.FuncLit:
			return false
		}
	}
	return false
}

func c25Classify(fn *c25Func, rs *ast.RangeStmt) (class, reason string, enumerates bool) {
	if c25Singleton(fn, rs, c25Text(rs.X)) {
		return "singleton", "only executed when len(" + c25Text(rs.X) + ") == 1", false
	}
	e := &c25Eff{p: fn.pkg, fn: fn, rs: rs, collectEx: map[string]ast.Expr{}, consts: map[string]string{}, expected: map[string]int{}, guards: map[string]ast.Node{},
		fresh: c25Fresh(fn.pkg, rs.Body)}
	if rs.Tok == token.ASSIGN {
		for _, kv := range []ast.Expr{rs.Key, rs.Value} {
			if kv == nil {
				continue
			}
			if id, ok := kv.(*ast.Ident); ok && id.Name == "_" {
				continue
			}
			e.selects = append(e.selects, c25Text(kv))
		}
	}
	e.stmt(rs.Body, 0)
	class = "commutative_reduce"
	var reasons []string
	up := func(c, why string) {
		if c25Rank[c] > c25Rank[class] {
			class = c
		}
		if why != "" {
			reasons = append(reasons, why)
		}
	}
	if e.errs && !e.exists && len(e.collects)+len(e.mapW)+len(e.reduces)+len(e.selects) == 0 {
		class = "error_only"
	}
	if len(e.reduces) > 0 {
		up("commutative_reduce", "")
	}
	if len(e.mapW) > 0 {
		if e.guarded {
			up("insert_or_fail", "")
		} else {
			up("map_write_only", "")
		}
	}
	for _, d := range c25Uniq(e.derived) {
		up("map_write_derived_key", "map write under a key computed from the element: "+d)
	}
	for _, t := range c25Uniq(e.collects) {
		kind, why := c25AfterLoop(fn, rs, t, e.collectEx[t])
		switch kind {
		case "sorted":
			up("collect_then_sort", "")
		case "sortedby":
			up("collect_then_sort_by", t+" is sorted with a caller-supplied comparison (keys must be distinct)")
		case "returned":
			up("enumerate", t+" is returned in iteration order; every caller is analysed as a range site")
			enumerates = true
		default:
			up("order_sensitive", why)
		}
	}
	for _, t := range c25Uniq(e.selects) {
		up("unique_select", "assigns "+t+" from the element (last one wins)")
	}
	for _, t := range c25Uniq(e.first) {
		up("unique_select", t+" (first one wins)")
	}
	for _, t := range c25Uniq(e.impure) {
		up("recursive_or_call", t)
	}
	for _, t := range c25Uniq(e.unknown) {
		up("order_sensitive", t)
	}
	// a location written by the body must not be read by it
	for t, n := range e.expected {
		if n < 0 {
			continue
		}
		got := len(c25Occ(rs.Body, t, rs.Body.Pos(), rs.Body.End(), fn.pkg, false))
		if got > n {
			up("order_sensitive", fmt.Sprintf("the body reads %s, which it also writes", t))
		}
	}
	return class, strings.Join(reasons, "; "), enumerates
}

func c25Uniq(l []string) []string {
	seen := map[string]bool{}
	var out []string
	for _, x := range l {
		if !seen[x] {
			seen[x] = true
			out = append(out, x)
		}
	}
	sort.Strings(out)
	return out
}

// ---------------------------------------------------------------- driver

func c25FuncHash(fn *c25Func) string { return c25Hash(c25Text(fn.decl)) }

func c25MkSite(fn *c25Func, at ast.Node, kind, over, class, reason string, body ast.Node) c25Site {
	pos := c25Fset.Position(at.Pos())
	bt := c25Text(body)
	snip := bt
	if len(snip) > 300 {
		snip = snip[:300] + " ..."
	}
	return c25Site{Pkg: c25Short(fn.pkg.Path), File: strings.TrimPrefix(pos.Filename, fn.pkg.Dir+"/"), Func: fn.name, Line: pos.Line,
		Kind: kind, Over: over, Class: class, Reason: reason, BodyHash: c25Hash(bt), FuncHash: c25FuncHash(fn), Body: snip}
}

func c25TaintedCall(p *c25Pkg, e ast.Expr) *c25Func {
	call, ok := ast.Unparen(e).(*ast.CallExpr)
	if !ok {
		return nil
	}
	if o, ok := c25Callee(p, call).(*types.Func); ok {
		if g := c25Funcs[o]; g != nil && g.taint {
			return g
		}
	}
	return nil
}

func c25Scan() []c25Site {
	var sites []c25Site
	for round := 0; ; round++ {
		sites = nil
		changed := false
		for _, fn := range c25All {
			if !fn.reach {
				continue
			}
			p := fn.pkg
			// variables holding an enumeration: v := tainted(...)
			held := map[types.Object]*c25Func{}
			ast.Inspect(fn.body, func(n ast.Node) bool {
				if a, ok := n.(*ast.AssignStmt); ok && len(a.Rhs) == 1 && len(a.Lhs) > 1 {
					if g := c25TaintedCall(p, a.Rhs[0]); g != nil {
						for _, l := range a.Lhs {
							if id, ok := l.(*ast.Ident); ok && id.Name != "_" {
								o := p.info.Defs[id]
								if o == nil {
									o = p.info.Uses[id]
								}
								if o != nil {
									if _, isSlice := o.Type().Underlying().(*types.Slice); isSlice && !c25IsErrType(o.Type()) {
										held[o] = g
									}
								}
							}
						}
					}
				}
				if a, ok := n.(*ast.AssignStmt); ok && len(a.Lhs) == len(a.Rhs) {
					for i, r := range a.Rhs {
						if g := c25TaintedCall(p, r); g != nil {
							if id, ok := a.Lhs[i].(*ast.Ident); ok {
								o := p.info.Defs[id]
								if o == nil {
									o = p.info.Uses[id]
								}
								if o != nil {
									held[o] = g
								}
							}
						}
					}
				}
				return true
			})
			enumOf := func(e ast.Expr) *c25Func {
				if g := c25TaintedCall(p, e); g != nil {
					return g
				}
				if id, ok := ast.Unparen(e).(*ast.Ident); ok {
					if o := p.info.Uses[id]; o != nil {
						return held[o]
					}
				}
				return nil
			}
			// a held enumeration that is sorted (natural order): uses inside the block of the sort
			// statement and after it see a canonical slice
			type sortedAt struct {
				pos   token.Pos
				block ast.Node
			}
			sortedHeld := map[types.Object]sortedAt{}
			if len(held) > 0 {
				var st0 []ast.Node
				ast.Inspect(fn.body, func(n ast.Node) bool {
					if n == nil {
						st0 = st0[:len(st0)-1]
						return true
					}
					st0 = append(st0, n)
					es, ok := n.(*ast.ExprStmt)
					if !ok {
						return true
					}
					for o := range held {
						if is, total := c25SortCall(p, es, o.Name()); is && total && len(st0) >= 2 {
							if call, ok := es.X.(*ast.CallExpr); ok {
								if id, ok := ast.Unparen(call.Args[0]).(*ast.Ident); ok && p.info.Uses[id] == o {
									sortedHeld[o] = sortedAt{es.Pos(), st0[len(st0)-2]}
								}
							}
						}
					}
					return true
				})
			}
			accounted := map[ast.Expr]bool{}
			var stack []ast.Node
			ast.Inspect(fn.body, func(n ast.Node) bool {
				if n == nil {
					stack = stack[:len(stack)-1]
					return true
				}
				stack = append(stack, n)
				rs, ok := n.(*ast.RangeStmt)
				if !ok {
					return true
				}
				t := p.info.Types[rs.X].Type
				if t == nil {
					sites = append(sites, c25MkSite(fn, rs, "map", "?", "order_sensitive", "range operand of unknown type", rs.Body))
					return true
				}
				kind := ""
				if _, isMap := t.Underlying().(*types.Map); isMap {
					kind = "map"
				} else if g := enumOf(rs.X); g != nil {
					kind = "enumeration"
					accounted[ast.Unparen(rs.X)] = true
				}
				if kind == "" {
					return true
				}
				class, reason, en := c25Classify(fn, rs)
				if en && fn.obj != nil && !fn.taint {
					fn.taint = true
					changed = true
				}
				over := c25Text(rs.X) + " : " + types.TypeString(t, func(q *types.Package) string { return q.Name() })
				sites = append(sites, c25MkSite(fn, rs, kind, over, class, reason, rs.Body))
				return true
			})
			// every other use of an enumeration
			var st2 []ast.Node
			ast.Inspect(fn.body, func(n ast.Node) bool {
				if n == nil {
					st2 = st2[:len(st2)-1]
					return true
				}
				st2 = append(st2, n)
				ex, ok := n.(ast.Expr)
				if !ok || accounted[ex] {
					return true
				}
				var g *c25Func
				switch x := ex.(type) {
				case *ast.CallExpr:
					g = c25TaintedCall(p, x)
				case *ast.Ident:
					if o := p.info.Uses[x]; o != nil {
						g = held[o]
						if sa, ok := sortedHeld[o]; ok && g != nil && x.Pos() >= sa.pos && x.Pos() < sa.block.End() {
							return true
						}
					}
				}
				if g == nil {
					return true
				}
				var parent, stmt ast.Node
				for i := len(st2) - 2; i >= 0; i-- {
					if _, isParen := st2[i].(*ast.ParenExpr); isParen {
						continue
					}
					if parent == nil {
						parent = st2[i]
					}
					if _, isStmt := st2[i].(ast.Stmt); isStmt {
						stmt = st2[i]
						break
					}
				}
				if stmt == nil {
					stmt = n
				}
				gname := c25Short(g.pkg.Path) + "." + g.name
				switch pa := parent.(type) {
				case *ast.CallExpr:
					if b, isB := c25Callee(p, pa).(*types.Builtin); isB && (b.Name() == "len" || b.Name() == "cap") {
						return true
					}
				case *ast.AssignStmt:
					if _, isCall := ex.(*ast.CallExpr); isCall {
						if len(pa.Rhs) == 1 && len(pa.Lhs) > 1 && ast.Unparen(pa.Rhs[0]) == ex {
							return true // results held by the variables on the left
						}
						for i, r := range pa.Rhs {
							if ast.Unparen(r) == ex && i < len(pa.Lhs) {
								if _, isID := pa.Lhs[i].(*ast.Ident); isID && len(pa.Lhs) == len(pa.Rhs) {
									return true // held; its uses are visited as identifiers
								}
							}
						}
					} else {
						for _, l := range pa.Lhs {
							if l == ex {
								return true
							}
						}
					}
				case *ast.RangeStmt:
					if ast.Unparen(pa.X) == ex {
						return true
					}
				case *ast.BinaryExpr:
					if c25Text(pa.X) == "nil" || c25Text(pa.Y) == "nil" {
						return true
					}
				case *ast.ReturnStmt:
					if fn.obj != nil {
						if !fn.taint {
							fn.taint = true
							changed = true
						}
						return true
					}
				case *ast.IndexExpr:
					if ast.Unparen(pa.X) == ex {
						if c25Singleton(fn, pa, c25Text(ex)) {
							sites = append(sites, c25MkSite(fn, pa, "enumeration-use", "result of "+gname, "singleton",
								"only executed when len("+c25Text(ex)+") == 1", stmt))
							return true
						}
						sites = append(sites, c25MkSite(fn, pa, "enumeration-use", "result of "+gname, "unique_select",
							"indexes a slice that "+gname+" filled in map order", stmt))
						return true
					}
				}
				sites = append(sites, c25MkSite(fn, ex, "enumeration-use", "result of "+gname, "order_sensitive",
					"a slice that "+gname+" filled in map order is used other than by range/len", stmt))
				return true
			})
		}
		if !changed || round > 20 {
			break
		}
	}
	sort.SliceStable(sites, func(i, j int) bool {
		a, b := sites[i], sites[j]
		if a.Pkg != b.Pkg {
			return a.Pkg < b.Pkg
		}
		if a.File != b.File {
			return a.File < b.File
		}
		if a.Line != b.Line {
			return a.Line < b.Line
		}
		return a.Kind < b.Kind
	})
	return sites
}

func c25CoqStr(s string) string {
	var b strings.Builder
	b.WriteString("[")
	for i, r := range s {
		if i > 0 {
			b.WriteString(";")
		}
		fmt.Fprintf(&b, "%d", r)
	}
	b.WriteString("]")
	return b.String()
}

func main() {
	repo := flag.String("repo", "/repo", "root of the ygot working tree")
	coq := flag.String("coq", "", "output: Gen_MapRanges.v")
	js := flag.String("json", "", "output: JSON rendering of the table")
	flag.Parse()
	c25Load(*repo)
	c25Index()
	c25Reach()
	sites := c25Scan()
	reach, tainted := 0, []string{}
	for _, f := range c25All {
		if f.reach {
			reach++
		}
		if f.taint {
			tainted = append(tainted, c25Short(f.pkg.Path)+"."+f.name)
		}
	}
	sort.Strings(tainted)
	if *coq != "" {
		var b strings.Builder
		b.WriteString("(* GENERATED by /verif/harness/maprange from /repo's working tree -- do not edit.\n")
		b.WriteString("   One entry per `for ... range` over a Go map (or over a slice filled in map order) in the\n")
		b.WriteString("   code the generators run. *)\n")
		b.WriteString("From Ygot Require Import Base.Base Gen.Determinism.\nOpen Scope N_scope.\n\n")
		b.WriteString("Definition sites : list site := [\n")
		for i, s := range sites {
			sep := ";"
			if i == len(sites)-1 {
				sep = ""
			}
			fmt.Fprintf(&b, "  (* %s/%s:%d %s *)\n  {| s_pkg := %s; s_func := %s; s_line := %d; s_class := %s;\n     s_body_hash := %s; s_func_hash := %s |}%s\n",
				s.Pkg, s.File, s.Line, s.Func, c25CoqStr(s.Pkg), c25CoqStr(s.Func), s.Line, s.Class, c25CoqStr(s.BodyHash), c25CoqStr(s.FuncHash), sep)
		}
		b.WriteString("].\n")
		if err := os.WriteFile(*coq, []byte(b.String()), 0644); err != nil {
			c25Die("%v", err)
		}
	}
	fh := map[string]string{}
	for _, f := range c25All {
		if f.name != "<pkgvar>" {
			fh[c25Short(f.pkg.Path)+"."+f.name] = c25FuncHash(f)
		}
	}
	out := map[string]interface{}{"func_hashes": fh, "sites": sites, "functions_analysed": reach, "functions_total": len(c25All), "enumerating_functions": tainted}
	var pk []string
	for _, p := range c25Order {
		pk = append(pk, c25Short(p.Path))
	}
	out["packages"] = pk
	enc, _ := json.MarshalIndent(out, "", " ")
	if *js != "" {
		if err := os.WriteFile(*js, enc, 0644); err != nil {
			c25Die("%v", err)
		}
	} else {
		os.Stdout.Write(enc)
	}
}
