//go:build verif

// Package reg is the registry through which the generated schema packages (produced on every
// run by /repo's generator from /verif/yang) make themselves known to the driver.
package reg

import (
	"sort"

	"github.com/openconfig/goyang/pkg/yang"
	"github.com/openconfig/ygot/ygot"
	"github.com/openconfig/ygot/ytypes"
)

// Pkg describes one generated package.
type Pkg struct {
	Name       string
	Flags      map[string]bool // compress, wrapper_unions, prefer_state, ...
	NewRoot    func() ygot.ValidatedGoStruct
	Schema     func() (*ytypes.Schema, error)
	Unmarshal  func([]byte, ygot.GoStruct, ...ytypes.UnmarshalOpt) error
	Enum       map[string]map[int64]ygot.EnumDefinition
	SchemaTree map[string]*yang.Entry
}

var pkgs = map[string]*Pkg{}

// Register is called from the init function added to every generated package.
func Register(p *Pkg) { pkgs[p.Name] = p }

// Get returns a registered package or nil.
func Get(name string) *Pkg { return pkgs[name] }

// Names lists the registered general-purpose packages in sorted order. Packages flagged
// "private" were generated for one stream (v-lref: leafref predicates; v-colon: enumeration
// names with ':') and are not handed to the others.
func Names() []string {
	var out []string
	for k, p := range pkgs {
		if p.Flags["private"] {
			continue
		}
		out = append(out, k)
	}
	sort.Strings(out)
	return out
}

// AllNames lists every registered package, private ones included.
func AllNames() []string {
	var out []string
	for k := range pkgs {
		out = append(out, k)
	}
	sort.Strings(out)
	return out
}
