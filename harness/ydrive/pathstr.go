//go:build verif

package main

import (
	"encoding/json"
	"fmt"
	"math/rand"
	"os"
	"reflect"
	"strings"

	gpb "github.com/openconfig/gnmi/proto/gnmi"
	"github.com/openconfig/ygot/ygot"
)

func init() { streams["pathstr"] = pathstrStream }

type jElem struct {
	Name string            `json:"name"`
	Keys map[string]string `json:"keys,omitempty"`
}

func toJPath(p *gpb.Path) []jElem {
	var out []jElem
	for _, e := range p.GetElem() {
		out = append(out, jElem{Name: e.GetName(), Keys: e.GetKey()})
	}
	return out
}

func fromJPath(es []jElem) *gpb.Path {
	p := &gpb.Path{}
	for _, e := range es {
		p.Elem = append(p.Elem, &gpb.PathElem{Name: e.Name, Key: e.Keys})
	}
	return p
}

func coqPath(p *gpb.Path) string {
	var els []string
	for _, e := range p.GetElem() {
		var kvs []string
		for _, k := range sortedKeys(e.GetKey()) {
			kvs = append(kvs, "("+coqStr(k)+","+coqStr(e.Key[k])+")")
		}
		els = append(els, "{| ename := "+coqStr(e.GetName())+"; ekeys := "+coqList(kvs)+" |}")
	}
	return coqList(els)
}

// genPath draws a path. kind: "wf" (names identifiers, values arbitrary non-empty),
// "plainvals" (values without specials), "malformed" (may hold empty names/keys/values).
func genPath(rng *rand.Rand, kind string) *gpb.Path {
	p := &gpb.Path{}
	n := rng.Intn(5)
	if kind == "wf" && n == 0 && rng.Intn(4) != 0 {
		n = 1
	}
	for i := 0; i < n; i++ {
		name := randIdent(rng)
		if rng.Intn(4) == 0 {
			name = randIdent(rng) + ":" + name
		}
		e := &gpb.PathElem{Name: name}
		nk := 0
		switch rng.Intn(4) {
		case 1, 2:
			nk = 1
		case 3:
			nk = 1 + rng.Intn(3)
		}
		if nk > 0 {
			e.Key = map[string]string{}
		}
		for j := 0; j < nk; j++ {
			k := randIdent(rng)
			var v string
			switch kind {
			case "plainvals":
				v = randIdent(rng)
			default:
				v = randValue(rng, 6, nastyRunes)
				if v == "" {
					v = string(pick(rng, nastyRunes))
				}
			}
			e.Key[k] = v
		}
		if kind == "malformed" {
			switch rng.Intn(6) {
			case 0:
				e.Name = ""
			case 1:
				if e.Key == nil {
					e.Key = map[string]string{}
				}
				e.Key[""] = "v"
			case 2:
				if e.Key == nil {
					e.Key = map[string]string{}
				}
				e.Key[randIdent(rng)] = ""
			case 3:
				e.Name = randValue(rng, 4, nastyRunes)
			case 4:
				if e.Key == nil {
					e.Key = map[string]string{}
				}
				e.Key[randValue(rng, 3, nastyRunes)] = randValue(rng, 3, nastyRunes)
			}
		}
		p.Elem = append(p.Elem, e)
	}
	return p
}

type parseOut struct {
	ok    bool
	panic bool
	path  *gpb.Path
}

func safeStructured(s string) (o parseOut) {
	defer func() {
		if r := recover(); r != nil {
			o = parseOut{panic: true}
		}
	}()
	p, err := ygot.StringToStructuredPath(s)
	if err != nil {
		return parseOut{}
	}
	return parseOut{ok: true, path: p}
}

type sliceOut struct {
	ok    bool
	panic bool
	elems []string
}

func safeSlice(s string) (o sliceOut) {
	defer func() {
		if r := recover(); r != nil {
			o = sliceOut{panic: true}
		}
	}()
	p, err := ygot.StringToStringSlicePath(s)
	if err != nil {
		return sliceOut{}
	}
	//lint:ignore SA1019 legacy form is part of the property
	return sliceOut{ok: true, elems: p.Element}
}

func coqParseOut(o parseOut) string {
	switch {
	case o.panic:
		return coqPanic
	case !o.ok:
		return coqErr
	}
	return coqOk(coqPath(o.path))
}

func coqSliceOut(o sliceOut) string {
	switch {
	case o.panic:
		return coqPanic
	case !o.ok:
		return coqErr
	}
	return coqOk(coqStrList(o.elems))
}

func pathEqual(a, b *gpb.Path) bool {
	if len(a.GetElem()) != len(b.GetElem()) {
		return false
	}
	for i := range a.GetElem() {
		x, y := a.Elem[i], b.Elem[i]
		if x.GetName() != y.GetName() || len(x.GetKey()) != len(y.GetKey()) {
			return false
		}
		for k, v := range x.GetKey() {
			if w, ok := y.GetKey()[k]; !ok || w != v {
				return false
			}
		}
	}
	return true
}

// inDomain: names and key names are identifiers (optionally prefixed), values non-empty.
func isIdentRune(r rune) bool {
	return r == '_' || r == '-' || r == '.' || r == ':' || (r >= 'a' && r <= 'z') || (r >= 'A' && r <= 'Z') || (r >= '0' && r <= '9')
}
func isIdent(s string) bool {
	if s == "" {
		return false
	}
	for _, r := range s {
		if !isIdentRune(r) {
			return false
		}
	}
	return true
}
func inDomain(p *gpb.Path) bool {
	for _, e := range p.GetElem() {
		if !isIdent(e.GetName()) {
			return false
		}
		for k, v := range e.GetKey() {
			if !isIdent(k) || v == "" {
				return false
			}
		}
	}
	return true
}

func hasBackslashValue(p *gpb.Path) bool {
	for _, e := range p.GetElem() {
		for _, v := range e.GetKey() {
			if strings.ContainsRune(v, '\\') {
				return true
			}
		}
	}
	return false
}

// c08Oracle evaluates the property statement on the implementation for one path in the domain.
func c08Oracle(p *gpb.Path, sum *Summary) {
	sum.OracleRuns++
	s, err := ygot.PathToString(p)
	sig := "roundtrip"
	if hasBackslashValue(p) {
		sig = "backslash-in-key-value"
	}
	if err != nil {
		sum.finding(Finding{Signature: sig + "/print-error", What: "PathToString fails on a path in the domain: " + err.Error(), Input: map[string]interface{}{"path": toJPath(p)}})
		return
	}
	o := safeStructured(s)
	if !o.ok || !pathEqual(o.path, p) {
		var got interface{} = "error"
		if o.panic {
			got = "panic"
		} else if o.ok {
			got = toJPath(o.path)
		}
		sum.finding(Finding{Signature: sig, What: "StringToStructuredPath(PathToString(p)) != p", Input: map[string]interface{}{"path": toJPath(p)}, Observed: map[string]interface{}{"string": s, "parsed": got}, Expected: toJPath(p)})
	}
	if sig != "roundtrip" {
		// a different defect must not hide behind the backslash finding: the same path with
		// every backslash replaced by a plain rune has to round-trip
		q := &gpb.Path{}
		for _, e := range p.GetElem() {
			ne := &gpb.PathElem{Name: e.GetName()}
			if e.Key != nil {
				ne.Key = map[string]string{}
				for k, v := range e.Key {
					ne.Key[k] = strings.ReplaceAll(v, `\`, "b")
				}
			}
			q.Elem = append(q.Elem, ne)
		}
		c08Oracle(q, sum)
	}
	// legacy slice law: StringToStringSlicePath(PathToString(p)).Element == PathToStrings(p)
	strs, err2 := ygot.PathToStrings(p)
	so := safeSlice(s)
	if err2 != nil || !so.ok || !reflect.DeepEqual(so.elems, strs) {
		sum.finding(Finding{Signature: sig + "/slice", What: "StringToStringSlicePath(PathToString(p)).Element != PathToStrings(p)", Input: map[string]interface{}{"path": toJPath(p)}, Observed: so.elems, Expected: strs})
	}
}

func pathstrStream(rng *rand.Rand, n int, tier string, out string) (*Summary, error) {
	sum := &Summary{Rule: "print cases: random gNMI paths (wf: identifier names, arbitrary non-empty key values over an alphabet over-weighting / [ ] = \\ space and non-ASCII; malformed: empty names/keys/values, specials in names); parse cases: arbitrary strings over the same alphabet and mutations of printed paths. A case is non-trivial if it holds a key value with a special rune or is a parse case with '[' in it; distinct by input."}
	cf := &caseFile{header: "From Ygot Require Import Base.Base Path.PathString Corr.PathStringCorr.", typ: "pcase", fn: "mismatches"}
	seen := map[string]bool{}
	id := 0

	addPrint := func(p *gpb.Path, kind string) string {
		s, err := ygot.PathToString(p)
		strs, err2 := ygot.PathToStrings(p)
		so, ss := coqErr, coqErr
		if err == nil {
			so = coqOk(coqStr(s))
		}
		if err2 == nil {
			ss = coqOk(coqStrList(strs))
		}
		cf.add(fmt.Sprintf("PPrint %d %s %s %s", id, coqPath(p), so, ss))
		id++
		sum.count("print_kind", kind)
		sum.count("print_outcome", map[bool]string{true: "ok", false: "err"}[err == nil])
		key := "P" + coqPath(p)
		if !seen[key] {
			seen[key] = true
			nt := false
			for _, e := range p.GetElem() {
				for _, v := range e.GetKey() {
					if strings.ContainsAny(v, "/[]=\\ ") {
						nt = true
					}
				}
			}
			if nt {
				sum.Nontrivial++
			}
		}
		sum.sample(map[string]interface{}{"print": toJPath(p), "string": s})
		return s
	}
	addParse := func(s string, kind string) {
		o := safeStructured(s)
		sl := safeSlice(s)
		cf.add(fmt.Sprintf("PParse %d %s %s %s", id, coqStr(s), coqParseOut(o), coqSliceOut(sl)))
		id++
		sum.count("parse_kind", kind)
		oc := "err"
		if o.panic || sl.panic {
			oc = "panic"
			sum.finding(Finding{Signature: "panic", What: "StringToPath panics", Input: map[string]interface{}{"string": s}})
		} else if o.ok {
			oc = "ok"
		}
		sum.count("parse_outcome", oc)
		key := "S" + s
		if !seen[key] {
			seen[key] = true
			if strings.Contains(s, "[") {
				sum.Nontrivial++
			}
		}
		if len(sum.Samples) < 8 && kind != "printed" {
			sum.Samples = append(sum.Samples, map[string]interface{}{"parse": s, "ok": o.ok})
		}
	}

	if replayFile != "" {
		var rp struct {
			Path   []jElem `json:"path"`
			String *string `json:"string"`
		}
		b, err := os.ReadFile(replayFile)
		if err != nil {
			return nil, err
		}
		var wrap struct {
			Case json.RawMessage `json:"case"`
		}
		if err := json.Unmarshal(b, &wrap); err != nil {
			return nil, err
		}
		if err := json.Unmarshal(wrap.Case, &rp); err != nil {
			return nil, err
		}
		if rp.String != nil {
			addParse(*rp.String, "replay")
		} else {
			p := fromJPath(rp.Path)
			s := addPrint(p, "replay")
			addParse(s, "printed")
			if inDomain(p) {
				c08Oracle(p, sum)
			}
		}
		sum.Cases = id
		files, err := cf.write(out, "pathstr", 400)
		sum.Extra = map[string]interface{}{"case_files": files}
		return sum, err
	}

	// corpus of past failures and hand-picked corner cases first
	corner := []map[string]string{
		{"k": `x\y`}, {"k": `x]/y`}, {"k": `x//y`}, {"k": `x/./y`}, {"k": `x/../y`}, {"k": `/`}, {"k": `]`}, {"k": `=`},
		{"k": `[`}, {"k": ` `}, {"k": `a b`}, {"k": `é世`}, {"k": `\`}, {"k": `\]`}, {"k": `]]`}, {"k": `a]`}, {"k": `..`}, {"k": `.`},
		{"k1": `a/b`, "k2": `c]d`}, {"k": `*`}, {"k": `a[b=c]`},
	}
	for _, kv := range corner {
		p := &gpb.Path{Elem: []*gpb.PathElem{{Name: "a"}, {Name: "l", Key: kv}, {Name: "z"}}}
		s := addPrint(p, "corner")
		addParse(s, "printed")
		c08Oracle(p, sum)
	}
	for _, s := range []string{"", "/", "//", "a", "/a/", "/a//b", "/a[", "/a]", "/a[k", "/a[k=", "/a[k=v", "/a[k=v]x", "/a[k=v]x[j=w]", "/[k=v]", "/a[=v]", "/a[k=]", "/a[k=v][k=w]", `/a\/b`, `/a[k=\]]`, `/a[k=\\]`, `/a b`, "/a[k k=v]", "/a[[k=v]", "/a[k=[v]", "/a/./b", "/a/../b", `\`, `/a\`, "/a[k=v]/", "/é/世[é=世]"} {
		addParse(s, "corner")
	}

	for id < n {
		switch rng.Intn(10) {
		case 0, 1, 2, 3:
			p := genPath(rng, "wf")
			s := addPrint(p, "wf")
			addParse(s, "printed")
			c08Oracle(p, sum)
		case 4:
			p := genPath(rng, "plainvals")
			s := addPrint(p, "plainvals")
			addParse(s, "printed")
			c08Oracle(p, sum)
		case 5, 6:
			p := genPath(rng, "malformed")
			s := addPrint(p, "malformed")
			addParse(s, "printed-malformed")
			if inDomain(p) {
				c08Oracle(p, sum)
			}
		case 7, 8:
			// arbitrary string
			addParse(randValue(rng, 14, []rune{'/', '[', ']', '=', '\\', ' ', '/', '[', ']', '=', 'é', '.', ':'}), "random")
		case 9:
			// mutation of a printed path: delete / insert / replace one rune
			p := genPath(rng, "wf")
			s, _ := ygot.PathToString(p)
			rs := []rune(s)
			if len(rs) > 0 {
				i := rng.Intn(len(rs))
				switch rng.Intn(3) {
				case 0:
					rs = append(rs[:i:i], rs[i+1:]...)
				case 1:
					rs = append(rs[:i:i], append([]rune{pick(rng, nastyRunes)}, rs[i:]...)...)
				case 2:
					rs[i] = pick(rng, nastyRunes)
				}
			}
			addParse(string(rs), "mutated")
		}
	}
	if tier == "thorough" {
		// exhaustive: all values of length <= 4 over an 8-symbol alphabet, as the single key value
		alpha := []rune{'a', '/', '[', ']', '=', '\\', ' ', 'é'}
		var rec func(prefix []rune, depth int)
		exh := 0
		rec = func(prefix []rune, depth int) {
			if len(prefix) > 0 {
				p := &gpb.Path{Elem: []*gpb.PathElem{{Name: "l", Key: map[string]string{"k": string(prefix)}}, {Name: "z"}}}
				c08Oracle(p, sum)
				exh++
				if exh%7 == 0 { // every 7th also goes through the model
					s := addPrint(p, "exhaustive")
					addParse(s, "printed")
				}
			}
			if depth == 0 {
				return
			}
			for _, r := range alpha {
				rec(append(prefix[:len(prefix):len(prefix)], r), depth-1)
			}
		}
		rec(nil, 4)
		sum.Extra = map[string]interface{}{"exhaustive_values": exh}
	}
	sum.Cases = id
	files, err := cf.write(out, "pathstr", 400)
	if sum.Extra == nil {
		sum.Extra = map[string]interface{}{}
	}
	sum.Extra["case_files"] = files
	return sum, err
}
