//go:build verif

package main

import (
	"fmt"
	"math/rand"
	"os"

	"github.com/openconfig/ygot/internal/verifharness/reg"
	"github.com/openconfig/ygot/ygot"
)

func init() { streams["treeprobe"] = treeprobeStream }

// treeprobeStream is a self-test of the bridge: generated trees must validate and the printed
// terms must type-check in Coq.
func treeprobeStream(rng *rand.Rand, n int, tier string, out string) (*Summary, error) {
	sum := &Summary{Rule: "bridge self-test"}
	for _, name := range reg.Names() {
		p := reg.Get(name)
		sch, env := schemaTerm(p)
		g := newTreeGen(rng, p)
		var trees []string
		invalid := 0
		for i := 0; i < n; i++ {
			t := g.genTree()
			if err := t.Validate(); err != nil {
				invalid++
				if invalid < 4 {
					fmt.Fprintln(os.Stderr, name, "invalid generated tree:", err)
				}
			}
			trees = append(trees, treeTerm(t))
			if i == 0 {
				js, _ := ygot.EmitJSON(t, &ygot.EmitJSONConfig{Format: ygot.RFC7951, RFC7951Config: &ygot.RFC7951JSONConfig{AppendModuleName: true}})
				sum.sample(map[string]interface{}{"pkg": name, "json": js, "leaves": g.leafCount})
			}
			sum.count("leaves_"+name, fmt.Sprintf("%d", g.leafCount/10*10))
		}
		sum.count("invalid", name+fmt.Sprintf(":%d", invalid))
		body := "From Ygot Require Import Tree.Tree.\nOpen Scope N_scope.\n" +
			"Definition sch : schema := " + sch + ".\nDefinition env : enum_env := " + env + ".\n" +
			"Definition trees : list tree := " + coqList(trees) + ".\nDefinition M := Eval vm_compute in (@nil nat).\nPrint M.\n"
		if err := os.WriteFile(out+"/cases_treeprobe_"+name+".v", []byte(body), 0o644); err != nil {
			return nil, err
		}
		sum.Cases += n
	}
	return sum, nil
}
