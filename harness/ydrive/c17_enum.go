//go:build verif

package main

// Stream "enum" (property C17): every ΛEnum table of every generated package, every defined
// value and a pool of undefined values through the real renderers (ygot.EnumName,
// EnumLogString, KeyValueAsString, EncodeTypedValue, ConstructIETFJSON and TogNMINotifications
// of a leaf / union leaf / leaf-list holding the value) and every name variant back through
// ytypes.StringToType (castToEnumValue) and the generated Unmarshal.  The tables of the
// enum-naming flag matrix (generated, not compiled, by lib/c17_pre.py into build/c17gen) are
// installed behind one dynamic GoEnum type so that the same real functions run on them.
// Oracle: bijection, UNSET/undefined handling and agreement of every table with the YANG enum /
// identity statements read independently (p.SchemaTree, and goyang on the .yang files).

import (
	"encoding/json"
	"fmt"
	"math"
	"math/rand"
	"os"
	"path/filepath"
	"reflect"
	"sort"
	"strings"
	"unicode"

	"github.com/openconfig/goyang/pkg/yang"
	"github.com/openconfig/ygot/internal/verifharness/reg"
	"github.com/openconfig/ygot/util"
	"github.com/openconfig/ygot/ygot"
	"github.com/openconfig/ygot/ytypes"

	gnmipb "github.com/openconfig/gnmi/proto/gnmi"
)

func init() { streams["enum"] = c17EnumStream }

// ---------------------------------------------------------------- tables

type c17Entry struct {
	Num  int64  `json:"num"`
	Name string `json:"name"`
	Mod  string `json:"mod"`
}

type c17Table struct {
	Type    string     `json:"type"`
	Entries []c17Entry `json:"entries"` // ascending Num
}

type c17Config struct {
	Name   string     `json:"name"`
	Group  string     `json:"group"` // standard | matrix | adversarial
	Yang   []string   `json:"yang"`
	Path   []string   `json:"path"`
	Flags  []string   `json:"flags"`
	Ok     bool       `json:"ok"`
	Tables []c17Table `json:"tables"`
}

type c17Manifest struct {
	Configs []c17Config `json:"configs"`
}

func c17TableOf(name string, m map[int64]ygot.EnumDefinition) c17Table {
	t := c17Table{Type: name}
	for k, d := range m {
		t.Entries = append(t.Entries, c17Entry{Num: k, Name: d.Name, Mod: d.DefiningModule})
	}
	sort.Slice(t.Entries, func(i, j int) bool { return t.Entries[i].Num < t.Entries[j].Num })
	return t
}

func (t c17Table) content() string {
	var b strings.Builder
	for _, e := range t.Entries {
		fmt.Fprintf(&b, "%d=%q@%q;", e.Num, e.Name, e.Mod)
	}
	return b.String()
}

func (t c17Table) term() string {
	var vals []string
	for _, e := range t.Entries {
		vals = append(vals, fmt.Sprintf("{| ev_num := %s; ev_name := %s; ev_mod := %s |}", coqZ(e.Num), coqStr(e.Name), coqStr(e.Mod)))
	}
	return coqList(vals)
}

func (t c17Table) lookup(n int64) (c17Entry, bool) {
	for _, e := range t.Entries {
		if e.Num == n {
			return e, true
		}
	}
	return c17Entry{}, false
}

func (t c17Table) isIdentity() bool {
	for _, e := range t.Entries {
		if e.Mod != "" {
			return true
		}
	}
	return false
}

func c17EnvTerm(ts []c17Table) string {
	var tabs []string
	for _, t := range ts {
		tabs = append(tabs, "("+coqStr(t.Type)+", "+t.term()+")")
	}
	return coqList(tabs)
}

// ---------------------------------------------------------------- one dynamic GoEnum type

// c17DynEnum runs the real enum functions on a table that is not compiled into the driver:
// enumFieldToString / castToEnumValue / EnumLogString look the table up by the Go type name.
type c17DynEnum int64

var c17DynMap = map[string]map[int64]ygot.EnumDefinition{}

func (c17DynEnum) IsYANGGoEnum() {}

func (c17DynEnum) ΛMap() map[string]map[int64]ygot.EnumDefinition { return c17DynMap }

func (e c17DynEnum) String() string { return ygot.EnumLogString(e, int64(e), "c17DynEnum") }

func c17InstallDyn(t c17Table) {
	m := map[int64]ygot.EnumDefinition{}
	for _, e := range t.Entries {
		m[e.Num] = ygot.EnumDefinition{Name: e.Name, DefiningModule: e.Mod}
	}
	c17DynMap = map[string]map[int64]ygot.EnumDefinition{"c17DynEnum": m}
}

// ---------------------------------------------------------------- outcomes

type c17Res struct {
	val  string
	strs []string
	num  int64
	none bool // Ok but nothing rendered
	err  bool
	pan  bool
	msg  string
}

func (r c17Res) ok() bool { return !r.err && !r.pan }

func (r c17Res) strTerm() string {
	switch {
	case r.pan:
		return coqPanic
	case r.err:
		return coqErr
	}
	return coqOk(coqStr(r.val))
}

func (r c17Res) optTerm() string {
	switch {
	case r.pan:
		return coqPanic
	case r.err:
		return coqErr
	case r.none:
		return "(Ok None)"
	}
	return "(Ok (Some " + coqStr(r.val) + "))"
}

func (r c17Res) listTerm() string {
	switch {
	case r.pan:
		return coqPanic
	case r.err:
		return coqErr
	}
	return coqOk(coqStrList(r.strs))
}

func (r c17Res) numTerm() string {
	switch {
	case r.pan:
		return coqPanic
	case r.err:
		return coqErr
	}
	return coqOk(coqZ(r.num))
}

func (r c17Res) brief() string {
	switch {
	case r.pan:
		return "panic: " + r.msg
	case r.err:
		return "error: " + r.msg
	case r.none:
		return "(not rendered)"
	case r.strs != nil:
		return fmt.Sprintf("%q", r.strs)
	}
	return fmt.Sprintf("%q", r.val)
}

func c17Try(f func() c17Res) (r c17Res) {
	defer func() {
		if x := recover(); x != nil {
			r = c17Res{pan: true, msg: fmt.Sprint(x)}
		}
	}()
	return f()
}

func c17Err(err error) c17Res { return c17Res{err: true, msg: err.Error()} }

// ---------------------------------------------------------------- the real functions

func c17EnumOf(t reflect.Type, n int64) ygot.GoEnum {
	v := reflect.New(t).Elem()
	v.SetInt(n)
	return v.Interface().(ygot.GoEnum)
}

func c17Name(e ygot.GoEnum) c17Res {
	return c17Try(func() c17Res {
		s, err := ygot.EnumName(e)
		if err != nil {
			return c17Err(err)
		}
		return c17Res{val: s}
	})
}

// c17Log returns EnumLogString's text, none=true for the out-of-range message; it also checks
// that the generated String method agrees.
func c17Log(e ygot.GoEnum, n int64, tn string) c17Res {
	return c17Try(func() c17Res {
		s := ygot.EnumLogString(e, n, tn)
		if st, ok := e.(fmt.Stringer); ok && st.String() != s {
			return c17Res{err: true, msg: "String() differs from EnumLogString: " + st.String()}
		}
		if s == fmt.Sprintf("out-of-range %s enum value: %v", tn, n) {
			return c17Res{none: true}
		}
		return c17Res{val: s}
	})
}

func c17Key(e ygot.GoEnum) c17Res {
	return c17Try(func() c17Res {
		s, err := ygot.KeyValueAsString(e)
		if err != nil {
			return c17Err(err)
		}
		return c17Res{val: s}
	})
}

func c17Typed(e ygot.GoEnum) c17Res {
	return c17Try(func() c17Res {
		tv, err := ygot.EncodeTypedValue(e, gnmipb.Encoding_JSON_IETF)
		if err != nil {
			return c17Err(err)
		}
		sv, ok := tv.GetValue().(*gnmipb.TypedValue_StringVal)
		if !ok {
			return c17Res{err: true, msg: fmt.Sprintf("not a string_val: %v", tv)}
		}
		return c17Res{val: sv.StringVal}
	})
}

func c17Cast(t reflect.Type, s string) c17Res {
	return c17Try(func() c17Res {
		v, err := ytypes.StringToType(t, s)
		if err != nil {
			return c17Err(err)
		}
		return c17Res{num: v.Int()}
	})
}

// ---------------------------------------------------------------- leaf sites of a compiled package

type c17Site struct {
	kind  string // leaf | union | leaflist
	idx   []int  // field indices from the root struct; all but the last are containers
	jpath []string
	ft    reflect.Type
	entry *yang.Entry
	goPth string
}

func c17Walk(t reflect.Type, e *yang.Entry, idx []int, jpath []string, gp string, out *[]c17Site) {
	for i := 0; i < t.NumField(); i++ {
		f := t.Field(i)
		tag, ok := f.Tag.Lookup("path")
		if !ok {
			continue
		}
		ce, err := util.ChildSchema(e, f)
		if err != nil || ce == nil {
			continue
		}
		ix := append(append([]int{}, idx...), i)
		jp := append(append([]string{}, jpath...), strings.Split(strings.Split(tag, "|")[0], "/")...)
		name := gp + "." + f.Name
		switch {
		case ce.IsLeaf() && f.Type.Kind() == reflect.Int64 && f.Type.Implements(goEnumT):
			*out = append(*out, c17Site{kind: "leaf", idx: ix, jpath: jp, ft: f.Type, entry: ce, goPth: name})
		case ce.IsLeaf() && f.Type.Kind() == reflect.Interface:
			*out = append(*out, c17Site{kind: "union", idx: ix, jpath: jp, ft: f.Type, entry: ce, goPth: name})
		case ce.IsLeafList() && f.Type.Kind() == reflect.Slice && f.Type.Elem().Kind() == reflect.Int64 && f.Type.Elem().Implements(goEnumT):
			*out = append(*out, c17Site{kind: "leaflist", idx: ix, jpath: jp, ft: f.Type, entry: ce, goPth: name})
		case ce.IsContainer() && f.Type.Kind() == reflect.Ptr && f.Type.Elem().Kind() == reflect.Struct:
			c17Walk(f.Type.Elem(), ce, ix, jp, name, out)
		}
	}
}

// c17Build makes a root whose only populated leaf is the site, holding the given values.
func c17Build(p *reg.Pkg, s c17Site, et reflect.Type, ns []int64) (ygot.ValidatedGoStruct, reflect.Value, bool) {
	root := p.NewRoot()
	parent := reflect.ValueOf(root)
	v := parent.Elem()
	for k, ix := range s.idx {
		f := v.Field(ix)
		if k < len(s.idx)-1 {
			f.Set(reflect.New(f.Type().Elem()))
			parent, v = f, f.Elem()
			continue
		}
		switch s.kind {
		case "leaf":
			f.SetInt(ns[0])
		case "leaflist":
			sl := reflect.MakeSlice(s.ft, 0, len(ns))
			for _, n := range ns {
				x := reflect.New(et).Elem()
				x.SetInt(n)
				sl = reflect.Append(sl, x)
			}
			f.Set(sl)
		case "union":
			x := reflect.New(et).Elem()
			x.SetInt(ns[0])
			if meth := parent.MethodByName("To_" + s.ft.Name()); meth.IsValid() {
				o := meth.Call([]reflect.Value{x})
				if !o[1].IsNil() {
					return nil, reflect.Value{}, false
				}
				f.Set(o[0])
			} else if et.Implements(s.ft) {
				f.Set(x)
			} else {
				return nil, reflect.Value{}, false
			}
		}
		return root, f, true
	}
	return nil, reflect.Value{}, false
}

func c17JSONAt(root ygot.GoStruct, jpath []string, pmi bool, list bool) c17Res {
	return c17Try(func() c17Res {
		m, err := ygot.ConstructIETFJSON(root, &ygot.RFC7951JSONConfig{PrependModuleNameIdentityref: pmi})
		if err != nil {
			return c17Err(err)
		}
		jb, err := json.Marshal(m)
		if err != nil {
			return c17Err(err)
		}
		var doc interface{}
		if err := json.Unmarshal(jb, &doc); err != nil {
			return c17Err(err)
		}
		got, ok := getNested(doc, jpath)
		if !ok {
			if list {
				return c17Res{strs: []string{}, none: true}
			}
			return c17Res{none: true}
		}
		if list {
			arr, ok := got.([]interface{})
			if !ok {
				return c17Res{err: true, msg: fmt.Sprintf("leaf-list is not an array: %v", got)}
			}
			r := c17Res{strs: []string{}}
			for _, x := range arr {
				s, ok := x.(string)
				if !ok {
					return c17Res{err: true, msg: fmt.Sprintf("element is not a string: %v", x)}
				}
				r.strs = append(r.strs, s)
			}
			return r
		}
		s, ok := got.(string)
		if !ok {
			return c17Res{err: true, msg: fmt.Sprintf("leaf is not a JSON string: %v", got)}
		}
		return c17Res{val: s}
	})
}

func c17GNMIAt(root ygot.GoStruct, list bool) c17Res {
	return c17Try(func() c17Res {
		ns, err := ygot.TogNMINotifications(root, 1, ygot.GNMINotificationsConfig{UsePathElem: true})
		if err != nil {
			return c17Err(err)
		}
		var ups []*gnmipb.Update
		for _, n := range ns {
			ups = append(ups, n.Update...)
		}
		if len(ups) == 0 {
			if list {
				return c17Res{strs: []string{}, none: true}
			}
			return c17Res{none: true}
		}
		if len(ups) > 1 {
			return c17Res{err: true, msg: fmt.Sprintf("%d updates for one leaf", len(ups))}
		}
		tv := ups[0].Val
		if list {
			ll, ok := tv.GetValue().(*gnmipb.TypedValue_LeaflistVal)
			if !ok {
				return c17Res{err: true, msg: fmt.Sprintf("not a leaflist_val: %v", tv)}
			}
			r := c17Res{strs: []string{}}
			for _, el := range ll.LeaflistVal.Element {
				sv, ok := el.GetValue().(*gnmipb.TypedValue_StringVal)
				if !ok {
					return c17Res{err: true, msg: fmt.Sprintf("element not a string_val: %v", el)}
				}
				r.strs = append(r.strs, sv.StringVal)
			}
			return r
		}
		sv, ok := tv.GetValue().(*gnmipb.TypedValue_StringVal)
		if !ok {
			return c17Res{err: true, msg: fmt.Sprintf("not a string_val: %v", tv)}
		}
		return c17Res{val: sv.StringVal}
	})
}

// c17UnmarshalAt parses {"path": "<name>"} with the generated Unmarshal and reads the field.
func c17UnmarshalAt(p *reg.Pkg, s c17Site, name string) c17Res {
	return c17Try(func() c17Res {
		jb, _ := json.Marshal(nestJSON(s.jpath, name))
		root := p.NewRoot()
		if err := p.Unmarshal(jb, root); err != nil {
			return c17Err(err)
		}
		v := reflect.ValueOf(root).Elem()
		for k, ix := range s.idx {
			f := v.Field(ix)
			if k == len(s.idx)-1 {
				return c17Res{num: f.Int()}
			}
			if f.IsNil() {
				return c17Res{err: true, msg: "container not created"}
			}
			v = f.Elem()
		}
		return c17Res{err: true, msg: "no field"}
	})
}

// ---------------------------------------------------------------- inputs

func c17Values(rng *rand.Rand, t c17Table, undefined int) (defined, undef []int64) {
	have := map[int64]bool{}
	mn, mx := int64(0), int64(0)
	for _, e := range t.Entries {
		defined = append(defined, e.Num)
		have[e.Num] = true
		if e.Num < mn {
			mn = e.Num
		}
		if e.Num > mx {
			mx = e.Num
		}
	}
	add := func(n int64) {
		if !have[n] && len(undef) < undefined {
			have[n] = true
			undef = append(undef, n)
		}
	}
	for _, n := range []int64{0, -1, mx + 1, mn - 1, math.MaxInt64, math.MinInt64, 1 << 31, 1 << 32, mx + 2, -mx, 255, 256, -128, 65536} {
		add(n)
	}
	for len(undef) < undefined {
		switch rng.Intn(4) {
		case 0:
			add(rng.Int63n(64) - 32)
		case 1:
			add(rng.Int63())
		case 2:
			add(-rng.Int63())
		default:
			add(rng.Int63n(1 << 20))
		}
	}
	return defined, undef
}

func c17SwapCase(s string) string {
	r := []rune(s)
	for i, c := range r {
		switch {
		case unicode.IsUpper(c):
			r[i] = unicode.ToLower(c)
			return string(r)
		case unicode.IsLower(c):
			r[i] = unicode.ToUpper(c)
			return string(r)
		}
	}
	return s + "X"
}

// c17Names lists the name variants parsed against a table, with the reading each must have
// under the property (want = value, or ok=false: must be rejected).  lenient marks the inputs
// whose acceptance is the known lenient-prefix behaviour (any one prefix is stripped unchecked).
type c17NameIn struct {
	s       string
	kind    string
	want    int64
	wantOk  bool
	lenient bool
}

func c17Names(t c17Table) []c17NameIn {
	var out []c17NameIn
	names := map[string]bool{}
	for _, e := range t.Entries {
		names[e.Name] = true
	}
	for _, e := range t.Entries {
		out = append(out, c17NameIn{s: e.Name, kind: "name", want: e.Num, wantOk: true})
		if e.Mod != "" {
			out = append(out, c17NameIn{s: e.Mod + ":" + e.Name, kind: "module:name", want: e.Num, wantOk: true})
		}
		out = append(out, c17NameIn{s: "c17-bogus:" + e.Name, kind: "foreign-prefix", want: e.Num, lenient: true})
		w := c17SwapCase(e.Name)
		if i := strings.LastIndex(e.Name, ":"); i >= 0 { // enum "ipv4:unicast": change the case of the part castToEnumValue compares
			w = e.Name[:i+1] + c17SwapCase(e.Name[i+1:])
		}
		if !names[w] {
			out = append(out, c17NameIn{s: w, kind: "wrong-case"})
		}
		out = append(out, c17NameIn{s: "a:b:" + e.Name, kind: "two-prefixes"})
		out = append(out, c17NameIn{s: e.Name + " ", kind: "trailing-space"})
		out = append(out, c17NameIn{s: ":" + e.Name, kind: "empty-prefix", want: e.Num, lenient: true})
	}
	for _, s := range []string{"c17-no-such-name", "", ":", "UNSET", "0", "1"} {
		if !names[s] {
			out = append(out, c17NameIn{s: s, kind: "unknown"})
		}
	}
	return out
}

// ---------------------------------------------------------------- schema side (independent reading)

// c17Spec is what one YANG enumeration / identityref type says its table must be.
type c17Spec struct {
	kind    string // enumeration | identityref
	where   string
	entries []c17Entry // expected table; Mod "?" = unknown (schema read from the gzipped SchemaTree)
	vals    []c17YangVal
}

// dupNames: two identities of one base share a name; the module the generator attaches to them
// then depends on the order goyang lists the identities in, which varies between runs.
func (sp c17Spec) dupNames() bool {
	seen := map[string]bool{}
	for _, v := range sp.vals {
		if seen[v.Name] {
			return true
		}
		seen[v.Name] = true
	}
	return false
}

func (sp c17Spec) modsKnown() bool {
	for _, v := range sp.vals {
		if v.Mod == "?" {
			return false
		}
	}
	return true
}

type c17YangVal struct {
	Name  string
	Value int64  // enumeration value
	Mod   string // identity's module
}

func c17IdentityModule(id *yang.Identity) string {
	if id.Parent == nil {
		return "?"
	}
	m := yang.RootNode(id)
	if m == nil {
		return "?"
	}
	if m.BelongsTo != nil {
		return m.BelongsTo.Name
	}
	return m.Name
}

func c17SpecsOfType(e *yang.Entry, t *yang.YangType, out *[]c17Spec) {
	if t == nil {
		return
	}
	switch t.Kind {
	case yang.Yenum:
		if t.Enum == nil {
			return
		}
		sp := c17Spec{kind: "enumeration", where: e.Path()}
		for name, v := range t.Enum.NameMap() {
			sp.vals = append(sp.vals, c17YangVal{Name: name, Value: v})
		}
		sort.Slice(sp.vals, func(i, j int) bool { return sp.vals[i].Value < sp.vals[j].Value })
		for _, v := range sp.vals {
			sp.entries = append(sp.entries, c17Entry{Num: v.Value + 1, Name: v.Name})
		}
		sort.Slice(sp.entries, func(i, j int) bool { return sp.entries[i].Num < sp.entries[j].Num })
		*out = append(*out, sp)
	case yang.Yidentityref:
		if t.IdentityBase == nil {
			return
		}
		sp := c17Spec{kind: "identityref", where: e.Path()}
		for _, id := range t.IdentityBase.Values {
			sp.vals = append(sp.vals, c17YangVal{Name: id.Name, Mod: c17IdentityModule(id)})
		}
		sorted := append([]c17YangVal{}, sp.vals...)
		sort.SliceStable(sorted, func(i, j int) bool { return sorted[i].Name < sorted[j].Name })
		for i, v := range sorted {
			sp.entries = append(sp.entries, c17Entry{Num: int64(i) + 1, Name: v.Name, Mod: v.Mod})
		}
		*out = append(*out, sp)
	case yang.Yunion:
		for _, m := range t.Type {
			c17SpecsOfType(e, m, out)
		}
	}
}

func c17SpecsOfEntry(e *yang.Entry, seen map[*yang.Entry]bool, out *[]c17Spec) {
	if e == nil || seen[e] {
		return
	}
	seen[e] = true
	if e.IsLeaf() || e.IsLeafList() {
		c17SpecsOfType(e, e.Type, out)
		return
	}
	var names []string
	for n := range e.Dir {
		names = append(names, n)
	}
	sort.Strings(names)
	for _, n := range names {
		c17SpecsOfEntry(e.Dir[n], seen, out)
	}
}

// c17SpecMatches: the table equals the spec's expected table; modules compared when known.
// With duplicate identity names the generator's module choice is not defined by the schema:
// any of the candidates' modules is accepted here (duplicates are reported separately).
func c17SpecMatches(t c17Table, sp c17Spec) bool {
	if len(t.Entries) != len(sp.entries) {
		return false
	}
	for i, e := range t.Entries {
		x := sp.entries[i]
		if e.Num != x.Num || e.Name != x.Name {
			return false
		}
		if x.Mod == "?" || sp.kind == "enumeration" {
			if sp.kind == "enumeration" && e.Mod != "" {
				return false
			}
			continue
		}
		ok := false
		for _, y := range sp.entries {
			if y.Name == e.Name && y.Mod == e.Mod {
				ok = true
			}
		}
		if !ok {
			return false
		}
	}
	return true
}

func (sp c17Spec) genTerm(id int, ty string) string {
	if sp.kind == "enumeration" {
		var vs []string
		for _, v := range sp.vals {
			vs = append(vs, "("+coqStr(v.Name)+", "+coqZ(v.Value)+")")
		}
		return fmt.Sprintf("EGenEnum %d %s %s", id, coqStr(ty), coqList(vs))
	}
	var vs []string
	for _, v := range sp.vals {
		vs = append(vs, "("+coqStr(v.Name)+", "+coqStr(v.Mod)+")")
	}
	return fmt.Sprintf("EGenIdentity %d %s %s", id, coqStr(ty), coqList(vs))
}

var c17YangCache = map[string][]c17Spec{}

// c17ParseYang reads the YANG files with goyang (nothing of ygen/gogen is involved).
func c17ParseYang(files, paths []string) ([]c17Spec, error) {
	key := strings.Join(files, "|") + "#" + strings.Join(paths, "|")
	if s, ok := c17YangCache[key]; ok {
		return s, nil
	}
	ms := yang.NewModules()
	ms.AddPath(paths...)
	for _, f := range files {
		if err := ms.Read(f); err != nil {
			return nil, err
		}
	}
	if errs := ms.Process(); len(errs) > 0 {
		return nil, fmt.Errorf("goyang: %v", errs[0])
	}
	var specs []c17Spec
	seen := map[*yang.Entry]bool{}
	for _, f := range files {
		name := strings.TrimSuffix(filepath.Base(f), ".yang")
		m, ok := ms.Modules[name]
		if !ok {
			return nil, fmt.Errorf("module %s not found after parsing %s", name, f)
		}
		c17SpecsOfEntry(yang.ToEntry(m), seen, &specs)
	}
	c17YangCache[key] = specs
	return specs, nil
}

// ---------------------------------------------------------------- the stream

type c17Filter struct {
	Pkg   string  `json:"pkg"`
	Type  string  `json:"type"`
	Value *int64  `json:"value,omitempty"`
	Name  *string `json:"name,omitempty"`
	Site  string  `json:"site,omitempty"`
}

func (f *c17Filter) value(pkg, ty string, n int64) bool {
	if f == nil {
		return true
	}
	return f.Pkg == pkg && f.Type == ty && f.Value != nil && *f.Value == n
}

func (f *c17Filter) name(pkg, ty, s string) bool {
	if f == nil {
		return true
	}
	return f.Pkg == pkg && f.Type == ty && f.Name != nil && *f.Name == s
}

func (f *c17Filter) table(pkg, ty string) bool {
	if f == nil {
		return true
	}
	return f.Pkg == pkg && f.Type == ty && f.Value == nil && f.Name == nil
}

type c17Run struct {
	sum    *Summary
	rng    *rand.Rand
	tier   string
	filter *c17Filter
	id     int // case id within the current family of case files (kept small: ids are Coq nats)
	total  int
	seen   map[string]bool
}

func (r *c17Run) nontrivial(key string) {
	if !r.seen[key] {
		r.seen[key] = true
		r.sum.Nontrivial++
	}
}

func (r *c17Run) find(sig, what, pkg, ty string, n *int64, name *string, site string, obs interface{}) {
	in := c17Filter{Pkg: pkg, Type: ty, Value: n, Name: name, Site: site}
	r.sum.finding(Finding{Signature: sig, What: what, Input: in, Observed: obs})
}

// c17TableOracle: the checks that need only the table and the real functions on (T, tn).
func (r *c17Run) tableOracle(pkg string, t c17Table) {
	r.sum.OracleRuns++
	byName := map[string][]int64{}
	for _, e := range t.Entries {
		k := util.StripModulePrefix(e.Name)
		byName[k] = append(byName[k], e.Num)
	}
	for _, e := range t.Entries {
		k := util.StripModulePrefix(e.Name)
		if nums := byName[k]; len(nums) > 1 && nums[0] == e.Num {
			kind := "enumeration"
			if t.isIdentity() {
				kind = "identity-across-modules"
			}
			nm := e.Name
			r.find("enum/duplicate-name/"+kind, fmt.Sprintf("values %v of one generated enumerated type all carry the YANG name %q: the name cannot be parsed back to one value (castToEnumValue returns whichever the map iteration meets first)", nums, e.Name),
				pkg, t.Type, nil, &nm, "", nil)
		}
		if e.Num == 0 {
			z := int64(0)
			r.find("enum/not-bijective/zero-defined", fmt.Sprintf("the table defines Go value 0 (= UNSET) for YANG name %q (an enumeration value -1 is numbered value+1 = 0): the value can never be rendered, and setting it is indistinguishable from leaving the leaf unset", e.Name),
				pkg, t.Type, &z, nil, "", nil)
		}
		if util.StripModulePrefix(e.Name) == "" || strings.Contains(e.Mod, ":") || (e.Mod != "" && strings.Contains(e.Name, ":")) {
			nm := e.Name
			r.find("enum/bad-name", fmt.Sprintf("table entry %d has name %q module %q (empty after StripModulePrefix, ':' in the module, or ':' in an identity name)", e.Num, e.Name, e.Mod), pkg, t.Type, nil, &nm, "", nil)
		}
	}
}

// c17Direct emits EName / ECast cases for table t driven through Go type T (name tn inside
// ΛMap) and evaluates the bijection oracle on them.  ty is the name the model's env uses.
func (r *c17Run) direct(cf *caseFile, pkg, ty, envTy string, t c17Table, T reflect.Type, tn string, nUndef int) {
	defined, undef := c17Values(r.rng, t, nUndef)
	dupName := map[string]bool{}
	cnt := map[string]int{}
	for _, e := range t.Entries {
		cnt[util.StripModulePrefix(e.Name)]++
	}
	for k, c := range cnt {
		if c > 1 {
			dupName[k] = true
		}
	}
	for _, n := range append(append([]int64{}, defined...), undef...) {
		if !r.filter.value(pkg, ty, n) {
			continue
		}
		n := n
		e := c17EnumOf(T, n)
		name, logs, key, tv := c17Name(e), c17Log(e, n, tn), c17Key(e), c17Typed(e)
		cf.add(fmt.Sprintf("EName %d %s %s %s %s %s %s", r.id, coqStr(envTy), coqZ(n), name.strTerm(), logs.optTerm(), key.strTerm(), tv.strTerm()))
		r.id++
		ent, isDef := t.lookup(n)
		cls := "undefined"
		switch {
		case n == 0:
			cls = "unset"
		case isDef:
			cls = "defined"
		}
		r.sum.count("value_class", cls)
		r.sum.count("EnumName_outcome", map[bool]string{true: "ok", false: "err"}[name.ok()])
		r.nontrivial("v|" + t.content() + fmt.Sprint(n))
		r.sum.OracleRuns++
		obs := map[string]string{"EnumName": name.brief(), "EnumLogString": logs.brief(), "KeyValueAsString": key.brief(), "EncodeTypedValue": tv.brief()}
		for w, o := range map[string]c17Res{"enum-name": name, "key-string": key, "typed-value": tv} {
			if o.pan {
				r.find("enum/panic/"+w, "panic: "+o.msg, pkg, ty, &n, nil, w, obs)
			}
		}
		switch {
		case n == 0:
			if key.ok() {
				r.find("enum/unset-rendered/key-string", "KeyValueAsString renders the UNSET value of an enumerated type as the empty string without error (enumFieldToString's `set` result is dropped)", pkg, ty, &n, nil, "key-string", obs)
			}
			if tv.ok() {
				r.find("enum/unset-rendered/typed-value", "EncodeTypedValue renders the UNSET value of an enumerated type as string_val \"\" without error (EnumName drops enumFieldToString's `set` result)", pkg, ty, &n, nil, "typed-value", obs)
			}
		case !isDef:
			for w, o := range map[string]c17Res{"enum-name": name, "key-string": key, "typed-value": tv} {
				if o.ok() {
					r.find("enum/undefined-rendered/"+w, "an undefined value is rendered as "+o.brief()+" instead of an error", pkg, ty, &n, nil, w, obs)
				}
			}
		default:
			if !name.ok() || name.val != ent.Name {
				r.find("enum/not-bijective/name", fmt.Sprintf("defined value renders as %s, the table says %q", name.brief(), ent.Name), pkg, ty, &n, nil, "enum-name", obs)
				continue
			}
			if dupName[util.StripModulePrefix(ent.Name)] {
				continue // reported as enum/duplicate-name; the parse result depends on map order
			}
			back := c17Cast(T, name.val)
			if !back.ok() || back.num != n {
				r.find("enum/not-bijective/roundtrip", fmt.Sprintf("value %d renders as %q which parses back as %s", n, name.val, back.brief()), pkg, ty, &n, nil, "cast", obs)
			}
			if ent.Mod != "" {
				back = c17Cast(T, ent.Mod+":"+name.val)
				if !back.ok() || back.num != n {
					r.find("enum/not-bijective/roundtrip-prefixed", fmt.Sprintf("value %d as %q parses back as %s", n, ent.Mod+":"+name.val, back.brief()), pkg, ty, &n, nil, "cast", obs)
				}
			}
		}
		if len(r.sum.Samples) < 3 && isDef && n != 0 {
			r.sum.sample(map[string]interface{}{"pkg": pkg, "type": ty, "value": n, "observed": obs})
		}
	}
	for _, in := range c17Names(t) {
		if !r.filter.name(pkg, ty, in.s) {
			continue
		}
		in := in
		if dupName[util.StripModulePrefix(in.s)] {
			r.sum.count("parse_kind", "skipped-duplicate-name")
			continue
		}
		got := c17Cast(T, in.s)
		cf.add(fmt.Sprintf("ECast %d %s %s %s", r.id, coqStr(envTy), coqStr(in.s), got.numTerm()))
		r.id++
		r.sum.count("parse_kind", in.kind)
		r.sum.count("parse_outcome", map[bool]string{true: "ok", false: "err"}[got.ok()])
		r.nontrivial("s|" + t.content() + in.s)
		r.sum.OracleRuns++
		switch {
		case got.pan:
			r.find("enum/panic/cast", "castToEnumValue panics: "+got.msg, pkg, ty, nil, &in.s, "cast", got.brief())
		case in.wantOk && (!got.ok() || got.num != in.want):
			r.find("enum/not-bijective/parse", fmt.Sprintf("%s %q must parse to %d, got %s", in.kind, in.s, in.want, got.brief()), pkg, ty, nil, &in.s, "cast", got.brief())
		case in.lenient && got.ok() && got.num == in.want:
			r.sum.count("lenient_prefix_accepted", in.kind) // known C18 finding decode/foreign-module-prefix; not a C17 failure
		case !in.wantOk && !in.lenient && got.ok():
			r.find("enum/parse-accepts-unknown/"+in.kind, fmt.Sprintf("%q is not a name of the type but parses to %d", in.s, got.num), pkg, ty, nil, &in.s, "cast", got.brief())
		}
		if len(r.sum.Samples) < 5 && in.kind == "module:name" {
			r.sum.sample(map[string]interface{}{"pkg": pkg, "type": ty, "name": in.s, "parsed": got.brief()})
		}
	}
}

// c17SchemaOracle compares every table with the independent reading of the schema and emits
// the EGen cases (the numbering model recomputes the table from the YANG statement).
// emit names the spec kinds for which an EGen case is added to cf.
func (r *c17Run) schemaOracle(cf *caseFile, pkg string, tables []c17Table, specs []c17Spec, strictConverse bool, emit string) {
	used := make([]bool, len(specs))
	for _, t := range tables {
		if !r.filter.table(pkg, t.Type) && r.filter != nil {
			continue
		}
		r.sum.OracleRuns++
		match := -1
		for i, sp := range specs {
			if c17SpecMatches(t, sp) {
				used[i] = true
				if match < 0 {
					match = i
				}
			}
		}
		if match < 0 {
			// closest spec by names, for the message
			best, bestN := "", -1
			for _, sp := range specs {
				c := 0
				for _, e := range t.Entries {
					for _, x := range sp.entries {
						if x.Name == e.Name {
							c++
						}
					}
				}
				if c > bestN {
					bestN, best = c, fmt.Sprintf("%s at %s expects %v", sp.kind, sp.where, sp.entries)
				}
			}
			r.find("enum/table-vs-schema", fmt.Sprintf("generated table %v equals no enumeration (value+1) or identityref (alphabetical index+1, defining module) of the schema; closest: %s", t.Entries, best), pkg, t.Type, nil, nil, "", nil)
			r.sum.count("schema_match", "none")
			continue
		}
		r.sum.count("schema_match", specs[match].kind)
		if cf != nil && strings.Contains(emit, specs[match].kind) && specs[match].modsKnown() && !specs[match].dupNames() {
			cf.add(specs[match].genTerm(r.id, t.Type))
			r.id++
		}
	}
	if r.filter != nil {
		return
	}
	for i, sp := range specs {
		if !used[i] {
			r.sum.count("schema_type_without_table", sp.kind)
			if strictConverse {
				r.find("enum/table-vs-schema/missing", fmt.Sprintf("%s at %s (%v) has no generated table with its content", sp.kind, sp.where, sp.entries), pkg, "", nil, nil, "", nil)
			}
		}
	}
}

func c17Header(env string) string {
	return "From Ygot Require Import Tree.Tree Tree.Codec Scalar.EnumTable Corr.EnumCorr.\nOpen Scope N_scope.\n" +
		"Definition env : enum_env := " + env + "."
}

func c17EnumStream(rng *rand.Rand, n int, tier string, out string) (*Summary, error) {
	sum := &Summary{Rule: "every ΛEnum table of the six compiled packages (real generated types) and every distinct table of the enum-naming flag matrix and of the adversarial schemas (installed behind one dynamic GoEnum type): every defined value and a pool of undefined values (0, -1, neighbours of the defined range, int64 extremes, random) through EnumName / EnumLogString+String / KeyValueAsString / EncodeTypedValue, and through ConstructIETFJSON (with and without PrependModuleNameIdentityref) and TogNMINotifications of a leaf, union leaf and leaf-list holding the value; every name variant (name, module:name, foreign prefix, empty prefix, two prefixes, wrong case, trailing space, unknown) through StringToType/castToEnumValue and the generated Unmarshal; one EGen case per table (numbering model vs YANG statement). Non-trivial = all of them; distinct by (table content, value or string, site)."}
	r := &c17Run{sum: sum, rng: rng, tier: tier, seen: map[string]bool{}}
	if replayFile != "" {
		b, err := os.ReadFile(replayFile)
		if err != nil {
			return nil, err
		}
		var rp struct {
			Case c17Filter `json:"case"`
		}
		if err := json.Unmarshal(b, &rp); err != nil {
			return nil, err
		}
		r.filter = &rp.Case
	}
	nUndef, nUndefSite := 50, 8
	if tier == "thorough" {
		nUndef, nUndefSite = 120, 40
	}
	if n < 400 { // smoke runs
		nUndef, nUndefSite = 12, 4
	}
	verif := os.Getenv("VERIF_DIR")
	if verif == "" {
		verif = "/verif"
	}
	var man c17Manifest
	manOK := false
	if b, err := os.ReadFile(filepath.Join(verif, "build", "c17gen", "manifest.json")); err == nil {
		if err := json.Unmarshal(b, &man); err != nil {
			return nil, fmt.Errorf("manifest: %v", err)
		}
		manOK = true
	}
	manByName := map[string]*c17Config{}
	for i := range man.Configs {
		manByName[man.Configs[i].Name] = &man.Configs[i]
	}
	var files []string

	// ---- the compiled packages (the private ones too: every generated enum table is checked)
	for _, name := range reg.AllNames() {
		if r.filter != nil && r.filter.Pkg != name {
			continue
		}
		p := reg.Get(name)
		var tables []c17Table
		var tnames []string
		for tn := range p.Enum {
			tnames = append(tnames, tn)
		}
		sort.Strings(tnames)
		for _, tn := range tnames {
			tables = append(tables, c17TableOf(tn, p.Enum[tn]))
		}
		cf := &caseFile{typ: "ecase", fn: "emismatches env", header: c17Header(c17EnvTerm(tables))}
		root := p.NewRoot()
		types := map[string]reflect.Type{}
		for _, ts := range root.ΛEnumTypeMap() {
			for _, t := range ts {
				types[t.Name()] = t
			}
		}
		var sites []c17Site
		rt := reflect.TypeOf(root).Elem()
		c17Walk(rt, p.SchemaTree[rt.Name()], nil, nil, rt.Name(), &sites)

		// translator cross-check: the regexp parse of gen.go (lib/c17_pre.py) against the compiled map
		if mc := manByName["std_"+name]; mc != nil && r.filter == nil {
			sum.OracleRuns++
			a, _ := json.Marshal(mc.Tables)
			b, _ := json.Marshal(tables)
			if string(a) != string(b) {
				r.find("enum/translator-mismatch", "the tables parsed from the generated source by lib/c17_pre.py differ from the compiled ΛEnum map", name, "", nil, nil, "", map[string]string{"parsed": string(a), "compiled": string(b)})
			}
			sum.count("translator_crosscheck", map[bool]string{true: "equal", false: "DIFFERENT"}[string(a) == string(b)])
		}

		// schema side: the gzipped schema of the package, and (when the manifest names the files) goyang
		var specs []c17Spec
		c17SpecsOfEntry(p.SchemaTree[rt.Name()], map[*yang.Entry]bool{}, &specs)
		r.schemaOracle(cf, name, tables, specs, true, "enumeration")
		if mc := manByName["std_"+name]; mc != nil {
			ys, err := c17ParseYang(mc.Yang, mc.Path)
			if err != nil {
				return nil, err
			}
			r.schemaOracle(cf, name, tables, ys, false, "identityref")
		}

		for _, t := range tables {
			if r.filter != nil && r.filter.Type != t.Type {
				continue
			}
			r.tableOracle(name, t)
			T, ok := types[t.Type]
			if !ok {
				sum.count("tables", "compiled-without-go-type")
				continue
			}
			sum.count("tables", "compiled")
			r.direct(cf, name, t.Type, t.Type, t, T, t.Type, nUndef)
			r.sites(cf, p, name, t, T, sites, root, nUndefSite)
		}
		fs, err := cf.write(out, "enum_"+name, 1000)
		if err != nil {
			return nil, err
		}
		files = append(files, fs...)
		r.total, r.id = r.total+r.id, 0
	}

	// ---- the flag matrix and the adversarial schemas: distinct table contents behind the dynamic type
	if manOK {
		type dynT struct {
			label string
			t     c17Table
			pkg   string
		}
		var dyn []dynT
		have := map[string]int{}
		type genT struct {
			sp    c17Spec
			label string
		}
		var genCases []genT
		for ci := range man.Configs {
			c := &man.Configs[ci]
			if c.Group == "standard" {
				continue
			}
			if r.filter != nil && r.filter.Pkg != c.Name && !strings.HasPrefix(r.filter.Pkg, "dyn:") {
				continue
			}
			sum.count("configs", c.Group+map[bool]string{true: "", false: "-generator-failed"}[c.Ok])
			if !c.Ok {
				continue
			}
			specs, err := c17ParseYang(c.Yang, c.Path)
			if err != nil {
				return nil, fmt.Errorf("%s: %v", c.Name, err)
			}
			r.schemaOracle(nil, c.Name, c.Tables, specs, false, "")
			for _, t := range c.Tables {
				sum.count("tables", c.Group)
				k := t.content()
				if _, ok := have[k]; !ok {
					have[k] = len(dyn)
					d := dynT{label: fmt.Sprintf("D%d", len(dyn)), t: t, pkg: c.Name}
					dyn = append(dyn, d)
					// the numbering model against the schema statement, once per distinct content
					for _, sp := range specs {
						if c17SpecMatches(t, sp) {
							if sp.dupNames() {
								sum.count("gen_case", "skipped-duplicate-identity-names")
							} else {
								genCases = append(genCases, genT{sp, d.label})
							}
							break
						}
					}
				}
			}
		}
		var env []c17Table
		for _, d := range dyn {
			env = append(env, c17Table{Type: d.label, Entries: d.t.Entries})
		}
		cf := &caseFile{typ: "ecase", fn: "emismatches env", header: c17Header(c17EnvTerm(env))}
		for _, g := range genCases {
			if r.filter != nil {
				break
			}
			cf.add(g.sp.genTerm(r.id, g.label))
			r.id++
		}
		T := reflect.TypeOf(c17DynEnum(0))
		for _, d := range dyn {
			pkg := "dyn:" + d.pkg
			if r.filter != nil && (r.filter.Pkg != pkg || r.filter.Type != d.t.Type) {
				continue
			}
			sum.count("tables", "distinct-dynamic")
			c17InstallDyn(d.t)
			r.tableOracle(pkg, d.t)
			// the model's env names this table d.label; findings name the generated type
			r.direct(cf, pkg, d.t.Type, d.label, d.t, T, "c17DynEnum", nUndef)
		}
		fs, err := cf.write(out, "enum_dyn", 1000)
		if err != nil {
			return nil, err
		}
		files = append(files, fs...)
		r.total, r.id = r.total+r.id, 0
	} else {
		sum.count("configs", "manifest-missing")
	}
	sum.Cases = r.total
	sum.Extra = map[string]interface{}{"case_files": files, "manifest": manOK}
	return sum, nil
}

// sites: ELeaf / EUnion / ESlice / EUnmarshal cases through the real generated structs.
func (r *c17Run) sites(cf *caseFile, p *reg.Pkg, pkg string, t c17Table, T reflect.Type, sites []c17Site, root ygot.ValidatedGoStruct, nUndef int) {
	etm := root.ΛEnumTypeMap()
	var chosen []c17Site
	kinds := map[string]bool{}
	for _, s := range sites {
		if kinds[s.kind] {
			continue
		}
		ok := false
		switch s.kind {
		case "leaf":
			ok = s.ft == T
		case "leaflist":
			ok = s.ft.Elem() == T
		case "union":
			for _, et := range etm[schemaDataPath(s.entry)] {
				if et == T {
					if _, _, built := c17Build(p, s, T, []int64{1}); built {
						ok = true
					}
				}
			}
		}
		if ok {
			kinds[s.kind] = true
			chosen = append(chosen, s)
		}
	}
	if len(chosen) == 0 {
		r.sum.count("sites", "type-without-container-leaf")
	}
	defined, undef := c17Values(r.rng, t, nUndef)
	vals := append(append([]int64{}, defined...), undef...)
	for _, s := range chosen {
		r.sum.count("sites", s.kind)
		for _, n := range vals {
			if !r.filter.value(pkg, t.Type, n) || (r.filter != nil && r.filter.Site != "" && !strings.HasPrefix(r.filter.Site, s.kind)) {
				continue
			}
			n := n
			ent, isDef := t.lookup(n)
			for _, pmi := range []bool{false, true} {
				ns := []int64{n}
				if s.kind == "leaflist" && len(defined) > 0 && pmi {
					ns = []int64{defined[0], n}
				}
				rt, _, ok := c17Build(p, s, T, ns)
				if !ok {
					continue
				}
				list := s.kind == "leaflist"
				js := c17JSONAt(rt, s.jpath, pmi, list)
				gn := c17GNMIAt(rt, list)
				var nsT []string
				for _, x := range ns {
					nsT = append(nsT, coqZ(x))
				}
				switch s.kind {
				case "leaf":
					cf.add(fmt.Sprintf("ELeaf %d %s %s %s %s %s", r.id, coqStr(t.Type), coqZ(n), coqBool(pmi), js.optTerm(), gn.optTerm()))
				case "union":
					cf.add(fmt.Sprintf("EUnion %d %s %s %s %s %s %s", r.id, coqBool(p.Flags["wrapper_unions"]), coqStr(t.Type), coqZ(n), coqBool(pmi), js.optTerm(), gn.optTerm()))
				case "leaflist":
					cf.add(fmt.Sprintf("ESlice %d %s %s %s %s %s", r.id, coqStr(t.Type), coqList(nsT), coqBool(pmi), js.listTerm(), gn.listTerm()))
				}
				r.id++
				r.sum.count("site_json_outcome", s.kind+":"+map[bool]string{true: "ok", false: "err"}[js.ok()])
				r.nontrivial(fmt.Sprintf("site|%s|%s|%v|%v", t.content(), s.kind, ns, pmi))
				r.sum.OracleRuns++
				obs := map[string]string{"field": s.goPth, "json": js.brief(), "gnmi": gn.brief()}
				for w, o := range map[string]c17Res{"json": js, "gnmi": gn} {
					where := s.kind + "-" + w
					switch {
					case o.pan:
						r.find("enum/panic/"+where, "panic: "+o.msg, pkg, t.Type, &n, nil, where, obs)
					case n == 0 && o.ok() && !o.none && !(list && len(o.strs) == len(ns)-1):
						r.find("enum/unset-rendered/"+where, "the UNSET value held by a "+s.kind+" is rendered as "+o.brief()+" instead of being skipped or rejected", pkg, t.Type, &n, nil, where, obs)
					case n != 0 && !isDef && o.ok():
						r.find("enum/undefined-rendered/"+where, "an undefined value held by a "+s.kind+" is rendered as "+o.brief()+" instead of an error", pkg, t.Type, &n, nil, where, obs)
					case n != 0 && isDef && !list:
						want := ent.Name
						if w == "json" && pmi && ent.Mod != "" {
							want = ent.Mod + ":" + ent.Name
						}
						if !o.ok() || o.none || o.val != want {
							r.find("enum/not-bijective/render-"+where, fmt.Sprintf("defined value must render as %q, got %s", want, o.brief()), pkg, t.Type, &n, nil, where, obs)
						} else if s.kind == "leaf" && w == "json" {
							back := c17UnmarshalAt(p, s, o.val)
							if !back.ok() || back.num != n {
								r.find("enum/not-bijective/json-roundtrip", fmt.Sprintf("value %d renders as %q which unmarshals as %s", n, o.val, back.brief()), pkg, t.Type, &n, nil, where, obs)
							}
						}
					}
				}
			}
		}
		if s.kind != "leaf" {
			continue
		}
		for _, in := range c17Names(t) {
			if !r.filter.name(pkg, t.Type, in.s) {
				continue
			}
			in := in
			got := c17UnmarshalAt(p, s, in.s)
			cf.add(fmt.Sprintf("EUnmarshal %d %s %s %s", r.id, coqStr(t.Type), coqStr(in.s), got.numTerm()))
			r.id++
			r.sum.count("unmarshal_outcome", in.kind+":"+map[bool]string{true: "ok", false: "err"}[got.ok()])
			r.nontrivial("u|" + t.content() + in.s)
			r.sum.OracleRuns++
			switch {
			case got.pan:
				r.find("enum/panic/unmarshal", "Unmarshal panics: "+got.msg, pkg, t.Type, nil, &in.s, "leaf-unmarshal", got.brief())
			case in.wantOk && (!got.ok() || got.num != in.want):
				r.find("enum/not-bijective/unmarshal", fmt.Sprintf("%s %q must unmarshal to %d, got %s", in.kind, in.s, in.want, got.brief()), pkg, t.Type, nil, &in.s, "leaf-unmarshal", got.brief())
			case !in.wantOk && !in.lenient && got.ok():
				r.find("enum/parse-accepts-unknown/"+in.kind, fmt.Sprintf("%q is not a name of the type but unmarshals to %d", in.s, got.num), pkg, t.Type, nil, &in.s, "leaf-unmarshal", got.brief())
			}
		}
	}
}
