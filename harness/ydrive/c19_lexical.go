//go:build verif

package main

// c19_lexical.go — implementation-side oracle for C19: an independent reading of RFC 7951 applied to
// the JSON ygot produced, driven by the GoStruct's own tags and Go types (not by ygot's renderer and
// not by the Coq model).

import (
	"encoding/base64"
	"encoding/json"
	"fmt"
	"reflect"
	"regexp"
	"strings"

	"github.com/openconfig/ygot/internal/verifharness/reg"
	"github.com/openconfig/ygot/ygot"
)

var c19ReInt = regexp.MustCompile(`^-?(0|[1-9][0-9]*)$`)
var c19ReDec = regexp.MustCompile(`^-?[0-9]+(\.[0-9]+)?$`)

func c19Rewrite(cfg jcfgT, m string) string {
	if r, ok := cfg.rewrite[m]; ok && r != "" {
		return r
	}
	return m
}

// c19Names computes the member names for one path alternative under the RFC 7951 namespace rule.
func c19Names(path, mods []string, parentMod string, cfg jcfgT) ([]string, string) {
	names := make([]string, len(path))
	prev := parentMod
	for i, p := range path {
		names[i] = p
		if cfg.appendMod && i < len(mods) {
			m := c19Rewrite(cfg, mods[i])
			if m != prev {
				names[i] = m + ":" + p
				prev = m
			}
		}
	}
	return names, prev
}

func c19Scalar(p *reg.Pkg, v reflect.Value, j interface{}, cfg jcfgT) string {
	if v.Kind() == reflect.Interface || v.Kind() == reflect.Ptr {
		if v.IsNil() {
			return ""
		}
		v = v.Elem()
		if v.Kind() == reflect.Struct && v.NumField() == 1 {
			return c19Scalar(p, v.Field(0), j, cfg)
		}
		return c19Scalar(p, v, j, cfg)
	}
	t := v.Type()
	switch {
	case t.Implements(goEnumT) && v.Kind() == reflect.Int64:
		s, ok := j.(string)
		if !ok {
			return "enum-not-a-string"
		}
		d, ok := p.Enum[t.Name()][v.Int()]
		if !ok {
			return "undefined-enum-rendered"
		}
		want := d.Name
		if d.DefiningModule != "" && (cfg.appendMod || cfg.prependIref) {
			want = d.DefiningModule + ":" + d.Name
		}
		if s != want {
			return "enum-name(" + s + " want " + want + ")"
		}
		return ""
	case t.Name() == ygot.EmptyTypeName && v.Kind() == reflect.Bool:
		a, ok := j.([]interface{})
		if !ok || len(a) != 1 || a[0] != nil {
			return "empty-not-[null]"
		}
		return ""
	case v.Kind() == reflect.Slice && t.Elem().Kind() == reflect.Uint8:
		s, ok := j.(string)
		if !ok {
			return "binary-not-a-string"
		}
		b, err := base64.StdEncoding.Strict().DecodeString(s)
		if err != nil || string(b) != string(v.Bytes()) {
			return "binary-not-base64"
		}
		return ""
	}
	switch v.Kind() {
	case reflect.Int8, reflect.Int16, reflect.Int32, reflect.Uint8, reflect.Uint16, reflect.Uint32:
		n, ok := j.(json.Number)
		if !ok {
			return "int32-not-a-number"
		}
		want := fmt.Sprint(v.Interface())
		if v.Kind() == reflect.Int8 || v.Kind() == reflect.Int16 || v.Kind() == reflect.Int32 {
			want = fmt.Sprint(v.Int())
		} else {
			want = fmt.Sprint(v.Uint())
		}
		if string(n) != want {
			return "int32-value(" + string(n) + ")"
		}
	case reflect.Int64, reflect.Uint64:
		s, ok := j.(string)
		if !ok || !c19ReInt.MatchString(s) {
			return "int64-not-a-decimal-string"
		}
		want := ""
		if v.Kind() == reflect.Int64 {
			want = fmt.Sprint(v.Int())
		} else {
			want = fmt.Sprint(v.Uint())
		}
		if s != want {
			return "int64-value(" + s + ")"
		}
	case reflect.Float64:
		s, ok := j.(string)
		if !ok {
			return "decimal64-not-a-string"
		}
		if !c19ReDec.MatchString(s) {
			return "decimal64-lexical(" + s + ")"
		}
	case reflect.String:
		s, ok := j.(string)
		if !ok || s != v.String() {
			return "string"
		}
	case reflect.Bool:
		b, ok := j.(bool)
		if !ok || b != v.Bool() {
			return "boolean"
		}
	}
	return ""
}

// c19Walk checks the object doc against the struct s.
func c19Walk(p *reg.Pkg, sv reflect.Value, doc interface{}, parentMod string, cfg jcfgT, where string, report func(sig, what string)) {
	if sv.Kind() == reflect.Interface {
		sv = sv.Elem()
	}
	obj, ok := doc.(map[string]interface{})
	if !ok {
		report("lexical/container-not-object", where)
		return
	}
	s := sv.Elem()
	for i := 0; i < s.NumField(); i++ {
		sf := s.Type().Field(i)
		ptag, ok := sf.Tag.Lookup("path")
		if !ok {
			continue
		}
		mtag := sf.Tag.Get("module")
		if cfg.shadow {
			if sp, ok := sf.Tag.Lookup("shadow-path"); ok {
				ptag, mtag = sp, sf.Tag.Get("shadow-module")
			}
		}
		if _, ok := fieldTerm(s.Field(i)); !ok {
			continue
		}
		palts, malts := strings.Split(ptag, "|"), strings.Split(mtag, "|")
		for ai, pa := range palts {
			var mods []string
			if ai < len(malts) && malts[ai] != "" {
				mods = strings.Split(malts[ai], "/")
			}
			names, chMod := c19Names(strings.Split(pa, "/"), mods, parentMod, cfg)
			var cur interface{} = obj
			found := true
			for _, n := range names {
				m, ok := cur.(map[string]interface{})
				if !ok {
					found = false
					break
				}
				if cur, ok = m[n]; !ok {
					found = false
					break
				}
			}
			fv := s.Field(i)
			ft := sf.Type
			isCont := ft.Kind() == reflect.Ptr && ft.Elem().Kind() == reflect.Struct && !isOrderedMapType(ft)
			if !found {
				if isCont && sf.Tag.Get("yangPresence") != "true" {
					continue // an empty non-presence container is not rendered
				}
				report("lexical/member-name", fmt.Sprintf("%s: expected member %v (parent module %q)", where+"/"+sf.Name, names, parentMod))
				continue
			}
			w := where + "/" + sf.Name
			switch {
			case isOrderedMapType(ft):
				arr, ok := cur.([]interface{})
				es := orderedEntries(fv.Interface().(ygot.GoOrderedMap))
				if !ok || len(arr) != len(es) {
					report("lexical/list-not-array", w)
					continue
				}
				for k, e := range es { // same order
					c19Walk(p, e.entry, arr[k], chMod, cfg, w, report)
				}
			case ft.Kind() == reflect.Map:
				arr, ok := cur.([]interface{})
				if !ok || len(arr) != fv.Len() {
					report("lexical/list-not-array", w)
				}
				// entry-wise checks need key matching; the entries' scalars are covered through the
				// model comparison and the round-trip oracle
			case isCont:
				c19Walk(p, fv, cur, chMod, cfg, w, report)
			case ft.Kind() == reflect.Slice && ft.Elem().Kind() == reflect.Ptr:
				arr, ok := cur.([]interface{})
				if !ok || len(arr) != fv.Len() {
					report("lexical/list-not-array", w)
					continue
				}
				for k := 0; k < fv.Len(); k++ {
					c19Walk(p, fv.Index(k), arr[k], chMod, cfg, w, report)
				}
			case ft.Kind() == reflect.Slice && !(ft.Elem().Kind() == reflect.Uint8 && ft.Name() == ygot.BinaryTypeName):
				arr, ok := cur.([]interface{})
				if !ok || len(arr) != fv.Len() {
					report("lexical/leaflist-not-array", w)
					continue
				}
				for k := 0; k < fv.Len(); k++ {
					if e := c19Scalar(p, fv.Index(k), arr[k], cfg); e != "" {
						report("lexical/"+strings.SplitN(e, "(", 2)[0], w+": "+e)
					}
				}
			default:
				if e := c19Scalar(p, fv, cur, cfg); e != "" {
					report("lexical/"+strings.SplitN(e, "(", 2)[0], w+": "+e)
				}
			}
		}
	}
}
