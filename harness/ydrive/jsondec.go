//go:build verif

package main

import (
	"encoding/base64"
	"encoding/json"
	"fmt"
	"math/big"
	"math/rand"
	"reflect"
	"regexp"
	"sort"
	"strings"

	"github.com/openconfig/goyang/pkg/yang"
	"github.com/openconfig/ygot/internal/verifharness/reg"
	"github.com/openconfig/ygot/util"
	"github.com/openconfig/ygot/ygot"
)

func init() { streams["jsondec"] = jsondecStream }

// ---------- leaf inventory: leaves reachable from the root through containers only ----------

type leafSite struct {
	path  []string // JSON member names from the root
	entry *yang.Entry
}

func containerLeaves(t reflect.Type, e *yang.Entry, prefix []string, out *[]leafSite) {
	for i := 0; i < t.NumField(); i++ {
		f := t.Field(i)
		tag, ok := f.Tag.Lookup("path")
		if !ok {
			continue
		}
		ce, err := util.ChildSchema(e, f)
		if err != nil || ce == nil {
			continue
		}
		p := append(append([]string{}, prefix...), strings.Split(strings.Split(tag, "|")[0], "/")...)
		switch {
		case ce.IsLeaf() || ce.IsLeafList():
			*out = append(*out, leafSite{path: p, entry: ce})
		case ce.IsContainer() && f.Type.Kind() == reflect.Ptr:
			containerLeaves(f.Type.Elem(), ce, p, out)
		}
	}
}

func nestJSON(path []string, v interface{}) interface{} {
	for i := len(path) - 1; i >= 0; i-- {
		v = map[string]interface{}{path[i]: v}
	}
	return v
}

func getNested(v interface{}, path []string) (interface{}, bool) {
	for _, p := range path {
		m, ok := v.(map[string]interface{})
		if !ok {
			return nil, false
		}
		found := false
		for k, x := range m {
			if k == p || strings.HasSuffix(k, ":"+p) {
				v, found = x, true
				break
			}
		}
		if !found {
			return nil, false
		}
	}
	return v, true
}

// scalar JSON candidates (as raw JSON text so that number spellings are preserved)
var decodeCandidates = []string{
	`0`, `1`, `-1`, `1.5`, `127`, `128`, `-128`, `-129`, `127.9`, `255`, `256`, `255.5`, `65535`, `65536`, `32767`, `32768`, `-32769`,
	`2147483647`, `2147483648`, `-2147483648`, `-2147483649`, `4294967295`, `4294967296`, `4294967295.5`, `1e3`, `1.0`, `1e-1`, `1e20`, `-0.5`, `100`, `12`,
	`"0"`, `"1"`, `"-1"`, `"+1"`, `"007"`, `"9223372036854775807"`, `"9223372036854775808"`, `"-9223372036854775808"`, `"-9223372036854775809"`,
	`"18446744073709551615"`, `"18446744073709551616"`, `"1.5"`, `"abc"`, `""`, `" 1"`, `"1 "`, `"1_000"`, `"0x10"`, `"1e3"`, `"3.14"`, `"NaN"`, `"Inf"`, `"-7"`, `"42"`,
	`"5."`, `".5"`, `"-.5"`, `"+7."`, `"."`, `"1.2.3"`, `"-0."`,
	`"AQI="`, `"AQI"`, `"A==="`, `"!!!!"`, `"QUJD"`, `"QUJD\n"`, `"QR=="`, `"QQ=="`,
	`true`, `false`, `null`, `[null]`, `[]`, `[null,null]`, `{}`, `[1]`, `["a"]`, `[true]`, `{"a":1}`,
	`"RED"`, `"GREEN"`, `"BLUE"`, `"PURPLE"`, `"v-main:RED"`, `"bogus:RED"`, `"NOPE"`, `"GREEN "`, `"red"`, `"dark-grey"`, `"one"`, `"minus"`,
	`"id-a"`, `"v-main:id-a"`, `"id-c"`, `"v-types:ext-one"`, `"ext-one"`, `"v-main:ext-one"`, `"oc-one"`, `"v-oc:oc-two"`, `"ETHERNET"`, `"lag"`,
	`"hello"`, `"ab"`, `"abcdefghijklmnopqrstuvwxyz"`, `"é世"`,
}

// c18Relevant selects, for a leaf of the given resolved kind, the candidates that exercise its
// decoder (boundaries, malformed spellings, names) — every candidate is still tried against
// every leaf in the thorough tier.
func c18Relevant(k yang.TypeKind, c string) bool {
	isNum := len(c) > 0 && (c[0] == '-' || (c[0] >= '0' && c[0] <= '9'))
	isStr := strings.HasPrefix(c, `"`)
	inner := strings.Trim(c, `"`)
	numStr := isStr && len(inner) > 0 && strings.ContainsAny(inner[:1], "+-.0123456789 ")
	switch k {
	case yang.Yint8, yang.Yint16, yang.Yint32, yang.Yuint8, yang.Yuint16, yang.Yuint32:
		return isNum || c == `"1"` || c == "true" || c == "null" || c == "[1]"
	case yang.Yint64, yang.Yuint64, yang.Ydecimal64:
		return numStr || c == "1" || c == "1.5" || c == `"abc"` || c == `""` || c == `"NaN"` || c == `"Inf"` || c == `"1e3"` || c == `"0x10"` || c == "null"
	case yang.Ybinary:
		return isStr && (strings.ContainsAny(inner, "=!\\") || inner == "QUJD" || inner == "AQI" || inner == "" || inner == "abc") || c == "1"
	case yang.Ybool:
		return c == "true" || c == "false" || c == `"true"` || c == "1" || c == "0" || c == "null" || c == "[null]"
	case yang.Yempty:
		return c == "[null]" || c == "[]" || c == "[null,null]" || c == "null" || c == "true" || c == "{}" || c == "[1]"
	case yang.Yenum, yang.Yidentityref:
		return isStr && !numStr || c == "1" || c == "null"
	case yang.Ystring:
		return isStr || c == "1" || c == "true" || c == "null" || c == "{}" || c == `["a"]`
	}
	return true // unions: everything
}

var reInt = regexp.MustCompile(`^[+-]?[0-9]+$`)
var reDec = regexp.MustCompile(`^[+-]?[0-9]+(\.[0-9]+)?$`)

func ratOf(s string) (*big.Rat, bool) {
	r, ok := new(big.Rat).SetString(s)
	return r, ok
}

var intBounds = map[yang.TypeKind][2]string{
	yang.Yint8: {"-128", "127"}, yang.Yint16: {"-32768", "32767"}, yang.Yint32: {"-2147483648", "2147483647"},
	yang.Yint64: {"-9223372036854775808", "9223372036854775807"},
	yang.Yuint8: {"0", "255"}, yang.Yuint16: {"0", "65535"}, yang.Yuint32: {"0", "4294967295"}, yang.Yuint64: {"0", "18446744073709551615"},
}

// denotes says whether the JSON value v is a valid RFC 7951 encoding for the (non-union) type
// and returns a canonical text of the denoted value. Independent of ygot's decoder.
func denotes(p *reg.Pkg, e *yang.Entry, t *yang.YangType, v interface{}) (string, bool) {
	switch t.Kind {
	case yang.Yint8, yang.Yint16, yang.Yint32, yang.Yuint8, yang.Yuint16, yang.Yuint32:
		n, ok := v.(json.Number)
		if !ok {
			return "", false
		}
		r, ok := ratOf(string(n))
		if !ok || !r.IsInt() {
			return "", false
		}
		lo, _ := ratOf(intBounds[t.Kind][0])
		hi, _ := ratOf(intBounds[t.Kind][1])
		if r.Cmp(lo) < 0 || r.Cmp(hi) > 0 {
			return "", false
		}
		return r.RatString(), true
	case yang.Yint64, yang.Yuint64:
		s, ok := v.(string)
		if !ok || !reInt.MatchString(s) {
			return "", false
		}
		if t.Kind == yang.Yuint64 && (strings.HasPrefix(s, "-") || strings.HasPrefix(s, "+")) {
			// RFC 7950 allows a sign lexically; "-0" aside, negative is out of range. A leading
			// '+' is lexically valid; strconv.ParseUint rejects it: treat as not denoting to stay
			// on the conservative side only for '-'.
			if strings.HasPrefix(s, "-") {
				return "", false
			}
		}
		r, _ := ratOf(s)
		lo, _ := ratOf(intBounds[t.Kind][0])
		hi, _ := ratOf(intBounds[t.Kind][1])
		if r.Cmp(lo) < 0 || r.Cmp(hi) > 0 {
			return "", false
		}
		return r.RatString(), true
	case yang.Ydecimal64:
		s, ok := v.(string)
		if !ok || !reDec.MatchString(s) {
			return "", false
		}
		digits := 0
		for _, c := range s {
			if c >= '0' && c <= '9' {
				digits++
			}
		}
		if digits > 15 {
			// ygot holds decimal64 in a float64: more than 15 significant digits cannot be
			// represented exactly; such inputs are outside what the check demands
			return "", false
		}
		r, _ := ratOf(s)
		return r.RatString(), true
	case yang.Ystring:
		s, ok := v.(string)
		return "s:" + s, ok
	case yang.Ybool:
		b, ok := v.(bool)
		return fmt.Sprintf("b:%v", b), ok
	case yang.Yempty:
		a, ok := v.([]interface{})
		return "empty", ok && len(a) == 1 && a[0] == nil
	case yang.Ybinary:
		s, ok := v.(string)
		if !ok {
			return "", false
		}
		// RFC 4648 3.5: a decoder MAY reject non-zero pad bits ("QR=="); accepting them is no
		// coercion (the octets are determined), so the reference decoder is the lenient one
		b, err := base64.StdEncoding.DecodeString(s)
		if err != nil {
			return "", false
		}
		return "bin:" + string(b), true
	case yang.Yenum:
		s, ok := v.(string)
		if !ok {
			return "", false
		}
		for _, n := range t.Enum.Names() {
			if n == s {
				return "enum:" + s, true
			}
		}
		return "", false
	case yang.Yidentityref:
		s, ok := v.(string)
		if !ok {
			return "", false
		}
		// the defining module of each identity is taken from the generated ΛEnum tables
		for _, tbl := range p.Enum {
			for _, d := range tbl {
				if d.DefiningModule == "" {
					continue
				}
				for _, id := range t.IdentityBase.Values {
					if id.Name == d.Name && (s == d.Name || s == d.DefiningModule+":"+d.Name) {
						return "id:" + d.Name, true
					}
				}
			}
		}
		return "", false
	}
	return "", false
}

// ---------- JSON mutation for the malformed family ----------

func randJSONValue(rng *rand.Rand, depth int) interface{} {
	switch rng.Intn(12) {
	case 0:
		return nil
	case 1:
		return rng.Intn(2) == 0
	case 2:
		return json.Number(pick(rng, []string{"0", "1", "-1", "1.5", "300", "70000", "5000000000", "1e3"}))
	case 3:
		return pick(rng, []string{"", "a", "1", "RED", "id-a", "AQI=", "x:y", "true"})
	case 4:
		return []interface{}{}
	case 5:
		return []interface{}{nil}
	case 6:
		return map[string]interface{}{}
	case 7:
		return []interface{}{json.Number("1")}
	case 8:
		return []interface{}{map[string]interface{}{}}
	case 9:
		return []interface{}{"a", "a"}
	case 10:
		if depth < 2 {
			return map[string]interface{}{pick(rng, []string{"k", "v", "top", "zz"}): randJSONValue(rng, depth+1)}
		}
	case 11:
		if depth < 2 {
			return []interface{}{randJSONValue(rng, depth+1), randJSONValue(rng, depth+1)}
		}
	}
	return "z"
}

// collect every (container, key) slot of a decoded JSON document
type jslot struct {
	m map[string]interface{}
	k string
	a []interface{}
	i int
}

func collectSlots(v interface{}, out *[]jslot) {
	switch x := v.(type) {
	case map[string]interface{}:
		ks := make([]string, 0, len(x))
		for k := range x {
			ks = append(ks, k)
		}
		sort.Strings(ks)
		for _, k := range ks {
			*out = append(*out, jslot{m: x, k: k})
			collectSlots(x[k], out)
		}
	case []interface{}:
		for i := range x {
			*out = append(*out, jslot{a: x, i: i})
			collectSlots(x[i], out)
		}
	}
}

func mutateJSON(rng *rand.Rand, doc interface{}) (interface{}, string) {
	var slots []jslot
	collectSlots(doc, &slots)
	if len(slots) == 0 {
		return randJSONValue(rng, 0), "replace-root"
	}
	s := slots[rng.Intn(len(slots))]
	// (a member duplicated under two module prefixes is not generated: which one ygot reads depends
	// on Go's map iteration order, so the outcome is not a function of the input)
	kind := pick(rng, []string{"replace", "replace", "delete", "rename", "prefix"})
	switch {
	case s.m != nil:
		switch kind {
		case "replace":
			s.m[s.k] = randJSONValue(rng, 0)
		case "delete":
			delete(s.m, s.k)
		case "rename":
			s.m["zz-"+s.k] = s.m[s.k]
			delete(s.m, s.k)
		case "prefix":
			v := s.m[s.k]
			delete(s.m, s.k)
			s.m["foo:"+util.StripModulePrefix(s.k)] = v
		case "dup-member-prefix":
			if !strings.Contains(s.k, ":") {
				s.m["v-main:"+s.k] = s.m[s.k]
				kind = "same-value-two-prefixes"
			}
		}
	default:
		switch kind {
		case "delete":
			kind = "replace"
			fallthrough
		default:
			s.a[s.i] = randJSONValue(rng, 0)
		}
	}
	return doc, kind
}

// dropInterfaceKeyedMaps sets to nil every map field whose key type is an interface.
func dropInterfaceKeyedMaps(v reflect.Value) {
	if v.Kind() == reflect.Interface {
		v = v.Elem()
	}
	if v.Kind() != reflect.Ptr || v.IsNil() || v.Elem().Kind() != reflect.Struct {
		return
	}
	s := v.Elem()
	for i := 0; i < s.NumField(); i++ {
		f := s.Field(i)
		switch {
		case f.Kind() == reflect.Map:
			if f.Type().Key().Kind() == reflect.Interface {
				f.Set(reflect.Zero(f.Type()))
				continue
			}
			it := f.MapRange()
			for it.Next() {
				dropInterfaceKeyedMaps(it.Value())
			}
		case f.Kind() == reflect.Ptr && f.Type().Elem().Kind() == reflect.Struct && !isOrderedMapType(f.Type()):
			dropInterfaceKeyedMaps(f)
		}
	}
}

func panicSignature(err error) string {
	msg := err.Error()
	re := regexp.MustCompile(`0x[0-9a-f]+|\d+`)
	msg = re.ReplaceAllString(msg, "N")
	if len(msg) > 80 {
		msg = msg[:80]
	}
	return msg
}

func copyViaJSON(p *reg.Pkg, t ygot.GoStruct) ygot.GoStruct {
	m, err := ygot.ConstructIETFJSON(t, &ygot.RFC7951JSONConfig{AppendModuleName: true})
	if err != nil {
		return nil
	}
	b, _ := json.Marshal(m)
	r := p.NewRoot()
	if p.Unmarshal(b, r) != nil {
		return nil
	}
	return r
}

func jsondecStream(rng *rand.Rand, n int, tier string, out string) (*Summary, error) {
	sum := &Summary{Rule: "three families over every generated package: merge (JSON of tree B, optionally with unknown members, unmarshalled into populated tree A, with/without IgnoreExtraFields), decode (every candidate JSON scalar against every leaf reachable through containers), malformed (structural mutations of rendered JSON, into empty or populated roots). Non-trivial: merge cases where A and B share a list or container; decode cases with a value of the wrong kind or at a boundary; malformed cases that reach a list. Distinct by input."}
	var files []string
	id := 0
	names := reg.Names()
	seen := map[string]bool{}
	for _, name := range names {
		p := reg.Get(name)
		tf := newTreeFile(p, "tcase", "tmismatches", "Corr.TreeCorr")
		g := newTreeGen(rng, p)
		add := func(optIgnore, optShadow bool, cur ygot.GoStruct, jb []byte, family string) (ygot.GoStruct, error, bool) {
			curTerm := "(TCont [])"
			target := p.NewRoot().(ygot.GoStruct)
			if cur != nil {
				curTerm = treeTerm(cur)
				target = cur
			}
			jt, jerr := jsonBytesTerm(jb)
			if jerr != nil {
				return nil, jerr, false
			}
			err, pan := safeUnmarshal(p, jb, target, uoptsYgot(optIgnore, optShadow)...)
			o := coqErr
			switch {
			case pan:
				o = coqPanic
				sum.finding(Finding{Signature: "panic/unmarshal: " + panicSignature(err), What: "Unmarshal panics: " + err.Error(), Input: map[string]interface{}{"pkg": name, "json": string(jb), "into": curTerm}})
			case err == nil:
				o = coqOk(treeTerm(target))
			}
			tf.cf.add(fmt.Sprintf("JUnmarshal %d %s %s %s %s", id, uoptsTerm(optIgnore, optShadow), curTerm, jt, o))
			id++
			sum.count(family+"_outcome", map[bool]string{true: "ok", false: "err"}[err == nil])
			if len(sum.Samples) < 6 && id%97 == 0 {
				sum.Samples = append(sum.Samples, map[string]interface{}{"family": family, "pkg": name, "json": string(jb), "ok": err == nil})
			}
			key := family + curTerm + string(jb)
			if !seen[key] {
				seen[key] = true
			}
			return target, err, pan
		}

		quota := n / len(names)
		// ---- decode family
		var sites []leafSite
		rt := reflect.TypeOf(p.NewRoot()).Elem()
		containerLeaves(rt, p.SchemaTree[rt.Name()], nil, &sites)
		nd := 0
		type decPair struct {
			s leafSite
			c string
		}
		var pairs []decPair
		for _, s := range sites {
			_, rt := resolveType(s.entry)
			if rt != nil && rt.Kind == yang.Yunion && p.Flags["wrapper_unions"] {
				hasBin := false
				for _, m := range flattenUnion(rt) {
					if m.Kind == yang.Ybinary {
						hasBin = true
					}
				}
				if hasBin {
					continue
				}
			}
			for _, c := range decodeCandidates {
				if tier == "thorough" || rt == nil || c18Relevant(rt.Kind, c) || rng.Intn(25) == 0 {
					pairs = append(pairs, decPair{s, c})
				}
			}
		}
		rng.Shuffle(len(pairs), func(i, j int) { pairs[i], pairs[j] = pairs[j], pairs[i] })
		// decode cases are tiny (empty root, one-leaf document): they are cheap for the model
		if lim := quota/2 + 450; tier != "thorough" && len(pairs) > lim {
			pairs = pairs[:lim]
		}
		for _, pr := range pairs {
			{
				s, c := pr.s, pr.c
				var val interface{}
				d := json.NewDecoder(strings.NewReader(c))
				d.UseNumber()
				if d.Decode(&val) != nil {
					continue
				}
				if s.entry.IsLeafList() {
					val = []interface{}{val}
				}
				jb, _ := json.Marshal(nestJSON(s.path, val))
				res, err, pan := add(false, false, nil, jb, "decode")
				nd++
				sum.Nontrivial++
				// ---- C18 oracle
				if pan || s.entry.IsLeafList() {
					continue
				}
				_, t := resolveType(s.entry)
				if t == nil {
					continue
				}
				sum.OracleRuns++
				in := map[string]interface{}{"pkg": name, "leaf": strings.Join(s.path, "/"), "type": yang.TypeKindToName[t.Kind], "value": c}
				if t.Kind == yang.Yunion {
					if sv, isStr := val.(string); isStr && len(sv) > 15 && reInt.MatchString(sv) {
						continue // beyond float64 precision if it lands in a decimal64 member
					}
					if err == nil && val != nil {
						// accepted: must re-render to a value with the same denotation under some member
						m2, e2 := ygot.ConstructIETFJSON(res, &ygot.RFC7951JSONConfig{})
						b2, _ := json.Marshal(m2)
						v2d, _ := decodeJSON(b2)
						got, ok := getNested(v2d, s.path)
						if e2 != nil || !ok {
							sum.finding(Finding{Signature: "decode/union-accepted-but-not-rerendered", What: "accepted union value does not re-render", Input: in})
						} else {
							same := false
							for _, mt := range flattenUnion(t) {
								a, oka := denotes(p, s.entry, mt, val)
								b, okb := denotes(p, s.entry, mt, got)
								if oka && okb && a == b {
									same = true
								}
							}
							if !same {
								if sv, ok := val.(string); ok && strings.Contains(sv, ":") {
									for _, mt := range flattenUnion(t) {
										a, oka := denotes(p, s.entry, mt, util.StripModulePrefix(sv))
										b, okb := denotes(p, s.entry, mt, got)
										if oka && okb && a == b && (mt.Kind == yang.Yenum || mt.Kind == yang.Yidentityref) {
											same = true
										}
									}
									if same {
										sum.finding(Finding{Signature: "decode/foreign-module-prefix/union", What: "a defined enumeration/identity name carrying a module prefix that is not its defining module is accepted (the prefix is stripped without being checked)", Input: in})
									}
								}
							}
							if !same {
								sum.finding(Finding{Signature: "decode/union-value-changed", What: "union leaf re-renders to a different value than the one decoded", Input: in, Observed: got})
							}
						}
					}
					continue
				}
				want, valid := denotes(p, s.entry, t, val)
				switch {
				case val == nil:
					// null: leaf left unset; nothing to check
				case err == nil && !valid && t.Kind == yang.Ydecimal64 && reDec.MatchString(fmt.Sprint(val)):
					// lexically fine but beyond float64 precision: not judged
				case err == nil && !valid && (t.Kind == yang.Yidentityref || t.Kind == yang.Yenum) && func() bool {
					sv, _ := val.(string)
					_, ok := denotes(p, s.entry, t, util.StripModulePrefix(sv))
					return ok
				}():
					sum.finding(Finding{Signature: "decode/foreign-module-prefix/" + yang.TypeKindToName[t.Kind], What: "a defined enumeration/identity name carrying a module prefix that is not its defining module is accepted (the prefix is stripped without being checked)", Input: in})
				case err == nil && !valid:
					sum.finding(Finding{Signature: "decode/accepts-invalid/" + yang.TypeKindToName[t.Kind], What: "Unmarshal accepts a JSON value outside the leaf's RFC 7951 lexical space", Input: in})
				case err != nil && valid:
					// the property allows an error; only counted
					sum.count("rejects_valid", yang.TypeKindToName[t.Kind])
				case err == nil && valid:
					m2, e2 := ygot.ConstructIETFJSON(res, &ygot.RFC7951JSONConfig{})
					b2, _ := json.Marshal(m2)
					v2d, _ := decodeJSON(b2)
					got, ok := getNested(v2d, s.path)
					g2, ok2 := denotes(p, s.entry, t, got)
					if e2 != nil || !ok || !ok2 || g2 != want {
						sum.finding(Finding{Signature: "decode/value-changed/" + yang.TypeKindToName[t.Kind], What: "stored value re-renders to a different value", Input: in, Observed: got})
					}
				}
			}
		}
		// ---- merge family
		for k := 0; k < quota/4; k++ {
			g.pField = 0.5
			a := g.genTree()
			var b ygot.GoStruct = g.genTree()
			if k%2 == 1 {
				// b derived from a: a random part of a (list entries at every depth keep their
				// keys, so existing entries are named again with a subset of their members),
				// with some leaves changed
				b = mgClone(a)
				mgProject(rng, p, b, 0.65)
				dropOrd := rng.Intn(4) != 0 // an existing ordered-list key is rejected (known finding)
				for _, sl := range mgSlots(p, b) {
					switch {
					case sl.kind == "omap" && dropOrd:
						sl.field().Set(reflect.Zero(sl.sf.Type))
					case sl.kind == "leaf" && !sl.isKey && rng.Intn(3) == 0:
						mgRegenLeaf(g, sl)
					}
				}
				sum.count("merge_pair", "derived")
			} else {
				sum.count("merge_pair", "independent")
			}
			if p.Flags["wrapper_unions"] {
				// wrapper-union list keys are pointers: an entry with an equal key value is a
				// different map key, so such lists never merge by key (probed separately below)
				dropInterfaceKeyedMaps(reflect.ValueOf(b))
			}
			cfg := jcfgT{appendMod: rng.Intn(2) == 0}
			mb, err := ygot.ConstructIETFJSON(b, cfg.ygot())
			if err != nil {
				continue
			}
			jb, _ := json.Marshal(mb)
			doc, _ := decodeJSON(jb)
			unknown := rng.Intn(3) == 0
			if unknown {
				var slots []jslot
				collectSlots(doc, &slots)
				var objs []map[string]interface{}
				if m, ok := doc.(map[string]interface{}); ok {
					objs = append(objs, m)
				}
				for _, s := range slots {
					if s.m != nil {
						if m, ok := s.m[s.k].(map[string]interface{}); ok {
							objs = append(objs, m)
						}
					}
				}
				o := objs[rng.Intn(len(objs))]
				uname := pick(rng, []string{"zz-unknown", "v-main:zz-unknown", "zz:zz-other"})
				if rng.Intn(3) == 0 && len(o) > 0 {
					// a name with two colons whose last part is the name of a real sibling: still unknown
					var sib []string
					for k := range o {
						sib = append(sib, k)
					}
					sort.Strings(sib)
					base := pick(rng, sib)
					if i := strings.LastIndex(base, ":"); i >= 0 {
						base = base[i+1:]
					}
					uname = "vx:ext:" + base
				}
				o[uname] = pick(rng, []interface{}{json.Number("1"), "x", map[string]interface{}{"q": true}})
				jb, _ = json.Marshal(doc)
			}
			ignore := rng.Intn(2) == 0
			a0 := copyViaJSON(p, a)
			if a0 == nil {
				continue
			}
			res, uerr, pan := add(ignore, false, a, jb, "merge")
			if strings.Contains(treeTerm(a0), "TList [(") {
				sum.Nontrivial++
			}
			if pan {
				continue
			}
			// ---- C31 oracle on leaf maps
			sum.OracleRuns++
			in := map[string]interface{}{"pkg": name, "into": treeTerm(a0), "json": string(jb), "ignore_extra": ignore}
			la, lb := leafMapOf(a0), leafMapOf(b)
			// expected: b's leaves win, everything else from a; ordered lists: a's order then b's new keys
			orderedClash := false
			for k, v := range lb {
				if strings.HasSuffix(k, "#order") && v != "" {
					if av, ok := la[k]; ok && av != "" {
						for _, bk := range strings.Split(v, ",") {
							for _, ak := range strings.Split(av, ",") {
								if ak == bk {
									orderedClash = true
								}
							}
						}
					}
				}
			}
			switch {
			case unknown && !ignore:
				if uerr == nil {
					sum.finding(Finding{Signature: "merge/unknown-member-accepted", What: "JSON with an unknown member is accepted without IgnoreExtraFields", Input: in})
				}
			case uerr != nil && orderedClash:
				sum.finding(Finding{Signature: "merge/ordered-list-existing-key", What: "JSON naming an existing ordered-list key is rejected instead of merged: " + uerr.Error(), Input: in})
			case uerr != nil:
				sum.finding(Finding{Signature: "merge/rejected", What: "merge of a rendered tree into a populated tree fails: " + uerr.Error(), Input: in})
			default:
				want := map[string]string{}
				for k, v := range la {
					want[k] = v
				}
				for k, v := range lb {
					if strings.HasSuffix(k, "#order") {
						if av := la[k]; av != "" {
							if v != "" {
								want[k] = av + "," + v
							}
							continue
						}
					}
					want[k] = v
				}
				got := leafMapOf(res)
				var diff []string
				for _, d := range leafMapDiff(want, got, 50) {
					if strings.Contains(d, "l-unkeyed") { // unkeyed lists are appended, positions shift
						continue
					}
					diff = append(diff, d+" want="+want[d]+" got="+got[d])
				}
				if len(diff) > 0 {
					sum.finding(Finding{Signature: "merge/leaves-differ", What: "result of merging differs from the reference merge on leaf maps at " + strings.Join(diff[:1], ","), Input: in, Observed: diff})
				}
			}
		}
		// ---- malformed family
		for k := 0; k < quota/4; k++ {
			g.pField = 0.5
			b := g.genTree()
			if p.Flags["wrapper_unions"] {
				// as in the merge family: lists keyed by a wrapper union never merge by key (the keys
				// are pointers), which the tree model cannot express when the target is populated
				dropInterfaceKeyedMaps(reflect.ValueOf(b))
			}
			mb, err := ygot.ConstructIETFJSON(b, (jcfgT{appendMod: rng.Intn(2) == 0}).ygot())
			if err != nil {
				continue
			}
			jb, _ := json.Marshal(mb)
			doc, _ := decodeJSON(jb)
			kinds := []string{}
			for m := 1 + rng.Intn(2); m > 0; m-- {
				var kd string
				doc, kd = mutateJSON(rng, doc)
				kinds = append(kinds, kd)
			}
			jb, _ = json.Marshal(doc)
			if _, ok := doc.(map[string]interface{}); !ok && rng.Intn(3) != 0 {
				continue
			}
			var cur ygot.GoStruct
			if rng.Intn(3) == 0 {
				cur = g.genTree()
			}
			add(rng.Intn(4) == 0, false, cur, jb, "malformed")
			sum.count("mutation", strings.Join(kinds, "+"))
			if strings.Contains(string(jb), "[{") {
				sum.Nontrivial++
			}
			sum.OracleRuns++
		}
		fs, err := tf.write(out, "jsondec", 150)
		if err != nil {
			return nil, err
		}
		files = append(files, fs...)
	}
	sum.Cases = id
	sum.Extra = map[string]interface{}{"case_files": files}
	return sum, nil
}
