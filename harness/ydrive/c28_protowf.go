//go:build verif

package main

// Stream "protowf" (property C28: generated protobufs are well-formed).
//
// For every schema (YANG corpus, /repo test modules, random modules with adversarial identifiers,
// and modules built by a collision search) and a handful of option sets the stream runs the real
// protogen pipeline (protogen.New(...).Generate), assembles every .proto file exactly as
// proto_generator/protogenerator.go writes it, parses the text with the recursive-descent parser
// below (the proto3 subset that protogen's templates emit; anything else is a parse failure) and
//   - evaluates the property on the parsed descriptors (Go oracle, independent of the Coq model),
//   - cross-checks the numbers in the text against the generator's own data (accessor file in
//     package protogen: the string handed to fieldTag and the number it returned),
//   - writes Coq cases: TagCase (hashed bytes, observed number), HashCase (bytes, hash/fnv value),
//     MsgCase / EnumCase / ScopeCase (parsed descriptor, verdict of the Go oracle).

import (
	"encoding/json"
	"fmt"
	"hash/fnv"
	"math/rand"
	"os"
	"path/filepath"
	"sort"
	"strconv"
	"strings"

	"github.com/openconfig/ygot/genutil"
	"github.com/openconfig/ygot/protogen"
	"github.com/openconfig/ygot/ygen"
)

func init() { streams["protowf"] = c28Stream }

// ---------------------------------------------------------------------------------------------
// proto3 subset parser

type c28Tok struct {
	k    byte // 'i' identifier, 'n' integer, 's' string literal, 'p' punctuation, 'e' end of input
	s    string
	line int
}

func c28IsLetter(c byte) bool { return c == '_' || (c >= 'a' && c <= 'z') || (c >= 'A' && c <= 'Z') }
func c28IsDigit(c byte) bool  { return c >= '0' && c <= '9' }

// c28Lex tokenises like protoc's tokenizer for the subset: identifiers [A-Za-z_][A-Za-z0-9_]*,
// decimal integers, double-quoted strings with the protobuf escapes, // and /* */ comments.
func c28Lex(src string) ([]c28Tok, error) {
	var toks []c28Tok
	line := 1
	for i := 0; i < len(src); {
		c := src[i]
		switch {
		case c == '\n':
			line++
			i++
		case c == ' ' || c == '\t' || c == '\r':
			i++
		case c == '/' && i+1 < len(src) && src[i+1] == '/':
			for i < len(src) && src[i] != '\n' {
				i++
			}
		case c == '/' && i+1 < len(src) && src[i+1] == '*':
			j := strings.Index(src[i+2:], "*/")
			if j < 0 {
				return nil, fmt.Errorf("line %d: unterminated comment", line)
			}
			line += strings.Count(src[i:i+2+j+2], "\n")
			i += 2 + j + 2
		case c28IsLetter(c):
			j := i
			for j < len(src) && (c28IsLetter(src[j]) || c28IsDigit(src[j])) {
				j++
			}
			toks = append(toks, c28Tok{'i', src[i:j], line})
			i = j
		case c28IsDigit(c):
			j := i
			for j < len(src) && c28IsDigit(src[j]) {
				j++
			}
			if j < len(src) && (c28IsLetter(src[j]) || src[j] == '.') {
				return nil, fmt.Errorf("line %d: malformed number %q", line, src[i:j+1])
			}
			if j-i > 1 && src[i] == '0' {
				return nil, fmt.Errorf("line %d: octal literal %q outside the subset", line, src[i:j])
			}
			toks = append(toks, c28Tok{'n', src[i:j], line})
			i = j
		case c == '"':
			j := i + 1
			var b strings.Builder
			closed := false
			for j < len(src) {
				d := src[j]
				if d == '\n' {
					return nil, fmt.Errorf("line %d: newline in string literal", line)
				}
				if d == '"' {
					closed = true
					j++
					break
				}
				if d == '\\' {
					if j+1 >= len(src) {
						return nil, fmt.Errorf("line %d: dangling backslash", line)
					}
					e := src[j+1]
					switch {
					case strings.IndexByte("abfnrtv\\'\"?", e) >= 0:
						b.WriteByte(e)
						j += 2
					case e >= '0' && e <= '7':
						j += 2
						for k := 0; k < 2 && j < len(src) && src[j] >= '0' && src[j] <= '7'; k++ {
							j++
						}
						b.WriteByte('?')
					case e == 'x' || e == 'X':
						if j+2 >= len(src) || !strings.ContainsRune("0123456789abcdefABCDEF", rune(src[j+2])) {
							return nil, fmt.Errorf("line %d: bad hex escape in string literal", line)
						}
						j += 3
						if j < len(src) && strings.ContainsRune("0123456789abcdefABCDEF", rune(src[j])) {
							j++
						}
						b.WriteByte('?')
					default:
						return nil, fmt.Errorf("line %d: invalid escape \\%c in string literal", line, e)
					}
					continue
				}
				b.WriteByte(d)
				j++
			}
			if !closed {
				return nil, fmt.Errorf("line %d: unterminated string literal", line)
			}
			toks = append(toks, c28Tok{'s', b.String(), line})
			i = j
		case strings.IndexByte("{}=;[](),.-", c) >= 0:
			toks = append(toks, c28Tok{'p', string(c), line})
			i++
		default:
			return nil, fmt.Errorf("line %d: unexpected character %q", line, c)
		}
	}
	toks = append(toks, c28Tok{'e', "", line})
	return toks, nil
}

type c28Field struct {
	Name     string
	Num      int64
	Type     string
	Repeated bool
	OneOf    string // name of the enclosing oneof, "" for plain fields
	Opts     [][2]string
}
type c28EnumVal struct {
	Name string
	Num  int64
	Opts [][2]string
}
type c28Enum struct {
	Name string
	Vals []c28EnumVal
}
type c28Msg struct {
	Name   string
	Fields []c28Field
	Oneofs []string
	Nested []*c28Msg
	Enums  []*c28Enum
}
type c28File struct {
	Pkg     string
	Imports []string
	GoPkg   string
	Msgs    []*c28Msg
	Enums   []*c28Enum
}

type c28Parser struct {
	t []c28Tok
	i int
}

func (p *c28Parser) peek() c28Tok { return p.t[p.i] }
func (p *c28Parser) at(k int) c28Tok {
	if p.i+k < len(p.t) {
		return p.t[p.i+k]
	}
	return p.t[len(p.t)-1]
}
func (p *c28Parser) next() c28Tok {
	t := p.t[p.i]
	if p.i < len(p.t)-1 {
		p.i++
	}
	return t
}
func (p *c28Parser) errf(t c28Tok, f string, a ...interface{}) error {
	return fmt.Errorf("line %d: %s (at %q)", t.line, fmt.Sprintf(f, a...), t.s)
}
func (p *c28Parser) punct(s string) error {
	t := p.next()
	if t.k != 'p' || t.s != s {
		return p.errf(t, "expected %q", s)
	}
	return nil
}
func (p *c28Parser) isPunct(s string) bool { t := p.peek(); return t.k == 'p' && t.s == s }
func (p *c28Parser) ident() (string, error) {
	t := p.next()
	if t.k != 'i' {
		return "", p.errf(t, "expected identifier")
	}
	return t.s, nil
}
func (p *c28Parser) fullIdent() (string, error) {
	s, err := p.ident()
	if err != nil {
		return "", err
	}
	for p.isPunct(".") {
		p.next()
		t, err := p.ident()
		if err != nil {
			return "", err
		}
		s += "." + t
	}
	return s, nil
}
func (p *c28Parser) uint() (int64, error) {
	t := p.next()
	if t.k != 'n' {
		return 0, p.errf(t, "expected integer")
	}
	v, err := strconv.ParseInt(t.s, 10, 64)
	if err != nil {
		return 0, p.errf(t, "integer out of range")
	}
	return v, nil
}
func (p *c28Parser) constant() (string, error) {
	t := p.peek()
	switch {
	case t.k == 's':
		p.next()
		return "\"" + t.s + "\"", nil
	case t.k == 'i':
		return p.fullIdent()
	case t.k == 'n':
		p.next()
		return t.s, nil
	case t.k == 'p' && t.s == "-":
		p.next()
		v, err := p.uint()
		return fmt.Sprintf("-%d", v), err
	}
	return "", p.errf(t, "expected constant")
}

// options := "[" option { "," option } "]" ; option := ( "(" fullIdent ")" | ident ) "=" constant
func (p *c28Parser) options() ([][2]string, error) {
	var out [][2]string
	if !p.isPunct("[") {
		return nil, nil
	}
	p.next()
	for {
		var name string
		if p.isPunct("(") {
			p.next()
			n, err := p.fullIdent()
			if err != nil {
				return nil, err
			}
			if err := p.punct(")"); err != nil {
				return nil, err
			}
			name = "(" + n + ")"
		} else {
			n, err := p.ident()
			if err != nil {
				return nil, err
			}
			name = n
		}
		if err := p.punct("="); err != nil {
			return nil, err
		}
		v, err := p.constant()
		if err != nil {
			return nil, err
		}
		out = append(out, [2]string{name, v})
		if p.isPunct(",") {
			p.next()
			continue
		}
		break
	}
	return out, p.punct("]")
}

func (p *c28Parser) field(oneof string) (c28Field, error) {
	var f c28Field
	f.OneOf = oneof
	if t := p.peek(); oneof == "" && t.k == 'i' && t.s == "repeated" && p.at(1).k == 'i' {
		p.next()
		f.Repeated = true
	}
	ty, err := p.fullIdent()
	if err != nil {
		return f, err
	}
	f.Type = ty
	if f.Name, err = p.ident(); err != nil {
		return f, err
	}
	if err := p.punct("="); err != nil {
		return f, err
	}
	if f.Num, err = p.uint(); err != nil {
		return f, err
	}
	if f.Opts, err = p.options(); err != nil {
		return f, err
	}
	return f, p.punct(";")
}

func (p *c28Parser) enum() (*c28Enum, error) {
	p.next() // "enum"
	e := &c28Enum{}
	var err error
	if e.Name, err = p.ident(); err != nil {
		return nil, err
	}
	if err := p.punct("{"); err != nil {
		return nil, err
	}
	for !p.isPunct("}") {
		var v c28EnumVal
		if v.Name, err = p.ident(); err != nil {
			return nil, err
		}
		if err := p.punct("="); err != nil {
			return nil, err
		}
		neg := false
		if p.isPunct("-") {
			p.next()
			neg = true
		}
		if v.Num, err = p.uint(); err != nil {
			return nil, err
		}
		if neg {
			v.Num = -v.Num
		}
		if v.Opts, err = p.options(); err != nil {
			return nil, err
		}
		if err := p.punct(";"); err != nil {
			return nil, err
		}
		e.Vals = append(e.Vals, v)
	}
	p.next()
	return e, nil
}

func (p *c28Parser) opens(kw string) bool {
	t := p.peek()
	return t.k == 'i' && t.s == kw && p.at(1).k == 'i' && p.at(2).k == 'p' && p.at(2).s == "{"
}

func (p *c28Parser) message() (*c28Msg, error) {
	p.next() // "message"
	m := &c28Msg{}
	var err error
	if m.Name, err = p.ident(); err != nil {
		return nil, err
	}
	if err := p.punct("{"); err != nil {
		return nil, err
	}
	for !p.isPunct("}") {
		switch {
		case p.peek().k == 'e':
			return nil, p.errf(p.peek(), "unexpected end of input in message %s", m.Name)
		case p.opens("message"):
			n, err := p.message()
			if err != nil {
				return nil, err
			}
			m.Nested = append(m.Nested, n)
		case p.opens("enum"):
			e, err := p.enum()
			if err != nil {
				return nil, err
			}
			m.Enums = append(m.Enums, e)
		case p.opens("oneof"):
			p.next()
			on, _ := p.ident()
			p.next() // "{"
			m.Oneofs = append(m.Oneofs, on)
			n := 0
			for !p.isPunct("}") {
				f, err := p.field(on)
				if err != nil {
					return nil, err
				}
				m.Fields = append(m.Fields, f)
				n++
			}
			p.next()
			if n == 0 {
				return nil, fmt.Errorf("oneof %s.%s has no fields", m.Name, on)
			}
		default:
			f, err := p.field("")
			if err != nil {
				return nil, err
			}
			m.Fields = append(m.Fields, f)
		}
	}
	p.next()
	return m, nil
}

// c28ParseProto parses one generated file.
func c28ParseProto(src string) (*c28File, error) {
	toks, err := c28Lex(src)
	if err != nil {
		return nil, err
	}
	p := &c28Parser{t: toks}
	f := &c28File{}
	if t := p.next(); t.k != 'i' || t.s != "syntax" {
		return nil, p.errf(t, "expected syntax statement")
	}
	if err := p.punct("="); err != nil {
		return nil, err
	}
	if t := p.next(); t.k != 's' || t.s != "proto3" {
		return nil, p.errf(t, "expected \"proto3\"")
	}
	if err := p.punct(";"); err != nil {
		return nil, err
	}
	if t := p.next(); t.k != 'i' || t.s != "package" {
		return nil, p.errf(t, "expected package statement")
	}
	if f.Pkg, err = p.fullIdent(); err != nil {
		return nil, err
	}
	if err := p.punct(";"); err != nil {
		return nil, err
	}
	for {
		t := p.peek()
		switch {
		case t.k == 'e':
			return f, nil
		case t.k == 'i' && t.s == "import":
			p.next()
			s := p.next()
			if s.k != 's' {
				return nil, p.errf(s, "expected import path")
			}
			f.Imports = append(f.Imports, s.s)
			if err := p.punct(";"); err != nil {
				return nil, err
			}
		case t.k == 'i' && t.s == "option":
			p.next()
			n, err := p.ident()
			if err != nil {
				return nil, err
			}
			if err := p.punct("="); err != nil {
				return nil, err
			}
			v, err := p.constant()
			if err != nil {
				return nil, err
			}
			if n == "go_package" {
				f.GoPkg = v
			}
			if err := p.punct(";"); err != nil {
				return nil, err
			}
		case p.opens("message"):
			m, err := p.message()
			if err != nil {
				return nil, err
			}
			f.Msgs = append(f.Msgs, m)
		case p.opens("enum"):
			e, err := p.enum()
			if err != nil {
				return nil, err
			}
			f.Enums = append(f.Enums, e)
		default:
			return nil, p.errf(t, "unexpected token at top level")
		}
	}
}

// ---------------------------------------------------------------------------------------------
// the property on parsed descriptors (Go oracle) and the Coq terms

const c28MaxField = 1<<29 - 1

func c28FieldLegal(n int64) bool { return n >= 1 && n <= c28MaxField && !(n >= 19000 && n <= 19999) }

func c28Distinct(ss []string) bool {
	seen := map[string]bool{}
	for _, s := range ss {
		if seen[s] {
			return false
		}
		seen[s] = true
	}
	return true
}

func c28EnumSymbols(e *c28Enum) []string {
	out := []string{e.Name}
	for _, v := range e.Vals {
		out = append(out, v.Name)
	}
	return out
}

func c28EnumWF(e *c28Enum) bool {
	names, nums := map[string]bool{}, map[int64]bool{}
	for _, v := range e.Vals {
		if names[v.Name] || nums[v.Num] || v.Num < -2147483648 || v.Num > 2147483647 {
			return false
		}
		names[v.Name], nums[v.Num] = true, true
	}
	return len(e.Vals) > 0 && e.Vals[0].Num == 0
}

func c28MsgSymbols(m *c28Msg) []string {
	var out []string
	for _, f := range m.Fields {
		out = append(out, f.Name)
	}
	out = append(out, m.Oneofs...)
	for _, n := range m.Nested {
		out = append(out, n.Name)
	}
	for _, e := range m.Enums {
		out = append(out, c28EnumSymbols(e)...)
	}
	return out
}

func c28MsgWF(m *c28Msg) bool {
	if !c28Distinct(c28MsgSymbols(m)) {
		return false
	}
	nums := map[int64]bool{}
	for _, f := range m.Fields {
		if nums[f.Num] || !c28FieldLegal(f.Num) {
			return false
		}
		nums[f.Num] = true
	}
	for _, e := range m.Enums {
		if !c28EnumWF(e) {
			return false
		}
	}
	for _, n := range m.Nested {
		if !c28MsgWF(n) {
			return false
		}
	}
	return true
}

func c28CoqZ(n int64) string {
	if n < 0 {
		return fmt.Sprintf("(%d)%%Z", n)
	}
	return fmt.Sprintf("%d%%Z", n)
}

func c28CoqEnum(e *c28Enum) string {
	var vs []string
	for _, v := range e.Vals {
		vs = append(vs, "("+coqStr(v.Name)+","+c28CoqZ(v.Num)+")")
	}
	return "{| pe_name := " + coqStr(e.Name) + "; pe_values := " + coqList(vs) + " |}"
}

func c28CoqMsg(m *c28Msg) string {
	var fs, ns, es []string
	for _, f := range m.Fields {
		fs = append(fs, "("+coqStr(f.Name)+","+c28CoqZ(f.Num)+")")
	}
	for _, n := range m.Nested {
		ns = append(ns, c28CoqMsg(n))
	}
	for _, e := range m.Enums {
		es = append(es, c28CoqEnum(e))
	}
	return "(PMsg " + coqStr(m.Name) + " " + coqList(fs) + " " + coqStrList(m.Oneofs) + " " + coqList(ns) + " " + coqList(es) + ")"
}

func c28CoqBytes(s string) string {
	var b strings.Builder
	b.WriteString("[")
	for i := 0; i < len(s); i++ {
		if i > 0 {
			b.WriteString(";")
		}
		fmt.Fprintf(&b, "%d", s[i])
	}
	b.WriteString("]")
	return b.String()
}

// ---------------------------------------------------------------------------------------------
// schemas, options, running the generator

type c28Schema struct {
	Name    string            `json:"name"`
	Kind    string            `json:"kind"`
	Files   []string          `json:"files,omitempty"`   // YANG files on disk (corpus)
	Include []string          `json:"include,omitempty"` // include paths
	Yang    map[string]string `json:"yang,omitempty"`    // generated modules: file name -> text
}

type c28Opts struct {
	Compress bool `json:"compress"`
	Nested   bool `json:"nested"`
	Annotate bool `json:"annotate"` // schema path and enum name annotations
	FakeRoot bool `json:"fakeroot"`
	GoPkg    bool `json:"go_package"`
}

func (o c28Opts) key() string {
	b := func(x bool) string {
		if x {
			return "1"
		}
		return "0"
	}
	return "c" + b(o.Compress) + "n" + b(o.Nested) + "a" + b(o.Annotate) + "f" + b(o.FakeRoot) + "g" + b(o.GoPkg)
}

type c28ReplayCase struct {
	Schema  *c28Schema `json:"schema"`
	Variant *c28Schema `json:"variant"`
	Opts    c28Opts    `json:"opts"`
	String  *string    `json:"string"`
}

// VariantSig: the fixed leaf-default pair keeps its own signature under replay.
func (c c28ReplayCase) VariantSig() string {
	if c.Variant != nil && strings.HasPrefix(c.Variant.Name, "fixed-leaf-default") {
		return "enum-unstable/leaf-default"
	}
	return "tag-unstable"
}

func c28Env(name, def string) string {
	if v := os.Getenv(name); v != "" {
		return v
	}
	return def
}

// materialise writes generated modules below dir and returns the file and include lists.
func (s *c28Schema) materialise(dir string) ([]string, []string, error) {
	if s.Yang == nil {
		return s.Files, s.Include, nil
	}
	d := filepath.Join(dir, "yang", s.Name)
	if err := os.MkdirAll(d, 0o755); err != nil {
		return nil, nil, err
	}
	var names []string
	for n := range s.Yang {
		names = append(names, n)
	}
	sort.Strings(names)
	var files []string
	for _, n := range names {
		f := filepath.Join(d, n)
		if err := os.WriteFile(f, []byte(s.Yang[n]), 0o644); err != nil {
			return nil, nil, err
		}
		files = append(files, f)
	}
	return files, []string{d}, nil
}

type c28Run struct {
	GenErr  string
	Panic   string
	Texts   map[string]string // package -> file text
	Paths   map[string]string // package -> file path (joined FilePath)
	Files   map[string]*c28File
	ParseEr map[string]string
	Data    *protogen.VerifData
	DataErr string
}

func c28NewGenerator(o c28Opts) *protogen.CodeGenerator {
	cb, _ := genutil.TranslateToCompressBehaviour(o.Compress, false, false)
	po := protogen.ProtoOpts{AnnotateSchemaPaths: o.Annotate, AnnotateEnumNames: o.Annotate, NestedMessages: o.Nested}
	if o.GoPkg {
		po.GoPackageBase = "example.com/c28/gen"
		po.BaseImportPath = "example.com/c28"
	}
	return protogen.New("verif", ygen.IROptions{
		TransformationOptions: ygen.TransformationOpts{CompressBehaviour: cb, GenerateFakeRoot: o.FakeRoot, FakeRootName: "device"},
	}, po)
}

// c28Assemble builds the file text as proto_generator/protogenerator.go writes it.
func c28Assemble(p protogen.Proto3Package) string {
	var b strings.Builder
	b.WriteString(p.Header)
	for _, m := range p.Messages {
		b.WriteString(fmt.Sprintf("%s\n", m))
	}
	for _, e := range p.Enums {
		b.WriteString(e)
	}
	return b.String()
}

func c28Generate(files, include []string, o c28Opts, collect bool) (run *c28Run) {
	run = &c28Run{Texts: map[string]string{}, Paths: map[string]string{}, Files: map[string]*c28File{}, ParseEr: map[string]string{}}
	defer func() {
		if r := recover(); r != nil {
			run.Panic = fmt.Sprint(r)
		}
	}()
	cg := c28NewGenerator(o)
	g, errs := cg.Generate(files, include)
	if errs != nil {
		run.GenErr = fmt.Sprint(errs)
		return run
	}
	for pkg, p := range g.Packages {
		run.Texts[pkg] = c28Assemble(p)
		run.Paths[pkg] = filepath.Join(p.FilePath...)
		f, err := c28ParseProto(run.Texts[pkg])
		if err != nil {
			run.ParseEr[pkg] = err.Error()
			continue
		}
		run.Files[pkg] = f
	}
	if collect {
		d, err := c28NewGenerator(o).VerifCollect(files, include)
		if err != nil {
			run.DataErr = err.Error()
		}
		run.Data = d
	}
	return run
}

// ---------------------------------------------------------------------------------------------
// the stream state

type c28State struct {
	sum      *Summary
	cf       *caseFile
	id       int
	out      string
	seenTag  map[string]bool
	seenTerm map[string]bool
	ywrapper map[string]bool
}

func (st *c28State) input(s *c28Schema, o c28Opts) map[string]interface{} {
	return map[string]interface{}{"schema": s, "opts": o}
}

func (st *c28State) addTag(hashed string, tag uint32, kind string) {
	if st.seenTag[hashed] {
		return
	}
	st.seenTag[hashed] = true
	st.cf.add(fmt.Sprintf("TagCase %d %s %d", st.id, c28CoqBytes(hashed), tag))
	st.id++
	st.sum.count("tag_kind", kind)
	switch {
	case tag == 0:
		st.sum.count("tag_value", "zero")
	default:
		h := fnv.New32()
		h.Write([]byte(hashed))
		if h.Sum32()&0x1fffffff != tag {
			st.sum.count("tag_value", "retried")
		} else {
			st.sum.count("tag_value", "direct")
		}
	}
	if kind != "random" {
		st.sum.Nontrivial++
	}
}

func (st *c28State) addHash(bs string) {
	h := fnv.New32()
	h.Write([]byte(bs))
	st.cf.add(fmt.Sprintf("HashCase %d %s %d", st.id, c28CoqBytes(bs), h.Sum32()))
	st.id++
	st.sum.count("tag_kind", "hash")
}

func (st *c28State) addTerm(term string, nontrivial bool, hist string) {
	if st.seenTerm[term] {
		return
	}
	st.seenTerm[term] = true
	st.cf.add(strings.Replace(term, "@ID@", strconv.Itoa(st.id), 1))
	st.id++
	st.sum.count("descriptor", hist)
	if nontrivial {
		st.sum.Nontrivial++
	}
}

// c28Dups lists the values that occur more than once.
func c28Dups(ss []string) []string {
	cnt := map[string]int{}
	for _, s := range ss {
		cnt[s]++
	}
	var out []string
	for s, c := range cnt {
		if c > 1 {
			out = append(out, s)
		}
	}
	sort.Strings(out)
	return out
}

// symbolClass says what kinds of declarations a duplicated symbol of a message has.
func c28SymbolClass(m *c28Msg, sym string) string {
	var kinds []string
	nf, no := 0, 0
	for _, f := range m.Fields {
		if f.Name == sym {
			if f.OneOf != "" {
				no++
			} else {
				nf++
			}
		}
	}
	if nf > 0 {
		kinds = append(kinds, "field")
	}
	if no > 0 {
		kinds = append(kinds, "oneofmember")
	}
	for _, o := range m.Oneofs {
		if o == sym {
			kinds = append(kinds, "oneof")
			break
		}
	}
	for _, n := range m.Nested {
		if n.Name == sym {
			kinds = append(kinds, "message")
			break
		}
	}
	ev := false
	for _, e := range m.Enums {
		if e.Name == sym {
			kinds = append(kinds, "enum")
		}
		for _, v := range e.Vals {
			if v.Name == sym && !ev {
				ev = true
				kinds = append(kinds, "enumvalue")
			}
		}
	}
	if len(kinds) == 1 {
		kinds = append(kinds, kinds[0])
	}
	return strings.Join(kinds, "-")
}

func (st *c28State) enumOracle(e *c28Enum, where string, s *c28Schema, o c28Opts) {
	st.sum.OracleRuns++
	var names []string
	nums := map[int64][]string{}
	for _, v := range e.Vals {
		names = append(names, v.Name)
		nums[v.Num] = append(nums[v.Num], v.Name)
		if v.Num < -2147483648 || v.Num > 2147483647 {
			st.sum.finding(Finding{Signature: "enum-number-range", What: fmt.Sprintf("enum %s.%s: value %s = %d does not fit int32", where, e.Name, v.Name, v.Num), Input: st.input(s, o)})
		}
	}
	if d := c28Dups(names); len(d) > 0 {
		st.sum.finding(Finding{Signature: "symbol-collision/enumvalue-enumvalue", What: fmt.Sprintf("enum %s.%s declares the value name(s) %v more than once", where, e.Name, d), Input: st.input(s, o)})
	}
	for n, vs := range nums {
		if len(vs) > 1 {
			st.sum.finding(Finding{Signature: "enum-number-collision", What: fmt.Sprintf("enum %s.%s: values %v share the number %d", where, e.Name, vs, n), Input: st.input(s, o)})
		}
	}
	if len(e.Vals) == 0 || e.Vals[0].Num != 0 {
		first := "none"
		if len(e.Vals) > 0 {
			first = fmt.Sprintf("%s = %d", e.Vals[0].Name, e.Vals[0].Num)
		}
		st.sum.finding(Finding{Signature: "enum-first-nonzero", What: fmt.Sprintf("enum %s.%s: the first value is %s; proto3 requires the first enum value to be zero", where, e.Name, first), Input: st.input(s, o)})
	}
}

func (st *c28State) msgOracle(m *c28Msg, where string, s *c28Schema, o c28Opts) {
	st.sum.OracleRuns++
	fq := where + "." + m.Name
	for _, d := range c28Dups(c28MsgSymbols(m)) {
		cls := c28SymbolClass(m, d)
		if cls == "enumvalue-enumvalue" {
			// reported per enum unless the values live in different enums of this message
			within := false
			for _, e := range m.Enums {
				n := 0
				for _, v := range e.Vals {
					if v.Name == d {
						n++
					}
				}
				if n > 1 {
					within = true
				}
			}
			if within {
				continue
			}
			cls = "enumvalue-sibling-enumvalue"
		}
		if cls == "field-field" && c28IsListKeyMember(m, d) {
			// <List>Key { <key fields>; <List> <list name> = n; }: the generator appends "_key" to a
			// key whose sanitised name equals that of the list, so a clash between a key and the
			// member field is never the documented sibling-name weakness
			cls = "listkey-member"
		}
		st.sum.finding(Finding{Signature: "symbol-collision/" + cls, What: fmt.Sprintf("message %s declares the name %q more than once (%s)", fq, d, cls), Input: st.input(s, o)})
	}
	byNum := map[int64][]c28Field{}
	for _, f := range m.Fields {
		byNum[f.Num] = append(byNum[f.Num], f)
		if !c28FieldLegal(f.Num) {
			sig := "field-number-range"
			if f.Num == 0 {
				sig = "tag-zero/field"
			}
			st.sum.finding(Finding{Signature: sig, What: fmt.Sprintf("message %s: field %s has the illegal number %d", fq, f.Name, f.Num), Input: st.input(s, o)})
		}
	}
	for n, fs := range byNum {
		if len(fs) > 1 {
			sig := "tag-collision/siblings"
			var names []string
			for _, f := range fs {
				names = append(names, f.Name)
				if f.OneOf != "" {
					sig = "tag-collision/oneof-members"
				}
			}
			st.sum.finding(Finding{Signature: sig, What: fmt.Sprintf("message %s: fields %v share the number %d (the generator returned no error)", fq, names, n), Input: st.input(s, o),
				Observed: map[string]interface{}{"message": fq, "fields": names, "number": n}})
		}
	}
	for _, e := range m.Enums {
		st.enumOracle(e, fq, s, o)
	}
	for _, n := range m.Nested {
		st.msgOracle(n, fq, s, o)
	}
}

// c28IsListKeyMember reports whether m is a generated list-key message (named <X>Key, with a
// single field of message type <X> that holds the list entry) and sym is the name of that field.
func c28IsListKeyMember(m *c28Msg, sym string) bool {
	if !strings.HasSuffix(m.Name, "Key") {
		return false
	}
	want := strings.TrimSuffix(m.Name, "Key")
	for _, f := range m.Fields {
		t := f.Type
		if i := strings.LastIndex(t, "."); i >= 0 {
			t = t[i+1:]
		}
		if t == want && f.Name == sym && !f.Repeated {
			return true
		}
	}
	return false
}

func c28CountFields(m *c28Msg) int {
	n := len(m.Fields)
	for _, c := range m.Nested {
		n += c28CountFields(c)
	}
	return n
}

// flatten lists every message with its fully-qualified name.
type c28FlatMsg struct {
	FQ string
	M  *c28Msg
}

func c28Flatten(prefix string, ms []*c28Msg, out *[]c28FlatMsg) {
	for _, m := range ms {
		fq := prefix + "." + m.Name
		*out = append(*out, c28FlatMsg{fq, m})
		c28Flatten(fq, m.Nested, out)
	}
}

func c28FieldSig(fs map[string]int64) string {
	var ss []string
	for n, v := range fs {
		ss = append(ss, fmt.Sprintf("%s=%d", n, v))
	}
	sort.Strings(ss)
	return strings.Join(ss, ",")
}

// typeOracle resolves every field type with protobuf's scoping rules against the set of generated
// files (plus ywrapper.proto and google.protobuf.Any) and checks that the defining file is imported.
func (st *c28State) typeOracle(run *c28Run, s *c28Schema, o c28Opts) {
	scalars := map[string]bool{"double": true, "float": true, "int32": true, "int64": true, "uint32": true, "uint64": true, "sint32": true,
		"sint64": true, "fixed32": true, "fixed64": true, "sfixed32": true, "sfixed64": true, "bool": true, "string": true, "bytes": true}
	types := map[string]string{} // fully-qualified type -> defining package ("" for external)
	scopes := map[string]bool{"": true}
	addScope := func(fq string) {
		parts := strings.Split(fq, ".")
		for i := 1; i <= len(parts); i++ {
			scopes[strings.Join(parts[:i], ".")] = true
		}
	}
	var walk func(pkg, prefix string, ms []*c28Msg)
	walk = func(pkg, prefix string, ms []*c28Msg) {
		for _, m := range ms {
			fq := prefix + "." + m.Name
			types[fq] = pkg
			addScope(fq)
			for _, e := range m.Enums {
				types[fq+"."+e.Name] = pkg
			}
			walk(pkg, fq, m.Nested)
		}
	}
	for pkg, f := range run.Files {
		addScope(f.Pkg)
		walk(pkg, f.Pkg, f.Msgs)
		for _, e := range f.Enums {
			types[f.Pkg+"."+e.Name] = pkg
		}
	}
	for n := range st.ywrapper {
		types["ywrapper."+n] = "<ywrapper>"
	}
	addScope("ywrapper")
	types["google.protobuf.Any"] = "<any>"
	addScope("google.protobuf")
	importOf := map[string]string{}
	for pkg := range run.Files {
		importOf[pkg] = run.Paths[pkg]
	}
	resolve := func(scope, name string) (string, bool) {
		first := strings.SplitN(name, ".", 2)[0]
		parts := strings.Split(scope, ".")
		for i := len(parts); i >= 0; i-- {
			p := strings.Join(parts[:i], ".")
			cand := first
			full := name
			if p != "" {
				cand = p + "." + first
				full = p + "." + name
			}
			_, isType := types[cand]
			if scopes[cand] || isType {
				_, ok := types[full]
				return full, ok
			}
		}
		return name, false
	}
	var check func(pkg string, f *c28File, scope string, ms []*c28Msg)
	check = func(pkg string, f *c28File, scope string, ms []*c28Msg) {
		for _, m := range ms {
			fq := scope + "." + m.Name
			for _, fl := range m.Fields {
				st.sum.OracleRuns++
				if scalars[fl.Type] {
					continue
				}
				full, ok := resolve(fq, fl.Type)
				if !ok {
					st.sum.finding(Finding{Signature: "type-unresolved", What: fmt.Sprintf("file %s: field %s.%s has type %q which resolves to no generated message or enum (candidate %s)", run.Paths[pkg], fq, fl.Name, fl.Type, full), Input: st.input(s, o)})
					continue
				}
				def := types[full]
				if def == pkg {
					continue
				}
				want := ""
				switch def {
				case "<ywrapper>":
					want = "ywrapper.proto"
				case "<any>":
					want = "google/protobuf/any.proto"
				default:
					want = importOf[def]
				}
				found := false
				for _, imp := range f.Imports {
					if imp == want || strings.HasSuffix(imp, "/"+want) {
						found = true
					}
				}
				if !found {
					st.sum.finding(Finding{Signature: "import-missing/type", What: fmt.Sprintf("file %s: field %s.%s uses %s defined in %s, which is not imported (imports: %v)", run.Paths[pkg], fq, fl.Name, full, want, f.Imports), Input: st.input(s, o)})
				}
			}
			check(pkg, f, fq, m.Nested)
		}
	}
	for pkg, f := range run.Files {
		check(pkg, f, f.Pkg, f.Msgs)
		// options need yext
		usesYext := strings.Contains(run.Texts[pkg], "(yext.")
		hasYext := false
		for _, imp := range f.Imports {
			if strings.HasSuffix(imp, "yext.proto") {
				hasYext = true
			}
		}
		if usesYext && !hasYext {
			st.sum.finding(Finding{Signature: "import-missing/yext", What: fmt.Sprintf("file %s uses (yext.*) options without importing yext.proto", run.Paths[pkg]), Input: st.input(s, o)})
		}
	}
}

// process runs one schema under one option set: oracle, cross-checks and Coq cases.
func (st *c28State) process(s *c28Schema, o c28Opts) *c28Run {
	files, include, err := s.materialise(st.out)
	if err != nil {
		st.sum.count("generate", "io-error")
		return nil
	}
	run := c28Generate(files, include, o, true)
	st.sum.count("options", o.key())
	switch {
	case run.Panic != "":
		st.sum.count("generate", "panic")
		st.sum.finding(Finding{Signature: "generator-panic", What: "protogen panics: " + run.Panic, Input: st.input(s, o)})
		return run
	case run.GenErr != "":
		st.sum.count("generate", "rejected:"+s.Kind)
		return run
	}
	st.sum.count("generate", "ok:"+s.Kind)
	var pkgs []string
	for pkg := range run.Texts {
		pkgs = append(pkgs, pkg)
	}
	sort.Strings(pkgs)
	var flat []c28FlatMsg
	for _, pkg := range pkgs {
		if e, bad := run.ParseEr[pkg]; bad {
			st.sum.count("parse", "failed")
			psig := "proto-parse/other"
			if strings.Contains(c28Excerpt(run.Texts[pkg], e), "(yext.yang_name)") {
				psig = "proto-parse/enum-name-literal"
			}
			st.sum.finding(Finding{Signature: psig, What: fmt.Sprintf("generated file %s is not in the proto3 subset: %s", run.Paths[pkg], e), Input: st.input(s, o), Observed: c28Excerpt(run.Texts[pkg], e)})
			continue
		}
		st.sum.count("parse", "ok")
		f := run.Files[pkg]
		if f.Pkg != pkg {
			st.sum.finding(Finding{Signature: "package-name", What: fmt.Sprintf("file for package %q declares package %q", pkg, f.Pkg), Input: st.input(s, o)})
		}
		// file scope
		var syms []string
		for _, m := range f.Msgs {
			syms = append(syms, m.Name)
		}
		for _, e := range f.Enums {
			syms = append(syms, c28EnumSymbols(e)...)
		}
		st.sum.OracleRuns++
		if d := c28Dups(syms); len(d) > 0 {
			st.sum.finding(Finding{Signature: "symbol-collision/file-scope", What: fmt.Sprintf("file %s declares the top-level name(s) %v more than once", run.Paths[pkg], d), Input: st.input(s, o)})
		}
		st.addTerm(fmt.Sprintf("ScopeCase @ID@ %s %s", coqStrList(syms), coqBool(c28Distinct(syms))), len(syms) > 1, "scope")
		for _, m := range f.Msgs {
			st.msgOracle(m, f.Pkg, s, o)
			wf := c28MsgWF(m)
			st.addTerm(fmt.Sprintf("MsgCase @ID@ %s %s", c28CoqMsg(m), coqBool(wf)), c28CountFields(m) > 1, "msg-wf-"+coqBool(wf))
			if len(st.sum.Samples) < 3 && c28CountFields(m) > 1 && c28CountFields(m) < 8 {
				st.sum.sample(map[string]interface{}{"schema": s.Name, "opts": o.key(), "message": m})
			}
		}
		for _, e := range f.Enums {
			st.enumOracle(e, f.Pkg, s, o)
			wf := c28EnumWF(e)
			st.addTerm(fmt.Sprintf("EnumCase @ID@ %s %s", c28CoqEnum(e), coqBool(wf)), len(e.Vals) > 1, "enum-wf-"+coqBool(wf))
		}
		c28Flatten(f.Pkg, f.Msgs, &flat)
	}
	if len(run.ParseEr) == 0 {
		st.typeOracle(run, s, o)
	}
	st.crossCheck(run, flat, s, o)
	return run
}

func c28Excerpt(text, errmsg string) string {
	var line int
	if _, err := fmt.Sscanf(errmsg, "line %d:", &line); err != nil || line < 1 {
		return ""
	}
	ls := strings.Split(text, "\n")
	if line > len(ls) {
		return ""
	}
	return strings.TrimSpace(ls[line-1])
}

// crossCheck compares the generator's own data (accessor) with the parsed text and emits TagCases.
func (st *c28State) crossCheck(run *c28Run, flat []c28FlatMsg, s *c28Schema, o c28Opts) {
	d := run.Data
	if d == nil {
		st.sum.count("collect", "failed")
		return
	}
	if len(d.Errors) > 0 {
		st.sum.count("collect", "errors")
	}
	for _, t := range d.Tags {
		if t.Hashed == "" {
			st.sum.finding(Finding{Signature: "tag-unexplained", What: fmt.Sprintf("no hashed string explains number %d of %s.%s", t.Tag, t.Msg, t.Name), Input: st.input(s, o)})
			continue
		}
		st.addTag(t.Hashed, t.Tag, t.Kind)
	}
	if len(run.ParseEr) > 0 {
		return
	}
	// messages: some parsed message with the same simple name must have exactly the fields
	bySimple := map[string][]*c28Msg{}
	for _, fm := range flat {
		bySimple[fm.M.Name] = append(bySimple[fm.M.Name], fm.M)
	}
	for _, vm := range d.Msgs {
		st.sum.OracleRuns++
		want := map[string]int64{}
		for _, f := range vm.Fields {
			want[f.Name] = int64(f.Tag)
		}
		cands := bySimple[vm.Name]
		if len(cands) == 0 {
			st.sum.count("crosscheck", "message-not-emitted")
			continue
		}
		ok := false
		var got []string
		for _, c := range cands {
			have := map[string]int64{}
			for _, f := range c.Fields {
				have[f.Name] = f.Num
			}
			got = append(got, c28FieldSig(have))
			if c28FieldSig(have) == c28FieldSig(want) {
				ok = true
			}
		}
		if ok {
			st.sum.count("crosscheck", "message-ok")
		} else if len(want) != len(vm.Fields) {
			// duplicate field names in the generator's data: reported by the symbol oracle
			st.sum.count("crosscheck", "message-duplicate-names")
		} else {
			st.sum.finding(Finding{Signature: "tag-text-mismatch", What: fmt.Sprintf("message %s (%s): the numbers in the text differ from the generator's data", vm.Name, vm.Dir), Input: st.input(s, o), Observed: got, Expected: c28FieldSig(want)})
		}
	}
	// identity enumerations
	var enumsFile *c28File
	for _, f := range run.Files {
		if strings.HasSuffix(f.Pkg, ".enums") {
			enumsFile = f
		}
	}
	for _, ie := range d.Identities {
		st.sum.OracleRuns++
		var pe *c28Enum
		if enumsFile != nil {
			for _, e := range enumsFile.Enums {
				if e.Name == ie.Name {
					pe = e
				}
			}
		}
		if pe == nil {
			st.sum.count("crosscheck", "identity-enum-not-emitted")
			continue
		}
		byTag := map[uint32][]string{}
		for _, v := range ie.Values {
			byTag[v.Tag] = append(byTag[v.Tag], v.Name)
		}
		for _, v := range ie.Values {
			var hit *c28EnumVal
			for i := range pe.Vals {
				if pe.Vals[i].Name == v.Name {
					hit = &pe.Vals[i]
				}
			}
			switch {
			case v.Tag == 0:
				st.sum.finding(Finding{Signature: "tag-zero/identity-value", What: fmt.Sprintf("enum %s: identity %s%s hashes to 0 and replaces the UNSET value (the generator returned no error)", ie.Name, "", v.Name), Input: st.input(s, o),
					Observed: pe.Vals})
			case hit == nil && len(byTag[v.Tag]) > 1:
				st.sum.finding(Finding{Signature: "tag-collision/identity-values", What: fmt.Sprintf("enum %s: identities %v share the number %d; %s is missing from the generated enum (the generator returned no error)", ie.Name, byTag[v.Tag], v.Tag, v.Name), Input: st.input(s, o),
					Observed: pe.Vals})
			case hit == nil:
				st.sum.finding(Finding{Signature: "identity-value-lost", What: fmt.Sprintf("enum %s: value %s is missing from the generated enum", ie.Name, v.Name), Input: st.input(s, o)})
			case hit.Num != int64(v.Tag):
				if len(c28Dups(c28EnumSymbols(pe))) > 0 {
					st.sum.count("crosscheck", "identity-duplicate-labels")
				} else {
					st.sum.finding(Finding{Signature: "tag-text-mismatch", What: fmt.Sprintf("enum %s: value %s is %d in the text, %d in the generator's data", ie.Name, v.Name, hit.Num, v.Tag), Input: st.input(s, o)})
				}
			default:
				st.sum.count("crosscheck", "identity-value-ok")
			}
		}
	}
	for _, l := range d.EnumLoss {
		sig := "enum-value-lost"
		if strings.HasPrefix(l, "unset-overwritten") {
			sig = "enum-unset-overwritten"
		}
		st.sum.finding(Finding{Signature: sig, What: l, Input: st.input(s, o)})
	}
}

// ---------------------------------------------------------------------------------------------
// stability: same input twice, and the same module with unrelated additions

func c28NumberMap(run *c28Run) map[string]int64 {
	out := map[string]int64{}
	var flat []c28FlatMsg
	for _, f := range run.Files {
		c28Flatten(f.Pkg, f.Msgs, &flat)
		for _, e := range f.Enums {
			for _, v := range e.Vals {
				out["enum "+f.Pkg+"."+e.Name+" "+v.Name] = v.Num
			}
		}
	}
	for _, fm := range flat {
		fq, m := fm.FQ, fm.M
		for _, f := range m.Fields {
			out["field "+fq+" "+f.Name] = f.Num
		}
		for _, e := range m.Enums {
			for _, v := range e.Vals {
				out["enum "+fq+"."+e.Name+" "+v.Name] = v.Num
			}
		}
	}
	return out
}

func (st *c28State) stability(s *c28Schema, variant *c28Schema, o c28Opts, first *c28Run, variantSig, variantWhat string) {
	files, include, err := s.materialise(st.out)
	if err != nil || first == nil || first.GenErr != "" || first.Panic != "" {
		return
	}
	st.sum.OracleRuns++
	again := c28Generate(files, include, o, false)
	same := again.GenErr == "" && again.Panic == "" && len(again.Texts) == len(first.Texts)
	for k, v := range first.Texts {
		if again.Texts[k] != v {
			same = false
		}
	}
	if !same {
		st.sum.finding(Finding{Signature: "nondeterministic-output", What: "two runs of Generate on the same input and options produce different files", Input: st.input(s, o)})
	} else {
		st.sum.count("stability", "rerun-identical")
	}
	if variant == nil || len(first.ParseEr) > 0 {
		return
	}
	vf, vi, err := variant.materialise(st.out)
	if err != nil {
		return
	}
	vr := c28Generate(vf, vi, o, false)
	if vr.GenErr != "" || vr.Panic != "" || len(vr.ParseEr) > 0 {
		st.sum.count("stability", "variant-rejected")
		return
	}
	st.sum.OracleRuns++
	a, b := c28NumberMap(first), c28NumberMap(vr)
	common, changed := 0, []string{}
	for k, v := range a {
		if w, ok := b[k]; ok {
			common++
			if w != v {
				changed = append(changed, fmt.Sprintf("%s: %d -> %d", k, v, w))
			}
		}
	}
	sort.Strings(changed)
	if len(changed) > 0 {
		in := st.input(s, o)
		in["variant"] = variant
		st.sum.finding(Finding{Signature: variantSig, What: fmt.Sprintf("%s changed %d numbers, e.g. %s", variantWhat, len(changed), changed[0]), Input: in, Observed: changed})
	} else {
		st.sum.count("stability", "variant-stable")
	}
	st.sum.count("stability", fmt.Sprintf("variant-common-numbers>=%d", c28Bucket(common)))
}

func c28Bucket(n int) int {
	for _, b := range []int{100, 30, 10, 3, 1} {
		if n >= b {
			return b
		}
	}
	return 0
}

// ---------------------------------------------------------------------------------------------
// random YANG modules

type c28Y struct {
	Kind    string // container list leaf leaf-list choice case
	Name    string
	Type    string // YANG type statement body for leaves
	Keys    []string
	Kids    []*c28Y
	NoCfg   bool
	Ordered bool
}

type c28Base struct {
	Name string
	Ids  []string
}

type c28Mod struct {
	Name     string
	Bases    []c28Base
	Typedefs [][2]string // name, type statement body
	Top      []*c28Y
}

func c28Quote(s string) string {
	s = strings.ReplaceAll(s, `\`, `\\`)
	s = strings.ReplaceAll(s, `"`, `\"`)
	return `"` + s + `"`
}

func (m *c28Mod) render(extra bool) string {
	var b strings.Builder
	fmt.Fprintf(&b, "module %s {\n  namespace \"urn:c28:%s\";\n  prefix \"p\";\n", m.Name, m.Name)
	for _, ba := range m.Bases {
		fmt.Fprintf(&b, "  identity %s;\n", ba.Name)
		for _, id := range ba.Ids {
			fmt.Fprintf(&b, "  identity %s { base %s; }\n", id, ba.Name)
		}
		if extra {
			fmt.Fprintf(&b, "  identity zz-c28-extra-%s { base %s; }\n", ba.Name, ba.Name)
		}
	}
	for _, td := range m.Typedefs {
		fmt.Fprintf(&b, "  typedef %s { type %s }\n", td[0], td[1])
	}
	var rec func(n *c28Y, ind string, depth int)
	rec = func(n *c28Y, ind string, depth int) {
		switch n.Kind {
		case "leaf", "leaf-list":
			fmt.Fprintf(&b, "%s%s %s { type %s", ind, n.Kind, n.Name, n.Type)
			if n.NoCfg {
				b.WriteString(" config false;")
			}
			b.WriteString(" }\n")
			return
		}
		fmt.Fprintf(&b, "%s%s %s {\n", ind, n.Kind, n.Name)
		if n.Kind == "list" && len(n.Keys) > 0 {
			fmt.Fprintf(&b, "%s  key %s;\n", ind, c28Quote(strings.Join(n.Keys, " ")))
		}
		if n.Ordered {
			fmt.Fprintf(&b, "%s  ordered-by user;\n", ind)
		}
		if n.NoCfg {
			fmt.Fprintf(&b, "%s  config false;\n", ind)
		}
		for _, k := range n.Kids {
			rec(k, ind+"  ", depth+1)
		}
		hasLeaf := false
		for _, k := range n.Kids {
			if k.Kind == "leaf" || k.Kind == "leaf-list" {
				hasLeaf = true
			}
		}
		// (a container without leaves may be a surrounding container that path compression removes;
		// giving it a leaf would be a related change)
		if extra && hasLeaf && (n.Kind == "container" || n.Kind == "list") && depth <= 1 {
			fmt.Fprintf(&b, "%s  leaf zz-c28-extra { type string; }\n", ind)
		}
		fmt.Fprintf(&b, "%s}\n", ind)
	}
	for _, n := range m.Top {
		rec(n, "  ", 0)
	}
	if extra {
		b.WriteString("  container zz-c28-top { leaf zz-c28-leaf { type uint8; } }\n")
	}
	b.WriteString("}\n")
	return b.String()
}

type c28Gen struct {
	rng  *rand.Rand
	adv  bool // adversarial identifiers
	oc   bool // OpenConfig-style (config/state containers, surrounding containers for lists)
	mod  *c28Mod
	next int
}

// identifier pools. Groups hold names that collide after protogen's sanitisation
// (safeProtoIdentifierName / CamelCase) or with names that protogen derives (…Key, …Union, UNSET).
var c28AdvGroups = [][]string{
	{"foo-bar", "foo_bar", "foo.bar", "fooBar", "FooBar", "Foo-Bar", "foo--bar", "foo_bar_"},
	{"a-b", "a_b", "a.b", "a-b_", "A-b", "a-B"},
	{"l", "l-key", "l_key", "lKey", "LKey", "l-union", "lUnion"},
	{"un", "un_string", "un_sint64", "un_uint64", "un-string", "un_bool", "un_bytes"},
	{"message", "enum", "oneof", "repeated", "package", "syntax", "import", "option", "string", "bool", "bytes", "map", "reserved", "optional", "required", "group", "extend", "extensions", "to", "max", "true", "false", "stream", "returns", "rpc", "service", "double", "int32"},
	{"_x", "__x", "_", "__", "_9", "x_", "x__"},
	{"E", "e", "En", "en", "EN", "e-n"},
	{"x.y.z", "x..y", "x--y", "x-", "x.", "X", "x"},
	{"device", "Device", "enums", "openconfig", "ywrapper", "yext", "google"},
}
var c28AdvEnumNames = [][]string{
	{"a-b", "a_b", "a.b", "a b", "a+b", "A-B"},
	{"UNSET", "unset", "Unset", "UNSET_"},
	{"x", "X", "1x", "1", "-", "é", "x\"y", "x\\y", "x\\qy", "x/y"},
	{"up", "down", "UP", "Down"},
}
var c28PlainNames = []string{"alpha", "beta", "gamma", "delta", "eps", "zeta", "eta", "theta", "iota", "kappa", "lambda", "mu", "nu", "xi", "omicron", "pi", "rho", "sigma", "tau", "ups", "phi", "chi", "psi", "omega",
	"if-name", "mtu", "enabled", "oper-status", "admin-status", "counters", "in-octets", "out-octets", "peer-as", "neighbor-address", "hold-time", "last-change"}

func (g *c28Gen) fresh(used map[string]bool, group []string) string {
	for tries := 0; tries < 20; tries++ {
		var n string
		switch {
		case g.adv && group != nil && g.rng.Intn(3) != 0:
			n = pick(g.rng, group)
		case g.adv && g.rng.Intn(2) == 0:
			n = pick(g.rng, pick(g.rng, c28AdvGroups))
		default:
			n = pick(g.rng, c28PlainNames)
			if g.rng.Intn(4) == 0 {
				n = fmt.Sprintf("%s-%d", n, g.rng.Intn(50))
			}
		}
		if !used[n] && !strings.HasPrefix(strings.ToLower(n), "xml") {
			used[n] = true
			return n
		}
	}
	g.next++
	n := fmt.Sprintf("n%d", g.next)
	used[n] = true
	return n
}

func (g *c28Gen) enumBody() string {
	var b strings.Builder
	b.WriteString("enumeration {")
	used := map[string]bool{}
	n := 1 + g.rng.Intn(4)
	var group []string
	if g.adv {
		group = pick(g.rng, c28AdvEnumNames)
	}
	last := int64(-1)
	for i := 0; i < n; i++ {
		var name string
		if g.adv && g.rng.Intn(3) != 0 {
			name = pick(g.rng, group)
		} else {
			name = strings.ToUpper(pick(g.rng, c28PlainNames))
		}
		if used[name] {
			continue
		}
		used[name] = true
		fmt.Fprintf(&b, " enum %s", c28Quote(name))
		switch r := g.rng.Intn(10); {
		case r == 0 && last < 0:
			v := []int64{-1, -2, -5, -2147483648}[g.rng.Intn(4)]
			if v > last || i == 0 {
				fmt.Fprintf(&b, " { value %d; }", v)
				last = v
				continue
			}
			b.WriteString(";")
			last++
		case r == 1:
			v := last + 1 + int64(g.rng.Intn(5))
			if g.adv && i == n-1 && g.rng.Intn(4) == 0 {
				v = 2147483647
			}
			fmt.Fprintf(&b, " { value %d; }", v)
			last = v
		default:
			b.WriteString(";")
			last++
		}
	}
	b.WriteString(" }")
	return b.String()
}

func (g *c28Gen) simpleType(key bool) string {
	ts := []string{"string;", "int8;", "int16;", "int32;", "int64;", "uint8;", "uint16;", "uint32;", "uint64;", "boolean;", "decimal64 { fraction-digits 2; }", "binary;"}
	if !key {
		ts = append(ts, "empty;")
	}
	return pick(g.rng, ts)
}

func (g *c28Gen) leafType(key, allowUnion bool) string {
	switch r := g.rng.Intn(20); {
	case r < 3:
		return g.enumBody()
	case r < 5 && len(g.mod.Bases) > 0:
		return fmt.Sprintf("identityref { base %s; }", pick(g.rng, g.mod.Bases).Name)
	case r < 7 && len(g.mod.Typedefs) > 0:
		return pick(g.rng, g.mod.Typedefs)[0] + ";"
	case r < 11 && allowUnion:
		n := 2 + g.rng.Intn(3)
		var b strings.Builder
		b.WriteString("union {")
		for i := 0; i < n; i++ {
			fmt.Fprintf(&b, " type %s", g.leafType(true, false))
		}
		b.WriteString(" }")
		return b.String()
	}
	return g.simpleType(key)
}

func (g *c28Gen) leaf(used map[string]bool, group []string, key bool) *c28Y {
	return &c28Y{Kind: "leaf", Name: g.fresh(used, group), Type: g.leafType(key, true)}
}

func (g *c28Gen) children(depth int, used map[string]bool) []*c28Y {
	var out []*c28Y
	var group []string
	if g.adv {
		group = pick(g.rng, c28AdvGroups)
	}
	n := 1 + g.rng.Intn(5)
	for i := 0; i < n; i++ {
		r := g.rng.Intn(20)
		switch {
		case r < 3 && depth < 3:
			c := &c28Y{Kind: "container", Name: g.fresh(used, group)}
			c.Kids = g.children(depth+1, map[string]bool{})
			out = append(out, c)
		case r < 6 && depth < 3:
			out = append(out, g.list(depth, used, group))
		case r < 8:
			out = append(out, &c28Y{Kind: "leaf-list", Name: g.fresh(used, group), Type: g.leafType(true, true)})
		case r < 9 && depth < 3:
			ch := &c28Y{Kind: "choice", Name: g.fresh(used, group)}
			cu := map[string]bool{}
			for j := 0; j < 2; j++ {
				ca := &c28Y{Kind: "case", Name: g.fresh(cu, nil)}
				ca.Kids = []*c28Y{g.leaf(used, group, false)}
				ch.Kids = append(ch.Kids, ca)
			}
			out = append(out, ch)
		default:
			out = append(out, g.leaf(used, group, false))
		}
	}
	return out
}

// c28SanitiseVariant swaps one of '-', '_', '.' in name for another of them ("" change when
// the name has none).
func c28SanitiseVariant(rng *rand.Rand, name string) string {
	var pos []int
	for i := 1; i < len(name)-1; i++ {
		if name[i] == '-' || name[i] == '_' || name[i] == '.' {
			pos = append(pos, i)
		}
	}
	if len(pos) == 0 {
		return name
	}
	i := pos[rng.Intn(len(pos))]
	alts := strings.Replace("-_.", string(name[i]), "", 1)
	return name[:i] + string(alts[rng.Intn(2)]) + name[i+1:]
}

func (g *c28Gen) list(depth int, used map[string]bool, group []string) *c28Y {
	l := &c28Y{Kind: "list", Name: g.fresh(used, group), Ordered: g.rng.Intn(6) == 0}
	lu := map[string]bool{}
	nk := 1 + g.rng.Intn(2)
	if g.rng.Intn(8) == 0 && !g.oc {
		nk = 0
		l.NoCfg = true
		l.Ordered = false
	}
	var keyLeaves []*c28Y
	for i := 0; i < nk; i++ {
		var k *c28Y
		if g.adv && i == 0 && g.rng.Intn(3) == 0 {
			// a key named like its list
			k = &c28Y{Kind: "leaf", Name: l.Name, Type: g.leafType(true, true)}
			lu[l.Name] = true
		} else if v := c28SanitiseVariant(g.rng, l.Name); i == 0 && v != l.Name && g.rng.Intn(6) == 0 {
			// a key whose name differs from that of its list only in characters that
			// protogen rewrites to '_'
			k = &c28Y{Kind: "leaf", Name: v, Type: g.leafType(true, true)}
			lu[v] = true
		} else {
			k = g.leaf(lu, group, true)
		}
		l.Keys = append(l.Keys, k.Name)
		keyLeaves = append(keyLeaves, k)
	}
	rest := g.children(depth+1, lu)
	if g.oc && nk > 0 {
		// key leaves are leafrefs to config/<key>; config and state hold the leaves
		cfg := &c28Y{Kind: "container", Name: "config"}
		stt := &c28Y{Kind: "container", Name: "state", NoCfg: true}
		for _, k := range keyLeaves {
			l.Kids = append(l.Kids, &c28Y{Kind: "leaf", Name: k.Name, Type: fmt.Sprintf("leafref { path \"../config/%s\"; }", k.Name)})
			cfg.Kids = append(cfg.Kids, k)
			stt.Kids = append(stt.Kids, &c28Y{Kind: "leaf", Name: k.Name, Type: k.Type})
		}
		var others []*c28Y
		for _, c := range rest {
			if c.Kind == "leaf" || c.Kind == "leaf-list" {
				cfg.Kids = append(cfg.Kids, c)
				stt.Kids = append(stt.Kids, &c28Y{Kind: c.Kind, Name: c.Name, Type: c.Type})
			} else if c.Name != "config" && c.Name != "state" {
				others = append(others, c)
			}
		}
		stt.Kids = append(stt.Kids, &c28Y{Kind: "leaf", Name: g.fresh(lu, nil), Type: "uint64;"})
		l.Kids = append(l.Kids, cfg, stt)
		l.Kids = append(l.Kids, others...)
		wrap := &c28Y{Kind: "container", Name: g.fresh(used, group), Kids: []*c28Y{l}}
		return wrap
	}
	l.Kids = append(keyLeaves, rest...)
	return l
}

func c28RandomModule(rng *rand.Rand, name string, adv, oc bool) *c28Mod {
	g := &c28Gen{rng: rng, adv: adv, oc: oc, mod: &c28Mod{Name: name}}
	used := map[string]bool{}
	for i := rng.Intn(3); i > 0; i-- {
		var group []string
		if adv {
			group = pick(rng, [][]string{{"x-y", "x.y", "x_y", "X-Y"}, {"UNSET", "unset", "Unset"}, {"up", "down", "UP"}})
		}
		b := c28Base{Name: g.fresh(used, nil)}
		for j := 1 + rng.Intn(4); j > 0; j-- {
			b.Ids = append(b.Ids, g.fresh(used, group))
		}
		g.mod.Bases = append(g.mod.Bases, b)
	}
	tdUsed := map[string]bool{}
	for i := rng.Intn(3); i > 0; i-- {
		g.mod.Typedefs = append(g.mod.Typedefs, [2]string{g.fresh(tdUsed, nil), g.enumBody()})
	}
	top := map[string]bool{}
	for i := 1 + rng.Intn(3); i > 0; i-- {
		c := &c28Y{Kind: "container", Name: g.fresh(top, nil)}
		c.Kids = g.children(1, map[string]bool{})
		g.mod.Top = append(g.mod.Top, c)
	}
	return g.mod
}

// ---------------------------------------------------------------------------------------------
// adversarial modules built by a search over fieldTag

func c28Tag(s string) uint32 {
	t, _ := protogen.VerifFieldTag(s)
	return t
}

// c28Birthday finds n < m with equal tags for prefix+n.
func c28Birthday(prefix string, limit int) (int, int, bool) {
	seen := map[uint32]int{}
	for n := 0; n < limit; n++ {
		t := c28Tag(prefix + strconv.Itoa(n))
		if m, ok := seen[t]; ok {
			return m, n, true
		}
		seen[t] = n
	}
	return 0, 0, false
}

func c28SiblingModule(mod string, leaves []string) string {
	var b strings.Builder
	fmt.Fprintf(&b, "module %s {\n  namespace \"urn:c28:%s\";\n  prefix \"p\";\n  container c {\n    leaf plain { type string; }\n", mod, mod)
	for _, l := range leaves {
		fmt.Fprintf(&b, "    leaf %s { type string; }\n", l)
	}
	b.WriteString("  }\n}\n")
	return b.String()
}

func c28IdentityModule(mod, base string, ids []string) string {
	var b strings.Builder
	fmt.Fprintf(&b, "module %s {\n  namespace \"urn:c28:%s\";\n  prefix \"p\";\n  identity %s;\n  identity plain { base %s; }\n", mod, mod, base, base)
	for _, i := range ids {
		fmt.Fprintf(&b, "  identity %s { base %s; }\n", i, base)
	}
	fmt.Fprintf(&b, "  container c { leaf r { type identityref { base %s; } } }\n}\n", base)
	return b.String()
}

// fixed witnesses found offline (the same strings are used in Properties/C28.v)
func c28FixedSchemas() []*c28Schema {
	return []*c28Schema{
		{Name: "fixed-zero-field", Kind: "adversarial", Yang: map[string]string{"m.yang": c28SiblingModule("m", []string{"leaf-259424739"})}},
		{Name: "fixed-zero-identity", Kind: "adversarial", Yang: map[string]string{"m.yang": c28IdentityModule("m", "b", []string{"id-74233697"})}},
		{Name: "fixed-retry", Kind: "adversarial", Yang: map[string]string{"m.yang": c28SiblingModule("m", []string{"leaf-23905120", "leaf-10750530"})}},
		{Name: "fixed-collision-siblings", Kind: "adversarial", Yang: map[string]string{"m.yang": c28SiblingModule("m", []string{"leaf-19774", "leaf-58250"})}},
		{Name: "fixed-collision-identities", Kind: "adversarial", Yang: map[string]string{"m.yang": c28IdentityModule("m", "b", []string{"id-18034", "id-59150"})}},
	}
}

// c28Module wraps a body into a module.
func c28Module(name, body string) string {
	return fmt.Sprintf("module %s {\n  namespace \"urn:c28:%s\";\n  prefix \"p\";\n%s}\n", name, name, body)
}

// minimal modules, one per confirmed defect class, so that every known finding is reproduced on
// every run with a small input
func c28DefectSchemas() []*c28Schema {
	one := func(name, body string) *c28Schema {
		return &c28Schema{Name: "fixed-" + name, Kind: "adversarial", Yang: map[string]string{"d.yang": c28Module("d", body)}}
	}
	return []*c28Schema{
		one("enum-negative", "  container c { leaf e { type enumeration { enum neg { value -3; } enum zero { value 0; } } } }\n"),
		one("enum-minus-one", "  container c { leaf e { type enumeration { enum m1 { value -1; } enum z; } } }\n"),
		one("enum-maxint", "  container c { leaf e { type enumeration { enum small; enum big { value 2147483647; } } } }\n"),
		one("enum-names-sanitised", "  container c { leaf e { type enumeration { enum a-b; enum a_b; enum a.b; } } }\n"),
		one("enum-name-unset", "  container c { leaf e { type enumeration { enum UNSET; enum x; } } }\n"),
		one("enum-name-quote", "  container c { leaf e { type enumeration { enum \"q\\\"r\"; enum x; } } }\n"),
		one("identity-names", "  identity b;\n  identity UNSET { base b; }\n  identity x-y { base b; }\n  identity x.y { base b; }\n  container c { leaf r { type identityref { base b; } } }\n"),
		one("oneof-member-name", "  container c { leaf un { type union { type string; type int8; } } leaf un_string { type string; } }\n"),
		one("field-vs-message", "  container c { leaf En { type string; } container en { leaf z { type string; } } }\n"),
		one("list-key-message", "  container c { list l { key \"k\"; leaf k { type string; } } container l-key { leaf z { type string; } } }\n"),
		one("union-message", "  container c { leaf-list u { type union { type string; type int8; } } container u-union { leaf z { type string; } } }\n"),
		one("config-state-union", "  container c { container config { leaf-list u { type union { type string; type int8; } } } container state { config false; leaf-list u { type union { type string; type int8; } } } }\n"),
		one("leaflist-no-yext", "  container c { leaf-list ll { type string; } }\n"),
		one("key-enum-import", "  identity b;\n  identity i1 { base b; }\n  container c { list l { key \"k\"; leaf k { type identityref { base b; } } leaf v { type string; } } }\n"),
		one("key-ywrapper-import", "  container c { list l { key \"k\"; leaf k { type union { type int8; type decimal64 { fraction-digits 2; } } } } }\n"),
		one("anydata-import", "  container c { anydata ad; leaf v { type string; } }\n"),
		one("single-enum-union", "  container c { leaf u { type union { type enumeration { enum A; enum B; } } } }\n"),
		{Name: "fixed-two-modules", Kind: "adversarial", Yang: map[string]string{
			"d1.yang": c28Module("d1", "  container a { leaf x { type string; } }\n"),
			"d2.yang": c28Module("d2", "  container b { leaf y { type string; } }\n")}},
	}
}

// the numbering of a typedef enumeration follows the default of one leaf that uses it
func c28LeafDefaultPair() (*c28Schema, *c28Schema) {
	body := func(def string) string {
		return "  typedef color { type enumeration { enum RED; enum GREEN; enum BLUE; } }\n  container c { leaf a { type color;" + def + " } leaf b { type color; } }\n"
	}
	return &c28Schema{Name: "fixed-leaf-default-base", Kind: "adversarial", Yang: map[string]string{"d.yang": c28Module("d", body(""))}},
		&c28Schema{Name: "fixed-leaf-default-variant", Kind: "adversarial", Yang: map[string]string{"d.yang": c28Module("d", body(" default \"GREEN\";"))}}
}

func c28SearchedSchemas(rng *rand.Rand, k int) []*c28Schema {
	var out []*c28Schema
	for i := 0; i < k; i++ {
		mod := fmt.Sprintf("c28s%d", rng.Intn(1000000))
		if a, b, ok := c28Birthday("/"+mod+"/c/leaf-", 400000); ok {
			out = append(out, &c28Schema{Name: "searched-siblings-" + mod, Kind: "adversarial",
				Yang: map[string]string{mod + ".yang": c28SiblingModule(mod, []string{fmt.Sprintf("leaf-%d", a), fmt.Sprintf("leaf-%d", b)})}})
		}
		base := fmt.Sprintf("b%d", rng.Intn(1000000))
		if a, b, ok := c28Birthday(base+"id-", 400000); ok {
			out = append(out, &c28Schema{Name: "searched-identities-" + base, Kind: "adversarial",
				Yang: map[string]string{mod + ".yang": c28IdentityModule(mod, base, []string{fmt.Sprintf("id-%d", a), fmt.Sprintf("id-%d", b)})}})
		}
	}
	return out
}

// ---------------------------------------------------------------------------------------------
// corpus

func c28Corpus() []*c28Schema {
	verif, repo := c28Env("VERIF_DIR", "/verif"), c28Env("VERIF_REPO", "/repo")
	var out []*c28Schema
	y := filepath.Join(verif, "yang")
	out = append(out,
		&c28Schema{Name: "v-main", Kind: "corpus", Files: []string{filepath.Join(y, "v-main.yang"), filepath.Join(y, "v-types.yang")}, Include: []string{y}},
		&c28Schema{Name: "v-all", Kind: "corpus", Files: []string{filepath.Join(y, "v-main.yang"), filepath.Join(y, "v-types.yang"), filepath.Join(y, "v-defu.yang")}, Include: []string{y}})
	for _, dir := range []string{filepath.Join(repo, "protogen", "testdata", "proto"), filepath.Join(repo, "testdata", "modules")} {
		fs, _ := filepath.Glob(filepath.Join(dir, "*.yang"))
		sort.Strings(fs)
		for _, f := range fs {
			out = append(out, &c28Schema{Name: filepath.Base(filepath.Dir(f)) + "/" + strings.TrimSuffix(filepath.Base(f), ".yang"), Kind: "corpus", Files: []string{f},
				Include: []string{dir, filepath.Join(repo, "testdata", "modules")}})
		}
	}
	return out
}

func c28AllOpts() []c28Opts {
	var out []c28Opts
	for i := 0; i < 16; i++ {
		out = append(out, c28Opts{Compress: i&1 != 0, Nested: i&2 != 0, Annotate: i&4 != 0, FakeRoot: i&8 != 0, GoPkg: i == 6 || i == 9})
	}
	return out
}

// ---------------------------------------------------------------------------------------------

func c28Stream(rng *rand.Rand, n int, tier string, out string) (*Summary, error) {
	sum := &Summary{Rule: "schemas: the YANG corpus (/verif/yang, /repo/protogen/testdata/proto, /repo/testdata/modules), random modules (plain, OpenConfig-style, and with adversarial identifiers: names that collide after sanitisation, proto keywords, names protogen derives itself such as <list>Key, <leaf>Union, UNSET, enum names with quotes/spaces, negative and maximal enum values), minimal modules pinned to one confirmed defect each, and modules built by a birthday search over fieldTag (plus fixed witnesses for tag 0, retried tags and colliding tags); each under several of the 16 option sets {compress, nested, annotate, fakeroot} (+go_package/base import path). Every generated file is parsed by a recursive-descent parser for the proto3 subset of the templates; the oracle checks symbol scopes, field numbers, enums, type resolution and imports on the parsed descriptors, compares them with the generator's own data, re-runs the generator (determinism) and regenerates a variant of each random module with unrelated additions (number stability). Cases: TagCase per distinct string handed to fieldTag by the generator plus random/adversarial strings, HashCase for raw hash/fnv values, Msg/Enum/ScopeCase per distinct parsed top-level descriptor with the Go oracle's verdict. Non-trivial: a TagCase whose string came from the generator, a message with at least two fields, an enum or scope with at least two names; distinct by term."}
	st := &c28State{sum: sum, out: out, seenTag: map[string]bool{}, seenTerm: map[string]bool{}, ywrapper: map[string]bool{},
		cf: &caseFile{header: "From Ygot Require Import Base.Base Gen.FieldTag Gen.ProtoWF Corr.ProtoCorr.", typ: "c28case", fn: "mismatches"}}
	if b, err := os.ReadFile(filepath.Join(c28Env("VERIF_REPO", "/repo"), "proto", "ywrapper", "ywrapper.proto")); err == nil {
		if f, err := c28ParseProto(string(b)); err == nil {
			for _, m := range f.Msgs {
				st.ywrapper[m.Name] = true
			}
		} else {
			sum.count("parse", "ywrapper.proto-failed")
		}
	}
	if len(st.ywrapper) == 0 {
		for _, n := range []string{"BytesValue", "BoolValue", "Decimal64Value", "IntValue", "StringValue", "UintValue"} {
			st.ywrapper[n] = true
		}
	}
	finish := func() (*Summary, error) {
		sum.Cases = st.id
		files, err := st.cf.write(out, "protowf", 400)
		if sum.Extra == nil {
			sum.Extra = map[string]interface{}{}
		}
		sum.Extra["case_files"] = files
		return sum, err
	}

	if replayFile != "" {
		b, err := os.ReadFile(replayFile)
		if err != nil {
			return nil, err
		}
		var wrap struct {
			Case struct {
				c28ReplayCase
			} `json:"case"`
		}
		if err := json.Unmarshal(b, &wrap); err != nil {
			return nil, err
		}
		if wrap.Case.String != nil {
			st.addTag(*wrap.Case.String, c28Tag(*wrap.Case.String), "replay")
			return finish()
		}
		if wrap.Case.Schema == nil {
			return nil, fmt.Errorf("replay file has no schema")
		}
		run := st.process(wrap.Case.Schema, wrap.Case.Opts)
		st.stability(wrap.Case.Schema, wrap.Case.Variant, wrap.Case.Opts, run, wrap.Case.VariantSig(), "the variant schema")
		if run != nil {
			// keep the generated files next to the case files for inspection
			for pkg, text := range run.Texts {
				f := filepath.Join(out, "proto", run.Paths[pkg])
				os.MkdirAll(filepath.Dir(f), 0o755)
				os.WriteFile(f, []byte(text), 0o644)
			}
			if run.GenErr != "" {
				sum.Extra = map[string]interface{}{"generator_error": run.GenErr}
			}
		}
		return finish()
	}

	// 1. direct cases for the hash and the tag function
	direct := []string{"", "_", "a", "/", "/m/c/leaf-259424739", "bid-74233697", "/m/c/leaf-23905120", "/m/c/leaf-10750530", "/m/c/leaf-19774", "/m/c/leaf-58250", "bid-18034", "bid-59150",
		"/openconfig-interfaces/interfaces/interface/config/name", "é世", "\x00", "\xff\xfe", strings.Repeat("_", 70), strings.Repeat("/a", 200)}
	for _, s := range direct {
		st.addHash(s)
		st.addTag(s, c28Tag(s), "random")
	}
	nd := n / 8
	if nd < 60 {
		nd = 60
	}
	for i := 0; i < nd; i++ {
		var s string
		switch rng.Intn(4) {
		case 0:
			bs := make([]byte, rng.Intn(24))
			rng.Read(bs)
			s = string(bs)
		case 1:
			s = "/" + pick(rng, c28PlainNames) + "/" + pick(rng, c28PlainNames) + "/" + pick(rng, pick(rng, c28AdvGroups))
		case 2:
			s = randValue(rng, 20, nastyRunes)
		default:
			s = fmt.Sprintf("/m/c/leaf-%d", rng.Intn(1<<30))
		}
		if i%4 == 0 {
			st.addHash(s)
		}
		st.addTag(s, c28Tag(s), "random")
	}
	// strings whose first hash falls into a retried range (found by scanning)
	for found, k := 0, rng.Intn(1<<20); found < 4; k++ {
		s := fmt.Sprintf("/c28r/c/leaf-%d", k)
		h := fnv.New32()
		h.Write([]byte(s))
		v := h.Sum32() & 0x1fffffff
		if (v >= 19000 && v <= 19999) || (v >= 1 && v <= 1000) {
			st.addTag(s, c28Tag(s), "random")
			found++
		}
	}

	if tier == "thorough" {
		// exhaustive: every byte string of length <= 4 over a 5-symbol alphabet
		alpha := []byte{'/', '_', 'a', '0', 0xff}
		var rec func(prefix []byte, depth int)
		exh := 0
		rec = func(prefix []byte, depth int) {
			st.addTag(string(prefix), c28Tag(string(prefix)), "random")
			st.addHash(string(prefix))
			exh++
			if depth == 0 {
				return
			}
			for _, c := range alpha {
				rec(append(prefix[:len(prefix):len(prefix)], c), depth-1)
			}
		}
		rec(nil, 4)
		sum.count("tag_kind", fmt.Sprintf("exhaustive-%d", exh))
	}

	// 2. adversarial modules (fixed witnesses and freshly searched ones), all option sets that apply
	opts := c28AllOpts()
	advOpts := []c28Opts{opts[0], opts[2], opts[6], opts[14]}
	adv := append(c28FixedSchemas(), c28SearchedSchemas(rng, map[string]int{"quick": 1, "thorough": 6}[tier])...)
	for _, s := range adv {
		for _, o := range advOpts {
			st.process(s, o)
		}
	}
	defects := c28DefectSchemas()
	for _, s := range defects {
		for _, o := range []c28Opts{opts[0], opts[2], opts[6], opts[9], opts[15]} {
			st.process(s, o)
		}
	}
	adv = append(adv, defects...)
	{
		base, variant := c28LeafDefaultPair()
		r := st.process(base, opts[2])
		st.process(variant, opts[2])
		st.stability(base, variant, opts[2], r, "enum-unstable/leaf-default", "adding a default statement to one leaf of a typedef'd enumeration type")
	}

	// 3. corpus
	corpus := c28Corpus()
	for i, s := range corpus {
		var use []c28Opts
		if tier == "thorough" || i < 2 {
			use = opts
		} else {
			// uncompressed and compressed, nested and flat, rotating the remaining flags
			use = []c28Opts{opts[(i*4)%16], opts[(i*4+1)%16|4], opts[(i*4+2)%16], opts[(i*4+3)%16|8]}
		}
		var first *c28Run
		for j, o := range use {
			r := st.process(s, o)
			if j == 0 {
				first = r
				st.stability(s, nil, o, first, "tag-unstable", "")
			}
		}
	}

	// 4. random modules until the case budget is used
	maxSchemas := n / 10
	for k := 0; st.id < n && k < maxSchemas; k++ {
		advIDs := rng.Intn(3) == 0
		oc := rng.Intn(3) == 0
		name := fmt.Sprintf("c28r%d", k)
		if oc {
			name = "openconfig-" + name
		}
		m := c28RandomModule(rng, name, advIDs, oc)
		kind := "random"
		if advIDs {
			kind = "random-adversarial"
		}
		if oc {
			kind += "-oc"
		}
		s := &c28Schema{Name: name, Kind: kind, Yang: map[string]string{name + ".yang": m.render(false)}}
		v := &c28Schema{Name: name + "-variant", Kind: kind, Yang: map[string]string{name + ".yang": m.render(true)}}
		o1 := opts[rng.Intn(16)]
		o1.Compress = oc && rng.Intn(3) != 0
		r1 := st.process(s, o1)
		st.stability(s, v, o1, r1, "tag-unstable", "adding unrelated nodes (a leaf per container, an identity per base, a top-level container)")
		o2 := opts[rng.Intn(16)]
		o2.Compress = oc && !o1.Compress
		o2.Nested = !o1.Nested
		st.process(s, o2)
	}
	sum.Extra = map[string]interface{}{"schemas_corpus": len(corpus), "schemas_adversarial": len(adv)}
	return finish()
}
