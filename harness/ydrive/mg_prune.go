//go:build verif

package main

// mg_prune.go — stream "prune" (C14): PruneEmptyBranches and BuildEmptyTree on random trees with
// empty containers, ordered lists, unkeyed lists, empty leaf-lists / maps / binaries, with panic
// recovery; compared with the model (Tree/Prune.v) and judged by an oracle on the real code.

import (
	"fmt"
	"math/rand"
	"reflect"
	"sort"
	"strings"

	"github.com/openconfig/ygot/internal/verifharness/reg"
	"github.com/openconfig/ygot/ygot"
)

func init() { streams["prune"] = mgPruneStream }

func mgSafePrune(g ygot.GoStruct) (msg string, panicked bool) {
	defer func() {
		if x := recover(); x != nil {
			msg, panicked = fmt.Sprint(x), true
		}
	}()
	ygot.PruneEmptyBranches(g)
	return "", false
}

// mgDropOrderedMaps sets ordered-map fields to nil at random.
func mgDropOrderedMaps(rng *rand.Rand, p *reg.Pkg, g ygot.GoStruct, prob float64) {
	for _, s := range mgSlots(p, g) {
		if s.kind == "omap" && !s.inUnk && rng.Float64() < prob {
			s.field().Set(reflect.Zero(s.sf.Type))
		}
	}
}

// mgPruneContent is the data content of a tree for the C14 oracle: leaves, leaf-list members,
// list entries (keyed, ordered, unkeyed); containers, empty leaf-lists and empty lists are not data.
func mgPruneContent(p *reg.Pkg, g ygot.GoStruct) map[string]string {
	out := map[string]string{}
	f := mgFlat(p, g)
	for k, v := range f.leaves {
		out["leaf:"+k] = v
	}
	for k, v := range f.lls {
		out["leaflist:"+k] = strings.Join(v, ";")
	}
	for k, v := range f.unk {
		out["unkeyed:"+k] = strings.Join(v, ";")
	}
	for k, v := range f.ord {
		out["ordered:"+k] = strings.Join(v, ";")
	}
	for k := range f.ents {
		out["entry:"+k] = "1"
	}
	return out
}

func mgContentDiff(a, b map[string]string) []string {
	var d []string
	for k, v := range a {
		if b[k] != v {
			d = append(d, k)
		}
	}
	for k := range b {
		if _, ok := a[k]; !ok {
			d = append(d, k)
		}
	}
	sort.Strings(d)
	return d
}

// mgEmptyContainers lists the container fields (struct pointers that are not list entries) that
// hold no data; inUnk tells whether every one of them sits below an unkeyed list entry.
func mgEmptyContainers(p *reg.Pkg, g ygot.GoStruct) (paths []string, allInUnk bool) {
	slots := mgSlots(p, g)
	hasData := map[string]bool{}
	for _, s := range slots {
		data := false
		switch s.kind {
		case "leaf":
			data = true
		case "leaflist", "unkeyed":
			data = s.field().Len() > 0
		case "map":
			data = s.field().Len() > 0
		case "omap":
			data = s.field().MethodByName("Len").Call(nil)[0].Int() > 0
		}
		if data {
			// mark every prefix
			for i := 1; i <= len(s.path); i++ {
				if i == len(s.path) || s.path[i] == '.' || s.path[i] == '[' || s.path[i] == '#' {
					hasData[s.path[:i]] = true
				}
			}
		}
	}
	allInUnk = true
	for _, s := range slots {
		if s.kind == "cont" && !hasData[s.path] {
			paths = append(paths, s.path)
			if !s.inUnk {
				allInUnk = false
			}
		}
	}
	return paths, allInUnk
}

func mgHasNonEmptyOrdered(p *reg.Pkg, g ygot.GoStruct) bool {
	for _, s := range mgSlots(p, g) {
		if s.kind == "omap" && s.field().MethodByName("Len").Call(nil)[0].Int() > 0 {
			return true
		}
	}
	return false
}

// mgLoneEmptyBinary makes one container hold nothing but a binary leaf with the empty value
// (a legal value of type binary). It reports whether a suitable container was found.
func mgLoneEmptyBinary(rng *rand.Rand, p *reg.Pkg, g ygot.GoStruct) bool {
	type cand struct {
		parent reflect.Value
		idx    int
	}
	var cands []cand
	hasBin := func(st reflect.Type) bool {
		for i := 0; i < st.NumField(); i++ {
			if ft := st.Field(i).Type; ft.Kind() == reflect.Slice && ft.Elem().Kind() == reflect.Uint8 {
				return true
			}
		}
		return false
	}
	scan := func(sp reflect.Value) {
		st := sp.Elem().Type()
		for i := 0; i < st.NumField(); i++ {
			ft := st.Field(i).Type
			if ft.Kind() == reflect.Ptr && ft.Elem().Kind() == reflect.Struct && !isOrderedMapType(ft) && hasBin(ft.Elem()) {
				cands = append(cands, cand{sp, i})
			}
		}
	}
	scan(reflect.ValueOf(g))
	for _, s := range mgSlots(p, g) {
		if s.kind == "cont" && !s.inUnk && !s.inOrd {
			scan(s.field())
		}
	}
	if len(cands) == 0 {
		return false
	}
	cd := pick(rng, cands)
	fv := cd.parent.Elem().Field(cd.idx)
	c := reflect.New(fv.Type().Elem())
	for i := 0; i < c.Elem().NumField(); i++ {
		if ft := c.Elem().Type().Field(i).Type; ft.Kind() == reflect.Slice && ft.Elem().Kind() == reflect.Uint8 {
			c.Elem().Field(i).Set(reflect.MakeSlice(ft, 0, 0))
			break
		}
	}
	fv.Set(c)
	return true
}

// mgLoneZeroUnion makes one container hold nothing but a union leaf whose value is the zero value
// of its member type (0, "", false): a set leaf, whatever its value. Reports whether a container
// with a union leaf was found.
func mgLoneZeroUnion(rng *rand.Rand, p *reg.Pkg, g ygot.GoStruct) bool {
	type cand struct {
		parent reflect.Value
		idx    int
	}
	var cands []cand
	unionField := func(st reflect.Type) int {
		for i := 0; i < st.NumField(); i++ {
			f := st.Field(i)
			if _, ok := f.Tag.Lookup("path"); ok && f.Type.Kind() == reflect.Interface {
				if _, has := reflect.PtrTo(st).MethodByName("To_" + f.Type.Name()); has {
					return i
				}
			}
		}
		return -1
	}
	scan := func(sp reflect.Value) {
		st := sp.Elem().Type()
		for i := 0; i < st.NumField(); i++ {
			ft := st.Field(i).Type
			if ft.Kind() == reflect.Ptr && ft.Elem().Kind() == reflect.Struct && !isOrderedMapType(ft) && unionField(ft.Elem()) >= 0 {
				cands = append(cands, cand{sp, i})
			}
		}
	}
	scan(reflect.ValueOf(g))
	for _, s := range mgSlots(p, g) {
		if s.kind == "cont" && !s.inUnk && !s.inOrd {
			scan(s.field())
		}
	}
	if len(cands) == 0 {
		return false
	}
	cd := pick(rng, cands)
	fv := cd.parent.Elem().Field(cd.idx)
	c := reflect.New(fv.Type().Elem())
	ui := unionField(c.Elem().Type())
	to := c.MethodByName("To_" + c.Elem().Type().Field(ui).Type.Name())
	zeros := []interface{}{"", false, int8(0), int16(0), int32(0), int64(0), uint8(0), uint16(0), uint32(0), uint64(0), float64(0)}
	rng.Shuffle(len(zeros), func(i, j int) { zeros[i], zeros[j] = zeros[j], zeros[i] })
	for _, z := range zeros {
		out := to.Call([]reflect.Value{reflect.ValueOf(z)})
		if out[1].IsNil() && !out[0].IsNil() {
			c.Elem().Field(ui).Set(out[0])
			fv.Set(c)
			return true
		}
	}
	return false
}

func mgPruneCase(p *reg.Pkg, seed int64, force string, id *int, tf *treeFile, sum *Summary, seen map[string]bool) {
	rng := rand.New(rand.NewSource(seed))
	in := mgMergeInput{Pkg: p.Name, Seed: seed, Force: force}
	g := newTreeGen(rng, p)
	g.pField = pick(rng, []float64{0.15, 0.3, 0.45, 0.8})
	g.emptyConts = true
	g.emptyLL = rng.Intn(3) == 0
	t := g.genTree()
	if rng.Intn(3) == 0 {
		mgSprinkleEmpties(rng, p, t, 0.15)
	}
	if (rng.Intn(8) == 0 || force == "emptybin") && mgLoneEmptyBinary(rng, p, t) {
		sum.count("directed", "container holding only an empty binary leaf")
	}
	if force == "zerounion" && mgLoneZeroUnion(rng, p, t) {
		sum.count("directed", "container holding only a union leaf with a zero member value")
	}
	guard := "as-generated"
	ordMode := rng.Intn(3)
	if force == "emptybin" {
		ordMode = 0
	}
	switch ordMode {
	case 0:
		mgDropOrderedMaps(rng, p, t, 1.0)
		guard = "no-ordered"
	case 1:
		mgDropOrderedMaps(rng, p, t, 0.5)
		guard = "some-ordered"
	}
	sum.count("ordered_lists", guard)
	find := func(sig, what string, obs interface{}) {
		sum.finding(Finding{Signature: sig, What: what, Input: in, Observed: obs})
	}

	// ---- PruneEmptyBranches
	before := treeTerm(t)
	content := mgPruneContent(p, t)
	c := mgClone(t)
	msg, pan := mgSafePrune(c)
	outT := coqPanic
	if !pan {
		outT = coqOk(treeTerm(c))
	}
	tf.cf.add(fmt.Sprintf("MgPrune %d %s %s", *id, before, outT))
	*id++
	empties0, _ := mgEmptyContainers(p, t)
	if !seen[before] {
		seen[before] = true
		if len(content) >= 5 && len(empties0) >= 1 {
			sum.Nontrivial++
		}
	}
	sum.count("prune_outcome", map[bool]string{true: "panic", false: "ok"}[pan])
	sum.count("empty_containers_before", fmt.Sprintf("%d", len(empties0)))
	sum.sample(map[string]interface{}{"input": in, "ordered": guard, "data_items": len(content), "empty_containers": len(empties0), "panic": pan})
	sum.OracleRuns++
	if pan {
		if mgHasNonEmptyOrdered(p, t) && strings.Contains(msg, "unexported field") {
			find("prune/ordered-map-panic", "PruneEmptyBranches panics on a tree holding a non-empty ordered list: "+msg, nil)
		} else {
			find("prune/panic", "PruneEmptyBranches panics: "+msg, nil)
		}
	} else {
		after := mgPruneContent(p, c)
		if d := mgContentDiff(content, after); len(d) > 0 {
			allEmptyBin := true
			for _, k := range d {
				if !(strings.HasPrefix(k, "leaf:") && content[k] == "(TLeaf (VBin []))") {
					allEmptyBin = false
				}
			}
			if allEmptyBin {
				find("prune/empty-binary-leaf-lost", "a binary leaf holding the empty value is removed together with its container (a Binary is a slice: only its length is looked at)", d)
			} else {
				find("prune/data-lost", "PruneEmptyBranches changed the data content", d)
			}
		}
		if left, inUnk := mgEmptyContainers(p, c); len(left) > 0 {
			if inUnk {
				find("prune/unkeyed-entry-not-pruned", "an empty container below an unkeyed list entry is left (slices of structs are not visited)", left)
			} else {
				find("prune/empty-container-left", "an empty container is left", left)
			}
		}
		t1 := treeTerm(c)
		if m2, p2 := mgSafePrune(c); p2 || treeTerm(c) != t1 {
			find("prune/not-idempotent", "a second PruneEmptyBranches changes the tree or panics: "+m2, firstDiff(t1, treeTerm(c)))
		}
	}

	// ---- BuildEmptyTree, then PruneEmptyBranches
	bt := mgClone(t)
	ygot.BuildEmptyTree(bt)
	built := treeTerm(bt)
	tf.cf.add(fmt.Sprintf("MgBuild %d %s %s", *id, before, built))
	*id++
	if !seen[built] {
		seen[built] = true
		if eb, _ := mgEmptyContainers(p, bt); len(content) >= 5 && len(eb) >= 1 {
			sum.Nontrivial++
		}
	}
	msgb, panb := mgSafePrune(bt)
	outB := coqPanic
	if !panb {
		outB = coqOk(treeTerm(bt))
	}
	tf.cf.add(fmt.Sprintf("MgPrune %d %s %s", *id, built, outB))
	*id++
	sum.OracleRuns++
	switch {
	case panb && !pan:
		find("prune/build-prune-panic", "PruneEmptyBranches panics after BuildEmptyTree only: "+msgb, nil)
	case !panb:
		if d := mgContentDiff(content, mgPruneContent(p, bt)); len(d) > 0 {
			allEmptyBin := true
			for _, k := range d {
				if !(strings.HasPrefix(k, "leaf:") && content[k] == "(TLeaf (VBin []))") {
					allEmptyBin = false
				}
			}
			if allEmptyBin {
				find("prune/empty-binary-leaf-lost", "BuildEmptyTree + PruneEmptyBranches loses a binary leaf holding the empty value", d)
			} else {
				find("prune/build-prune-differs", "BuildEmptyTree + PruneEmptyBranches changed the data content", d)
			}
		}
		if !pan && treeTerm(bt) != treeTerm(c) {
			find("prune/build-prune-differs", "BuildEmptyTree + PruneEmptyBranches differs from PruneEmptyBranches alone", firstDiff(treeTerm(c), treeTerm(bt)))
		}
	}
}

func mgPruneStream(rng *rand.Rand, n int, tier string, out string) (*Summary, error) {
	sum := &Summary{Rule: "random trees of every generated package with empty containers allowed (emptyConts), empty leaf-lists / maps / slices sprinkled in, " +
		"ordered lists kept, partly or fully removed; each tree gives three cases: PruneEmptyBranches, BuildEmptyTree, PruneEmptyBranches after BuildEmptyTree " +
		"(panics recovered), compared with the model; non-trivial = tree with >= 5 data items and >= 1 empty container; distinct by tree dump"}
	var files []string
	id := 0
	seen := map[string]bool{}
	rp, err := mgReplayInput()
	if err != nil {
		return nil, err
	}
	shares := mgShares(n / 3)
	for _, name := range reg.Names() {
		p := reg.Get(name)
		if rp != nil && rp.Pkg != name {
			continue
		}
		tf := newTreeFile(p, "mgcase", "mgmismatches", "Corr.MergeCorr")
		if rp != nil {
			mgPruneCase(p, rp.Seed, rp.Force, &id, tf, sum, seen)
		} else {
			mgPruneCase(p, rng.Int63(), "emptybin", &id, tf, sum, seen)
			for i := 0; i < 3; i++ {
				mgPruneCase(p, rng.Int63(), "zerounion", &id, tf, sum, seen)
			}
			for i := 0; i < shares[name]; i++ {
				mgPruneCase(p, rng.Int63(), "", &id, tf, sum, seen)
			}
		}
		fs, err := tf.write(out, "prune", 100)
		if err != nil {
			return nil, err
		}
		files = append(files, fs...)
	}
	sum.Cases = id
	sum.Extra = map[string]interface{}{"case_files": files}
	return sum, nil
}
