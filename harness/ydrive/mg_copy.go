//go:build verif

package main

// mg_copy.go — stream "alias" (C04): which memory cells the results of DeepCopy and MergeStructs
// are made of. The original and the result are walked with reflect; every mutable cell (struct
// pointer, scalar pointer, slice backing array incl. the bytes of a Binary, map, the three cells
// of an ordered map, union wrapper pointer) is named by its address. Cells of the result that
// are also cells of an input keep the input's name: that is the sharing relation, printed as
// located trees (Heap/Located.v) and predicted by the model (Heap/Copy.v).
// Oracle: every reachable cell of the copy (and of the original) is overwritten in turn and the
// other side must not change.

import (
	"fmt"
	"math/rand"
	"reflect"
	"sort"
	"strings"
	"unsafe"

	"github.com/openconfig/ygot/internal/verifharness/reg"
	"github.com/openconfig/ygot/ygot"
)

func init() { streams["alias"] = mgAliasStream }

// ---------------------------------------------------------------- located dump

// mgCell is one mutable cell met by the dumper, with a way to overwrite it.
type mgCell struct {
	loc    int
	kind   string // structptr scalarptr bytes leaflist unkeyed map omap wrapper keywrapper
	where  string // leaf | leaflist-member | unkeyed-entry | map-key | ...
	path   string
	mutate func()
}

type mgHeap struct {
	names map[uintptr]int
	next  int
	cells []mgCell
	inUnk int
}

func newMgHeap() *mgHeap { return &mgHeap{names: map[uintptr]int{}, next: 2} }

// name returns the name of the cell at address a (a new one when it has not been seen); zero
// stands for a zero-length slice, which owns nothing and always gets a name of its own.
func (h *mgHeap) name(a uintptr) int {
	if a != 0 {
		if n, ok := h.names[a]; ok {
			return n
		}
	}
	n := h.next
	h.next++
	if a != 0 {
		h.names[a] = n
	}
	return n
}

func (h *mgHeap) cell(loc int, kind, where, path string, mut func()) {
	if h.inUnk > 0 {
		where = "unkeyed-entry"
	}
	h.cells = append(h.cells, mgCell{loc: loc, kind: kind, where: where, path: path, mutate: mut})
}

func sliceAddr(v reflect.Value) uintptr {
	if v.Len() == 0 {
		return 0
	}
	return v.Pointer()
}

// flipScalar changes the value held by the settable scalar v.
func flipScalar(v reflect.Value) {
	switch v.Kind() {
	case reflect.Int8, reflect.Int16, reflect.Int32, reflect.Int64:
		v.SetInt(v.Int() ^ 1)
	case reflect.Uint8, reflect.Uint16, reflect.Uint32, reflect.Uint64:
		v.SetUint(v.Uint() ^ 1)
	case reflect.String:
		v.SetString(v.String() + "~")
	case reflect.Bool:
		v.SetBool(!v.Bool())
	case reflect.Float64:
		v.SetFloat(v.Float() + 1)
	}
}

func (h *mgHeap) binTerm(v reflect.Value, iface bool, where, path string) string {
	loc := h.name(sliceAddr(v))
	if v.Len() > 0 {
		b := v
		h.cell(loc, "bytes", where, path, func() { b.Index(0).SetUint(b.Index(0).Uint() ^ 0xff) })
	}
	return fmt.Sprintf("(LBin %s %d %s)", coqBool(iface), loc, bytesTerm(v.Bytes()))
}

func isBinaryT(t reflect.Type) bool {
	return t.Kind() == reflect.Slice && t.Elem().Kind() == reflect.Uint8
}

// leafTerm prints a leaf value (a field or a leaf-list member); ok=false when unset.
func (h *mgHeap) leafTerm(v reflect.Value, where, path string) (string, bool) {
	t := v.Type()
	switch {
	case v.Kind() == reflect.Ptr:
		if v.IsNil() {
			return "", false
		}
		s, _ := scalarTerm(v)
		loc := h.name(v.Pointer())
		e := v.Elem()
		h.cell(loc, "scalarptr", where, path, func() { flipScalar(e) })
		return fmt.Sprintf("(LPtr %d %s)", loc, s), true
	case isBinaryT(t):
		if v.IsNil() {
			return "", false
		}
		return h.binTerm(v, false, where, path), true
	case v.Kind() == reflect.Interface:
		if v.IsNil() {
			return "", false
		}
		e := v.Elem()
		switch {
		case e.Kind() == reflect.Ptr && e.Elem().Kind() == reflect.Struct:
			loc := h.name(e.Pointer())
			f := e.Elem().Field(0)
			var inner string
			if isBinaryT(f.Type()) {
				inner = h.binTerm(f, false, where, path)
			} else {
				s, ok := scalarTerm(f)
				if !ok {
					return "", false
				}
				inner = "(LVal " + s + ")"
			}
			st := e.Elem()
			h.cell(loc, "wrapper", where, path, func() {
				if st.Field(0).Kind() == reflect.Slice || st.Field(0).Kind() == reflect.Int64 && st.Field(0).Type().Implements(goEnumT) {
					st.Set(reflect.Zero(st.Type()))
				} else {
					flipScalar(st.Field(0))
				}
			})
			return fmt.Sprintf("(LWrap %d %s)", loc, inner), true
		case isBinaryT(e.Type()):
			return h.binTerm(e, true, where, path), true
		}
		s, ok := scalarTerm(e)
		if !ok {
			return "", false
		}
		return "(LVal " + s + ")", true
	}
	s, ok := scalarTerm(v)
	if !ok {
		return "", false
	}
	return "(LVal " + s + ")", true
}

func (h *mgHeap) keyTerms(ks []reflect.Value, path string) string {
	var out []string
	for _, k := range ks {
		t, ok := h.leafTerm(k, "map-key", path)
		if !ok {
			t = "(LVal (VStr []))"
		}
		out = append(out, t)
	}
	return coqList(out)
}

func (h *mgHeap) fieldTerm(v reflect.Value, path string) (string, bool) {
	t := v.Type()
	switch {
	case isOrderedMapType(t):
		if v.IsNil() {
			return "", false
		}
		p := h.name(v.Pointer())
		keys := v.Elem().FieldByName("keys")
		vm := v.Elem().FieldByName("valueMap")
		pk := h.name(sliceAddr(keys))
		var pm int
		if vm.IsNil() {
			pm = h.name(0)
		} else {
			pm = h.name(vm.Pointer())
		}
		st := v.Elem()
		h.cell(p, "omap", "ordered-list", path, func() { st.Set(reflect.Zero(st.Type())) })
		if keys.Len() >= 2 {
			// the keys slice: swap the first two keys in the backing array
			ka := reflect.NewAt(keys.Type(), unsafe.Pointer(keys.UnsafeAddr())).Elem()
			h.cell(pk, "omap-keys", "ordered-list", path, func() {
				x := reflect.New(ka.Type().Elem()).Elem()
				x.Set(ka.Index(0))
				ka.Index(0).Set(ka.Index(1))
				ka.Index(1).Set(x)
			})
		}
		if vm.Len() >= 1 {
			ma := reflect.NewAt(vm.Type(), unsafe.Pointer(vm.UnsafeAddr())).Elem()
			h.cell(pm, "omap-values", "ordered-list", path, func() {
				k := ma.MapKeys()[0]
				ma.SetMapIndex(k, reflect.New(ma.Type().Elem().Elem()))
			})
		}
		var items []string
		for _, e := range orderedEntries(v.Interface().(ygot.GoOrderedMap)) {
			var ks []string
			for _, k := range e.keys {
				s, _ := scalarTerm(k)
				ks = append(ks, s)
			}
			items = append(items, "("+coqList(ks)+", "+h.structTerm(e.entry, path+mgKeyTerm(e.keys))+")")
		}
		return fmt.Sprintf("(LOMap %d %d %d %s)", p, pk, pm, coqList(items)), true
	case t.Kind() == reflect.Map:
		if v.IsNil() {
			return "", false
		}
		p := h.name(v.Pointer())
		if v.Len() > 0 {
			m := v
			h.cell(p, "map", "keyed-list", path, func() {
				for _, k := range m.MapKeys() {
					m.SetMapIndex(k, reflect.Value{})
				}
			})
		} else if t.Elem().Kind() == reflect.Ptr && t.Elem().Elem().Kind() == reflect.Struct {
			// an empty map is a cell too (MergeEmptyMaps keeps it): the write is an insertion
			m := v
			h.cell(p, "map", "empty-keyed-list", path, func() {
				m.SetMapIndex(reflect.Zero(m.Type().Key()), reflect.New(m.Type().Elem().Elem()))
			})
		}
		var es []keyedEntry
		it := v.MapRange()
		for it.Next() {
			es = append(es, keyedEntry{keys: keyValues(it.Key()), entry: it.Value()})
		}
		sort.SliceStable(es, func(i, j int) bool { return lessKeys(es[i].keys, es[j].keys) })
		var items []string
		for _, e := range es {
			kp := path + mgKeyTerm(e.keys)
			items = append(items, "("+h.keyTerms(e.keys, kp)+", "+h.structTerm(e.entry, kp)+")")
		}
		return fmt.Sprintf("(LMap %d %s)", p, coqList(items)), true
	case t.Kind() == reflect.Ptr && t.Elem().Kind() == reflect.Struct:
		if v.IsNil() {
			return "", false
		}
		return h.structTerm(v, path), true
	case t.Kind() == reflect.Slice && t.Elem().Kind() == reflect.Ptr && t.Elem().Elem().Kind() == reflect.Struct:
		if v.IsNil() {
			return "", false
		}
		p := h.name(sliceAddr(v))
		if v.Len() > 0 {
			s := v
			h.cell(p, "unkeyed", "unkeyed-list", path, func() { s.Index(0).Set(reflect.New(s.Type().Elem().Elem())) })
		}
		var items []string
		for i := 0; i < v.Len(); i++ {
			h.inUnk++
			items = append(items, h.structTerm(v.Index(i), fmt.Sprintf("%s#%d", path, i)))
			h.inUnk--
		}
		return fmt.Sprintf("(LUnk %d %s)", p, coqList(items)), true
	case t.Kind() == reflect.Slice && !isBinaryT(t):
		if v.IsNil() {
			return "", false
		}
		p := h.name(sliceAddr(v))
		if v.Len() > 0 {
			s := v
			h.cell(p, "leaflist", "leaf-list", path, func() {
				if s.Len() >= 2 && !reflect.DeepEqual(s.Index(0).Interface(), s.Index(1).Interface()) {
					x := reflect.New(s.Type().Elem()).Elem()
					x.Set(s.Index(0))
					s.Index(0).Set(s.Index(1))
					s.Index(1).Set(x)
					return
				}
				e := s.Index(0)
				switch e.Kind() {
				case reflect.Interface, reflect.Slice:
					e.Set(reflect.Zero(e.Type()))
				default:
					flipScalar(e)
				}
			})
		}
		var items []string
		for i := 0; i < v.Len(); i++ {
			s, ok := h.leafTerm(v.Index(i), "leaflist-member", path)
			if !ok {
				s = "(LVal (VStr []))"
			}
			items = append(items, s)
		}
		return fmt.Sprintf("(LLeafList %d %s)", p, coqList(items)), true
	}
	return h.leafTerm(v, "leaf", path)
}

func (h *mgHeap) structTerm(v reflect.Value, path string) string {
	if v.Kind() == reflect.Interface {
		v = v.Elem()
	}
	p := h.name(v.Pointer())
	s := v.Elem()
	var fs []string
	set := false
	for i := 0; i < s.NumField(); i++ {
		if _, ok := s.Type().Field(i).Tag.Lookup("path"); !ok {
			continue
		}
		if t, ok := h.fieldTerm(s.Field(i), path+"."+s.Type().Field(i).Name); ok {
			set = true
			fs = append(fs, "("+coqStr(s.Type().Field(i).Name)+", "+t+")")
		}
	}
	if set {
		st := s
		h.cell(p, "structptr", "struct", path, func() { st.Set(reflect.Zero(st.Type())) })
	}
	return fmt.Sprintf("(LCont %d %s)", p, coqList(fs))
}

// dump prints g as a located tree, naming new cells and collecting them.
func (h *mgHeap) dump(g ygot.GoStruct) string {
	return h.structTerm(reflect.ValueOf(g), "")
}

// ---------------------------------------------------------------- oracle

func mgAliasSignature(c mgCell) string {
	switch {
	case c.where == "unkeyed-entry":
		return "alias/unkeyed-entry"
	case c.where == "leaflist-member" && c.kind == "bytes":
		return "alias/binary-leaflist-bytes"
	case c.where == "leaflist-member" && c.kind == "wrapper":
		return "alias/union-leaflist-wrapper"
	case c.where == "map-key":
		return "alias/wrapper-union-map-key"
	}
	return "alias/" + c.kind
}

// mgMutationOracle: build makes fresh inputs and the result of the operation under test; for
// up to max cells of the result (side "result") and of the inputs (side "input"), the cell is
// overwritten and the dumps of the other side are compared with the dumps before.
func mgMutationOracle(rng *rand.Rand, max int, build func() (inputs []ygot.GoStruct, result ygot.GoStruct), report func(side string, c mgCell, detail string)) (runs int) {
	for _, side := range []string{"result", "input"} {
		ins, res := build()
		if res == nil {
			return runs
		}
		// cellsOf lists the cells of the side that is written to (one per location) and says which of
		// them are, by address, also cells of the other side: those are written to first
		cellsOf := func(ins []ygot.GoStruct, res ygot.GoStruct) ([]mgCell, []bool) {
			h := newMgHeap()
			var nOther int
			if side == "result" {
				for _, in := range ins {
					h.dump(in)
				}
				nOther = len(h.cells)
				h.dump(res)
			} else {
				h.dump(res)
				nOther = len(h.cells)
				for _, in := range ins {
					h.dump(in)
				}
			}
			otherLocs := map[int]bool{}
			for _, c := range h.cells[:nOther] {
				otherLocs[c.loc] = true
			}
			// one mutation per cell
			seen := map[int]bool{}
			var out []mgCell
			var shared []bool
			for _, c := range h.cells[nOther:] {
				if !seen[c.loc] {
					seen[c.loc] = true
					out = append(out, c)
					shared = append(shared, otherLocs[c.loc])
				}
			}
			return out, shared
		}
		_, sh := cellsOf(ins, res)
		n := len(sh)
		var idx []int
		for i, b := range sh {
			if b && len(idx) < max {
				idx = append(idx, i)
			}
		}
		for _, i := range rng.Perm(n) {
			if len(idx) >= max {
				break
			}
			if !sh[i] {
				idx = append(idx, i)
			}
		}
		sort.Ints(idx)
		for _, i := range idx {
			ins, res := build()
			cells, _ := cellsOf(ins, res)
			if i >= len(cells) {
				continue
			}
			var watched []ygot.GoStruct
			var mine []ygot.GoStruct
			if side == "result" {
				watched, mine = ins, []ygot.GoStruct{res}
			} else {
				watched, mine = []ygot.GoStruct{res}, ins
			}
			var before, own []string
			var leafBefore []map[string]string
			for _, w := range watched {
				before = append(before, treeTerm(w))
				leafBefore = append(leafBefore, leafMapOf(w))
			}
			for _, w := range mine {
				own = append(own, treeTerm(w))
			}
			func() {
				defer func() { recover() }()
				cells[i].mutate()
			}()
			runs++
			for j, w := range watched {
				var after string
				func() {
					defer func() {
						if r := recover(); r != nil {
							after = fmt.Sprint("panic while printing: ", r)
						}
					}()
					after = treeTerm(w)
				}()
				if after != before[j] {
					// the dump of a map whose keys have equal sort texts is not deterministic: decide on the leaf map
					lmBefore, lmAfter := leafBefore[j], map[string]string{}
					func() {
						defer func() { recover() }()
						lmAfter = leafMapOf(w)
					}()
					if len(leafMapDiff(lmBefore, lmAfter, 1)) > 0 || strings.HasPrefix(after, "panic") {
						report(side, cells[i], firstDiff(before[j], after))
					}
				}
			}
		}
	}
	return runs
}

// ---------------------------------------------------------------- the stream

func mgAliasCase(p *reg.Pkg, seed int64, tier string, id *int, tf *treeFile, sum *Summary, seen map[string]bool) {
	rng := rand.New(rand.NewSource(seed))
	in := mgMergeInput{Pkg: p.Name, Seed: seed}
	find := func(sig, what string, obs interface{}) {
		sum.finding(Finding{Signature: sig, What: what, Input: in, Observed: obs})
	}
	maxCells := 12
	if tier == "thorough" {
		maxCells = 60
	}
	if rng.Intn(3) != 0 {
		// ---- DeepCopy
		g := newTreeGen(rng, p)
		g.pField = pick(rng, []float64{0.3, 0.45, 0.7})
		g.emptyLL = rng.Intn(5) == 0
		g.emptyConts = rng.Intn(4) == 0
		t := g.genTree()
		if n := mgWrapperBinaries(rng, p, t); n > 0 {
			sum.count("wrapper_binary_leaves", fmt.Sprint(n))
		}
		mgFixEmptyUnionBinary(t)
		tt := treeTerm(t)
		c, err, pan := mgSafeCopy(t)
		tf.cf.add(fmt.Sprintf("MgCopy %d %s %s", *id, tt, mgOutTerm(c, err, pan)))
		*id++
		sum.count("operation", "DeepCopy")
		if pan || err != nil {
			find("copy/fails", "DeepCopy fails: "+err.Error(), nil)
			return
		}
		if treeTerm(t) != tt {
			find("copy/input-mutated", "DeepCopy changed its input", nil)
		}
		if tc := treeTerm(c); tc != tt {
			// what differs: empty slices / maps / binaries are not reproduced
			fa, fc := mgPruneContent(p, t), mgPruneContent(p, c)
			d := mgContentDiff(fa, fc)
			onlyEmptyBin := len(d) > 0
			for _, k := range d {
				if fa[k] != "(TLeaf (VBin []))" {
					onlyEmptyBin = false
				}
			}
			switch {
			case len(d) == 0:
				sum.count("copy_differs", "empty slices or maps dropped (no data)")
			case onlyEmptyBin:
				find("copy/empty-binary-dropped", "DeepCopy loses a binary leaf holding the empty value (copySliceField returns early when both sides have length 0)", d)
			default:
				find("copy/not-equal", "DeepCopy result differs from its input", d)
			}
		}
		h := newMgHeap()
		lt := h.dump(t)
		nOrig := len(h.cells)
		lc := h.dump(c)
		tf.cf.add(fmt.Sprintf("MgAliasCopy %d %s %s", *id, lt, lc))
		*id++
		shared := map[string]int{}
		origLocs := map[int]bool{}
		for _, cl := range h.cells[:nOrig] {
			origLocs[cl.loc] = true
		}
		for _, cl := range h.cells[nOrig:] {
			if origLocs[cl.loc] {
				shared[mgAliasSignature(cl)]++
			}
		}
		for k := range shared {
			sum.count("shared_cells", k)
		}
		if !seen[tt] {
			seen[tt] = true
			if nOrig >= 10 {
				sum.Nontrivial++
			}
		}
		sum.sample(map[string]interface{}{"input": in, "op": "DeepCopy", "cells": nOrig, "shared": shared})
		sum.OracleRuns += mgMutationOracle(rng, maxCells, func() ([]ygot.GoStruct, ygot.GoStruct) {
			t2 := mgFreshClones(t)[0]
			c2, err, pan := mgSafeCopy(t2)
			if pan || err != nil {
				return nil, nil
			}
			return []ygot.GoStruct{t2}, c2
		}, func(side string, cl mgCell, detail string) {
			what := "writing to a cell of the DeepCopy result changes the original"
			if side == "input" {
				what = "writing to a cell of the original changes the DeepCopy result"
			}
			find(mgAliasSignature(cl), what+" ("+cl.kind+" at "+cl.path+")", detail)
		})
		return
	}
	// ---- MergeStructs
	var pr mgPair
	var r ygot.GoStruct
	ow, em := false, false
	for try := 0; try < 6; try++ {
		pr = mgGenPair(rng, p, "")
		// a wrapper-union binary leaf on one side only (on both it would be a conflict)
		if n := mgWrapperBinaries(rng, p, pick(rng, []ygot.ValidatedGoStruct{pr.a, pr.b})); n > 0 {
			sum.count("wrapper_binary_leaves", fmt.Sprint(n))
		}
		ow, em = rng.Intn(4) == 0, rng.Intn(4) == 0
		if pr.mode == "conflict" {
			// a conflict only merges with MergeOverwriteExistingFields: the overwritten field of the
			// result must be a new cell, not b's
			ow = rng.Intn(4) != 0
		}
		var err error
		var pan bool
		r, err, pan = mgSafeMerge(pr.a, pr.b, mgOpts(ow, em)...)
		if !pan && err == nil {
			break
		}
		r = nil
	}
	if r == nil {
		return
	}
	sum.count("operation", "MergeStructs")
	h := newMgHeap()
	la := h.dump(pr.a)
	lb := h.dump(pr.b)
	nIn := len(h.cells)
	lr := h.dump(r)
	tf.cf.add(fmt.Sprintf("MgAliasMerge %d %s %s %s %s %s", *id, coqBool(ow), coqBool(em), la, lb, lr))
	*id++
	inLocs := map[int]bool{}
	for _, cl := range h.cells[:nIn] {
		inLocs[cl.loc] = true
	}
	shared := map[string]int{}
	for _, cl := range h.cells[nIn:] {
		if inLocs[cl.loc] {
			shared[mgAliasSignature(cl)]++
		}
	}
	for k := range shared {
		sum.count("shared_cells", k)
	}
	if key := la + lb; !seen[key] {
		seen[key] = true
		if nIn >= 10 {
			sum.Nontrivial++
		}
	}
	sum.sample(map[string]interface{}{"input": in, "op": "MergeStructs", "cells": nIn, "shared": shared, "overwrite": ow, "emptymaps": em})
	sum.OracleRuns += mgMutationOracle(rng, maxCells, func() ([]ygot.GoStruct, ygot.GoStruct) {
		cl := mgFreshClones(pr.a, pr.b)
		a2, b2 := cl[0], cl[1]
		r2, err, pan := mgSafeMerge(a2, b2, mgOpts(ow, em)...)
		if pan || err != nil {
			return nil, nil
		}
		return []ygot.GoStruct{a2, b2}, r2
	}, func(side string, cl mgCell, detail string) {
		what := "writing to a cell of the MergeStructs result changes an input"
		if side == "input" {
			what = "writing to a cell of an input changes the MergeStructs result"
		}
		find(strings.Replace(mgAliasSignature(cl), "alias/", "alias/", 1), what+" ("+cl.kind+" at "+cl.path+")", detail)
	})
}

func mgAliasStream(rng *rand.Rand, n int, tier string, out string) (*Summary, error) {
	sum := &Summary{Rule: "random trees (DeepCopy, 2/3 of the cases: a tree-level case and a located case each) and compatible pairs derived from one tree (MergeStructs, 1/3); " +
		"the located dumps name every mutable cell by its address, cells of the result found in an input keep the input's name; the model predicts the result " +
		"up to the names of the new cells; non-trivial = input with >= 10 cells; distinct by tree dump"}
	var files []string
	id := 0
	seen := map[string]bool{}
	rp, err := mgReplayInput()
	if err != nil {
		return nil, err
	}
	shares := mgShares(n * 3 / 5)
	for _, name := range reg.Names() {
		p := reg.Get(name)
		if rp != nil && rp.Pkg != name {
			continue
		}
		tf := newTreeFile(p, "mgcase", "mgmismatches", "Corr.MergeCorr")
		if rp != nil {
			mgAliasCase(p, rp.Seed, tier, &id, tf, sum, seen)
		} else {
			for i := 0; i < shares[name]; i++ {
				mgAliasCase(p, rng.Int63(), tier, &id, tf, sum, seen)
			}
		}
		fs, err := tf.write(out, "alias", 50)
		if err != nil {
			return nil, err
		}
		files = append(files, fs...)
	}
	sum.Cases = id
	sum.Extra = map[string]interface{}{"case_files": files}
	return sum, nil
}

// mgWrapperBinaries: with wrapper unions the tree generator cannot produce a union leaf that
// holds its binary member (the generated To_<Union> helper takes the package's Binary type, not
// []byte); here such leaves are set directly, so that the byte array inside the wrapper struct is
// part of what DeepCopy / MergeStructs have to copy.
func mgWrapperBinaries(rng *rand.Rand, p *reg.Pkg, t ygot.GoStruct) (set int) {
	if !p.Flags["wrapper_unions"] {
		return
	}
	var binT reflect.Type
	var find func(rt reflect.Type, depth int)
	find = func(rt reflect.Type, depth int) {
		if binT != nil || depth > 6 || rt.Kind() != reflect.Struct {
			return
		}
		for i := 0; i < rt.NumField(); i++ {
			ft := rt.Field(i).Type
			switch {
			case ft.Kind() == reflect.Slice && ft.Elem().Kind() == reflect.Uint8 && ft.Name() == "Binary":
				binT = ft
				return
			case ft.Kind() == reflect.Ptr && ft.Elem().Kind() == reflect.Struct:
				find(ft.Elem(), depth+1)
			}
		}
	}
	find(reflect.TypeOf(t).Elem(), 0)
	if binT == nil {
		return
	}
	// every union leaf field (set or not: the generator leaves a union with a binary member unset
	// in wrapper packages) of every struct of the tree
	structs := []reflect.Value{reflect.ValueOf(t)}
	vdCollectStructs(reflect.ValueOf(t), &structs, 0)
	for _, sp := range structs {
		st := sp.Elem()
		for i := 0; i < st.NumField(); i++ {
			sf := st.Type().Field(i)
			if _, ok := sf.Tag.Lookup("path"); !ok || sf.Type.Kind() != reflect.Interface {
				continue
			}
			to := sp.MethodByName("To_" + sf.Type.Name())
			if !to.IsValid() {
				continue
			}
			b := reflect.MakeSlice(binT, 3, 3)
			reflect.Copy(b, reflect.ValueOf([]byte{0x10, 0x20, byte(rng.Intn(256))}))
			if out := to.Call([]reflect.Value{b}); out[1].IsNil() {
				// not a list key: the key leaves of an entry must equal its map key
				if e := p.SchemaTree[st.Type().Name()]; e != nil && e.IsList() && strings.Contains(" "+e.Key+" ", " "+strings.Split(sf.Tag.Get("path"), "|")[0]+" ") {
					continue
				}
				if rng.Intn(4) != 0 {
					st.Field(i).Set(out[0])
					set++
				}
			}
		}
	}
	return set
}
