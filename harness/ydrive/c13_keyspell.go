//go:build verif

package main

// Stream "setreqkeys" (C13): SetRequests whose paths spell an integer list key in a
// non-canonical way ("01" for 1).  gNMI Set semantics: such a path either addresses the entry
// whose key has that value or is rejected.  Differential oracle on the implementation: the same
// update through the canonical spelling, applied to a deep copy of the tree, must give the same
// leaf map.  ytypes compares the path's key string with the string KeyValueAsString prints for
// each entry; "01" matches no entry, and before fix 8c0e3a71 SetNode (InitMissingElements) built a
// new entry for the parsed key 1 and stored it over the existing one, losing every other leaf of
// the entry (signature setrequest/noncanonical-key-replaces-entry).  insertAndGetKey now keeps the
// entry the map holds under the parsed key (C13.c13_noncanonical_key_keeps_entry); the oracle
// stays as the regression check.  Every case is also printed as a GSetReq
// term for the correspondence check with Tree/SetReq.v.

import (
	"fmt"
	"math/rand"
	"sort"
	"strings"

	gpb "github.com/openconfig/gnmi/proto/gnmi"
	"github.com/openconfig/ygot/ygot"

	"github.com/openconfig/ygot/internal/verifharness/reg"
)

func init() { streams["setreqkeys"] = c13KeySpellStream }

func c13Path(elems ...interface{}) *gpb.Path {
	p := &gpb.Path{}
	for _, e := range elems {
		switch x := e.(type) {
		case string:
			p.Elem = append(p.Elem, &gpb.PathElem{Name: x})
		case map[string]string:
			p.Elem[len(p.Elem)-1].Key = x
		}
	}
	return p
}

func c13Str(s string) *gpb.TypedValue {
	return &gpb.TypedValue{Value: &gpb.TypedValue_StringVal{StringVal: s}}
}
func c13Bool(b bool) *gpb.TypedValue {
	return &gpb.TypedValue{Value: &gpb.TypedValue_BoolVal{BoolVal: b}}
}

// one case: the entry /top/l-nested[k=K]/inner[j=J] exists with the leaves in `have`; the
// request updates leaf `target` through the spelling `spell` of J
type c13KeyCase struct {
	K      string
	J      int
	Spell  string
	Have   []string // subset of {"w", "ic/q"}
	Target string   // "w" or "ic/q"
	Kind   string   // "update" or "replace"
}

func c13KeyLeaf(k, j, leaf string) *gpb.Path {
	els := []interface{}{"top", "l-nested", map[string]string{"k": k}, "inner", map[string]string{"j": j}}
	for _, e := range strings.Split(leaf, "/") {
		els = append(els, e)
	}
	return c13Path(els...)
}

func c13KeyVal(rng *rand.Rand, leaf string) *gpb.TypedValue {
	if leaf == "w" {
		return c13Str(pick(rng, []string{"x", "y", "zz", ""}))
	}
	return c13Bool(rng.Intn(2) == 0)
}

func c13LeafMapDiff(a, b map[string]string) []string {
	var out []string
	for k, v := range a {
		if w, ok := b[k]; !ok {
			out = append(out, fmt.Sprintf("%s: %q with the canonical key, absent with the given spelling", k, v))
		} else if w != v {
			out = append(out, fmt.Sprintf("%s: %q with the canonical key, %q with the given spelling", k, v, w))
		}
	}
	for k, v := range b {
		if _, ok := a[k]; !ok {
			out = append(out, fmt.Sprintf("%s: absent with the canonical key, %q with the given spelling", k, v))
		}
	}
	sort.Strings(out)
	return out
}

func c13KeySpellStream(rng *rand.Rand, n int, tier string, out string) (*Summary, error) {
	rp, replaying := gnLoadReplay()
	seed := gnSeedFlag()
	if replaying {
		rng, n, tier, seed = rand.New(rand.NewSource(rp.Seed)), rp.N, rp.Tier, rp.Seed
	}
	sum := &Summary{Rule: "packages with /top/l-nested/inner (uint8 key j): an entry inner[j=J] is created with a random subset of its leaves w and ic/q, then one leaf is updated or replaced through a path that spells J canonically (1/3) or with one or two leading zeros (2/3); tier thorough adds every J in 0..40 with every spelling, target and kind. Oracle: the same request with the canonical spelling on a deep copy gives the same leaf map, or the request is rejected. Non-trivial = non-canonical spelling on an entry that holds a leaf other than the target; distinct by case term."}
	var files []string
	id := 0
	index := 0
	seen := map[string]bool{}
	var names []string
	for _, name := range reg.Names() {
		p := reg.Get(name)
		probe := p.NewRoot()
		if err, pan := gnSafeSetReq(gnSchema(p, probe), &gpb.SetRequest{Update: []*gpb.Update{{Path: c13KeyLeaf("a", "1", "w"), Val: c13Str("x")}}}); err == nil && !pan {
			names = append(names, name)
		}
	}
	if len(names) == 0 {
		sum.count("notes", "no package has /top/l-nested/inner")
		return sum, nil
	}
	per := n / len(names)
	for _, name := range names {
		p := reg.Get(name)
		tf := gnNewFile(p)
		var cases []c13KeyCase
		for i := 0; i < per; i++ {
			c := c13KeyCase{K: pick(rng, []string{"a", "b", "k 1"}), J: rng.Intn(256)}
			if rng.Intn(4) == 0 {
				c.J = rng.Intn(10)
			}
			c.Spell = strings.Repeat("0", rng.Intn(3)) + fmt.Sprint(c.J)
			for _, l := range []string{"w", "ic/q"} {
				if rng.Intn(3) != 0 {
					c.Have = append(c.Have, l)
				}
			}
			c.Target = pick(rng, []string{"w", "ic/q"})
			c.Kind = pick(rng, []string{"update", "update", "replace"})
			cases = append(cases, c)
		}
		if tier == "thorough" {
			for j := 0; j <= 40; j++ {
				for z := 0; z < 3; z++ {
					for _, tg := range []string{"w", "ic/q"} {
						for _, kd := range []string{"update", "replace"} {
							cases = append(cases, c13KeyCase{K: "a", J: j, Spell: strings.Repeat("0", z) + fmt.Sprint(j), Have: []string{"w", "ic/q"}, Target: tg, Kind: kd})
						}
					}
				}
			}
		}
		for _, c := range cases {
			index++
			val := c13KeyVal(rng, c.Target)
			var haveVals []*gpb.TypedValue
			for _, l := range c.Have {
				haveVals = append(haveVals, c13KeyVal(rng, l))
			}
			if replaying && index != rp.Index {
				continue
			}
			root := p.NewRoot()
			setup := &gpb.SetRequest{Update: []*gpb.Update{{Path: c13KeyLeaf(c.K, fmt.Sprint(c.J), "j"), Val: &gpb.TypedValue{Value: &gpb.TypedValue_UintVal{UintVal: uint64(c.J)}}}}}
			for i, l := range c.Have {
				setup.Update = append(setup.Update, &gpb.Update{Path: c13KeyLeaf(c.K, fmt.Sprint(c.J), l), Val: haveVals[i]})
			}
			if err, pan := gnSafeSetReq(gnSchema(p, root), setup); err != nil || pan {
				sum.count("notes", "case dropped: the setup request failed")
				continue
			}
			mk := func(spell string) *gpb.SetRequest {
				u := &gpb.Update{Path: c13KeyLeaf(c.K, spell, c.Target), Val: val}
				if c.Kind == "replace" {
					return &gpb.SetRequest{Replace: []*gpb.Update{u}}
				}
				return &gpb.SetRequest{Update: []*gpb.Update{u}}
			}
			req := mk(c.Spell)
			cp, err := ygot.DeepCopy(root)
			if err != nil {
				return nil, err
			}
			refRoot := cp.(ygot.GoStruct)
			refErr, refPan := gnSafeSetReq(gnSchema(p, refRoot), mk(fmt.Sprint(c.J)))
			pre := treeTerm(root)
			rt, ok := gnSReqTerm(req)
			if !ok {
				continue
			}
			err, pan := gnSafeSetReq(gnSchema(p, root), req)
			term := fmt.Sprintf("GSetReq %d %s %s %s %s (Some %s)", id, gnSrOptsTerm(false, false, false), pre, rt, gnSrOut(err, pan), treeTerm(root))
			tf.cf.add(term)
			id++
			canonical := c.Spell == fmt.Sprint(c.J)
			other := false
			for _, l := range c.Have {
				if l != c.Target {
					other = true
				}
			}
			ck := fmt.Sprintf("%s|%s|%s", name, pre, rt)
			if !seen[ck] {
				seen[ck] = true
				if !canonical && other {
					sum.Nontrivial++
				}
			}
			sum.count("spelling", map[bool]string{true: "canonical", false: "leading zeros"}[canonical])
			sum.count("kind", c.Kind)
			sum.count("outcome", gnSrOut(err, pan))
			in := map[string]interface{}{"pkg": name, "request": fmt.Sprintf("%v", req), "tree_before": pre, "case": c,
				"replay": gnReplay{Seed: seed, N: n, Tier: tier, Index: index}}
			sum.sample(map[string]interface{}{"pkg": name, "request": fmt.Sprintf("%v", req)})
			// ---- oracle
			sum.OracleRuns++
			switch {
			case pan:
				sum.finding(Finding{Signature: "setrequest/panic", What: "UnmarshalSetRequest panics: " + err.Error(), Input: in})
			case refErr != nil || refPan:
				sum.finding(Finding{Signature: "setrequest/valid-request-rejected", What: fmt.Sprintf("the request with the canonical key is rejected: %v", refErr), Input: in})
			case err != nil:
				sum.count("oracle", "rejected (allowed)")
			default:
				if d := c13LeafMapDiff(leafMapOf(refRoot), leafMapOf(root)); len(d) > 0 {
					if len(d) > 6 {
						d = d[:6]
					}
					sum.finding(Finding{Signature: "setrequest/noncanonical-key-replaces-entry",
						What: "a set through a path that spells an integer list key with leading zeros is accepted but does not act on the entry with that key: the entry is replaced by a new one holding only its key leaves and the payload: " + strings.Join(d, " ; "), Input: in})
				} else {
					sum.count("oracle", "same as canonical")
				}
			}
		}
		fs, err := gnWrite(tf, out, "setreqkeys", 400)
		if err != nil {
			return nil, err
		}
		files = append(files, fs...)
	}
	sum.Cases = id
	sum.Extra = map[string]interface{}{"case_files": files}
	return sum, nil
}
