//go:build verif

package main

// vd_leafrefp.go — stream "leafrefp" (property C30, leafref paths with key predicates).
//
// Packages: the generated packages whose registration carries the flag "lrefp" (vlref_u, from
// /verif/yang/v-lref.yang).  Trees are drawn from tiny value pools (names a/b/c, numbers 1..3, and
// rarely "", "*", "fixed", 0, 80) so that a referring value regularly exists under the key the
// predicate addresses, only under another key, or nowhere, with the operand leaf set or unset.
// Every tree is validated three ways (no LeafrefOptions, &LeafrefOptions{}, IgnoreMissingData);
// the classified leafref errors are compared with the Coq model (Tree/LeafrefPred.v through
// Corr/LeafrefPredCorr.v).
//
// Oracle, independent of the model and of ygot's path code: the tree is flattened into a plain
// node tree by reflection over the struct tags (list entries are children carrying their key
// LEAVES), every leafref path is parsed by the XPath grammar of RFC 7950 9.9.2 (module prefixes
// are per node identifier) and evaluated as XPath 1.0 does (a predicate compares the entry's
// child leaf with the string values of the nodes the operand selects from current(); no node: no
// match).  A leafref error must be reported exactly for the leaves whose value is not among the
// selected values, and never with IgnoreMissingData.

import (
	"fmt"
	"math/rand"
	"reflect"
	"regexp"
	"sort"
	"strconv"
	"strings"

	gpb "github.com/openconfig/gnmi/proto/gnmi"
	"github.com/openconfig/goyang/pkg/yang"
	"github.com/openconfig/ygot/internal/verifharness/reg"
	"github.com/openconfig/ygot/util"
	"github.com/openconfig/ygot/ygot"
	"github.com/openconfig/ygot/ytypes"
)

func init() { streams["leafrefp"] = c30pStream }

// ---------------------------------------------------------------- leafref paths (RFC 7950 9.9.2)

type c30pPred struct {
	key      string
	isLit    bool
	lit      string
	prefixed bool // the operand text holds a ':'
	up       int
	down     []string
}

type c30pStep struct {
	name  string
	preds []c30pPred
}

type c30pPath struct {
	abs   bool
	up    int
	steps []c30pStep
	raw   string
	ok    bool // inside the subset the model and the oracle speak about
}

func c30pLocal(id string) string {
	if i := strings.LastIndex(id, ":"); i >= 0 {
		return id[i+1:]
	}
	return id
}

// c30pSplit splits at sep outside [...] and "...".
func c30pSplit(s string, sep byte) []string {
	var out []string
	depth, quoted, start := 0, false, 0
	for i := 0; i < len(s); i++ {
		switch c := s[i]; {
		case c == '"':
			quoted = !quoted
		case quoted:
		case c == '[':
			depth++
		case c == ']':
			depth--
		case c == sep && depth == 0:
			out = append(out, s[start:i])
			start = i + 1
		}
	}
	return append(out, s[start:])
}

func c30pParse(raw string) c30pPath {
	p := c30pPath{raw: raw, ok: true}
	s := strings.TrimSpace(raw)
	if strings.HasPrefix(s, "/") {
		p.abs = true
		s = s[1:]
	}
	for _, seg := range c30pSplit(s, '/') {
		seg = strings.TrimSpace(seg)
		switch {
		case seg == "..":
			if p.abs || len(p.steps) > 0 {
				p.ok = false
			}
			p.up++
		case seg == "" || seg == ".":
			p.ok = false
		default:
			st := c30pStep{}
			name := seg
			if i := strings.Index(seg, "["); i >= 0 {
				name = seg[:i]
				rest := seg[i:]
				for rest != "" {
					if rest[0] != '[' {
						p.ok = false
						break
					}
					// the closing bracket outside quotes
					j, quoted := -1, false
					for q := 1; q < len(rest); q++ {
						if rest[q] == '"' {
							quoted = !quoted
						}
						if rest[q] == ']' && !quoted {
							j = q
							break
						}
					}
					if j < 0 {
						p.ok = false
						break
					}
					body := rest[1:j]
					rest = strings.TrimSpace(rest[j+1:])
					eq := strings.Index(body, "=")
					if eq < 0 {
						p.ok = false
						break
					}
					pr := c30pPred{key: c30pLocal(strings.TrimSpace(body[:eq]))}
					val := strings.TrimSpace(body[eq+1:])
					switch {
					case len(val) >= 2 && val[0] == '"' && val[len(val)-1] == '"':
						pr.isLit, pr.lit = true, val[1:len(val)-1]
					case strings.HasPrefix(val, "current()"):
						pr.prefixed = strings.Contains(val, ":")
						rel := strings.TrimSpace(strings.TrimPrefix(val, "current()"))
						if !strings.HasPrefix(rel, "/") {
							p.ok = false
						}
						for _, os := range strings.Split(strings.TrimPrefix(rel, "/"), "/") {
							os = strings.TrimSpace(os)
							switch {
							case os == "..":
								if len(pr.down) > 0 {
									p.ok = false
								}
								pr.up++
							case os == "" || os == "." || strings.ContainsAny(os, "[]()"):
								p.ok = false
							default:
								pr.down = append(pr.down, c30pLocal(os))
							}
						}
					default:
						p.ok = false
					}
					st.preds = append(st.preds, pr)
				}
			}
			if strings.ContainsAny(name, "[]()\"") || name == "" {
				p.ok = false
			}
			st.name = c30pLocal(strings.TrimSpace(name))
			p.steps = append(p.steps, st)
		}
	}
	return p
}

func (pr c30pPred) term() string {
	if pr.isLit {
		return "(" + coqStr(pr.key) + ", OpLit " + coqStr(pr.lit) + ")"
	}
	return fmt.Sprintf("(%s, OpPath %s %d%%nat %s)", coqStr(pr.key), coqBool(pr.prefixed), pr.up, coqStrList(pr.down))
}

func (p c30pPath) term() string {
	var els []string
	for _, st := range p.steps {
		var ps []string
		for _, pr := range st.preds {
			ps = append(ps, pr.term())
		}
		els = append(els, "{| le_name := "+coqStr(st.name)+"; le_preds := "+coqList(ps)+" |}")
	}
	return fmt.Sprintf("{| lp_abs := %s; lp_up := %d%%nat; lp_down := %s |}", coqBool(p.abs), p.up, coqList(els))
}

func (p c30pPath) hasPred() bool {
	for _, st := range p.steps {
		if len(st.preds) > 0 {
			return true
		}
	}
	return false
}

// ---------------------------------------------------------------- plain node tree (oracle side)

type c30pNode struct {
	name   string // YANG name
	parent *c30pNode
	kids   []*c30pNode
	isLeaf bool
	sval   string // XPath string value (canonical form)
	goPath string // Go field names from the root, joined by "/"
	spath  string // schema path as ygot prints it
	lp     *c30pPath
	fv     reflect.Value // the struct field of a leaf
}

func c30pStringValue(p *reg.Pkg, v reflect.Value) (string, bool) {
	for v.Kind() == reflect.Ptr || v.Kind() == reflect.Interface {
		if v.IsNil() {
			return "", false
		}
		v = v.Elem()
	}
	switch {
	case v.Type().Implements(goEnumT) && v.Kind() == reflect.Int64:
		if v.Int() == 0 {
			return "", false
		}
		if d, ok := p.Enum[v.Type().Name()][v.Int()]; ok {
			return d.Name, true
		}
		return "", false
	case v.Kind() == reflect.String:
		return v.String(), true
	case v.Kind() >= reflect.Int && v.Kind() <= reflect.Int64:
		return strconv.FormatInt(v.Int(), 10), true
	case v.Kind() >= reflect.Uint && v.Kind() <= reflect.Uint64:
		return strconv.FormatUint(v.Uint(), 10), true
	case v.Kind() == reflect.Bool:
		return strconv.FormatBool(v.Bool()), true
	}
	return "", false
}

func c30pBuildNodes(p *reg.Pkg, tab map[string]c30pPath, v reflect.Value, self *c30pNode) {
	if v.Kind() != reflect.Ptr || v.IsNil() {
		return
	}
	s := v.Elem()
	for i := 0; i < s.NumField(); i++ {
		sf := s.Type().Field(i)
		tag, ok := sf.Tag.Lookup("path")
		if !ok {
			continue
		}
		name := strings.Split(strings.Split(tag, "|")[0], "/")[0]
		fv := s.Field(i)
		mk := func() *c30pNode {
			n := &c30pNode{name: name, parent: self, goPath: strings.TrimPrefix(self.goPath+"/"+sf.Name, "/"), spath: self.spath + "/" + name}
			self.kids = append(self.kids, n)
			return n
		}
		ft := sf.Type
		switch {
		case ft.Kind() == reflect.Map:
			for _, k := range vdSortedMapKeys(fv) {
				c30pBuildNodes(p, tab, fv.MapIndex(k), mk())
			}
		case ft.Kind() == reflect.Ptr && ft.Elem().Kind() == reflect.Struct:
			if !fv.IsNil() {
				c30pBuildNodes(p, tab, fv, mk())
			}
		case ft.Kind() == reflect.Slice && ft.Elem().Kind() == reflect.Ptr:
			for j := 0; j < fv.Len(); j++ {
				c30pBuildNodes(p, tab, fv.Index(j), mk())
			}
		case ft.Kind() == reflect.Slice && ft.Elem().Kind() != reflect.Uint8:
			for j := 0; j < fv.Len(); j++ {
				if sv, ok := c30pStringValue(p, fv.Index(j)); ok {
					n := mk()
					n.isLeaf, n.sval = true, sv
				}
			}
		default:
			if sv, ok := c30pStringValue(p, fv); ok {
				n := mk()
				n.isLeaf, n.sval, n.fv = true, sv, fv
				if lp, isRef := tab[n.goPath]; isRef {
					q := lp
					n.lp = &q
				}
			}
		}
	}
}

// c30pEval: the node set an (operand or leafref) path selects; cur is current().
func c30pEval(root, from, cur *c30pNode, abs bool, up int, steps []c30pStep) []*c30pNode {
	start := from
	if abs {
		start = root
	} else {
		for i := 0; i < up; i++ {
			if start == nil {
				return nil
			}
			start = start.parent
		}
	}
	if start == nil {
		return nil
	}
	set := []*c30pNode{start}
	for _, st := range steps {
		var next []*c30pNode
		for _, n := range set {
			for _, k := range n.kids {
				if k.name == st.name && c30pMatch(root, k, cur, st.preds) {
					next = append(next, k)
				}
			}
		}
		set = next
	}
	return set
}

func c30pOperandValues(root, cur *c30pNode, pr c30pPred) (vals []string, nodes int) {
	if pr.isLit {
		return []string{pr.lit}, 1
	}
	var steps []c30pStep
	for _, d := range pr.down {
		steps = append(steps, c30pStep{name: d})
	}
	for _, n := range c30pEval(root, cur, cur, false, pr.up, steps) {
		if n.isLeaf {
			vals = append(vals, n.sval)
			nodes++
		}
	}
	return vals, nodes
}

func c30pMatch(root, entry, cur *c30pNode, preds []c30pPred) bool {
	for _, pr := range preds {
		vals, _ := c30pOperandValues(root, cur, pr)
		ok := false
		for _, k := range entry.kids {
			if k.isLeaf && k.name == pr.key {
				for _, v := range vals {
					if v == k.sval {
						ok = true
					}
				}
			}
		}
		if !ok {
			return false
		}
	}
	return true
}

// c30pLeafInfo: what the oracle knows about one set leafref leaf.
type c30pLeafInfo struct {
	node       *c30pNode
	satisfied  bool
	elsewhere  bool // the value occurs among the nodes selected when the predicates are dropped
	multiPred  bool // some element carries more than one predicate
	multiNode  bool // some operand selects more than one node
	prefixedOp bool
	opUnset    bool // some operand selects no node
	opStar     bool // some operand value is "*"
	emptyKey   bool // an entry of an addressed list has "" for the predicate's key
}

func c30pInspect(root, leaf *c30pNode) c30pLeafInfo {
	lp := leaf.lp
	in := c30pLeafInfo{node: leaf}
	for _, t := range c30pEval(root, leaf, leaf, lp.abs, lp.up, lp.steps) {
		if t.isLeaf && t.sval == leaf.sval {
			in.satisfied = true
		}
	}
	var bare []c30pStep
	for _, st := range lp.steps {
		bare = append(bare, c30pStep{name: st.name})
	}
	for _, t := range c30pEval(root, leaf, leaf, lp.abs, lp.up, bare) {
		if t.isLeaf && t.sval == leaf.sval {
			in.elsewhere = true
		}
	}
	for i, st := range lp.steps {
		if len(st.preds) > 1 {
			in.multiPred = true
		}
		for _, pr := range st.preds {
			vals, nodes := c30pOperandValues(root, leaf, pr)
			if pr.prefixed {
				in.prefixedOp = true
			}
			if nodes == 0 {
				in.opUnset = true
			}
			if nodes > 1 {
				in.multiNode = true
			}
			for _, v := range vals {
				if v == "*" {
					in.opStar = true
				}
			}
			// entries of the addressed list (reached without predicates) whose key is ""
			for _, e := range c30pEval(root, leaf, leaf, lp.abs, lp.up, bare[:i+1]) {
				for _, k := range e.kids {
					if k.isLeaf && k.name == pr.key && k.sval == "" {
						in.emptyKey = true
					}
				}
			}
		}
	}
	return in
}

func (in c30pLeafInfo) scenario() string {
	op := "operand-set"
	switch {
	case in.multiPred:
		op = "two-predicates"
	case in.multiNode:
		op = "operand-node-set"
	case in.opUnset:
		op = "operand-unset"
	}
	switch {
	case in.satisfied:
		return op + "/under-addressed-key"
	case in.elsewhere:
		return op + "/only-under-another-key"
	}
	return op + "/nowhere"
}

// ---------------------------------------------------------------- trees

type c30pGen struct {
	rng     *rand.Rand
	p       *reg.Pkg
	pField  float64
	special float64 // probability of "", "*", "fixed" / 0, 80
}

func (g *c30pGen) str() string {
	if g.rng.Float64() < g.special {
		return pick(g.rng, []string{"", "*", "fixed"})
	}
	return pick(g.rng, []string{"a", "b", "c"})
}

func (g *c30pGen) num() uint64 {
	if g.rng.Float64() < g.special {
		return pick(g.rng, []uint64{0, 80})
	}
	return uint64(1 + g.rng.Intn(3))
}

func (g *c30pGen) leaf(ft reflect.Type) (reflect.Value, bool) {
	if ft.Implements(goEnumT) && ft.Kind() == reflect.Int64 {
		var vals []int64
		for k := range g.p.Enum[ft.Name()] {
			if k != 0 {
				vals = append(vals, k)
			}
		}
		if len(vals) == 0 {
			return reflect.Value{}, false
		}
		sort.Slice(vals, func(i, j int) bool { return vals[i] < vals[j] })
		v := reflect.New(ft).Elem()
		v.SetInt(pick(g.rng, vals))
		return v, true
	}
	if ft.Kind() != reflect.Ptr {
		return reflect.Value{}, false
	}
	v := reflect.New(ft.Elem())
	switch k := ft.Elem().Kind(); {
	case k == reflect.String:
		v.Elem().SetString(g.str())
	case k >= reflect.Uint8 && k <= reflect.Uint64:
		v.Elem().SetUint(g.num())
	case k >= reflect.Int8 && k <= reflect.Int64:
		v.Elem().SetInt(int64(g.num()))
	case k == reflect.Bool:
		v.Elem().SetBool(g.rng.Intn(2) == 0)
	default:
		return reflect.Value{}, false
	}
	return v, true
}

func (g *c30pGen) populate(sp reflect.Value, e *yang.Entry, skip map[string]bool) {
	s := sp.Elem()
	for i := 0; i < s.NumField(); i++ {
		sf := s.Type().Field(i)
		if _, ok := sf.Tag.Lookup("path"); !ok || skip[sf.Name] {
			continue
		}
		ce, err := util.ChildSchema(e, sf)
		if err != nil || ce == nil {
			continue
		}
		fv, ft := s.Field(i), sf.Type
		switch {
		case ce.IsLeaf():
			if g.rng.Float64() < g.pField {
				if v, ok := g.leaf(ft); ok {
					fv.Set(v)
				}
			}
		case ce.IsList() && ft.Kind() == reflect.Map:
			n := g.rng.Intn(4)
			m := reflect.MakeMap(ft)
			entryT := ft.Elem().Elem()
			kfs := (&treeGen{}).keyFieldNames(entryT, ce)
			for j := 0; j < n; j++ {
				ent := reflect.New(entryT)
				sk := map[string]bool{}
				var kvs []reflect.Value
				for _, kf := range kfs {
					f, _ := entryT.FieldByName(kf)
					v, ok := g.leaf(f.Type)
					if !ok {
						break
					}
					ent.Elem().FieldByName(kf).Set(v)
					sk[kf] = true
					if v.Kind() == reflect.Ptr {
						v = v.Elem()
					}
					kvs = append(kvs, v)
				}
				if len(kvs) != len(kfs) || len(kfs) == 0 {
					continue
				}
				var key reflect.Value
				if ft.Key().Kind() == reflect.Struct && !ft.Key().Implements(goEnumT) {
					if ft.Key().NumField() != len(kvs) {
						continue
					}
					key = reflect.New(ft.Key()).Elem()
					for q := range kvs {
						key.Field(q).Set(kvs[q])
					}
				} else {
					key = kvs[0]
				}
				if m.MapIndex(key).IsValid() {
					continue
				}
				g.populate(ent, ce, sk)
				m.SetMapIndex(key, ent)
			}
			if m.Len() > 0 {
				fv.Set(m)
			}
		case ce.IsDir() && ft.Kind() == reflect.Ptr && ft.Elem().Kind() == reflect.Struct:
			if g.rng.Float64() < 0.9 {
				c := reflect.New(ft.Elem())
				g.populate(c, ce, nil)
				if !c.Elem().IsZero() {
					fv.Set(c)
				}
			}
		}
	}
}

func (g *c30pGen) tree() ygot.ValidatedGoStruct {
	root := g.p.NewRoot()
	t := reflect.TypeOf(root).Elem()
	g.populate(reflect.ValueOf(root), g.p.SchemaTree[t.Name()], nil)
	return root
}

// c30pSetLeaf overwrites a string or unsigned leaf with the value whose string form is sv.
func c30pSetLeaf(fv reflect.Value, sv string) bool {
	if fv.Kind() != reflect.Ptr || fv.IsNil() {
		return false
	}
	nv := reflect.New(fv.Type().Elem())
	switch k := nv.Elem().Kind(); {
	case k == reflect.String:
		nv.Elem().SetString(sv)
	case k >= reflect.Uint8 && k <= reflect.Uint64:
		u, err := strconv.ParseUint(sv, 10, 64)
		if err != nil {
			return false
		}
		nv.Elem().SetUint(u)
	default:
		return false
	}
	fv.Set(nv)
	return true
}

// c30pSteer rewrites some leafref values so that the interesting situations are frequent: first
// the plain leafrefs (they are the operands of the others), then the ones with predicates; a
// chosen leaf takes a value its path selects (satisfied) or a value found when the predicates are
// dropped (possibly under another key).
func c30pSteer(rng *rand.Rand, p *reg.Pkg, tab map[string]c30pPath, root ygot.ValidatedGoStruct) {
	for pass := 0; pass < 2; pass++ {
		nroot := &c30pNode{spath: "/device"}
		c30pBuildNodes(p, tab, reflect.ValueOf(root), nroot)
		var leaves []*c30pNode
		var visit func(n *c30pNode)
		visit = func(n *c30pNode) {
			if n.lp != nil && n.lp.ok && n.lp.hasPred() == (pass == 1) {
				leaves = append(leaves, n)
			}
			for _, k := range n.kids {
				visit(k)
			}
		}
		visit(nroot)
		for _, l := range leaves {
			steps := l.lp.steps
			switch r := rng.Intn(10); {
			case r < 4:
			case r < 6:
				steps = nil
				for _, st := range l.lp.steps {
					steps = append(steps, c30pStep{name: st.name})
				}
			default:
				continue
			}
			var vals []string
			for _, t := range c30pEval(nroot, l, l, l.lp.abs, l.lp.up, steps) {
				if t.isLeaf {
					vals = append(vals, t.sval)
				}
			}
			if len(vals) > 0 {
				c30pSetLeaf(l.fv, pick(rng, vals))
			}
		}
	}
}

// c30pExhaustive: the small scope of tier "thorough" over v-lref: servers a and b each absent /
// address x / address y, client/server-name unset / a / b / c, client/server-address x / y / z.
const c30pExhaustiveN = 3 * 3 * 4 * 3

func c30pExhaustive(p *reg.Pkg, idx int) (ygot.ValidatedGoStruct, error) {
	sch, err := p.Schema()
	if err != nil {
		return nil, err
	}
	root := p.NewRoot()
	set := func(path, val string) error {
		gp, err := ygot.StringToStructuredPath(path)
		if err != nil {
			return err
		}
		return ytypes.SetNode(sch.RootSchema(), root, gp, &gpb.TypedValue{Value: &gpb.TypedValue_StringVal{StringVal: val}}, &ytypes.InitMissingElements{})
	}
	sa, sb, op, val := idx%3, idx/3%3, idx/9%4, idx/36%3
	addr := []string{"", "x", "y"}
	if sa > 0 {
		if err := set("/net/server[name=a]/address", addr[sa]); err != nil {
			return nil, err
		}
	}
	if sb > 0 {
		if err := set("/net/server[name=b]/address", addr[sb]); err != nil {
			return nil, err
		}
	}
	if op > 0 {
		if err := set("/net/client/server-name", []string{"", "a", "b", "c"}[op]); err != nil {
			return nil, err
		}
	}
	if err := set("/net/client/server-address", []string{"x", "y", "z"}[val]); err != nil {
		return nil, err
	}
	return root, nil
}

// ---------------------------------------------------------------- observed errors

var (
	c30pReField1 = regexp.MustCompile(`field name (\S+) value .* schema path (\S+) has leafref path`)
	c30pReField2 = regexp.MustCompile(`from field (\S+) value .* schema (\S+) is empty set`)
)

type c30pObs struct {
	cls   string // Coq constructor of lpcls
	field string
	spath string
	text  string
}

// c30pClassify returns the leafref errors of a Validate result and the texts it cannot place.
func c30pClassify(err error) (obs []c30pObs, other []string) {
	for _, s := range vdFlatErrors(err) {
		switch {
		case strings.Contains(s, "not equal to any target nodes"):
			o := c30pObs{cls: "PDangling", text: s}
			if m := c30pReField1.FindStringSubmatch(s); m != nil {
				o.field, o.spath = m[1], m[2]
			}
			obs = append(obs, o)
		case strings.Contains(s, "is empty set"):
			o := c30pObs{cls: "PDangling", text: s}
			if m := c30pReField2.FindStringSubmatch(s); m != nil {
				o.field, o.spath = m[1], m[2]
			}
			obs = append(obs, o)
		case strings.Contains(s, "no parent for leafref path"):
			obs = append(obs, c30pObs{cls: "PNoParent", text: s})
		case strings.Contains(s, "malformed path element"), strings.Contains(s, "bad kv string"), strings.Contains(s, "trailing chars after"), strings.Contains(s, "empty path element"):
			obs = append(obs, c30pObs{cls: "PMalformed", text: s})
		case strings.Contains(s, "expect single node to match value at path"):
			obs = append(obs, c30pObs{cls: "POperandMulti", text: s})
		case strings.Contains(s, "is not found in gNMI path"), strings.Contains(s, "does not contain a map entry for schema"), strings.Contains(s, "no match found in"),
			strings.Contains(s, "can not use a parent that is not a container or list"), strings.Contains(s, "unkeyed list can't be traversed"):
			obs = append(obs, c30pObs{cls: "PGetNode", text: s})
		default:
			if vdClassify(s) != "" {
				other = append(other, s)
			}
		}
	}
	return
}

// ---------------------------------------------------------------- the stream

type c30pReplay struct {
	Pkg      string  `json:"pkg"`
	Kind     string  `json:"kind"` // "random" | "exhaustive"
	TreeSeed int64   `json:"tree_seed"`
	PField   float64 `json:"p_field"`
	Special  float64 `json:"special"`
	Index    int     `json:"index"`
	Mode     string  `json:"mode"` // "" = all three
}

// c30pProbeFix: does Validate(&LeafrefOptions{IgnoreMissingData: false}) report a dangling leafref?
func c30pProbeFix(p *reg.Pkg, tab map[string]c30pPath) (fix bool, known bool) {
	for seed := int64(1); seed < 200; seed++ {
		g := &c30pGen{rng: rand.New(rand.NewSource(seed)), p: p, pField: 0.7}
		root := g.tree()
		eNil, pan := vdSafeValidate(root)
		if pan {
			continue
		}
		oNil, _ := c30pClassify(eNil)
		nd := 0
		for _, o := range oNil {
			if o.cls == "PDangling" {
				nd++
			}
		}
		if nd == 0 {
			continue
		}
		eOpt, _ := vdSafeValidate(root, &ytypes.LeafrefOptions{})
		oOpt, _ := c30pClassify(eOpt)
		for _, o := range oOpt {
			if o.cls == "PDangling" {
				return true, true
			}
		}
		return false, true
	}
	return false, false
}

func c30pStream(rng *rand.Rand, n int, tier string, out string) (*Summary, error) {
	sum := &Summary{Rule: "trees of the packages flagged lrefp (v-lref.yang: leafref paths with key predicates on single-key, numeric-key, enumeration-key and two-key lists, " +
		"relative and absolute, with module prefixes, a literal key, an operand selecting a node set) drawn from tiny value pools; validated with no LeafrefOptions, &LeafrefOptions{} " +
		"and IgnoreMissingData; the classified leafref errors (class, field) are compared with the model; oracle: XPath evaluation of every leafref path on a plain node tree; " +
		"non-trivial = (tree, mode) in which some predicate leafref is satisfied and some predicate leafref dangles although its value exists under another key or its operand is unset"}
	var rp c30pReplay
	isReplay, err := vdReplayCase(&rp)
	if err != nil {
		return nil, err
	}
	// the packages of this stream: flagged lrefp; vlref_u is also looked up by name so that it may be
	// kept out of reg.Names() (a registry that lists it would hand it to every other stream)
	var names []string
	for _, name := range reg.AllNames() {
		if p := reg.Get(name); p != nil && p.Flags["lrefp"] {
			dup := false
			for _, x := range names {
				dup = dup || x == name
			}
			if !dup {
				names = append(names, name)
			}
		}
	}
	if len(names) == 0 {
		return nil, fmt.Errorf("no generated package carries the flag lrefp (lib/vgen.py CONFIGS: vlref_u)")
	}
	modes := []struct {
		name string
		coq  string
		opts []ygot.ValidationOption
	}{
		{"nil", "LrNil", nil},
		{"non-nil", "LrNonNil", []ygot.ValidationOption{&ytypes.LeafrefOptions{}}},
		{"ignore", "LrIgnore", []ygot.ValidationOption{&ytypes.LeafrefOptions{IgnoreMissingData: true}}},
		// Log asks for logging of what is ignored: it must not turn anything into an error
		{"ignore-log", "LrIgnore", []ygot.ValidationOption{&ytypes.LeafrefOptions{IgnoreMissingData: true, Log: true}}},
	}
	var files []string
	id := 0
	seen := map[string]bool{}
	for _, name := range names {
		if isReplay && rp.Pkg != name {
			continue
		}
		p := reg.Get(name)
		rt := reflect.TypeOf(p.NewRoot()).Elem()
		raw := map[string]vdLrPath{}
		vdLeafrefTable(rt, p.SchemaTree[rt.Name()], nil, raw)
		tab := map[string]c30pPath{}
		var keys []string
		for k, v := range raw {
			tab[k] = c30pParse(v.raw)
			keys = append(keys, k)
		}
		sort.Strings(keys)
		var rows []string
		for _, k := range keys {
			if !tab[k].ok {
				sum.finding(Finding{Signature: "leafref/path-outside-model", What: "leafref path outside the modelled XPath subset: " + tab[k].raw, Input: map[string]string{"pkg": name, "field": k}})
				continue
			}
			rows = append(rows, "("+coqStrList(strings.Split(k, "/"))+", "+tab[k].term()+")")
			sum.count("paths", map[bool]string{true: "with predicate", false: "plain"}[tab[k].hasPred()])
		}
		lrfix, probed := c30pProbeFix(p, tab)
		if !probed {
			sum.finding(Finding{Signature: "leafref/probe-failed", What: "no generated tree had a dangling leafref: the state of leafrefErrOrLog could not be probed", Input: map[string]string{"pkg": name}})
		}
		vf := vdNewFile(p, "lpcase", "lpmismatches lrfix env ko sch lrt", "Tree.KeyCodec Tree.Validate Tree.Leafref Tree.LeafrefPred Corr.LeafrefPredCorr")
		vf.defs = []string{
			"Definition lrt : lrptab := " + coqList(rows) + ".",
			"Definition lrfix : bool := " + coqBool(lrfix) + ".",
			"Definition ko : key_oracle := mk_key_oracle [] [] true.",
		}
		var jobs []c30pReplay
		switch {
		case isReplay:
			jobs = []c30pReplay{rp}
		default:
			per := n / (3 * len(names))
			if per < 1 {
				per = 1
			}
			if tier == "thorough" {
				for i := 0; i < c30pExhaustiveN; i++ {
					jobs = append(jobs, c30pReplay{Pkg: name, Kind: "exhaustive", Index: i})
				}
				per -= c30pExhaustiveN
			}
			pfs := []float64{0.45, 0.7, 0.9}
			for i := 0; i < per; i++ {
				sp := 0.04
				if i%5 == 4 {
					sp = 0.2
				}
				jobs = append(jobs, c30pReplay{Pkg: name, Kind: "random", TreeSeed: rng.Int63(), PField: pfs[i%len(pfs)], Special: sp})
			}
		}
		for _, jb := range jobs {
			var root ygot.ValidatedGoStruct
			if jb.Kind == "exhaustive" {
				r, err := c30pExhaustive(p, jb.Index)
				if err != nil {
					sum.count("exhaustive", "not applicable: "+err.Error())
					continue
				}
				root = r
				sum.count("exhaustive", "trees")
			} else {
				g := &c30pGen{rng: rand.New(rand.NewSource(jb.TreeSeed)), p: p, pField: jb.PField, special: jb.Special}
				root = g.tree()
				c30pSteer(g.rng, p, tab, root)
			}
			// the truth, by XPath evaluation on the plain node tree
			nroot := &c30pNode{name: "", spath: "/device"}
			c30pBuildNodes(p, tab, reflect.ValueOf(root), nroot)
			var infos []c30pLeafInfo
			var visit func(n *c30pNode)
			visit = func(n *c30pNode) {
				if n.lp != nil && n.lp.ok {
					infos = append(infos, c30pInspect(nroot, n))
				}
				for _, k := range n.kids {
					visit(k)
				}
			}
			visit(nroot)
			predSat, predDangInteresting, ndang := 0, 0, 0
			for _, in := range infos {
				if in.node.lp.hasPred() {
					sum.count("scenario", in.scenario())
					if in.satisfied {
						predSat++
					} else if in.elsewhere || in.opUnset {
						predDangInteresting++
					}
				}
				if !in.satisfied {
					ndang++
				}
			}
			tt := treeTerm(root)
			for _, m := range modes {
				if jb.Mode != "" && jb.Mode != m.name {
					continue
				}
				verr, pan := vdSafeValidate(root, m.opts...)
				obs, other := c30pClassify(verr)
				in := jb
				in.Mode = m.name
				if pan {
					sum.finding(Finding{Signature: "leafref/panic", What: "Validate panics: " + verr.Error(), Input: in})
					obs = []c30pObs{{cls: "PPanic"}}
				}
				for _, o := range other {
					sum.finding(Finding{Signature: "leafref/unexpected-validate-error", What: "non-leafref error on a generated tree: " + o, Input: in})
				}
				var terms []string
				for _, o := range obs {
					f := ""
					if o.cls == "PDangling" {
						f = o.field
					}
					terms = append(terms, "("+coqStr(f)+", "+o.cls+")")
					sum.count("mode_"+m.name, o.cls)
				}
				if len(obs) == 0 {
					sum.count("mode_"+m.name, "no error")
				}
				sort.Strings(terms)
				vf.cf.add(fmt.Sprintf("LPCheck %d %s %s %s", id, m.coq, tt, coqList(terms)))
				id++
				sum.OracleRuns++
				c30pOracle(sum, in, m.name, lrfix, infos, obs)
				key := m.name + "|" + tt
				if !seen[key] {
					seen[key] = true
					if predSat > 0 && predDangInteresting > 0 {
						sum.Nontrivial++
					}
				}
			}
			sum.count("dangling_leaves", fmt.Sprintf("%d", ndang))
			sum.sample(map[string]interface{}{"pkg": name, "kind": jb.Kind, "leafref_leaves": len(infos), "dangling": ndang})
		}
		fs, err := vf.write(out, "leafrefp", 100)
		if err != nil {
			return nil, err
		}
		files = append(files, fs...)
	}
	sum.Cases = id
	sum.Extra = map[string]interface{}{"case_files": files}
	return sum, nil
}

// c30pOracle: an error exactly for the dangling leaves (never with IgnoreMissingData).  Errors
// that name their leaf are matched per schema path; the anonymous ones (malformed element,
// operand node set) against the leaves that can cause them.
func c30pOracle(sum *Summary, in c30pReplay, mode string, lrfix bool, infos []c30pLeafInfo, obs []c30pObs) {
	if strings.HasPrefix(mode, "ignore") {
		if len(obs) > 0 {
			sum.finding(Finding{Signature: "leafref/error-despite-ignore-missing-data", What: "leafref error with IgnoreMissingData: " + obs[0].text, Input: in})
		}
		return
	}
	describe := func(li c30pLeafInfo) string {
		return fmt.Sprintf("%s = %q, path %s (%s)", li.node.spath, li.node.sval, li.node.lp.raw, li.scenario())
	}
	named := map[string]int{}
	anonMal, anonMulti := 0, 0
	for _, o := range obs {
		switch o.cls {
		case "PDangling":
			named[o.spath]++
		case "PMalformed":
			anonMal++
		case "POperandMulti":
			anonMulti++
		default:
			sum.finding(Finding{Signature: "leafref/lookup-error", What: "leafref lookup failed: " + o.text, Input: in})
		}
	}
	groups := map[string][]c30pLeafInfo{}
	var order []string
	for _, li := range infos {
		switch {
		case li.multiPred:
			if anonMal > 0 {
				anonMal--
				if li.satisfied {
					sum.finding(Finding{Signature: "leafref/multi-predicate-path-rejected", What: "a path element with two predicates is rejected as malformed although the reference is satisfied: " + describe(li), Input: in})
				}
				continue
			}
		case li.multiNode:
			if anonMulti > 0 {
				anonMulti--
				if li.satisfied {
					sum.finding(Finding{Signature: "leafref/operand-node-set-rejected", What: "a predicate operand selecting several nodes is an error although the reference is satisfied: " + describe(li), Input: in})
				}
				continue
			}
		}
		if _, ok := groups[li.node.spath]; !ok {
			order = append(order, li.node.spath)
		}
		groups[li.node.spath] = append(groups[li.node.spath], li)
	}
	if anonMal > 0 || anonMulti > 0 {
		sum.finding(Finding{Signature: "leafref/false-error", What: "malformed-element / operand errors that no leaf of the tree explains", Input: in})
	}
	for _, sp := range order {
		var dang, sat []c30pLeafInfo
		for _, li := range groups[sp] {
			if li.satisfied {
				sat = append(sat, li)
			} else {
				dang = append(dang, li)
			}
		}
		got := named[sp]
		delete(named, sp)
		switch {
		case got > len(dang):
			sig, li := "leafref/false-error", sat[0]
			for _, c := range sat {
				if c.prefixedOp {
					sig, li = "leafref/prefixed-operand-never-resolves", c
				}
			}
			what := "every selected value considered, the reference is satisfied, but an error is reported: " + describe(li)
			if sig != "leafref/false-error" {
				what = "the operand of the predicate carries a module prefix, the key is left empty and a satisfied reference is reported: " + describe(li)
			}
			sum.finding(Finding{Signature: sig, What: what, Input: in})
		case got < len(dang):
			sig, li := "leafref/dangling-not-reported", dang[0]
			for _, c := range dang {
				switch {
				case c.opStar:
					sig, li = "leafref/star-operand-matches-every-entry", c
				case c.prefixedOp && c.emptyKey && sig == "leafref/dangling-not-reported":
					sig, li = "leafref/prefixed-operand-never-resolves", c
				case c.opUnset && c.emptyKey && sig == "leafref/dangling-not-reported":
					sig, li = "leafref/unset-operand-matches-empty-key", c
				}
			}
			if mode == "non-nil" && !lrfix && sig == "leafref/dangling-not-reported" {
				sig = "leafref/non-nil-options-suppress-errors"
			}
			what := map[string]string{
				"leafref/dangling-not-reported":            "dangling leafref not reported: ",
				"leafref/non-nil-options-suppress-errors":  "with &LeafrefOptions{IgnoreMissingData: false} the dangling leafref is not reported: ",
				"leafref/star-operand-matches-every-entry": "the operand value \"*\" is taken as a wildcard, the value is found under another key and the dangling leafref is not reported: ",
				"leafref/prefixed-operand-never-resolves":  "the operand of the predicate carries a module prefix, the key \"\" is substituted and matches an entry whose key is the empty string; the dangling leafref is not reported: ",
				"leafref/unset-operand-matches-empty-key":  "the operand selects nothing, the key \"\" is substituted and matches an entry whose key is the empty string; the dangling leafref is not reported: ",
			}[sig]
			sum.finding(Finding{Signature: sig, What: what + describe(li), Input: in})
		}
	}
	for sp, c := range named {
		if c > 0 {
			sum.finding(Finding{Signature: "leafref/false-error", What: "leafref error for " + sp + ", which holds no set leafref leaf", Input: in})
		}
	}
}
