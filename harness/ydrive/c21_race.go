//go:build verif

package main

// c21_race.go — streams "race" and "raceworker" (property C21).
//
// "raceworker" runs ROUNDS. A round builds shared inputs (one tree, one schema, one set of
// messages), computes every operation's result once sequentially, rebuilds pristine twins of
// the shared inputs and then runs the same operations from K goroutines (K and GOMAXPROCS
// randomized, all goroutines released together, every goroutine in its own random order) and
// compares every result with the sequential one ("schedule-dependent/<api>"). Rounds:
//   readers   read-only APIs on one shared tree / schema / paths / option structs, cold regexp cache
//   decoders  Unmarshal / SetNode / UnmarshalSetRequest into per-goroutine trees, sharing the
//             schema, the decoded JSON document, the TypedValues, paths and the SetRequest
//   cache     compilePattern itself on a cold or warmed cache; the observation is also written
//             as a Coq case for the interleaving model (Corr/CacheCorr.v)
//   the known impure calls with their argument shared (EncodeTypedValue with one cfg, SetNode
//   with TolerateJSONInconsistencies on one TypedValue, gnmidiff with one schema,
//   UnmarshalNotifications on one notification with spare capacity)
// Round boundaries are written to stderr so that race-detector reports can be attributed.
//
// "race" is the orchestrator that ./check runs in the ordinary driver: it builds the driver a
// second time with `go build -race` (CGO), runs "raceworker" in it, and turns every
// "WARNING: DATA RACE" block of its stderr into a finding "race/<round label>".

import (
	"bytes"
	"encoding/json"
	"fmt"
	"math/rand"
	"os"
	"os/exec"
	"path/filepath"
	"reflect"
	"regexp"
	"runtime"
	"sort"
	"strings"
	"sync"

	gpb "github.com/openconfig/gnmi/proto/gnmi"
	"github.com/openconfig/ygot/gnmidiff"
	"github.com/openconfig/ygot/internal/verifharness/reg"
	"github.com/openconfig/ygot/ygot"
	"github.com/openconfig/ygot/ytypes"
	"google.golang.org/protobuf/proto"
)

func init() {
	streams["race"] = c21RaceStream
	streams["raceworker"] = c21WorkerStream
}

// ---------------------------------------------------------------- canonical results

func c21PB(m proto.Message) string {
	if m == nil || reflect.ValueOf(m).IsNil() {
		return "<nil>"
	}
	b, err := proto.MarshalOptions{Deterministic: true}.Marshal(m)
	if err != nil {
		return "marshal-error:" + err.Error()
	}
	return fmt.Sprintf("%x", b)
}

func c21Notif(n *gpb.Notification) string {
	if n == nil {
		return "<nil>"
	}
	var us, ds []string
	for _, u := range n.Update {
		us = append(us, c21PB(u))
	}
	for _, d := range n.Delete {
		ds = append(ds, c21PB(d))
	}
	if !n.Atomic {
		sort.Strings(us)
	}
	sort.Strings(ds)
	return fmt.Sprintf("ts=%d atomic=%v prefix=%s upd=%v del=%v", n.Timestamp, n.Atomic, c21PB(n.Prefix), us, ds)
}

func c21Notifs(ns []*gpb.Notification) string {
	var out []string
	for _, n := range ns {
		out = append(out, c21Notif(n))
	}
	sort.Strings(out)
	return strings.Join(out, "\n")
}

func c21Err(err error) string {
	if err == nil {
		return "ok"
	}
	return "error"
}

// ---------------------------------------------------------------- rounds

type c21Op struct {
	api string
	run func() string
}

type c21RoundKind struct {
	label string
	// mk builds fresh shared inputs from the seed and returns the operations over them.
	mk func(p *reg.Pkg, seed int64) []c21Op
}

func c21Safe(f func() string) (out string) {
	defer func() {
		if r := recover(); r != nil {
			out = fmt.Sprintf("panic")
		}
	}()
	return f()
}

func c21Readers(p *reg.Pkg, seed int64) []c21Op {
	r := rand.New(rand.NewSource(seed))
	t, _ := c11Tree(r, p)
	t2, _ := c11Tree(r, p)
	rootEntry := c11RootEntry(p)
	sharedCfg := c11RandRFC(r) // shared by the renderers that only read it
	sharedEmit := &ygot.EmitJSONConfig{Format: ygot.RFC7951, RFC7951Config: sharedCfg, Indent: " "}
	sharedLeafref := &ytypes.LeafrefOptions{IgnoreMissingData: true}
	sharedDiffOpt := &ygot.DiffPathOpt{MapToSinglePath: r.Intn(2) == 0}
	var paths []*gpb.Path
	ups := c11LeafUpdates(t)
	for i := 0; i < 3 && len(ups) > 0; i++ {
		u := ups[r.Intn(len(ups))]
		paths = append(paths, c11ClonePath(&gpb.Path{Elem: u.Path.Elem[:1+r.Intn(len(u.Path.Elem))]}))
	}
	paths = append(paths, &gpb.Path{})
	parts := &c11Parts{}
	c11Collect(reflect.ValueOf(t), parts, 0)
	ops := []c21Op{
		{"Validate", func() string {
			if errs := ytypes.Validate(rootEntry, t, sharedLeafref); errs != nil {
				return "error"
			}
			return "ok"
		}},
		{"EmitJSON", func() string { s, err := ygot.EmitJSON(t, sharedEmit); return s + c21Err(err) }},
		{"Marshal7951", func() string { b, err := ygot.Marshal7951(t, sharedCfg, ygot.JSONIndent(" ")); return string(b) + c21Err(err) }},
		{"ConstructIETFJSON", func() string {
			m, err := ygot.ConstructIETFJSON(t, sharedCfg)
			b, _ := json.Marshal(m)
			return string(b) + c21Err(err)
		}},
		{"TogNMINotifications", func() string {
			ns, err := ygot.TogNMINotifications(t, 7, ygot.GNMINotificationsConfig{UsePathElem: true})
			return c21Notifs(ns) + c21Err(err)
		}},
		{"Diff", func() string { n, err := ygot.Diff(t, t2, sharedDiffOpt); return c21Notif(n) + c21Err(err) }},
		{"DiffWithAtomic", func() string { ns, err := ygot.DiffWithAtomic(t2, t, sharedDiffOpt); return c21Notifs(ns) + c21Err(err) }},
		{"DeepCopy", func() string { c, err := ygot.DeepCopy(t); return c11Hash(c) + c21Err(err) }},
		{"MergeStructs", func() string { c, err := ygot.MergeStructs(t, t2); return c11Hash(c) + c21Err(err) }},
		{"EncodeTypedValue", func() string {
			// own config: sharing it is the known race, exercised in its own round
			tv, err := ygot.EncodeTypedValue(t, gpb.Encoding_JSON_IETF, &ygot.RFC7951JSONConfig{})
			return c21PB(tv) + c21Err(err)
		}},
	}
	for i, path := range paths {
		path := path
		ops = append(ops, c21Op{"GetNode", func() string {
			nodes, err := ytypes.GetNode(rootEntry, t, path, &ytypes.GetHandleWildcards{})
			var out []string
			for _, n := range nodes {
				out = append(out, c11PathStr(n.Path)+"="+c11Hash(n.Data))
			}
			sort.Strings(out)
			return fmt.Sprint(i, out) + c21Err(err)
		}})
	}
	for i := 0; i < 3 && len(parts.leaves) > 0; i++ {
		leaf := parts.leaves[r.Intn(len(parts.leaves))]
		ops = append(ops, c21Op{"EncodeTypedValue", func() string {
			tv, err := ygot.EncodeTypedValue(leaf, gpb.Encoding_JSON_IETF)
			return c21PB(tv) + c21Err(err)
		}})
	}
	return ops
}

func c21Decoders(p *reg.Pkg, seed int64) []c21Op {
	r := rand.New(rand.NewSource(seed))
	src, _ := c11Tree(r, p)
	rootEntry := c11RootEntry(p)
	var doc interface{} = map[string]interface{}{}
	if js, err := ygot.Marshal7951(src, &ygot.RFC7951JSONConfig{AppendModuleName: true}); err == nil {
		json.Unmarshal(js, &doc)
	}
	req := c11MakeReq(r, p, src, false).req
	ops := []c21Op{
		{"Unmarshal", func() string {
			root := p.NewRoot()
			err := ytypes.Unmarshal(rootEntry, root, doc)
			return c11Hash(root) + c21Err(err)
		}},
		{"UnmarshalSetRequest", func() string {
			root := p.NewRoot()
			err := ytypes.UnmarshalSetRequest(&ytypes.Schema{Root: root, SchemaTree: p.SchemaTree, Unmarshal: p.Unmarshal}, req)
			return c11Hash(root) + c21Err(err)
		}},
	}
	for i, u := range c11LeafUpdates(src) {
		if i >= 6 {
			break
		}
		u := u
		tol := i%2 == 1
		if tol {
			// tolerance is only shared where the model says it does not touch the message
			if _, isInt := u.Val.GetValue().(*gpb.TypedValue_IntVal); isInt {
				tol = false
			}
			if ll, ok := u.Val.GetValue().(*gpb.TypedValue_LeaflistVal); ok {
				for _, e := range ll.LeaflistVal.GetElement() {
					if _, isInt := e.GetValue().(*gpb.TypedValue_IntVal); isInt {
						tol = false
					}
				}
			}
		}
		ops = append(ops, c21Op{"SetNode", func() string {
			root := p.NewRoot()
			opts := []ytypes.SetNodeOpt{&ytypes.InitMissingElements{}}
			if tol {
				opts = append(opts, &ytypes.TolerateJSONInconsistencies{})
			}
			err := ytypes.SetNode(rootEntry, root, u.Path, u.Val, opts...)
			return c11Hash(root) + c21Err(err)
		}})
	}
	return ops
}

func c21SharedCfg(p *reg.Pkg, seed int64) []c21Op {
	r := rand.New(rand.NewSource(seed))
	t, _ := c11Tree(r, p)
	cfg := &ygot.RFC7951JSONConfig{AppendModuleName: r.Intn(2) == 0}
	return []c21Op{{"EncodeTypedValue", func() string {
		tv, err := ygot.EncodeTypedValue(t, gpb.Encoding_JSON_IETF, cfg)
		return c21PB(tv) + c21Err(err)
	}}}
}

func c21SharedTV(p *reg.Pkg, seed int64) []c21Op {
	r := rand.New(rand.NewSource(seed))
	var site *c11Site
	sites := c11SitesOf(p)
	for try := 0; try < 200 && site == nil; try++ {
		s := sites[r.Intn(len(sites))]
		if !s.leafList && len(s.kinds) == 1 && strings.HasPrefix(s.kinds[0], "(KUint") {
			site = &s
		}
	}
	if site == nil {
		return nil
	}
	tv := &gpb.TypedValue{Value: &gpb.TypedValue_IntVal{IntVal: 5}}
	rootEntry := c11RootEntry(p)
	return []c21Op{{"SetNode", func() string {
		root := p.NewRoot()
		err := ytypes.SetNode(rootEntry, root, site.path, tv, &ytypes.InitMissingElements{}, &ytypes.TolerateJSONInconsistencies{})
		return c11Hash(root) + c21Err(err)
	}}}
}

// container-only non-leaf targets: concurrent creation of list entries in one Go map would be
// stopped by the runtime ("concurrent map writes") before the race detector can report it
func c21ContainerUpdate(r *rand.Rand, p *reg.Pkg, src ygot.GoStruct) *gpb.Update {
	ups := c11LeafUpdates(src)
	if os.Getenv("C11_DEBUG") != "" {
		fmt.Fprintln(os.Stderr, "c21ContainerUpdate: leaf updates", len(ups))
	}
	for try := 0; try < 50 && len(ups) > 0; try++ {
		u := ups[r.Intn(len(ups))]
		k := 0
		for k < len(u.Path.Elem) && len(u.Path.Elem[k].Key) == 0 {
			k++
		}
		if k > len(u.Path.Elem)-1 {
			k = len(u.Path.Elem) - 1
		}
		if k < 1 {
			continue
		}
		pp := c11ClonePath(&gpb.Path{Elem: u.Path.Elem[:1+r.Intn(k)]})
		nodes, err := ytypes.GetNode(c11RootEntry(p), src, pp)
		if err != nil || len(nodes) != 1 {
			if os.Getenv("C11_DEBUG") != "" {
				fmt.Fprintln(os.Stderr, "c21ContainerUpdate: GetNode", c11PathStr(pp), err, len(nodes))
			}
			continue
		}
		gs, ok := nodes[0].Data.(ygot.GoStruct)
		if !ok {
			continue
		}
		js, err := ygot.Marshal7951(gs, &ygot.RFC7951JSONConfig{AppendModuleName: true})
		if err != nil || strings.Contains(string(js), "null") {
			if os.Getenv("C11_DEBUG") != "" {
				fmt.Fprintln(os.Stderr, "c21ContainerUpdate: Marshal", c11PathStr(pp), err)
			}
			continue
		}
		return &gpb.Update{Path: pp, Val: &gpb.TypedValue{Value: &gpb.TypedValue_JsonIetfVal{JsonIetfVal: js}}}
	}
	return nil
}

func c21Gnmidiff(withSchema bool) func(p *reg.Pkg, seed int64) []c21Op {
	return func(p *reg.Pkg, seed int64) []c21Op {
		if p.Flags["compress"] {
			p = reg.Get("vmain_u")
		}
		r := rand.New(rand.NewSource(seed))
		src, _ := c11Tree(r, p)
		var a, b *gpb.SetRequest
		if withSchema {
			u := c21ContainerUpdate(r, p, src)
			if u == nil {
				return nil
			}
			a = &gpb.SetRequest{Update: []*gpb.Update{u}}
			b = &gpb.SetRequest{}
		} else {
			a, b = c11MakeReq(r, p, src, false).req, c11MakeReq(r, p, src, false).req
		}
		var schema *ytypes.Schema
		if withSchema {
			schema = &ytypes.Schema{Root: p.NewRoot(), SchemaTree: p.SchemaTree, Unmarshal: p.Unmarshal}
		}
		return []c21Op{{"DiffSetRequest", func() string {
			d, err := gnmidiff.DiffSetRequest(a, b, schema)
			return c11Dump(d) + c21Err(err)
		}}}
	}
}

func c21SharedNotifs(p *reg.Pkg, seed int64) []c21Op {
	r := rand.New(rand.NewSource(seed))
	src, _ := c11Tree(r, p)
	ups := c11LeafUpdates(src)
	nt := &gpb.Notification{Timestamp: 1, Atomic: true, Delete: make([]*gpb.Path, 0, 4)}
	for i := 0; i < 3 && len(ups) > 0; i++ {
		u := ups[r.Intn(len(ups))]
		nt.Update = append(nt.Update, &gpb.Update{Path: c11ClonePath(u.Path), Val: u.Val})
	}
	ns := []*gpb.Notification{nt}
	return []c21Op{{"UnmarshalNotifications", func() string {
		root := p.NewRoot()
		err := ytypes.UnmarshalNotifications(&ytypes.Schema{Root: root, SchemaTree: p.SchemaTree, Unmarshal: p.Unmarshal}, ns)
		return c11Hash(root) + c21Err(err)
	}}}
}

var c21Kinds = []c21RoundKind{
	{"readers", c21Readers},
	{"decoders", c21Decoders},
	{"cache", nil},
	{"readers", c21Readers},
	{"decoders", c21Decoders},
	{"EncodeTypedValue/shared-cfg", c21SharedCfg},
	{"SetNode/shared-typedvalue-tolerant", c21SharedTV},
	{"DiffSetRequest/shared-schema", c21Gnmidiff(true)},
	{"DiffSetRequest/no-schema", c21Gnmidiff(false)},
	{"UnmarshalNotifications/shared-notification", c21SharedNotifs},
}

// patterns for the cache rounds (RE2 map); some do not compile
var c21Patterns = []string{"^(a+)$", "^([a-z]+[0-9]*)$", "^(x|y)$", "^(($", "^([0-9]{1,3})$", "^(\\p{L}+)$", "^(a**)$[", "^(b?c)$", "^(.*b.*)$", "^([a-c]*)$"}

type c21Runner struct {
	sum  *Summary
	cf   *caseFile
	id   int
	tier string
}

// concurrent runs every op `reps` times from k goroutines (own random order each) and returns
// per-op result sets.
func c21Concurrent(ops []c21Op, k, procs, reps int, seed int64) [][]string {
	old := runtime.GOMAXPROCS(procs)
	defer runtime.GOMAXPROCS(old)
	results := make([][]string, k) // per goroutine: "opindex\x00result"
	start := make(chan struct{})
	var wg sync.WaitGroup
	for g := 0; g < k; g++ {
		wg.Add(1)
		go func(g int) {
			defer wg.Done()
			r := rand.New(rand.NewSource(seed + int64(g)*7919))
			<-start
			for rep := 0; rep < reps; rep++ {
				for _, i := range r.Perm(len(ops)) {
					res := c21Safe(ops[i].run)
					results[g] = append(results[g], fmt.Sprintf("%d\x00%s", i, res))
				}
			}
		}(g)
	}
	close(start)
	wg.Wait()
	return results
}

func (w *c21Runner) round(rng *rand.Rand, kind c21RoundKind, p *reg.Pkg) {
	seed := rng.Int63()
	k := 2 + rng.Intn(7)
	procs := 1 + rng.Intn(8)
	reps := 1 + rng.Intn(3)
	if w.tier == "thorough" {
		k, procs, reps = 2+rng.Intn(15), 1+rng.Intn(16), 1+rng.Intn(6)
	}
	id := w.id
	w.id++
	w.sum.count("round", kind.label)
	w.sum.count("goroutines", fmt.Sprint(k))
	w.sum.count("gomaxprocs", fmt.Sprint(procs))
	if kind.mk == nil {
		w.cacheRound(rng, id, k, procs)
		return
	}
	ops := kind.mk(p, seed)
	if len(ops) == 0 {
		w.sum.count("round", kind.label+" (skipped: no input)")
		return
	}
	// sequential reference on its own copy of the shared inputs
	ytypes.VerifResetRegexpCache()
	exp := make([]string, len(ops))
	for i, op := range ops {
		exp[i] = c21Safe(op.run)
	}
	// pristine twins for the concurrent phase, cold cache
	ops2 := kind.mk(p, seed)
	ytypes.VerifResetRegexpCache()
	fmt.Fprintf(os.Stderr, "C21-ROUND-BEGIN %d %s\n", id, kind.label)
	res := c21Concurrent(ops2, k, procs, reps, seed)
	fmt.Fprintf(os.Stderr, "C21-ROUND-END %d\n", id)
	w.sum.OracleRuns++
	bad := map[string]bool{}
	for g := range res {
		for _, s := range res[g] {
			parts := strings.SplitN(s, "\x00", 2)
			var i int
			fmt.Sscan(parts[0], &i)
			w.sum.Cases++
			if parts[1] != exp[i] && !bad[ops[i].api] {
				bad[ops[i].api] = true
				w.sum.finding(Finding{Signature: "schedule-dependent/" + ops[i].api,
					What:     fmt.Sprintf("%s run from %d goroutines (GOMAXPROCS %d) on shared inputs returns a result different from the sequential one: %s", ops[i].api, k, procs, firstDiff(exp[i], parts[1])),
					Input:    map[string]interface{}{"round": kind.label, "pkg": p.Name, "seed": seed, "goroutines": k, "gomaxprocs": procs},
					Expected: c21Short(exp[i]), Observed: c21Short(parts[1])})
			}
		}
	}
	if len(ops) >= 5 {
		w.sum.Nontrivial++
	}
	w.sum.sample(map[string]interface{}{"round": kind.label, "pkg": p.Name, "ops": len(ops), "goroutines": k, "gomaxprocs": procs, "reps": reps})
}

func c21Short(s string) string {
	if len(s) > 300 {
		return s[:300] + "..."
	}
	return s
}

// cacheRound exercises compilePattern itself and writes the observation as a Coq case.
func (w *c21Runner) cacheRound(rng *rand.Rand, id, k, procs int) {
	ytypes.VerifResetRegexpCache()
	table := []string{}
	compiles := map[int]bool{}
	for i, p := range c21Patterns {
		if _, err := regexp.Compile(p); err == nil {
			compiles[i] = true
			table = append(table, fmt.Sprintf("(%d,%d)", i, i))
		}
	}
	var warm []string
	for i, p := range c21Patterns {
		if compiles[i] && rng.Intn(4) == 0 {
			ytypes.VerifCompilePattern(p, false)
			warm = append(warm, fmt.Sprintf("(%d,%d)", i, i))
		}
	}
	progs := make([][]int, k)
	for g := range progs {
		n := rng.Intn(6)
		for j := 0; j < n; j++ {
			progs[g] = append(progs[g], rng.Intn(len(c21Patterns)))
		}
	}
	got := make([][]string, k)
	old := runtime.GOMAXPROCS(procs)
	start := make(chan struct{})
	var wg sync.WaitGroup
	fmt.Fprintf(os.Stderr, "C21-ROUND-BEGIN %d cache\n", id)
	for g := 0; g < k; g++ {
		wg.Add(1)
		go func(g int) {
			defer wg.Done()
			<-start
			for _, pi := range progs[g] {
				s, ok := ytypes.VerifCompilePattern(c21Patterns[pi], false)
				switch {
				case ok && s == c21Patterns[pi]:
					got[g] = append(got[g], fmt.Sprintf("(%d, Some %d)", pi, pi))
				case ok:
					got[g] = append(got[g], fmt.Sprintf("(%d, Some 999)", pi)) // a regexp of another pattern
				default:
					got[g] = append(got[g], fmt.Sprintf("(%d, None)", pi))
				}
			}
		}(g)
	}
	close(start)
	wg.Wait()
	fmt.Fprintf(os.Stderr, "C21-ROUND-END %d\n", id)
	runtime.GOMAXPROCS(old)
	_, re2 := ytypes.VerifRegexpCacheKeys()
	var final []string
	for _, key := range re2 {
		for i, p := range c21Patterns {
			if p == key {
				final = append(final, fmt.Sprint(i))
			}
		}
	}
	var ps, rs []string
	calls := 0
	for g := range progs {
		var ks []string
		for _, x := range progs[g] {
			ks = append(ks, fmt.Sprint(x))
			calls++
		}
		ps = append(ps, coqList(ks))
		rs = append(rs, coqList(got[g]))
	}
	w.cf.add(fmt.Sprintf("CC %d %s %s %s %s %s", id, coqList(table), coqList(warm), coqList(ps), coqList(rs), coqList(final)))
	w.sum.Cases += calls
	w.sum.OracleRuns++
	if calls >= 5 {
		w.sum.Nontrivial++
	}
	// oracle on the implementation: every call returns the regexp of its own pattern or an error
	// exactly when the pattern does not compile; the cache holds exactly the compilable patterns asked for
	want := map[int]bool{}
	for _, s := range warm {
		var a, b int
		fmt.Sscanf(s, "(%d,%d)", &a, &b)
		want[a] = true
	}
	for g := range progs {
		for j, pi := range progs[g] {
			exp := fmt.Sprintf("(%d, None)", pi)
			if compiles[pi] {
				exp = fmt.Sprintf("(%d, Some %d)", pi, pi)
				want[pi] = true
			}
			if got[g][j] != exp {
				w.sum.finding(Finding{Signature: "schedule-dependent/compilePattern", What: "compilePattern returned " + got[g][j] + ", expected " + exp,
					Input: map[string]interface{}{"round": "cache", "programs": progs, "goroutines": k, "gomaxprocs": procs}})
			}
		}
	}
	var wantKeys []string
	for i := range c21Patterns {
		if want[i] {
			wantKeys = append(wantKeys, fmt.Sprint(i))
		}
	}
	sort.Strings(final)
	sort.Strings(wantKeys)
	if strings.Join(final, ",") != strings.Join(wantKeys, ",") {
		w.sum.finding(Finding{Signature: "schedule-dependent/regexp-cache", What: fmt.Sprintf("cache keys after the round %v, expected %v", final, wantKeys),
			Input: map[string]interface{}{"round": "cache", "programs": progs, "goroutines": k, "gomaxprocs": procs}})
	}
}

const c21Header = "From Ygot Require Import Base.Base Conc.Cache Corr.CacheCorr.\nOpen Scope N_scope."

func c21WorkerStream(rng *rand.Rand, n int, tier string, out string) (*Summary, error) {
	sum := &Summary{Rule: "rounds of K goroutines (quick: K in 2..8, GOMAXPROCS in 1..8, 1..3 repetitions; thorough: 2..16, 1..16, 1..6; random per-goroutine order) over shared inputs built from " +
		"random trees of every generated package; a case = one operation result compared with its sequential result (cache rounds: one compilePattern call); " +
		"non-trivial = round with >= 5 operations / calls"}
	w := &c21Runner{sum: sum, tier: tier, cf: &caseFile{header: c21Header, typ: "ccase", fn: "cmismatches"}}
	names := reg.Names()
	for _, name := range names {
		c11SitesOf(reg.Get(name)) // fill the site cache before any goroutine starts
	}
	for i := 0; i < n; i++ {
		kind := c21Kinds[i%len(c21Kinds)]
		w.round(rng, kind, reg.Get(names[rng.Intn(len(names))]))
	}
	files, err := w.cf.write(out, "race", 200)
	if err != nil {
		return nil, err
	}
	sum.Extra = map[string]interface{}{"case_files": files, "rounds": w.id}
	return sum, nil
}

// ---------------------------------------------------------------- orchestrator

var c21RoundRe = regexp.MustCompile(`^C21-ROUND-(BEGIN|END) (\d+) ?(.*)$`)
var c21FrameRe = regexp.MustCompile(`^\s+(\S+)\(\)\s*$`)

type c21Report struct {
	label  string
	round  string
	text   string
	frames []string
}

// c21ParseRaces cuts the worker's stderr into race-detector reports, each attributed to the
// round whose markers enclose it.
func c21ParseRaces(stderr string) (reports []c21Report, fatal string) {
	label, round := "outside-any-round", ""
	var cur *c21Report
	flush := func() {
		if cur != nil {
			reports = append(reports, *cur)
			cur = nil
		}
	}
	for _, line := range strings.Split(stderr, "\n") {
		if m := c21RoundRe.FindStringSubmatch(line); m != nil {
			if m[1] == "BEGIN" {
				label, round = m[3], m[2]
			} else {
				flush()
				label, round = "outside-any-round", ""
			}
			continue
		}
		if strings.HasPrefix(line, "fatal error:") && fatal == "" {
			fatal = label + ": " + line
		}
		if strings.Contains(line, "WARNING: DATA RACE") {
			flush()
			cur = &c21Report{label: label, round: round}
			continue
		}
		if cur != nil {
			if strings.HasPrefix(line, "==================") {
				flush()
				continue
			}
			if len(cur.text) < 2500 {
				cur.text += line + "\n"
			}
			if m := c21FrameRe.FindStringSubmatch(line); m != nil && strings.Contains(m[1], "openconfig/ygot/") && !strings.Contains(m[1], "verifharness") && len(cur.frames) < 6 {
				cur.frames = append(cur.frames, strings.TrimPrefix(m[1], "github.com/openconfig/ygot/"))
			}
		}
	}
	flush()
	return reports, fatal
}

// c21APIOfFrames names the API a report in a mixed round belongs to: the outermost exported
// entry point in the first stack.
var c21APINames = []string{"Validate", "EmitJSON", "Marshal7951", "ConstructIETFJSON", "TogNMINotifications", "DiffWithAtomic", "Diff", "DeepCopy",
	"MergeStructs", "EncodeTypedValue", "GetNode", "UnmarshalSetRequest", "UnmarshalNotifications", "Unmarshal", "SetNode", "DiffSetRequest"}

func c21APIOf(text string) string {
	for _, line := range strings.Split(text, "\n") {
		for _, a := range c21APINames {
			if strings.Contains(line, "ygot."+a+"(") || strings.Contains(line, "ytypes."+a+"(") || strings.Contains(line, "gnmidiff."+a+"(") {
				return a
			}
		}
	}
	return "unattributed"
}

func c21BuildRaceBinary(out string) (string, string, error) {
	if b := os.Getenv("VERIF_RACE_BIN"); b != "" {
		if _, err := os.Stat(b); err == nil {
			return b, "VERIF_RACE_BIN", nil
		}
	}
	repo := os.Getenv("VERIF_REPO")
	if repo == "" {
		repo = "/repo"
	}
	vdir := os.Getenv("VERIF_DIR")
	overlay := os.Getenv("VERIF_OVERLAY")
	if overlay == "" && vdir != "" {
		overlay = filepath.Join(vdir, "build", "overlay.json")
	}
	bin := filepath.Join(out, "ydrive-race")
	if vdir != "" {
		bin = filepath.Join(vdir, "build", "bin", "ydrive-race")
	}
	tmp := fmt.Sprintf("%s.%d", bin, os.Getpid())
	args := []string{"build", "-race", "-tags", "verif", "-overlay", overlay, "-o", tmp, "./internal/verifharness/ydrive"}
	cmd := exec.Command("go", args...)
	cmd.Dir = repo
	cmd.Env = append(os.Environ(), "CGO_ENABLED=1", "GOFLAGS=-mod=mod", "GOPROXY=off", "GOSUMDB=off", "GOTOOLCHAIN=local")
	var buf bytes.Buffer
	cmd.Stdout, cmd.Stderr = &buf, &buf
	cmdline := "cd " + repo + " && CGO_ENABLED=1 go " + strings.Join(args, " ")
	if err := cmd.Run(); err != nil {
		os.Remove(tmp)
		return "", cmdline, fmt.Errorf("%v: %s", err, c21Short(buf.String()))
	}
	if err := os.Rename(tmp, bin); err != nil {
		return "", cmdline, err
	}
	return bin, cmdline, nil
}

func c21RaceStream(rng *rand.Rand, n int, tier string, out string) (*Summary, error) {
	wseed := rng.Int63()
	wout := filepath.Join(out, "raceworker")
	if replayFile != "" {
		// a replay is the whole worker run with the recorded seed and size
		raw, err := os.ReadFile(replayFile)
		if err != nil {
			return nil, err
		}
		var rp struct {
			Case struct {
				Seed   int64 `json:"worker_seed"`
				Rounds int   `json:"rounds"`
			} `json:"case"`
		}
		if err := json.Unmarshal(raw, &rp); err == nil && rp.Case.Rounds > 0 {
			wseed, n = rp.Case.Seed, rp.Case.Rounds
		}
	}
	bin, how, berr := c21BuildRaceBinary(out)
	var sum *Summary
	extra := map[string]interface{}{"race_build": how, "worker_seed": wseed, "rounds": n}
	if berr != nil {
		// no race detector: still run the schedule-independence half in this process
		s, err := c21WorkerStream(rand.New(rand.NewSource(wseed)), n, tier, out)
		if err != nil {
			return nil, err
		}
		sum = s
		sum.finding(Finding{Signature: "race-detector-unavailable", What: "go build -race failed: " + berr.Error(), Input: map[string]interface{}{"command": how}})
		extra["race_detector"] = "unavailable"
	} else {
		os.MkdirAll(wout, 0o755)
		cmd := exec.Command(bin, "-stream", "raceworker", "-seed", fmt.Sprint(wseed), "-n", fmt.Sprint(n), "-tier", tier, "-out", wout)
		cmd.Env = append(os.Environ(), "GORACE=halt_on_error=0 history_size=3")
		var so, se bytes.Buffer
		cmd.Stdout, cmd.Stderr = &so, &se
		rerr := cmd.Run()
		code := 0
		if ee, ok := rerr.(*exec.ExitError); ok {
			code = ee.ExitCode()
		} else if rerr != nil {
			return nil, fmt.Errorf("cannot run %s: %v", bin, rerr)
		}
		raw, err := os.ReadFile(filepath.Join(wout, "summary_raceworker.json"))
		sum = &Summary{}
		if err != nil || json.Unmarshal(raw, sum) != nil {
			sum = &Summary{Rule: "race worker did not finish"}
			sum.finding(Finding{Signature: "race-worker-crashed", What: fmt.Sprintf("exit code %d: %s", code, c21Short(se.String()[max(0, se.Len()-1500):])), Input: map[string]interface{}{"worker_seed": wseed, "rounds": n}})
		}
		// the worker's case files become this stream's case files
		files, _ := filepath.Glob(filepath.Join(wout, "cases_*.v"))
		for _, f := range files {
			if b, err := os.ReadFile(f); err == nil {
				os.WriteFile(filepath.Join(out, filepath.Base(f)), b, 0o644)
			}
		}
		reports, fatal := c21ParseRaces(se.String())
		for _, rp := range reports {
			label := rp.label
			if label == "readers" || label == "decoders" {
				label = label + "/" + c21APIOf(rp.text)
			}
			sum.finding(Finding{Signature: "race/" + label, What: "the race detector reports a data race in round " + rp.round + " (" + rp.label + "); frames: " + strings.Join(rp.frames, " <- "),
				Input: map[string]interface{}{"worker_seed": wseed, "rounds": n, "round": rp.round, "label": rp.label}, Observed: rp.text})
		}
		if fatal != "" {
			sum.finding(Finding{Signature: "race-fatal/" + strings.SplitN(fatal, ":", 2)[0], What: "the Go runtime aborted the worker: " + fatal, Input: map[string]interface{}{"worker_seed": wseed, "rounds": n}})
		}
		extra["race_detector"] = "on"
		extra["race_reports"] = len(reports)
		extra["worker_exit_code"] = code
		if code != 0 && code != 66 && fatal == "" {
			sum.finding(Finding{Signature: "race-worker-crashed", What: fmt.Sprintf("exit code %d: %s", code, c21Short(se.String()[max(0, se.Len()-1500):])), Input: map[string]interface{}{"worker_seed": wseed, "rounds": n}})
		}
		os.WriteFile(filepath.Join(out, "raceworker.stderr"), se.Bytes(), 0o644)
	}
	if sum.Extra == nil {
		sum.Extra = map[string]interface{}{}
	}
	for k, v := range extra {
		sum.Extra[k] = v
	}
	sum.Rule += " | run in a second driver binary built with -race; every WARNING: DATA RACE block is a finding race/<round label>"
	return sum, nil
}
