//go:build verif

package main

// mg_merge.go — stream "merge" (C05: MergeStructs has set-union semantics with conflict
// detection) and the helpers shared by the streams merge, alias (mg_copy.go) and prune
// (mg_prune.go): an independent reflect-based clone, a walker over the set fields of a GoStruct,
// random projections of a tree, and a structured flattening used by the oracles.

import (
	"encoding/json"
	"fmt"
	"math/rand"
	"os"
	"reflect"
	"sort"
	"strings"

	"github.com/openconfig/goyang/pkg/yang"
	"github.com/openconfig/ygot/internal/verifharness/reg"
	"github.com/openconfig/ygot/util"
	"github.com/openconfig/ygot/ygot"
)

func init() { streams["merge"] = mgMergeStream }

// ---------------------------------------------------------------- clone

// mgClone returns a copy of g that shares no memory with g except the key objects of maps
// (wrapper-union keys are pointers and Go compares them by identity; sharing them is what makes
// "the same key" in two trees). It does not use any ygot function.
func mgClone(g ygot.GoStruct) ygot.GoStruct {
	return mgCloneValue(reflect.ValueOf(g)).Interface().(ygot.GoStruct)
}

// mgKeyMemo, when set, makes mgCloneValue copy the key objects of maps too, one copy per original.
var mgKeyMemo map[uintptr]reflect.Value

// mgFreshClones clones the trees so that they share no memory at all with the originals; key
// objects that the originals share with each other are shared by the clones in the same way (so
// "the same key" in two trees stays the same key).  A write to a key object of a clone then
// cannot leak into the originals and, through them, into later clones.
func mgFreshClones(gs ...ygot.GoStruct) []ygot.GoStruct {
	mgKeyMemo = map[uintptr]reflect.Value{}
	defer func() { mgKeyMemo = nil }()
	var out []ygot.GoStruct
	for _, g := range gs {
		out = append(out, mgClone(g))
	}
	return out
}

func mgCloneValue(v reflect.Value) reflect.Value {
	t := v.Type()
	switch v.Kind() {
	case reflect.Ptr:
		if v.IsNil() {
			return reflect.Zero(t)
		}
		if isOrderedMapType(t) {
			om := reflect.New(t.Elem())
			vals := v.MethodByName("Values").Call(nil)[0]
			for i := 0; i < vals.Len(); i++ {
				om.MethodByName("Append").Call([]reflect.Value{mgCloneValue(vals.Index(i))})
			}
			return om
		}
		n := reflect.New(t.Elem())
		if t.Elem().Kind() == reflect.Struct {
			for i := 0; i < t.Elem().NumField(); i++ {
				n.Elem().Field(i).Set(mgCloneValue(v.Elem().Field(i)))
			}
		} else {
			n.Elem().Set(v.Elem())
		}
		return n
	case reflect.Interface:
		if v.IsNil() {
			return reflect.Zero(t)
		}
		n := reflect.New(t).Elem()
		n.Set(mgCloneValue(v.Elem()))
		return n
	case reflect.Map:
		if v.IsNil() {
			return reflect.Zero(t)
		}
		m := reflect.MakeMapWithSize(t, v.Len())
		it := v.MapRange()
		for it.Next() {
			k := it.Key()
			if mgKeyMemo != nil && k.Kind() == reflect.Interface && !k.IsNil() && k.Elem().Kind() == reflect.Ptr {
				// fresh key objects, the same one for the same original (see mgFreshClones)
				addr := k.Elem().Pointer()
				nk, ok := mgKeyMemo[addr]
				if !ok {
					nk = mgCloneValue(k)
					mgKeyMemo[addr] = nk
				}
				k = nk
			}
			m.SetMapIndex(k, mgCloneValue(it.Value()))
		}
		return m
	case reflect.Slice:
		if v.IsNil() {
			return reflect.Zero(t)
		}
		s := reflect.MakeSlice(t, v.Len(), v.Len())
		for i := 0; i < v.Len(); i++ {
			s.Index(i).Set(mgCloneValue(v.Index(i)))
		}
		return s
	}
	return v
}

// ---------------------------------------------------------------- walker over set fields

// mgSlot is one set field of a struct somewhere in a tree.
type mgSlot struct {
	parent reflect.Value // pointer to the struct holding the field
	idx    int
	sf     reflect.StructField
	entry  *yang.Entry // schema entry of the field
	path   string      // Go access path with key values
	kind   string      // leaf | leaflist | cont | map | omap | unkeyed
	isKey  bool        // key leaf of a list entry
	inUnk  bool        // below an unkeyed list entry
	inOrd  bool        // below an ordered list entry
}

func (s mgSlot) field() reflect.Value { return s.parent.Elem().Field(s.idx) }

func mgFieldKind(ft reflect.Type, ce *yang.Entry) string {
	switch {
	case isOrderedMapType(ft):
		return "omap"
	case ft.Kind() == reflect.Map:
		return "map"
	case ft.Kind() == reflect.Ptr && ft.Elem().Kind() == reflect.Struct:
		return "cont"
	case ft.Kind() == reflect.Slice && ft.Elem().Kind() == reflect.Ptr && ft.Elem().Elem().Kind() == reflect.Struct:
		return "unkeyed"
	case ce.IsLeafList():
		return "leaflist"
	}
	return "leaf"
}

func mgKeyTerm(ks []reflect.Value) string {
	var parts []string
	for _, k := range ks {
		t, _ := scalarTerm(k)
		parts = append(parts, t)
	}
	return "[" + strings.Join(parts, ",") + "]"
}

// mgWalk calls visit for every set field (nil pointers/maps/slices/interfaces, enum 0 and
// YANGEmpty false are unset), parents before children. keys names the key leaf fields of the
// struct when it is a list entry.
func mgWalk(sp reflect.Value, e *yang.Entry, path string, keys map[string]bool, inUnk, inOrd bool, visit func(mgSlot)) {
	s := sp.Elem()
	for i := 0; i < s.NumField(); i++ {
		sf := s.Type().Field(i)
		if _, ok := sf.Tag.Lookup("path"); !ok {
			continue
		}
		ce, err := util.ChildSchema(e, sf)
		if err != nil || ce == nil {
			continue
		}
		fv := s.Field(i)
		if _, set := fieldTerm(fv); !set {
			continue
		}
		sl := mgSlot{parent: sp, idx: i, sf: sf, entry: ce, path: path + "." + sf.Name, kind: mgFieldKind(sf.Type, ce), isKey: keys[sf.Name], inUnk: inUnk, inOrd: inOrd}
		visit(sl)
		g := &treeGen{}
		switch sl.kind {
		case "cont":
			mgWalk(fv, ce, sl.path, nil, inUnk, inOrd, visit)
		case "map":
			var es []keyedEntry
			it := fv.MapRange()
			for it.Next() {
				es = append(es, keyedEntry{keys: keyValues(it.Key()), entry: it.Value()})
			}
			sort.Slice(es, func(a, b int) bool { return lessKeys(es[a].keys, es[b].keys) })
			kf := mgKeySet(g.keyFieldNames(sf.Type.Elem().Elem(), ce))
			for _, en := range es {
				mgWalk(en.entry, ce, sl.path+mgKeyTerm(en.keys), kf, inUnk, inOrd, visit)
			}
		case "omap":
			kf := mgKeySet(g.keyFieldNames(entryTypeOfOrderedMap(sf.Type), ce))
			for _, en := range orderedEntries(fv.Interface().(ygot.GoOrderedMap)) {
				mgWalk(en.entry, ce, sl.path+mgKeyTerm(en.keys), kf, inUnk, true, visit)
			}
		case "unkeyed":
			for j := 0; j < fv.Len(); j++ {
				mgWalk(fv.Index(j), ce, fmt.Sprintf("%s#%d", sl.path, j), nil, true, inOrd, visit)
			}
		}
	}
}

func mgKeySet(names []string) map[string]bool {
	m := map[string]bool{}
	for _, n := range names {
		m[n] = true
	}
	return m
}

func mgRootEntry(p *reg.Pkg, g ygot.GoStruct) *yang.Entry {
	return p.SchemaTree[reflect.TypeOf(g).Elem().Name()]
}

func mgSlots(p *reg.Pkg, g ygot.GoStruct) []mgSlot {
	var out []mgSlot
	mgWalk(reflect.ValueOf(g), mgRootEntry(p, g), "", nil, false, false, func(s mgSlot) { out = append(out, s) })
	return out
}

// ---------------------------------------------------------------- projections

// mgOMRebuild replaces the ordered map in fv by one holding the given entries in that order.
func mgOMRebuild(fv reflect.Value, entries []reflect.Value) {
	om := reflect.New(fv.Type().Elem())
	for _, e := range entries {
		om.MethodByName("Append").Call([]reflect.Value{e})
	}
	fv.Set(om)
}

// mgProject removes fields and list entries at random (key leaves stay): every set field
// survives with probability keep.
func mgProject(rng *rand.Rand, p *reg.Pkg, g ygot.GoStruct, keep float64) {
	var rec func(sp reflect.Value, e *yang.Entry, keys map[string]bool)
	tg := &treeGen{}
	depth := 0
	rec = func(sp reflect.Value, e *yang.Entry, keys map[string]bool) {
		depth++
		defer func() { depth-- }()
		s := sp.Elem()
		for i := 0; i < s.NumField(); i++ {
			sf := s.Type().Field(i)
			if _, ok := sf.Tag.Lookup("path"); !ok || keys[sf.Name] {
				continue
			}
			ce, err := util.ChildSchema(e, sf)
			if err != nil || ce == nil {
				continue
			}
			fv := s.Field(i)
			if _, set := fieldTerm(fv); !set {
				continue
			}
			kind := mgFieldKind(sf.Type, ce)
			if x := rng.Float64(); x > keep && !(depth <= 2 && kind == "cont") { // the top containers always stay
				fv.Set(reflect.Zero(sf.Type))
				continue
			}
			switch kind {
			case "cont":
				rec(fv, ce, nil)
			case "map":
				kf := mgKeySet(tg.keyFieldNames(sf.Type.Elem().Elem(), ce))
				var ks []reflect.Value
				it := fv.MapRange()
				for it.Next() {
					ks = append(ks, it.Key())
				}
				sort.Slice(ks, func(a, b int) bool { return lessKeys(keyValues(ks[a]), keyValues(ks[b])) })
				for _, k := range ks {
					if rng.Float64() > keep {
						fv.SetMapIndex(k, reflect.Value{})
					} else {
						rec(fv.MapIndex(k), ce, kf)
					}
				}
			case "omap":
				kf := mgKeySet(tg.keyFieldNames(entryTypeOfOrderedMap(sf.Type), ce))
				vals := fv.MethodByName("Values").Call(nil)[0]
				var kept []reflect.Value
				for j := 0; j < vals.Len(); j++ {
					if rng.Float64() > keep {
						continue
					}
					rec(vals.Index(j), ce, kf)
					kept = append(kept, vals.Index(j))
				}
				mgOMRebuild(fv, kept)
			case "unkeyed":
				ns := reflect.MakeSlice(sf.Type, 0, fv.Len())
				for j := 0; j < fv.Len(); j++ {
					if rng.Float64() > keep {
						continue
					}
					ns = reflect.Append(ns, fv.Index(j))
				}
				fv.Set(ns)
			}
		}
	}
	rec(reflect.ValueOf(g), mgRootEntry(p, g), nil)
}

// mgSprinkleEmpties turns some unset map / slice fields into non-nil empty ones.
func mgSprinkleEmpties(rng *rand.Rand, p *reg.Pkg, g ygot.GoStruct, prob float64) {
	var rec func(sp reflect.Value)
	rec = func(sp reflect.Value) {
		s := sp.Elem()
		for i := 0; i < s.NumField(); i++ {
			sf := s.Type().Field(i)
			if _, ok := sf.Tag.Lookup("path"); !ok {
				continue
			}
			fv := s.Field(i)
			ft := sf.Type
			switch {
			case isOrderedMapType(ft):
				if fv.IsNil() && rng.Float64() < prob {
					fv.Set(reflect.New(ft.Elem()))
				}
			case ft.Kind() == reflect.Map:
				if fv.IsNil() {
					if rng.Float64() < prob {
						fv.Set(reflect.MakeMap(ft))
					}
				} else {
					var ks []reflect.Value
					it := fv.MapRange()
					for it.Next() {
						ks = append(ks, it.Key())
					}
					sort.Slice(ks, func(a, b int) bool { return lessKeys(keyValues(ks[a]), keyValues(ks[b])) })
					for _, k := range ks {
						rec(fv.MapIndex(k))
					}
				}
			case ft.Kind() == reflect.Slice:
				if fv.IsNil() && rng.Float64() < prob {
					fv.Set(reflect.MakeSlice(ft, 0, 0))
				}
			case ft.Kind() == reflect.Ptr && ft.Elem().Kind() == reflect.Struct:
				if !fv.IsNil() {
					rec(fv)
				}
			}
		}
	}
	rec(reflect.ValueOf(g))
}

// mgFixEmptyUnionBinary replaces empty Binary values held by union leaves (a copy of those
// reads as unset while the interface is non-nil: outside the tree model) by one byte.
func mgFixEmptyUnionBinary(g ygot.GoStruct) {
	var fix func(v reflect.Value)
	fix = func(v reflect.Value) {
		switch v.Kind() {
		case reflect.Ptr:
			if v.IsNil() {
				return
			}
			if isOrderedMapType(v.Type()) {
				vals := v.MethodByName("Values").Call(nil)[0]
				for i := 0; i < vals.Len(); i++ {
					fix(vals.Index(i))
				}
				return
			}
			if v.Elem().Kind() == reflect.Struct {
				for i := 0; i < v.Elem().NumField(); i++ {
					fix(v.Elem().Field(i))
				}
			}
		case reflect.Interface:
			if v.IsNil() {
				return
			}
			e := v.Elem()
			if e.Kind() == reflect.Slice && e.Len() == 0 {
				v.Set(reflect.ValueOf([]byte{7}).Convert(e.Type()))
			}
			if e.Kind() == reflect.Ptr && e.Elem().Kind() == reflect.Struct && e.Elem().NumField() == 1 {
				f := e.Elem().Field(0)
				if f.Kind() == reflect.Slice && f.Len() == 0 {
					f.Set(reflect.ValueOf([]byte{7}).Convert(f.Type()))
				}
			}
		case reflect.Map:
			it := v.MapRange()
			for it.Next() {
				fix(it.Value())
			}
		case reflect.Slice:
			if v.Type().Elem().Kind() == reflect.Uint8 {
				return
			}
			for i := 0; i < v.Len(); i++ {
				fix(v.Index(i))
			}
		}
	}
	fix(reflect.ValueOf(g))
}

// ---------------------------------------------------------------- structured flattening

// mgFlatT is the content of a tree as sets: an independent reading of the struct tags (like
// leafMapOf) that keeps leaf-lists, unkeyed lists and the order of ordered lists apart.
type mgFlatT struct {
	leaves map[string]string   // leaf path -> value term
	kinds  map[string]string   // leaf path -> Go kind of the field: ptr bin enum empty union
	lls    map[string][]string // non-empty leaf-list path -> member terms
	unk    map[string][]string // non-empty unkeyed list path -> entry terms
	ord    map[string][]string // non-empty ordered list path -> key terms in order
	ents   map[string]bool     // keyed list entries
}

func mgLeafKind(ft reflect.Type) string {
	switch {
	case ft.Kind() == reflect.Ptr:
		return "ptr"
	case ft.Kind() == reflect.Slice:
		return "bin"
	case ft.Kind() == reflect.Int64:
		return "enum"
	case ft.Kind() == reflect.Bool:
		return "empty"
	case ft.Kind() == reflect.Interface:
		return "union"
	}
	return "?" + ft.Kind().String()
}

func mgFlat(p *reg.Pkg, g ygot.GoStruct) *mgFlatT {
	f := &mgFlatT{leaves: map[string]string{}, kinds: map[string]string{}, lls: map[string][]string{}, unk: map[string][]string{}, ord: map[string][]string{}, ents: map[string]bool{}}
	mgWalk(reflect.ValueOf(g), mgRootEntry(p, g), "", nil, false, false, func(s mgSlot) {
		if s.inUnk {
			return // an unkeyed entry is one value
		}
		fv := s.field()
		switch s.kind {
		case "leaf":
			t, _ := fieldTerm(fv)
			f.leaves[s.path] = t
			f.kinds[s.path] = mgLeafKind(s.sf.Type)
		case "leaflist":
			for i := 0; i < fv.Len(); i++ {
				t, _ := scalarTerm(fv.Index(i))
				f.lls[s.path] = append(f.lls[s.path], t)
			}
		case "unkeyed":
			for i := 0; i < fv.Len(); i++ {
				f.unk[s.path] = append(f.unk[s.path], structTerm(fv.Index(i)))
			}
		case "omap":
			for _, en := range orderedEntries(fv.Interface().(ygot.GoOrderedMap)) {
				f.ord[s.path] = append(f.ord[s.path], mgKeyTerm(en.keys))
			}
		case "map":
			it := fv.MapRange()
			for it.Next() {
				f.ents[s.path+mgKeyTerm(keyValues(it.Key()))] = true
			}
		}
	})
	return f
}

func mgSameSeq(a, b []string) bool {
	if len(a) != len(b) {
		return false
	}
	for i := range a {
		if a[i] != b[i] {
			return false
		}
	}
	return true
}

func mgDisjoint(a, b []string) bool {
	m := map[string]bool{}
	for _, x := range a {
		m[x] = true
	}
	for _, y := range b {
		if m[y] {
			return false
		}
	}
	return true
}

// mgSubseq: b is a subsequence of a.
func mgSubseq(a, b []string) bool {
	i := 0
	for _, x := range a {
		if i < len(b) && b[i] == x {
			i++
		}
	}
	return i == len(b)
}

// mgCompatible is the C05 compatibility of two trees: the list of violated conditions.
func mgCompatible(a, b *mgFlatT) []string {
	var bad []string
	for _, k := range sortedLeafKeys(b.leaves) {
		if av, ok := a.leaves[k]; ok && av != b.leaves[k] {
			bad = append(bad, "leaf:"+k)
		}
	}
	for k, bv := range b.lls {
		if av, ok := a.lls[k]; ok && !mgSameSeq(av, bv) && !mgDisjoint(av, bv) {
			bad = append(bad, "leaflist:"+k)
		}
	}
	for k, bv := range b.unk {
		if av, ok := a.unk[k]; ok && !mgSameSeq(av, bv) && !mgDisjoint(av, bv) {
			bad = append(bad, "unkeyed:"+k)
		}
	}
	for k, bv := range b.ord {
		if av, ok := a.ord[k]; ok && !mgDisjoint(av, bv) && !mgSubseq(av, bv) {
			bad = append(bad, "ordered:"+k)
		}
	}
	sort.Strings(bad)
	return bad
}

func mgSortedCopy(a []string) []string {
	c := append([]string{}, a...)
	sort.Strings(c)
	return c
}

// mgUnionDiff compares the content of the result r with the union of a and b (b's leaf values
// where both set one when bWins) and lists the paths that differ. Sequences are compared as sets
// when asSets.
func mgUnionDiff(a, b, r *mgFlatT, asSets bool) []string {
	var diff []string
	want := map[string]string{}
	for k, v := range a.leaves {
		want[k] = v
	}
	for k, v := range b.leaves {
		want[k] = v
	}
	for k, v := range want {
		if r.leaves[k] != v {
			diff = append(diff, "leaf:"+k)
		}
	}
	for k := range r.leaves {
		if _, ok := want[k]; !ok {
			diff = append(diff, "leaf:"+k)
		}
	}
	seq := func(tag string, am, bm, rm map[string][]string, ordered bool) {
		keys := map[string]bool{}
		for k := range am {
			keys[k] = true
		}
		for k := range bm {
			keys[k] = true
		}
		for k := range rm {
			keys[k] = true
		}
		for k := range keys {
			av, bv := am[k], bm[k]
			var w []string
			switch {
			case mgSameSeq(av, bv):
				w = av
			case ordered:
				w = append([]string{}, av...)
				in := map[string]bool{}
				for _, x := range av {
					in[x] = true
				}
				for _, y := range bv {
					if !in[y] {
						w = append(w, y)
					}
				}
			default:
				w = append(append([]string{}, av...), bv...)
			}
			got := rm[k]
			if asSets {
				w, got = mgSortedCopy(w), mgSortedCopy(got)
			}
			if !mgSameSeq(w, got) {
				diff = append(diff, tag+":"+k)
			}
		}
	}
	seq("leaflist", a.lls, b.lls, r.lls, false)
	seq("unkeyed", a.unk, b.unk, r.unk, false)
	seq("ordered", a.ord, b.ord, r.ord, true)
	for k := range a.ents {
		if !r.ents[k] {
			diff = append(diff, "entry:"+k)
		}
	}
	for k := range b.ents {
		if !r.ents[k] {
			diff = append(diff, "entry:"+k)
		}
	}
	for k := range r.ents {
		if !a.ents[k] && !b.ents[k] {
			diff = append(diff, "entry:"+k)
		}
	}
	sort.Strings(diff)
	return diff
}

// mgAllLeafKind: every item is a leaf whose Go kind (in a or b) is kind.
func mgAllLeafKind(items []string, kind string, fs ...*mgFlatT) bool {
	if len(items) == 0 {
		return false
	}
	for _, it := range items {
		if !strings.HasPrefix(it, "leaf:") {
			return false
		}
		p := strings.TrimPrefix(it, "leaf:")
		ok := false
		for _, f := range fs {
			if f.kinds[p] == kind {
				ok = true
			}
		}
		if !ok {
			return false
		}
	}
	return true
}

func mgAllPrefix(items []string, prefix string) bool {
	if len(items) == 0 {
		return false
	}
	for _, it := range items {
		if !strings.HasPrefix(it, prefix) {
			return false
		}
	}
	return true
}

// ---------------------------------------------------------------- running the real functions

func mgSafeMerge(a, b ygot.GoStruct, opts ...ygot.MergeOpt) (r ygot.GoStruct, err error, panicked bool) {
	defer func() {
		if x := recover(); x != nil {
			r, err, panicked = nil, fmt.Errorf("panic: %v", x), true
		}
	}()
	r, err = ygot.MergeStructs(a, b, opts...)
	return r, err, false
}

func mgSafeCopy(a ygot.GoStruct) (r ygot.GoStruct, err error, panicked bool) {
	defer func() {
		if x := recover(); x != nil {
			r, err, panicked = nil, fmt.Errorf("panic: %v", x), true
		}
	}()
	r, err = ygot.DeepCopy(a)
	return r, err, false
}

func mgOpts(ow, em bool) []ygot.MergeOpt {
	var o []ygot.MergeOpt
	if ow {
		o = append(o, &ygot.MergeOverwriteExistingFields{})
	}
	if em {
		o = append(o, &ygot.MergeEmptyMaps{})
	}
	return o
}

func mgOutTerm(r ygot.GoStruct, err error, panicked bool) string {
	switch {
	case panicked:
		return coqPanic
	case err != nil:
		return coqErr
	}
	return coqOk(treeTerm(r))
}

// ---------------------------------------------------------------- Go kind of every leaf field

var mgReprNames = map[string]string{"ptr": "RPtr", "bin": "RBin", "enum": "REnum", "empty": "REmpty", "union": "RUnion"}

// mgReprCases emits one MgRepr case per leaf field of the package: the model derives the Go
// kind of a leaf from its YANG type (mg_repr_of) and must agree with the generated code.
func mgReprCases(p *reg.Pkg, tf *treeFile, id *int) {
	seen := map[reflect.Type]bool{}
	var rec func(t reflect.Type, e *yang.Entry, path []string)
	rec = func(t reflect.Type, e *yang.Entry, path []string) {
		if seen[t] {
			return
		}
		seen[t] = true
		for i := 0; i < t.NumField(); i++ {
			sf := t.Field(i)
			if _, ok := sf.Tag.Lookup("path"); !ok {
				continue
			}
			ce, err := util.ChildSchema(e, sf)
			if err != nil || ce == nil {
				continue
			}
			np := append(append([]string{}, path...), sf.Name)
			switch mgFieldKind(sf.Type, ce) {
			case "leaf":
				tf.cf.add(fmt.Sprintf("MgRepr %d %s %s", *id, coqStrList(np), mgReprNames[mgLeafKind(sf.Type)]))
				*id++
			case "cont":
				rec(sf.Type.Elem(), ce, np)
			case "map":
				rec(sf.Type.Elem().Elem(), ce, np)
			case "omap":
				rec(entryTypeOfOrderedMap(sf.Type), ce, np)
			case "unkeyed":
				rec(sf.Type.Elem().Elem(), ce, np)
			}
		}
	}
	root := p.NewRoot()
	rec(reflect.TypeOf(root).Elem(), mgRootEntry(p, root), nil)
	tf.cf.add(fmt.Sprintf("MgWf %d", *id))
	*id++
}

// ---------------------------------------------------------------- pair generation

type mgPair struct {
	a, b ygot.ValidatedGoStruct
	mode string
	note string
}

// mgRegenLeaf gives the leaf in slot a different value.
func mgRegenLeaf(g *treeGen, s mgSlot) bool {
	fv := s.field()
	old, _ := fieldTerm(fv)
	for try := 0; try < 30; try++ {
		v, ok := g.genLeafValue(s.parent, s.sf.Type, s.entry)
		if !ok {
			return false
		}
		if t, set := fieldTerm(v); set && t != old {
			fv.Set(v)
			return true
		}
	}
	return false
}

// mgInjectConflict changes b so that exactly one C05 condition is violated against a (when a
// suitable place exists). It returns what was done ("" if nothing).
func mgInjectConflict(rng *rand.Rand, p *reg.Pkg, g *treeGen, a, b ygot.ValidatedGoStruct, force string) string {
	inA := map[string]mgSlot{}
	for _, s := range mgSlots(p, a) {
		inA[s.path] = s
	}
	var cands []mgSlot
	want := pick(rng, []string{"leaf", "leaf", "leaf", "leafbin", "leaflist", "unkeyed", "omap", "omap-head", "union-same-raw"})
	if force != "" {
		want = force
	}
	for _, s := range mgSlots(p, b) {
		if s.inUnk || s.isKey {
			continue
		}
		if _, ok := inA[s.path]; !ok {
			continue
		}
		switch want {
		case "leaf":
			if s.kind == "leaf" {
				cands = append(cands, s)
			}
		case "ordleaf":
			// a leaf below an entry of an ordered list that both trees hold
			if s.kind == "leaf" && s.inOrd {
				cands = append(cands, s)
			}
		case "bin":
			if s.kind == "leaf" && mgLeafKind(s.sf.Type) == "bin" {
				cands = append(cands, s)
			}
		case "leafbin":
			if s.kind == "leaf" && (mgLeafKind(s.sf.Type) == "bin" || mgLeafKind(s.sf.Type) == "enum" || mgLeafKind(s.sf.Type) == "union") {
				cands = append(cands, s)
			}
		case "union-same-raw":
			if s.kind == "leaf" && mgUnionEnumSibling(p, s).IsValid() {
				cands = append(cands, s)
			}
		case "leaflist":
			if s.kind == "leaflist" && s.field().Len() > 0 {
				cands = append(cands, s)
			}
		case "unionll":
			// a leaf-list of union type (members are interface values; pointers with wrapper unions)
			if s.kind == "leaflist" && s.field().Len() > 0 && s.sf.Type.Elem().Kind() == reflect.Interface {
				cands = append(cands, s)
			}
		case "unkeyed":
			if s.kind == "unkeyed" && s.field().Len() > 0 {
				cands = append(cands, s)
			}
		case "omap", "omap-head":
			if s.kind == "omap" && s.field().MethodByName("Len").Call(nil)[0].Int() > 0 {
				cands = append(cands, s)
			}
		}
	}
	if len(cands) == 0 {
		return ""
	}
	s := pick(rng, cands)
	fv := s.field()
	if want == "union-same-raw" {
		// two members of different types with the same Go kind and the same raw value: the int64
		// member n in a, the enumeration member numbered n in b (a conflict: the values differ)
		ev := mgUnionEnumSibling(p, s)
		out := s.parent.MethodByName("To_" + s.sf.Type.Name()).Call([]reflect.Value{reflect.ValueOf(int64(1))})
		if !out[1].IsNil() {
			return ""
		}
		inA[s.path].field().Set(out[0])
		fv.Set(ev)
		return "union-same-raw " + s.path
	}
	switch s.kind {
	case "leaf":
		if mgRegenLeaf(g, s) {
			return "leaf " + mgLeafKind(s.sf.Type) + " " + s.path
		}
	case "leaflist":
		// a proper prefix or an extension: overlapping but not equal
		if fv.Len() >= 2 && rng.Intn(2) == 0 {
			fv.Set(fv.Slice(0, fv.Len()-1))
			return "leaflist-prefix " + s.path
		}
		for try := 0; try < 30; try++ {
			v, ok := g.genLeafValue(s.parent, s.sf.Type.Elem(), s.entry)
			if !ok {
				break
			}
			t, _ := scalarTerm(v)
			dup := false
			for i := 0; i < fv.Len(); i++ {
				if u, _ := scalarTerm(fv.Index(i)); u == t {
					dup = true
				}
			}
			if !dup {
				fv.Set(reflect.Append(fv, v))
				return "leaflist-extended " + s.path
			}
		}
	case "unkeyed":
		if fv.Len() >= 2 {
			fv.Set(fv.Slice(0, fv.Len()-1))
			return "unkeyed-prefix " + s.path
		}
		ent := reflect.New(s.sf.Type.Elem().Elem())
		g.pField = 0.9
		g.populate(ent, s.entry, 1, nil)
		g.pField = 0.45
		if structTerm(ent) != structTerm(fv.Index(0)) {
			fv.Set(reflect.Append(fv, ent))
			return "unkeyed-extended " + s.path
		}
	case "omap":
		vals := fv.MethodByName("Values").Call(nil)[0]
		var es []reflect.Value
		for i := 0; i < vals.Len(); i++ {
			es = append(es, vals.Index(i))
		}
		if want == "omap-head" || len(es) < 2 {
			// a new entry in front of the common ones: not disjoint, not a subset
			ent, _, _ := g.newEntry(entryTypeOfOrderedMap(s.sf.Type), s.entry, 1)
			mgOMRebuild(fv, append([]reflect.Value{ent}, es...))
			if int(fv.MethodByName("Len").Call(nil)[0].Int()) == len(es)+1 {
				return "omap-new-head " + s.path
			}
			mgOMRebuild(fv, es)
			return ""
		}
		for i, j := 0, len(es)-1; i < j; i, j = i+1, j-1 {
			es[i], es[j] = es[j], es[i]
		}
		mgOMRebuild(fv, es)
		return "omap-reversed " + s.path
	}
	return ""
}

// mgUnionEnumSibling: for a simple-union leaf with an int64 member, the value numbered 1 of an
// enumerated type that is a member of the union too (found through the package's ΛEnumTypeMap).
func mgUnionEnumSibling(p *reg.Pkg, s mgSlot) reflect.Value {
	ut := s.sf.Type
	if ut.Kind() != reflect.Interface {
		return reflect.Value{}
	}
	to := s.parent.MethodByName("To_" + ut.Name())
	if !to.IsValid() {
		return reflect.Value{}
	}
	if out := to.Call([]reflect.Value{reflect.ValueOf(int64(1))}); !out[1].IsNil() || out[0].Elem().Kind() != reflect.Int64 {
		return reflect.Value{}
	}
	for _, ft := range p.NewRoot().ΛEnumTypeMap()[schemaDataPath(s.entry)] {
		if ft.Kind() == reflect.Int64 && ft.Implements(ut) {
			return reflect.ValueOf(int64(1)).Convert(ft)
		}
	}
	return reflect.Value{}
}

// mgGenPair derives two trees from one random base tree.
func mgGenPair(rng *rand.Rand, p *reg.Pkg, force string) mgPair {
	g := newTreeGen(rng, p)
	g.pField = pick(rng, []float64{0.45, 0.6, 0.7, 0.85})
	g.emptyLL = rng.Intn(4) == 0
	g.emptyConts = rng.Intn(4) == 0
	if force != "" {
		g.pField = 0.9
	}
	base := g.genTree()
	if rng.Intn(4) == 0 {
		mgSprinkleEmpties(rng, p, base, 0.2)
	}
	mgFixEmptyUnionBinary(base)
	a := mgClone(base).(ygot.ValidatedGoStruct)
	b := mgClone(base).(ygot.ValidatedGoStruct)
	mode := pick(rng, []string{"overlap", "overlap", "overlap", "disjoint", "disjoint", "conflict", "conflict", "conflict", "conflict", "same", "empty-side"})
	note := ""
	if force != "" {
		mode = "conflict"
	}
	switch mode {
	case "overlap", "conflict":
		if force == "" {
			mgProject(rng, p, a, 0.75)
			mgProject(rng, p, b, 0.75)
		}
		if mode == "conflict" {
			note = mgInjectConflict(rng, p, g, a, b, force)
			if note == "" {
				mode = "overlap"
			}
		}
	case "disjoint":
		// complementary projections: what a drops b keeps (list entries and containers are split inside)
		seed := rng.Int63()
		mgProject(rand.New(rand.NewSource(seed)), p, a, 0.5)
		mgProjectComplement(rand.New(rand.NewSource(seed)), p, b, 0.5)
	case "empty-side":
		if rng.Intn(2) == 0 {
			a = p.NewRoot()
		} else {
			b = p.NewRoot()
		}
	}
	return mgPair{a: a, b: b, mode: mode, note: note}
}

// mgProjectComplement replays the random choices of mgProject and removes exactly the leaf
// fields that mgProject kept (containers and lists are kept on both sides and split inside).
func mgProjectComplement(rng *rand.Rand, p *reg.Pkg, g ygot.GoStruct, keep float64) {
	var rec func(sp reflect.Value, e *yang.Entry, keys map[string]bool)
	tg := &treeGen{}
	depth := 0
	rec = func(sp reflect.Value, e *yang.Entry, keys map[string]bool) {
		depth++
		defer func() { depth-- }()
		s := sp.Elem()
		for i := 0; i < s.NumField(); i++ {
			sf := s.Type().Field(i)
			if _, ok := sf.Tag.Lookup("path"); !ok || keys[sf.Name] {
				continue
			}
			ce, err := util.ChildSchema(e, sf)
			if err != nil || ce == nil {
				continue
			}
			fv := s.Field(i)
			if _, set := fieldTerm(fv); !set {
				continue
			}
			kind := mgFieldKind(sf.Type, ce)
			if x := rng.Float64(); x > keep && !(depth <= 2 && kind == "cont") {
				continue // dropped there: kept here, whole
			}
			switch kind {
			case "cont":
				rec(fv, ce, nil)
			case "map":
				kf := mgKeySet(tg.keyFieldNames(sf.Type.Elem().Elem(), ce))
				var ks []reflect.Value
				it := fv.MapRange()
				for it.Next() {
					ks = append(ks, it.Key())
				}
				sort.Slice(ks, func(a, b int) bool { return lessKeys(keyValues(ks[a]), keyValues(ks[b])) })
				for _, k := range ks {
					if rng.Float64() > keep {
						continue
					}
					rec(fv.MapIndex(k), ce, kf)
				}
			case "omap":
				kf := mgKeySet(tg.keyFieldNames(entryTypeOfOrderedMap(sf.Type), ce))
				vals := fv.MethodByName("Values").Call(nil)[0]
				var kept []reflect.Value
				for j := 0; j < vals.Len(); j++ {
					if rng.Float64() > keep {
						kept = append(kept, vals.Index(j)) // dropped there: kept here, whole
						continue
					}
					rec(vals.Index(j), ce, kf) // same random choices as there; the entry is dropped here
				}
				mgOMRebuild(fv, kept)
			case "unkeyed":
				ns := reflect.MakeSlice(sf.Type, 0, fv.Len())
				for j := 0; j < fv.Len(); j++ {
					if rng.Float64() > keep {
						ns = reflect.Append(ns, fv.Index(j))
					}
				}
				fv.Set(ns)
			default:
				fv.Set(reflect.Zero(sf.Type)) // leaf / leaf-list kept there: dropped here
			}
		}
	}
	rec(reflect.ValueOf(g), mgRootEntry(p, g), nil)
}

// ---------------------------------------------------------------- the stream

type mgMergeInput struct {
	Pkg   string `json:"pkg"`
	Seed  int64  `json:"seed"`
	Force string `json:"force,omitempty"` // directed case: "bin" (binary leaf conflict), "ordleaf", "union-same-raw", "unionll", "emptybin" (prune)
}

func mgMergeCase(p *reg.Pkg, seed int64, force string, id *int, tf *treeFile, sum *Summary, seen map[string]bool) {
	rng := rand.New(rand.NewSource(seed))
	pr := mgGenPair(rng, p, force)
	ow, em := rng.Intn(4) == 0, rng.Intn(4) == 0
	in := mgMergeInput{Pkg: p.Name, Seed: seed, Force: force}
	a, b := pr.a, pr.b
	ta, tb := treeTerm(a), treeTerm(b)
	fa, fb := mgFlat(p, a), mgFlat(p, b)
	r, err, pan := mgSafeMerge(a, b, mgOpts(ow, em)...)
	tf.cf.add(fmt.Sprintf("MgMerge %d %s %s %s %s %s", *id, coqBool(ow), coqBool(em), ta, tb, mgOutTerm(r, err, pan)))
	*id++
	sum.count("mode", pr.mode)
	sum.count("options", fmt.Sprintf("overwrite=%v emptymaps=%v", ow, em))
	if pr.note != "" {
		sum.count("injected", strings.Fields(pr.note)[0])
	}
	outcome := "ok"
	if pan {
		outcome = "panic"
	} else if err != nil {
		outcome = "err"
	}
	sum.count("outcome", outcome)
	shared := 0
	for k := range fb.leaves {
		if _, ok := fa.leaves[k]; ok {
			shared++
		}
	}
	if key := ta + "|" + tb; !seen[key] {
		seen[key] = true
		if len(fa.leaves) >= 5 && len(fb.leaves) >= 5 && shared >= 1 {
			sum.Nontrivial++
		}
	}
	sum.sample(map[string]interface{}{"input": in, "mode": pr.mode, "injected": pr.note, "overwrite": ow, "emptymaps": em, "outcome": outcome, "leaves_a": len(fa.leaves), "leaves_b": len(fb.leaves), "shared": shared})

	// ---- C05 oracle
	sum.OracleRuns++
	find := func(sig, what string, obs interface{}) {
		sum.finding(Finding{Signature: sig, What: what, Input: in, Observed: obs})
	}
	if pan {
		find("merge/panic", "MergeStructs panics: "+err.Error(), nil)
		return
	}
	if ta2, tb2 := treeTerm(a), treeTerm(b); ta2 != ta || tb2 != tb {
		find("merge/input-mutated", "MergeStructs changed one of its inputs", firstDiff(ta+tb, ta2+tb2))
	}
	bad := mgCompatible(fa, fb)
	sum.count("compatible", fmt.Sprintf("%v", len(bad) == 0))
	if !ow {
		switch {
		case len(bad) == 0 && err != nil:
			find("merge/rejects-compatible", "compatible inputs are rejected: "+err.Error(), nil)
		case len(bad) > 0 && err == nil:
			switch {
			case mgAllLeafKind(bad, "bin", fa, fb):
				find("merge/binary-leaf-concatenated", "two different values of a binary leaf are merged (bytes appended) instead of being reported as a conflict", bad)
			case mgAllPrefix(bad, "ordered:"):
				find("merge/ordered-overlap-accepted", "ordered lists that overlap without b being a same-order subset of a are merged (orderedMapKeysMergeable only looks at the first key of b)", bad)
			default:
				// both known causes at once (a binary leaf and an ordered list) are reported as such
				var bins, ords, rest []string
				for _, it := range bad {
					switch {
					case mgAllLeafKind([]string{it}, "bin", fa, fb):
						bins = append(bins, it)
					case strings.HasPrefix(it, "ordered:"):
						ords = append(ords, it)
					default:
						rest = append(rest, it)
					}
				}
				if len(rest) > 0 {
					find("merge/accepts-incompatible", "incompatible inputs are merged", bad)
				} else {
					find("merge/binary-leaf-concatenated", "two different values of a binary leaf are merged (bytes appended) instead of being reported as a conflict", bins)
					find("merge/ordered-overlap-accepted", "ordered lists that overlap without b being a same-order subset of a are merged (orderedMapKeysMergeable only looks at the first key of b)", ords)
				}
			}
		}
	} else {
		leafOnly := mgAllPrefix(bad, "leaf:")
		if leafOnly && err != nil {
			if mgAllLeafKind(bad, "bin", fa, fb) {
				find("merge/overwrite-binary-leaf", "MergeOverwriteExistingFields does not cover binary leaves (copySliceField): "+err.Error(), bad)
			} else {
				find("merge/overwrite-fails", "MergeOverwriteExistingFields fails on a leaf conflict: "+err.Error(), bad)
			}
		}
	}
	if err != nil {
		return
	}
	fr := mgFlat(p, r)
	if len(bad) == 0 || (ow && mgAllPrefix(bad, "leaf:")) {
		diff := mgUnionDiff(fa, fb, fr, false)
		var dEmpty, dBin, dOther []string
		for _, it := range diff {
			switch {
			case mgAllLeafKind([]string{it}, "empty", fa, fb):
				dEmpty = append(dEmpty, it)
			case mgAllLeafKind([]string{it}, "bin", fa, fb):
				dBin = append(dBin, it)
			default:
				dOther = append(dOther, it)
			}
		}
		if len(dEmpty) > 0 {
			find("merge/empty-leaf-dropped", "a leaf of type empty set in a and not in b is missing from the result (copyStruct default arm: dst = src)", dEmpty)
		}
		if len(dBin) > 0 {
			if ow {
				find("merge/overwrite-binary-leaf", "with MergeOverwriteExistingFields the value of a binary leaf is not b's (bytes appended)", dBin)
			} else {
				find("merge/empty-binary-dropped", "an empty binary leaf value is lost by the copy", dBin)
			}
		}
		if len(dOther) > 0 {
			find("merge/union-violated", "the content of the result is not the union of the inputs", dOther)
		}
	}
	// swap (the ordered-list condition is not symmetric: b must be a same-order subset of a)
	if !ow && len(bad) == 0 && len(mgCompatible(fb, fa)) == 0 {
		r2, err2, pan2 := mgSafeMerge(b, a, mgOpts(ow, em)...)
		if pan2 || err2 != nil {
			find("merge/not-commutative", "MergeStructs(b, a) fails where MergeStructs(a, b) succeeds", fmt.Sprint(err2))
		} else {
			f2 := mgFlat(p, r2)
			var diff []string
			for k, v := range fr.leaves {
				if f2.leaves[k] != v {
					diff = append(diff, "leaf:"+k)
				}
			}
			for k := range f2.leaves {
				if _, ok := fr.leaves[k]; !ok {
					diff = append(diff, "leaf:"+k)
				}
			}
			cmp := func(tag string, x, y map[string][]string) {
				for k, v := range x {
					if !mgSameSeq(mgSortedCopy(v), mgSortedCopy(y[k])) {
						diff = append(diff, tag+":"+k)
					}
				}
				for k := range y {
					if _, ok := x[k]; !ok {
						diff = append(diff, tag+":"+k)
					}
				}
			}
			cmp("leaflist", fr.lls, f2.lls)
			cmp("unkeyed", fr.unk, f2.unk)
			cmp("ordered", fr.ord, f2.ord)
			for k := range fr.ents {
				if !f2.ents[k] {
					diff = append(diff, "entry:"+k)
				}
			}
			for k := range f2.ents {
				if !fr.ents[k] {
					diff = append(diff, "entry:"+k)
				}
			}
			sort.Strings(diff)
			if len(diff) > 0 {
				if mgAllLeafKind(diff, "empty", fa, fb) {
					find("merge/empty-leaf-dropped", "MergeStructs(a,b) and MergeStructs(b,a) differ on leaves of type empty", diff)
				} else if mgAllLeafKind(diff, "bin", fa, fb) {
					find("merge/empty-binary-dropped", "MergeStructs(a,b) and MergeStructs(b,a) differ on empty binary leaves", diff)
				} else {
					find("merge/not-commutative", "MergeStructs(a,b) and MergeStructs(b,a) have different content", diff)
				}
			}
		}
	}
}

var mgPkgWeights = map[string]int{"vmain_u": 7, "vmain_w": 5}

// mgShares splits n cases over the packages (the v-main packages exercise every field kind).
func mgShares(n int) map[string]int {
	names := reg.Names()
	tot := 0
	w := map[string]int{}
	for _, nm := range names {
		w[nm] = 2
		if x, ok := mgPkgWeights[nm]; ok {
			w[nm] = x
		}
		tot += w[nm]
	}
	out := map[string]int{}
	for _, nm := range names {
		out[nm] = n * w[nm] / tot
		if out[nm] < 1 {
			out[nm] = 1
		}
	}
	return out
}

func mgReplayInput() (*mgMergeInput, error) {
	if replayFile == "" {
		return nil, nil
	}
	b, err := os.ReadFile(replayFile)
	if err != nil {
		return nil, err
	}
	var wrap struct {
		Case mgMergeInput `json:"case"`
	}
	if err := json.Unmarshal(b, &wrap); err != nil {
		return nil, err
	}
	return &wrap.Case, nil
}

func mgMergeStream(rng *rand.Rand, n int, tier string, out string) (*Summary, error) {
	sum := &Summary{Rule: "pairs (a, b) derived from one random tree of a generated package: independent projections (overlap), complementary projections (disjoint), " +
		"a projection pair with exactly one injected violation (leaf value, leaf-list / unkeyed-list partial overlap, ordered-list order), identical trees, one side empty; " +
		"random MergeOverwriteExistingFields / MergeEmptyMaps; the result tree or the error of MergeStructs is compared with the model; " +
		"non-trivial = both trees have >= 5 leaves and share a leaf path; distinct by the pair of tree dumps"}
	var files []string
	id := 0
	seen := map[string]bool{}
	rp, err := mgReplayInput()
	if err != nil {
		return nil, err
	}
	shares := mgShares(n)
	for _, name := range reg.Names() {
		p := reg.Get(name)
		if rp != nil && rp.Pkg != name {
			continue
		}
		tf := newTreeFile(p, "mgcase", "mgmismatches", "Corr.MergeCorr")
		if rp != nil {
			mgMergeCase(p, rp.Seed, rp.Force, &id, tf, sum, seen)
		} else {
			mgReprCases(p, tf, &id)
			// directed: two different values of a binary leaf, without and (by the case's own
			// random options) possibly with MergeOverwriteExistingFields
			for i := 0; i < 4; i++ {
				mgMergeCase(p, rng.Int63(), "bin", &id, tf, sum, seen)
			}
			// directed: a union leaf holding members of different types with the same Go kind and the
			// same raw value on the two sides (packages whose corpus has such a union)
			for i := 0; i < 4; i++ {
				mgMergeCase(p, rng.Int63(), "union-same-raw", &id, tf, sum, seen)
			}
			// directed: union leaf-lists that overlap without being equal
			for i := 0; i < 4; i++ {
				mgMergeCase(p, rng.Int63(), "unionll", &id, tf, sum, seen)
			}
			// directed: two different values of a leaf below an ordered-list entry held by both trees
			for i := 0; i < 4; i++ {
				mgMergeCase(p, rng.Int63(), "ordleaf", &id, tf, sum, seen)
			}
			for i := 0; i < shares[name]; i++ {
				mgMergeCase(p, rng.Int63(), "", &id, tf, sum, seen)
			}
		}
		fs, err := tf.write(out, "merge", 100)
		if err != nil {
			return nil, err
		}
		files = append(files, fs...)
	}
	sum.Cases = id
	sum.Extra = map[string]interface{}{"case_files": files}
	return sum, nil
}
