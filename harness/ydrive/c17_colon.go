//go:build verif

package main

// Stream "enumcolon" (property C17, extension): enumeration names that CONTAIN A COLON
// (enum "ipv4:unicast"; legal YANG, the generator maps ':' to _COLON in Go identifiers and keeps
// the YANG name in ΛEnum).  castToEnumValue compares util.StripModulePrefix(v.Name) with
// util.StripModulePrefix(value), and StripModulePrefix strips only when there is exactly one
// ':', so for such a name the compared key is the part after the ':'.
//
// Tables: every ΛEnum table with a ':' in some name of every registered generated package
// (yang/v-colon.yang -> vcolon_u) through the real generated types, plus fixed and random
// tables installed behind the dynamic GoEnum type of c17_enum.go.
// Cases (types of Corr/EnumCorr.v, checked against Scalar/EnumTable.v's model): EName for every
// defined value, UNSET and a few undefined values; ECast / EUnmarshal for every spelling variant
// of every name; ELeaf / EUnion / ESlice for a leaf, union leaf and leaf-list holding the value;
// EGenEnum for the numbering of the table from the YANG statement.
// Oracle (the C17 statement on the implementation):
//   enum/colon-name/roundtrip                 a defined value renders to a name that does not
//                                             parse back to the value (the name as input)
//   enum/colon-name/name-rejected             a defined name does not parse to its value
//   enum/colon-name/json-roundtrip            ConstructIETFJSON ; Unmarshal changes the value
//   enum/colon-name/render                    a defined value is not rendered as its name
//   enum/colon-name/foreign-prefix-accepted/<kind>   KNOWN weakness: the part after the ':'
//                                             alone, or behind any other prefix, is accepted
//                                             although it is not a name of the type
//   enum/colon-name/parse-accepts-unknown/<kind>     any other undefined string is accepted
//   enum/colon-name/same-suffix-confused      adversarial table "a:b","x:b": one name parses to
//                                             the other's value
//   enum/colon-name/table-ill-formed          a generated table fails the Go copy of tblc_okb
//   enum/colon-name/table-vs-schema           a generated table matches no YANG statement
//   enum/colon-name/panic/<where>

import (
	"encoding/json"
	"fmt"
	"math/rand"
	"os"
	"reflect"
	"sort"
	"strings"

	"github.com/openconfig/goyang/pkg/yang"
	"github.com/openconfig/ygot/internal/verifharness/reg"
	"github.com/openconfig/ygot/util"
	"github.com/openconfig/ygot/ygot"
)

func init() { streams["enumcolon"] = c17cStream }

// ---------------------------------------------------------------- tables

func c17cHasColon(t c17Table) bool {
	for _, e := range t.Entries {
		if strings.Contains(e.Name, ":") {
			return true
		}
	}
	return false
}

// c17cKey is the string castToEnumValue compares for a table name.
func c17cKey(name string) string { return util.StripModulePrefix(name) }

// c17cTableOK is the Go copy of Scalar/EnumColon.v's tblc_okb; it returns the failing checks.
func c17cTableOK(t c17Table) []string {
	var bad []string
	nums, keys := map[int64]bool{}, map[string]bool{}
	add := func(s string) {
		for _, b := range bad {
			if b == s {
				return
			}
		}
		bad = append(bad, s)
	}
	for _, e := range t.Entries {
		if nums[e.Num] {
			add("values-distinct")
		}
		nums[e.Num] = true
		k := c17cKey(e.Name)
		if keys[k] {
			add("keys-distinct")
		}
		keys[k] = true
		if e.Num == 0 {
			add("zero-free")
		}
		if k == "" || strings.Contains(e.Mod, ":") || (e.Mod != "" && strings.Contains(e.Name, ":")) {
			add("entries-wellformed")
		}
	}
	return bad
}

type c17cDyn struct {
	label string
	t     c17Table
	adv   bool // keys deliberately not distinct
	pool  bool // exhaustive scope: parse every string of c17cPool as well
}

func c17cFixedTables() []c17cDyn {
	mk := func(label string, adv bool, es ...c17Entry) c17cDyn {
		sort.Slice(es, func(i, j int) bool { return es[i].Num < es[j].Num })
		return c17cDyn{label: label, t: c17Table{Type: label, Entries: es}, adv: adv}
	}
	return []c17cDyn{
		mk("K0", false, c17Entry{Num: 1, Name: "ipv4:unicast"}, c17Entry{Num: 5, Name: "ipv6:labeled-unicast"}, c17Entry{Num: 7, Name: "plain"}),
		// two and more ':' (StripModulePrefix leaves the name alone), an empty prefix
		mk("K1", false, c17Entry{Num: 1, Name: "a:b:c"}, c17Entry{Num: 2, Name: "d"}, c17Entry{Num: 3, Name: "e:f"}, c17Entry{Num: 4, Name: ":x"}, c17Entry{Num: -3, Name: "g::h"}),
		// same prefix, different suffixes; a plain name equal to a prefix
		mk("K2", false, c17Entry{Num: 2, Name: "oc:up"}, c17Entry{Num: 3, Name: "oc:down"}, c17Entry{Num: 9, Name: "oc"}),
		// adversarial: the same part after the ':'
		mk("K3", true, c17Entry{Num: 1, Name: "a:b"}, c17Entry{Num: 2, Name: "x:b"}, c17Entry{Num: 3, Name: "c"}),
	}
}

var c17cPrefixes = []string{"ipv4", "ipv6", "l2vpn", "oc", "x", "y", "A", "ns-1", "p.q", "ü"}
var c17cSuffixes = []string{"unicast", "multicast", "labeled-unicast", "evpn", "up", "down", "one", "two", "B_c", "é", "z9", "flow.spec"}

// c17cRandomTable: 2..6 entries with distinct keys; about two thirds of the names have one ':'.
func c17cRandomTable(rng *rand.Rand, label string) c17cDyn {
	n := 2 + rng.Intn(5)
	perm := rng.Perm(len(c17cSuffixes))
	nums := map[int64]bool{0: true}
	var es []c17Entry
	for i := 0; i < n; i++ {
		suf := c17cSuffixes[perm[i]]
		name := suf
		switch r := rng.Intn(9); {
		case r < 6:
			name = c17cPrefixes[rng.Intn(len(c17cPrefixes))] + ":" + suf
		case r == 6:
			name = c17cPrefixes[rng.Intn(len(c17cPrefixes))] + ":" + c17cPrefixes[rng.Intn(len(c17cPrefixes))] + ":" + suf
		}
		var num int64
		for nums[num] {
			num = rng.Int63n(40) - 8
		}
		nums[num] = true
		es = append(es, c17Entry{Num: num, Name: name})
	}
	// keys must stay distinct: a name with two ':' is its own key and cannot collide with a suffix
	sort.Slice(es, func(i, j int) bool { return es[i].Num < es[j].Num })
	return c17cDyn{label: label, t: c17Table{Type: label, Entries: es}}
}

// ---------------------------------------------------------------- name variants

// c17cNameIn: one string parsed against a table and what the property says about it.
//
//	class "name":     a defined name, must parse to want
//	class "weak":     not a name of the type; the real code is known to accept it as want
//	                  (the key of a one-colon name alone or behind a foreign prefix)
//	class "lenient":  "zz:name" for a name without ':' (the lenient prefix of C18, counted)
//	class "prefixed": "m:name" for a name with ':' (counted; a finding only if it parses to
//	                  another value)
//	class "reject":   must be rejected
type c17cNameIn struct {
	s     string
	kind  string
	class string
	want  int64
}

func c17cNames(t c17Table) []c17cNameIn {
	var out []c17cNameIn
	names, seen := map[string]bool{}, map[string]bool{}
	for _, e := range t.Entries {
		names[e.Name] = true
	}
	add := func(in c17cNameIn) {
		if in.class != "name" && names[in.s] {
			return // literally another name of the table
		}
		if in.class == "reject" || in.class == "prefixed" {
			// the string may be a spelling of ANOTHER entry ("a" for the table "a:b", "x:a")
			if c := c17cClassify(t, in.s); c.class == "weak" || c.class == "lenient" {
				in = c
			}
		}
		if seen[in.s] {
			return
		}
		seen[in.s] = true
		out = append(out, in)
	}
	for _, e := range t.Entries {
		add(c17cNameIn{s: e.Name, kind: "name", class: "name", want: e.Num})
	}
	for i, e := range t.Entries {
		parts := strings.Split(e.Name, ":")
		switch len(parts) {
		case 1:
			add(c17cNameIn{s: "zz:" + e.Name, kind: "lenient-prefix", class: "lenient", want: e.Num})
			add(c17cNameIn{s: c17SwapCase(e.Name), kind: "wrong-case", class: "reject"})
		case 2:
			p, b := parts[0], parts[1]
			add(c17cNameIn{s: b, kind: "bare-suffix", class: "weak", want: e.Num})
			add(c17cNameIn{s: "zz:" + b, kind: "other-prefix", class: "weak", want: e.Num})
			add(c17cNameIn{s: ":" + b, kind: "empty-prefix", class: "weak", want: e.Num})
			add(c17cNameIn{s: c17SwapCase(p) + ":" + b, kind: "case-prefix", class: "weak", want: e.Num})
			for j, o := range t.Entries {
				if op := strings.Split(o.Name, ":"); j != i && len(op) == 2 && op[0] != p {
					add(c17cNameIn{s: op[0] + ":" + b, kind: "cross-prefix", class: "weak", want: e.Num})
					break
				}
			}
			add(c17cNameIn{s: "c17c-mod:" + e.Name, kind: "module-prefixed", class: "prefixed", want: e.Num})
			add(c17cNameIn{s: p + ":" + c17SwapCase(b), kind: "wrong-case-suffix", class: "reject"})
			add(c17cNameIn{s: p, kind: "prefix-only", class: "reject"})
			add(c17cNameIn{s: p + ":", kind: "prefix-colon", class: "reject"})
			add(c17cNameIn{s: e.Name + ":", kind: "trailing-colon", class: "reject"})
		default:
			add(c17cNameIn{s: "zz:" + e.Name, kind: "prefix-before-two-colons", class: "reject"})
			add(c17cNameIn{s: strings.Join(parts[1:], ":"), kind: "first-prefix-dropped", class: "reject"})
			add(c17cNameIn{s: parts[len(parts)-1], kind: "last-segment", class: "reject"})
		}
		add(c17cNameIn{s: e.Name + " ", kind: "trailing-space", class: "reject"})
	}
	for _, s := range []string{"c17c-no-such-name", "", ":", "::", "UNSET", "0"} {
		add(c17cNameIn{s: s, kind: "unknown", class: "reject"})
	}
	return out
}

// c17cPool: the names of the exhaustive scope (thorough tier); every string of the pool is also
// parsed against every table of the scope.
var c17cPool = []string{"a", "b", "a:b", "b:a", "x:a", "x:b", ":a", "a:", "a:x:b", "", ":"}

// c17cClassify says what the property expects of an arbitrary string (see c17cNameIn).
func c17cClassify(t c17Table, s string) c17cNameIn {
	for _, e := range t.Entries {
		if e.Name == s {
			return c17cNameIn{s: s, kind: "name", class: "name", want: e.Num}
		}
	}
	sp := strings.Split(s, ":")
	for _, e := range t.Entries {
		ep := strings.Split(e.Name, ":")
		switch {
		case len(ep) == 1 && len(sp) == 2 && sp[1] == e.Name:
			return c17cNameIn{s: s, kind: "lenient-prefix", class: "lenient", want: e.Num}
		case len(ep) == 2 && len(sp) <= 2 && sp[len(sp)-1] == ep[1]:
			return c17cNameIn{s: s, kind: "other-name-suffix", class: "weak", want: e.Num}
		case len(ep) >= 2 && len(sp) == len(ep)+1 && strings.Join(sp[1:], ":") == e.Name:
			return c17cNameIn{s: s, kind: "module-prefixed", class: "prefixed", want: e.Num}
		}
	}
	return c17cNameIn{s: s, kind: "unknown", class: "reject"}
}

// c17cExhaustive: every two-entry table over the pool whose keys are distinct and non-empty.
func c17cExhaustive() []c17cDyn {
	var out []c17cDyn
	for i, a := range c17cPool {
		for _, b := range c17cPool[i+1:] {
			t := c17Table{Type: fmt.Sprintf("X%d", len(out)), Entries: []c17Entry{{Num: 1, Name: a}, {Num: 2, Name: b}}}
			if len(c17cTableOK(t)) == 0 {
				out = append(out, c17cDyn{label: t.Type, t: t, pool: true})
			}
		}
	}
	return out
}

// c17cParsed shows a parse outcome: the value, or the error.
func c17cParsed(r c17Res) string {
	if r.ok() {
		return fmt.Sprintf("Ok %d", r.num)
	}
	return r.brief()
}

// ---------------------------------------------------------------- the run

type c17cRun struct {
	c17Run
	dupKey map[string]bool // keys shared by two entries of the current table
}

func (r *c17cRun) setTable(t c17Table) {
	cnt := map[string]int{}
	for _, e := range t.Entries {
		cnt[c17cKey(e.Name)]++
	}
	r.dupKey = map[string]bool{}
	for k, c := range cnt {
		if c > 1 {
			r.dupKey[k] = true
		}
	}
}

// values: EName cases and the value -> name -> value oracle.
func (r *c17cRun) values(cf *caseFile, pkg, ty, envTy string, t c17Table, T reflect.Type, tn string, nUndef int) {
	defined, undef := c17Values(r.rng, t, nUndef)
	for _, n := range append(append([]int64{}, defined...), undef...) {
		if !r.filter.value(pkg, ty, n) || (r.filter != nil && r.filter.Site != "" && r.filter.Site != "cast") {
			continue
		}
		n := n
		e := c17EnumOf(T, n)
		name, logs, key, tv := c17Name(e), c17Log(e, n, tn), c17Key(e), c17Typed(e)
		cf.add(fmt.Sprintf("EName %d %s %s %s %s %s %s", r.id, coqStr(envTy), coqZ(n), name.strTerm(), logs.optTerm(), key.strTerm(), tv.strTerm()))
		r.id++
		ent, isDef := t.lookup(n)
		cls := "undefined"
		switch {
		case n == 0:
			cls = "unset"
		case isDef && strings.Contains(ent.Name, ":"):
			cls = "defined-colon-name"
		case isDef:
			cls = "defined-plain-name"
		}
		r.sum.count("value_class", cls)
		r.nontrivial("v|" + t.content() + fmt.Sprint(n))
		r.sum.OracleRuns++
		obs := map[string]string{"EnumName": name.brief(), "EnumLogString": logs.brief(), "KeyValueAsString": key.brief(), "EncodeTypedValue": tv.brief()}
		for w, o := range map[string]c17Res{"enum-name": name, "key-string": key, "typed-value": tv} {
			if o.pan {
				r.find("enum/colon-name/panic/"+w, "panic: "+o.msg, pkg, ty, &n, nil, w, obs)
			}
		}
		if !isDef || n == 0 {
			continue // UNSET and undefined values: the "enum" stream's oracle (nothing colon specific)
		}
		if !name.ok() || name.val != ent.Name || !key.ok() || key.val != ent.Name || !tv.ok() || tv.val != ent.Name {
			r.find("enum/colon-name/render", fmt.Sprintf("defined value %d must render as %q: EnumName %s, KeyValueAsString %s, EncodeTypedValue %s", n, ent.Name, name.brief(), key.brief(), tv.brief()), pkg, ty, &n, nil, "enum-name", obs)
			continue
		}
		if r.dupKey[c17cKey(ent.Name)] {
			r.sum.count("roundtrip", "skipped-duplicate-key")
			continue
		}
		back := c17Cast(T, name.val)
		obs["StringToType"] = c17cParsed(back)
		if !back.ok() || back.num != n {
			nm := name.val
			r.find("enum/colon-name/roundtrip", fmt.Sprintf("value %d renders as %q, which parses back (ytypes.StringToType / castToEnumValue) as %s instead of %d", n, name.val, c17cParsed(back), n), pkg, ty, &n, &nm, "cast", obs)
			r.sum.count("roundtrip", "FAILED")
		} else {
			r.sum.count("roundtrip", "ok")
		}
		if len(r.sum.Samples) < 2 && strings.Contains(ent.Name, ":") {
			r.sum.sample(map[string]interface{}{"pkg": pkg, "type": ty, "value": n, "observed": obs})
		}
	}
}

// judge applies the property to one parsed spelling; where = cast | leaf-unmarshal.
func (r *c17cRun) judge(pkg, ty string, in c17cNameIn, got c17Res, where string) {
	r.sum.OracleRuns++
	verb := map[string]string{"cast": "parses", "leaf-unmarshal": "unmarshals"}[where]
	switch {
	case got.pan:
		r.find("enum/colon-name/panic/"+where, "panic: "+got.msg, pkg, ty, nil, &in.s, where, c17cParsed(got))
	case in.class == "name":
		if !got.ok() || got.num != in.want {
			r.find("enum/colon-name/name-rejected", fmt.Sprintf("the defined name %q must %s to %d, got %s", in.s, strings.TrimSuffix(verb, "s"), in.want, c17cParsed(got)), pkg, ty, nil, &in.s, where, c17cParsed(got))
		}
	case in.class == "weak":
		if got.ok() {
			r.find("enum/colon-name/foreign-prefix-accepted/"+in.kind, fmt.Sprintf("%q is not a name of the type but %s to %d: castToEnumValue compares StripModulePrefix of the table name, i.e. only the part after the ':' of a name that contains one", in.s, verb, got.num), pkg, ty, nil, &in.s, where, c17cParsed(got))
		}
		r.sum.count("weak_spelling_"+where, in.kind+":"+map[bool]string{true: "accepted", false: "rejected"}[got.ok()])
	case in.class == "lenient":
		r.sum.count("lenient_prefix_"+where, map[bool]string{true: "accepted", false: "rejected"}[got.ok()]) // C18's decode/foreign-module-prefix
		if got.ok() && got.num != in.want {
			r.find("enum/colon-name/parse-accepts-unknown/"+in.kind, fmt.Sprintf("%q %s to %d, not to the value %d of the name behind the prefix", in.s, verb, got.num, in.want), pkg, ty, nil, &in.s, where, c17cParsed(got))
		}
	case in.class == "prefixed":
		r.sum.count("module_prefixed_colon_name_"+where, map[bool]string{true: "accepted", false: "rejected"}[got.ok()])
		if got.ok() && got.num != in.want {
			r.find("enum/colon-name/parse-accepts-unknown/"+in.kind, fmt.Sprintf("%q %s to %d, not to the value %d of the name behind the prefix", in.s, verb, got.num, in.want), pkg, ty, nil, &in.s, where, c17cParsed(got))
		}
	default:
		if got.ok() {
			r.find("enum/colon-name/parse-accepts-unknown/"+in.kind, fmt.Sprintf("%q is not a name of the type but %s to %d", in.s, verb, got.num), pkg, ty, nil, &in.s, where, c17cParsed(got))
		}
	}
}

// casts: ECast cases for every spelling variant.
func (r *c17cRun) casts(cf *caseFile, pkg, ty, envTy string, t c17Table, T reflect.Type, extra []string) {
	ins := c17cNames(t)
	have := map[string]bool{}
	for _, in := range ins {
		have[in.s] = true
	}
	for _, s := range extra {
		if !have[s] {
			have[s] = true
			ins = append(ins, c17cClassify(t, s))
		}
	}
	for _, in := range ins {
		if !r.filter.name(pkg, ty, in.s) || (r.filter != nil && (r.filter.Value != nil || (r.filter.Site != "" && r.filter.Site != "cast"))) {
			continue
		}
		if r.dupKey[c17cKey(in.s)] {
			r.sum.count("parse_kind", "skipped-duplicate-key")
			continue
		}
		got := c17Cast(T, in.s)
		cf.add(fmt.Sprintf("ECast %d %s %s %s", r.id, coqStr(envTy), coqStr(in.s), got.numTerm()))
		r.id++
		r.sum.count("parse_kind", in.kind)
		r.sum.count("parse_outcome", in.class+":"+map[bool]string{true: "ok", false: "err"}[got.ok()])
		r.nontrivial("s|" + t.content() + in.s)
		r.judge(pkg, ty, in, got, "cast")
	}
}

// confused: the adversarial table; "x:b" must be seen to parse to the value of "a:b" or back.
func (r *c17cRun) confused(pkg string, t c17Table, T reflect.Type) {
	for _, e := range t.Entries {
		if !r.dupKey[c17cKey(e.Name)] || !r.filter.name(pkg, t.Type, e.Name) {
			continue
		}
		r.sum.OracleRuns++
		for i := 0; i < 64; i++ { // castToEnumValue ranges over a Go map
			got := c17Cast(T, e.Name)
			if got.ok() && got.num != e.Num {
				nm := e.Name
				r.find("enum/colon-name/same-suffix-confused", fmt.Sprintf("the defined name %q (value %d) parses to %d: another name of the type has the same part after the ':' (adversarial table only)", e.Name, e.Num, got.num), pkg, t.Type, nil, &nm, "cast", c17cParsed(got))
				break
			}
		}
	}
}

// c17cDoc is ConstructIETFJSON's output as a JSON document.
func c17cDoc(root ygot.GoStruct, pmi bool) (jb []byte, r c17Res) {
	r = c17Try(func() c17Res {
		m, err := ygot.ConstructIETFJSON(root, &ygot.RFC7951JSONConfig{PrependModuleNameIdentityref: pmi})
		if err != nil {
			return c17Err(err)
		}
		b, err := json.Marshal(m)
		if err != nil {
			return c17Err(err)
		}
		jb = b
		return c17Res{}
	})
	return jb, r
}

// sites: ELeaf / EUnion / ESlice / EUnmarshal cases through the generated structs of a compiled
// package, with the JSON round trip of the whole document.
func (r *c17cRun) sites(cf *caseFile, p *reg.Pkg, pkg string, t c17Table, T reflect.Type, sites []c17Site, root ygot.ValidatedGoStruct) {
	etm := root.ΛEnumTypeMap()
	var chosen []c17Site
	kinds := map[string]bool{}
	for _, s := range sites {
		if kinds[s.kind] {
			continue
		}
		ok := false
		switch s.kind {
		case "leaf":
			ok = s.ft == T
		case "leaflist":
			ok = s.ft.Elem() == T
		case "union":
			for _, et := range etm[schemaDataPath(s.entry)] {
				if et == T {
					if _, _, built := c17Build(p, s, T, []int64{1}); built {
						ok = true
					}
				}
			}
		}
		if ok {
			kinds[s.kind] = true
			chosen = append(chosen, s)
		}
	}
	if len(chosen) == 0 {
		r.sum.count("sites", "type-without-container-leaf")
	}
	var vals []int64
	for _, e := range t.Entries {
		vals = append(vals, e.Num)
	}
	vals = append(vals, 0)
	for _, s := range chosen {
		r.sum.count("sites", s.kind)
		for _, n := range vals {
			if !r.filter.value(pkg, t.Type, n) || (r.filter != nil && strings.SplitN(r.filter.Site, "-", 2)[0] != s.kind) {
				continue
			}
			n := n
			ent, isDef := t.lookup(n)
			for _, pmi := range []bool{false, true} {
				ns := []int64{n}
				if s.kind == "leaflist" && pmi && n != 0 {
					ns = []int64{t.Entries[0].Num, n}
					if ns[0] == n {
						ns = []int64{n, t.Entries[len(t.Entries)-1].Num}
					}
				}
				rt, _, ok := c17Build(p, s, T, ns)
				if !ok {
					continue
				}
				list := s.kind == "leaflist"
				js := c17JSONAt(rt, s.jpath, pmi, list)
				gn := c17GNMIAt(rt, list)
				var nsT []string
				for _, x := range ns {
					nsT = append(nsT, coqZ(x))
				}
				switch s.kind {
				case "leaf":
					cf.add(fmt.Sprintf("ELeaf %d %s %s %s %s %s", r.id, coqStr(t.Type), coqZ(n), coqBool(pmi), js.optTerm(), gn.optTerm()))
				case "union":
					cf.add(fmt.Sprintf("EUnion %d %s %s %s %s %s %s", r.id, coqBool(p.Flags["wrapper_unions"]), coqStr(t.Type), coqZ(n), coqBool(pmi), js.optTerm(), gn.optTerm()))
				case "leaflist":
					cf.add(fmt.Sprintf("ESlice %d %s %s %s %s %s", r.id, coqStr(t.Type), coqList(nsT), coqBool(pmi), js.listTerm(), gn.listTerm()))
				}
				r.id++
				r.sum.count("site_json_outcome", s.kind+":"+map[bool]string{true: "ok", false: "err"}[js.ok()])
				r.nontrivial(fmt.Sprintf("site|%s|%s|%v|%v", t.content(), s.kind, ns, pmi))
				r.sum.OracleRuns++
				if !isDef || n == 0 {
					continue
				}
				obs := map[string]string{"field": s.goPth, "json": js.brief(), "gnmi": gn.brief()}
				var want []string
				for _, x := range ns {
					xe, _ := t.lookup(x)
					want = append(want, xe.Name)
				}
				for w, o := range map[string]c17Res{"json": js, "gnmi": gn} {
					where := s.kind + "-" + w
					good := o.ok() && !o.none
					if good && list {
						good = reflect.DeepEqual(o.strs, want)
					} else if good {
						good = o.val == ent.Name
					}
					switch {
					case o.pan:
						r.find("enum/colon-name/panic/"+where, "panic: "+o.msg, pkg, t.Type, &n, nil, where, obs)
					case !good:
						r.find("enum/colon-name/render", fmt.Sprintf("a %s holding %v must render as %q, got %s", s.kind, ns, want, o.brief()), pkg, t.Type, &n, nil, where, obs)
					}
				}
				// the JSON document back through the generated Unmarshal
				if jb, dr := c17cDoc(rt, pmi); dr.ok() {
					back := p.NewRoot()
					ur := c17Try(func() c17Res {
						if err := p.Unmarshal(jb, back); err != nil {
							return c17Err(err)
						}
						return c17Res{}
					})
					obs["document"] = string(jb)
					switch {
					case ur.pan:
						r.find("enum/colon-name/panic/"+s.kind+"-unmarshal", "panic: "+ur.msg, pkg, t.Type, &n, nil, s.kind+"-unmarshal", obs)
					case !ur.ok():
						r.find("enum/colon-name/json-roundtrip", fmt.Sprintf("ConstructIETFJSON renders a %s holding %v as %s, which Unmarshal rejects: %s", s.kind, ns, jb, ur.msg), pkg, t.Type, &n, nil, s.kind+"-unmarshal", obs)
					case !reflect.DeepEqual(rt, back):
						r.find("enum/colon-name/json-roundtrip", fmt.Sprintf("ConstructIETFJSON ; Unmarshal of a %s holding %v (%s) gives a different struct", s.kind, ns, jb), pkg, t.Type, &n, nil, s.kind+"-unmarshal", obs)
					}
					r.sum.count("json_roundtrip", s.kind+":"+map[bool]string{true: "ok", false: "FAILED"}[ur.ok() && reflect.DeepEqual(rt, back)])
					r.sum.OracleRuns++
				}
			}
		}
		if s.kind != "leaf" {
			continue
		}
		for _, in := range c17cNames(t) {
			if !r.filter.name(pkg, t.Type, in.s) || (r.filter != nil && (r.filter.Value != nil || r.filter.Site != "leaf-unmarshal")) {
				continue
			}
			got := c17UnmarshalAt(p, s, in.s)
			cf.add(fmt.Sprintf("EUnmarshal %d %s %s %s", r.id, coqStr(t.Type), coqStr(in.s), got.numTerm()))
			r.id++
			r.sum.count("unmarshal_outcome", in.class+":"+map[bool]string{true: "ok", false: "err"}[got.ok()])
			r.nontrivial("u|" + t.content() + in.s)
			r.judge(pkg, t.Type, in, got, "leaf-unmarshal")
		}
	}
}

func c17cStream(rng *rand.Rand, n int, tier string, out string) (*Summary, error) {
	sum := &Summary{Rule: "every ΛEnum table with a ':' in some name of every registered generated package (yang/v-colon.yang: typedef, inline, leaf-list and union-member enumerations) through the real generated types, and fixed + random colon-name tables (one ':' / two ':' / empty prefix / none; distinct keys, one adversarial table with equal suffixes) behind the dynamic GoEnum type: every defined value, UNSET and undefined values through EnumName / EnumLogString+String / KeyValueAsString / EncodeTypedValue, and through ConstructIETFJSON (both PrependModuleNameIdentityref settings), TogNMINotifications and the JSON round trip of a leaf, union leaf and leaf-list; every spelling variant of every name (name, bare suffix, other/empty/case-changed/cross prefix, module-prefixed, wrong-case suffix, prefix only, trailing colon/space, unknown) through StringToType/castToEnumValue and the generated Unmarshal; one EGenEnum case per generated table; thorough tier: every two-name table over a pool of 11 short names and every pool string parsed against it. Non-trivial = all; distinct by (table content, value or string, site)."}
	r := &c17cRun{c17Run: c17Run{sum: sum, rng: rng, tier: tier, seen: map[string]bool{}}}
	if replayFile != "" {
		b, err := os.ReadFile(replayFile)
		if err != nil {
			return nil, err
		}
		var rp struct {
			Case c17Filter `json:"case"`
		}
		if err := json.Unmarshal(b, &rp); err != nil {
			return nil, err
		}
		r.filter = &rp.Case
	}
	nUndef := 6
	if tier == "thorough" {
		nUndef = 30
	}
	var files []string

	// ---- compiled packages
	colonPkgs := 0
	for _, name := range reg.AllNames() {
		if r.filter != nil && r.filter.Pkg != name {
			continue
		}
		p := reg.Get(name)
		var tables []c17Table
		var tnames []string
		for tn := range p.Enum {
			tnames = append(tnames, tn)
		}
		sort.Strings(tnames)
		for _, tn := range tnames {
			if t := c17TableOf(tn, p.Enum[tn]); c17cHasColon(t) {
				tables = append(tables, t)
			}
		}
		if len(tables) == 0 {
			sum.count("packages", "without-colon-names")
			continue
		}
		colonPkgs++
		sum.count("packages", "with-colon-names")
		cf := &caseFile{typ: "ecase", fn: "emismatches env", header: c17Header(c17EnvTerm(tables))}
		root := p.NewRoot()
		types := map[string]reflect.Type{}
		for _, ts := range root.ΛEnumTypeMap() {
			for _, t := range ts {
				types[t.Name()] = t
			}
		}
		var sites []c17Site
		rt := reflect.TypeOf(root).Elem()
		c17Walk(rt, p.SchemaTree[rt.Name()], nil, nil, rt.Name(), &sites)
		var specs []c17Spec
		c17SpecsOfEntry(p.SchemaTree[rt.Name()], map[*yang.Entry]bool{}, &specs)
		for _, t := range tables {
			if r.filter != nil && r.filter.Type != t.Type {
				continue
			}
			r.setTable(t)
			if r.filter.table(name, t.Type) {
				sum.OracleRuns++
				if bad := c17cTableOK(t); len(bad) > 0 {
					r.find("enum/colon-name/table-ill-formed", fmt.Sprintf("generated table %v fails %v (keys = names after StripModulePrefix)", t.Entries, bad), name, t.Type, nil, nil, "", nil)
				}
				match := false
				for _, sp := range specs {
					if sp.kind == "enumeration" && c17SpecMatches(t, sp) {
						cf.add(sp.genTerm(r.id, t.Type))
						r.id++
						match = true
						break
					}
				}
				if !match {
					r.find("enum/colon-name/table-vs-schema", fmt.Sprintf("generated table %v equals no enumeration statement (value+1 numbering) of the schema", t.Entries), name, t.Type, nil, nil, "", nil)
				}
				sum.count("schema_match", map[bool]string{true: "enumeration", false: "none"}[match])
			}
			T, ok := types[t.Type]
			if !ok {
				sum.count("tables", "compiled-without-go-type")
				continue
			}
			sum.count("tables", "compiled")
			r.values(cf, name, t.Type, t.Type, t, T, t.Type, nUndef)
			r.casts(cf, name, t.Type, t.Type, t, T, nil)
			r.sites(cf, p, name, t, T, sites, root)
		}
		fs, err := cf.write(out, "enumcolon_"+name, 400)
		if err != nil {
			return nil, err
		}
		files = append(files, fs...)
		r.total, r.id = r.total+r.id, 0
	}
	if colonPkgs == 0 {
		sum.count("packages", "NONE-with-colon-names")
	}

	// ---- fixed and random tables behind the dynamic type
	dyn := c17cFixedTables()
	nRand := n / 40
	if tier == "thorough" {
		nRand = n / 25
	}
	for i := 0; i < nRand; i++ {
		dyn = append(dyn, c17cRandomTable(rng, fmt.Sprintf("R%d", i)))
	}
	if tier == "thorough" {
		dyn = append(dyn, c17cExhaustive()...)
	}
	// groups of 30 tables, each with its own env and case ids (ids are Coq nats: kept small)
	T := reflect.TypeOf(c17DynEnum(0))
	for g := 0; g*30 < len(dyn); g++ {
		group := dyn[g*30:]
		if len(group) > 30 {
			group = group[:30]
		}
		var env []c17Table
		for _, d := range group {
			env = append(env, d.t)
		}
		cf := &caseFile{typ: "ecase", fn: "emismatches env", header: c17Header(c17EnvTerm(env))}
		for _, d := range group {
			pkg := "colon:dyn"
			if r.filter != nil && (r.filter.Pkg != pkg || r.filter.Type != d.label) {
				continue
			}
			sum.count("tables", map[bool]string{true: "dynamic-adversarial", false: "dynamic"}[d.adv]+map[bool]string{true: "-exhaustive-scope", false: ""}[d.pool])
			c17InstallDyn(d.t)
			r.setTable(d.t)
			if bad := c17cTableOK(d.t); (len(bad) > 0) != d.adv {
				return nil, fmt.Errorf("enumcolon: table %s: well-formedness %v does not match its declaration", d.label, bad)
			}
			r.values(cf, pkg, d.label, d.label, d.t, T, "c17DynEnum", nUndef)
			var extra []string
			if d.pool {
				extra = c17cPool
			}
			r.casts(cf, pkg, d.label, d.label, d.t, T, extra)
			if d.adv {
				r.confused(pkg, d.t, T)
			}
		}
		fs, err := cf.write(out, fmt.Sprintf("enumcolon_dyn%d", g), 400)
		if err != nil {
			return nil, err
		}
		files = append(files, fs...)
		r.total, r.id = r.total+r.id, 0
	}
	sum.Cases = r.total
	sum.Extra = map[string]interface{}{"case_files": files, "packages_with_colon_names": colonPkgs}
	return sum, nil
}
