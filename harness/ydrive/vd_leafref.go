//go:build verif

package main

// vd_leafref.go — stream "leafref" (property C30): random trees of every generated package in
// which about half of the leafref leaves have been made to point at existing data (by writing
// the referring value into the node the path selects) and the rest are left with their random
// values; each tree is validated three ways: without LeafrefOptions, with
// &LeafrefOptions{} and with &LeafrefOptions{IgnoreMissingData: true}.  "A leafref error was
// reported" is compared with the Coq model (Tree/Leafref.v: validate_leafrefs, and the
// denotational `satisfied`).  Oracle, independent of the model: the leafref path of every set
// leafref leaf is evaluated by brute force on the leaf map of leafmap.go; an error must be
// reported exactly when some value is not among the selected values (never with
// IgnoreMissingData).  In compressed code a leafref list key and the leaf it refers to are the
// same struct field, so no leafref can dangle there.

import (
	"fmt"
	"math/rand"
	"reflect"
	"sort"
	"strings"

	"github.com/openconfig/goyang/pkg/yang"
	"github.com/openconfig/ygot/internal/verifharness/reg"
	"github.com/openconfig/ygot/util"
	"github.com/openconfig/ygot/ygot"
	"github.com/openconfig/ygot/ytypes"
)

func init() { streams["leafref"] = vdLeafrefStream }

type vdLrPath struct {
	abs   bool
	up    int
	down  []string
	raw   string
	model bool // inside the modelled XPath subset
}

func vdParseLeafref(path string) vdLrPath {
	p := vdLrPath{raw: path, model: !strings.ContainsAny(path, "[]()")}
	s := util.StripModulePrefixesStr(path)
	if strings.HasPrefix(s, "/") {
		p.abs = true
		s = strings.TrimPrefix(s, "/")
	}
	for _, el := range strings.Split(s, "/") {
		switch {
		case el == "..":
			if len(p.down) > 0 {
				p.model = false
			}
			p.up++
		case el == "" || el == ".":
			p.model = false
		default:
			p.down = append(p.down, el)
		}
	}
	return p
}

func (p vdLrPath) term() string {
	return fmt.Sprintf("{| lr_abs := %s; lr_up := %d%%nat; lr_down := %s |}", coqBool(p.abs), p.up, coqStrList(p.down))
}

// vdLeafrefTable: Go field names from the root struct -> leafref path, for every (field,
// path-tag alternative) whose schema node is a leafref leaf: what ForEachField visits.
func vdLeafrefTable(st reflect.Type, e *yang.Entry, gp []string, out map[string]vdLrPath) {
	for i := 0; i < st.NumField(); i++ {
		sf := st.Field(i)
		if _, ok := sf.Tag.Lookup("path"); !ok {
			continue
		}
		ps, err := util.SchemaPaths(sf)
		if err != nil {
			continue
		}
		here := append(append([]string{}, gp...), sf.Name)
		var first *yang.Entry
		for _, p := range ps {
			ce := util.FirstChild(e, p)
			if ce == nil {
				continue
			}
			if first == nil {
				first = ce
			}
			if ce.IsLeaf() && util.IsLeafRef(ce) {
				out[strings.Join(here, "/")] = vdParseLeafref(ce.Type.Path)
			}
		}
		if first == nil {
			continue
		}
		ft := sf.Type
		switch {
		case isOrderedMapType(ft):
			vdLeafrefTable(entryTypeOfOrderedMap(ft), first, here, out)
		case ft.Kind() == reflect.Map && ft.Elem().Kind() == reflect.Ptr:
			vdLeafrefTable(ft.Elem().Elem(), first, here, out)
		case ft.Kind() == reflect.Slice && ft.Elem().Kind() == reflect.Ptr && ft.Elem().Elem().Kind() == reflect.Struct:
			vdLeafrefTable(ft.Elem().Elem(), first, here, out)
		case ft.Kind() == reflect.Ptr && ft.Elem().Kind() == reflect.Struct:
			vdLeafrefTable(ft.Elem(), first, here, out)
		}
	}
}

// vdLrLeaf is one set leafref leaf found in a tree.
type vdLrLeaf struct {
	gp      string          // Go names joined by "/"
	elems   []string        // leaf-map path elements (with key predicates), the leaf last
	value   reflect.Value   // the field value
	term    string          // leaf-map term of the value
	structs []reflect.Value // enclosing struct pointers, outermost first
	lp      vdLrPath
}

func vdFindLeafrefs(tab map[string]vdLrPath, v reflect.Value, gp []string, elems []string, structs []reflect.Value, out *[]vdLrLeaf) {
	if v.Kind() == reflect.Interface {
		v = v.Elem()
	}
	if v.Kind() != reflect.Ptr || v.IsNil() {
		return
	}
	s := v.Elem()
	structs = append(append([]reflect.Value{}, structs...), v)
	for i := 0; i < s.NumField(); i++ {
		sf := s.Type().Field(i)
		tag, ok := sf.Tag.Lookup("path")
		if !ok {
			continue
		}
		alt := strings.Split(tag, "|")[0]
		here := append(append([]string{}, gp...), sf.Name)
		el := append(append([]string{}, elems...), strings.Split(alt, "/")...)
		fv := s.Field(i)
		ft := sf.Type
		switch {
		case isOrderedMapType(ft):
			if fv.IsNil() {
				continue
			}
			for _, en := range orderedEntries(fv.Interface().(ygot.GoOrderedMap)) {
				kp := keyPredicate(keyNamesOf(entryTypeOfOrderedMap(ft), nil, true, len(en.keys)), en.keys)
				e2 := append([]string{}, el...)
				e2[len(e2)-1] += kp
				vdFindLeafrefs(tab, en.entry, here, e2, structs, out)
			}
		case ft.Kind() == reflect.Map:
			for _, k := range vdSortedMapKeys(fv) {
				ks := keyValues(k)
				kp := keyPredicate(keyNamesOf(ft.Elem().Elem(), ft.Key(), false, len(ks)), ks)
				e2 := append([]string{}, el...)
				e2[len(e2)-1] += kp
				vdFindLeafrefs(tab, fv.MapIndex(k), here, e2, structs, out)
			}
		case ft.Kind() == reflect.Ptr && ft.Elem().Kind() == reflect.Struct:
			vdFindLeafrefs(tab, fv, here, el, structs, out)
		case ft.Kind() == reflect.Slice && ft.Elem().Kind() == reflect.Ptr && ft.Elem().Elem().Kind() == reflect.Struct:
			for j := 0; j < fv.Len(); j++ {
				e2 := append([]string{}, el...)
				e2[len(e2)-1] += "[" + string(rune('0'+j)) + "]"
				vdFindLeafrefs(tab, fv.Index(j), here, e2, structs, out)
			}
		default:
			lp, isRef := tab[strings.Join(here, "/")]
			if !isRef {
				continue
			}
			if t, ok := fieldTerm(fv); ok && strings.HasPrefix(t, "(TLeaf ") {
				*out = append(*out, vdLrLeaf{gp: strings.Join(here, "/"), elems: el, value: fv, term: t, structs: structs, lp: lp})
			}
		}
	}
}

func vdFieldByTag(s reflect.Value, name string) (reflect.Value, reflect.StructField, bool) {
	for i := 0; i < s.NumField(); i++ {
		sf := s.Type().Field(i)
		for _, alt := range strings.Split(sf.Tag.Get("path"), "|") {
			if alt == name {
				return s.Field(i), sf, true
			}
		}
	}
	return reflect.Value{}, reflect.StructField{}, false
}

// vdSatisfy writes the referring value into the node(s) the downward path selects below the
// struct sp, creating containers and (for a list whose key is the final leaf) the entry.
func vdSatisfy(sp reflect.Value, down []string, val reflect.Value) bool {
	if len(down) == 0 || sp.Kind() != reflect.Ptr || sp.IsNil() {
		return false
	}
	fv, sf, ok := vdFieldByTag(sp.Elem(), down[0])
	if !ok {
		return false
	}
	ft := sf.Type
	switch {
	case len(down) == 1:
		if !val.Type().AssignableTo(ft) {
			return false
		}
		if ft.Kind() == reflect.Ptr {
			np := reflect.New(ft.Elem())
			np.Elem().Set(val.Elem())
			fv.Set(np)
		} else {
			fv.Set(val)
		}
		return true
	case ft.Kind() == reflect.Ptr && ft.Elem().Kind() == reflect.Struct:
		if fv.IsNil() {
			fv.Set(reflect.New(ft.Elem()))
		}
		return vdSatisfy(fv, down[1:], val)
	case ft.Kind() == reflect.Map && len(down) == 2:
		kv := val
		if kv.Kind() == reflect.Ptr {
			kv = kv.Elem()
		}
		if !kv.Type().AssignableTo(ft.Key()) {
			return false
		}
		if fv.IsNil() {
			fv.Set(reflect.MakeMap(ft))
		}
		if fv.MapIndex(kv).IsValid() {
			return true
		}
		ent := reflect.New(ft.Elem().Elem())
		if !vdSatisfy(ent, down[1:], val) {
			return false
		}
		fv.SetMapIndex(kv, ent)
		return true
	}
	return false
}

// vdTargets evaluates the leafref path by brute force on the leaf map.
func vdTargets(lm map[string]string, l vdLrLeaf) (vals map[string]bool, ok bool) {
	vals = map[string]bool{}
	var prefix []string
	if l.lp.abs {
		prefix = nil
	} else {
		if l.lp.up > len(l.elems) {
			return vals, false // above the root
		}
		prefix = l.elems[:len(l.elems)-l.lp.up]
	}
	pre := ""
	for _, e := range prefix {
		pre += "/" + e
	}
	for k, v := range lm {
		if !strings.HasPrefix(k, pre+"/") || strings.Contains(k, "#") {
			continue
		}
		rest := strings.Split(strings.TrimPrefix(k, pre+"/"), "/")
		if len(rest) != len(l.lp.down) {
			continue
		}
		match := true
		for i, r := range rest {
			if j := strings.Index(r, "["); j >= 0 {
				r = r[:j]
			}
			if r != l.lp.down[i] {
				match = false
			}
		}
		if match {
			vals[v] = true
		}
	}
	return vals, true
}

func vdLeafrefErrors(err error) (leafref []string, other []string) {
	for _, s := range vdFlatErrors(err) {
		if strings.Contains(s, "leafref path") || strings.Contains(s, "pointed-to value") || strings.Contains(s, "no parent for leafref") {
			leafref = append(leafref, s)
		} else if vdClassify(s) != "" {
			other = append(other, s)
		}
	}
	return
}

// vdProbeLeafrefFix: does Validate(&LeafrefOptions{IgnoreMissingData: false}) report a dangling
// leafref (the proposed repair of leafrefErrOrLog)?  Probed on the first package that has a
// dangling-capable leafref: a fresh root whose only leaf is a leafref.
func vdProbeLeafrefFix() bool {
	for _, name := range reg.Names() {
		p := reg.Get(name)
		if p.Flags["compress"] {
			continue
		}
		for seed := int64(1); seed < 40; seed++ {
			g := newTreeGen(rand.New(rand.NewSource(seed)), p)
			g.pField = 0.8
			g.nastyStr = false
			root := g.genTree()
			eNil, _ := vdSafeValidate(root)
			lrNil, _ := vdLeafrefErrors(eNil)
			if len(lrNil) == 0 {
				continue
			}
			eOpt, _ := vdSafeValidate(root, &ytypes.LeafrefOptions{})
			lrOpt, _ := vdLeafrefErrors(eOpt)
			return len(lrOpt) > 0
		}
	}
	return false
}

type vdLeafrefReplay struct {
	Pkg      string  `json:"pkg"`
	TreeSeed int64   `json:"tree_seed"`
	PField   float64 `json:"p_field"`
	Mode     string  `json:"mode"` // "" = all three
}

func vdLeafrefStream(rng *rand.Rand, n int, tier string, out string) (*Summary, error) {
	sum := &Summary{Rule: "random trees of every generated package with about half of the leafref leaves (v-main scalars/lref, l-lref keys; v-oc interface, " +
		"subinterface, acl-set, entry keys) satisfied by construction and the others left random; validated with no LeafrefOptions, with &LeafrefOptions{} and " +
		"with IgnoreMissingData; 'leafref error reported' compared with the model and with the denotation; oracle: brute-force evaluation of every leafref " +
		"path on the leaf map; non-trivial = tree with at least one satisfied and, in uncompressed code, one dangling leafref; distinct by (tree, mode)"}
	var files []string
	id := 0
	var rp vdLeafrefReplay
	isReplay, err := vdReplayCase(&rp)
	if err != nil {
		return nil, err
	}
	lrfix := vdProbeLeafrefFix()
	names := reg.Names()
	per := n / (3 * len(names))
	if per < 1 {
		per = 1
	}
	seen := map[string]bool{}
	modes := []struct {
		name string
		coq  string
		opts []ygot.ValidationOption
	}{
		{"nil", "LrNil", nil},
		{"non-nil", "LrNonNil", []ygot.ValidationOption{&ytypes.LeafrefOptions{}}},
		{"ignore", "LrIgnore", []ygot.ValidationOption{&ytypes.LeafrefOptions{IgnoreMissingData: true}}},
		// Log asks for logging of what is ignored: it must not turn anything into an error
		{"ignore-log", "LrIgnore", []ygot.ValidationOption{&ytypes.LeafrefOptions{IgnoreMissingData: true, Log: true}}},
	}
	for _, name := range names {
		if isReplay && rp.Pkg != name {
			continue
		}
		p := reg.Get(name)
		root0 := p.NewRoot()
		rt := reflect.TypeOf(root0).Elem()
		tab := map[string]vdLrPath{}
		vdLeafrefTable(rt, p.SchemaTree[rt.Name()], nil, tab)
		compressed := p.Flags["compress"]
		var rows []string
		var tabKeys []string
		for k := range tab {
			tabKeys = append(tabKeys, k)
		}
		sort.Strings(tabKeys)
		for _, k := range tabKeys {
			if !tab[k].model {
				sum.finding(Finding{Signature: "leafref/path-outside-model", What: "leafref path outside the modelled XPath subset: " + tab[k].raw, Input: map[string]string{"pkg": name, "field": k}})
				continue
			}
			if !compressed {
				rows = append(rows, "("+coqStrList(strings.Split(k, "/"))+", "+tab[k].term()+")")
			}
		}
		vf := vdNewFile(p, "lcase", "lmismatches lrfix sch lrt", "Tree.Validate Tree.Leafref Corr.ValidCorr")
		vf.defs = []string{"Definition lrt : lrtab := " + coqList(rows) + ".", "Definition lrfix : bool := " + coqBool(lrfix) + "."}
		var jobs []vdLeafrefReplay
		if isReplay {
			jobs = []vdLeafrefReplay{rp}
		} else {
			for i := 0; i < per; i++ {
				pfs := []float64{0.5, 0.8}
				if tier == "thorough" {
					pfs = []float64{0.2, 0.5, 0.8, 0.95}
				}
				jobs = append(jobs, vdLeafrefReplay{Pkg: name, TreeSeed: rng.Int63(), PField: pfs[i%len(pfs)]})
			}
		}
		for _, jb := range jobs {
			gr := rand.New(rand.NewSource(jb.TreeSeed))
			g := newTreeGen(gr, p)
			g.pField = jb.PField
			g.nastyStr = false
			root := g.genTree()
			// make about half of the leafrefs point at existing data
			var leaves []vdLrLeaf
			vdFindLeafrefs(tab, reflect.ValueOf(root), nil, nil, nil, &leaves)
			for _, l := range leaves {
				if gr.Intn(2) == 0 || !l.lp.model {
					continue
				}
				var from reflect.Value
				if l.lp.abs {
					from = l.structs[0]
				} else if l.lp.up >= 1 && l.lp.up <= len(l.structs) {
					from = l.structs[len(l.structs)-l.lp.up]
				} else {
					continue
				}
				vdSatisfy(from, l.lp.down, l.value)
			}
			// the truth, by brute force on the leaf map
			leaves = nil
			vdFindLeafrefs(tab, reflect.ValueOf(root), nil, nil, nil, &leaves)
			lm := leafMapOf(root)
			nsat, ndang := 0, 0
			var firstDangling string
			for _, l := range leaves {
				if compressed {
					nsat++ // the key and its target are one field
					continue
				}
				vals, ok := vdTargets(lm, l)
				if ok && vals[l.term] {
					nsat++
				} else {
					ndang++
					if firstDangling == "" {
						firstDangling = "/" + strings.Join(l.elems, "/") + " -> " + l.lp.raw
					}
				}
			}
			tt := treeTerm(root)
			for _, m := range modes {
				if jb.Mode != "" && jb.Mode != m.name {
					continue
				}
				verr, pan := vdSafeValidate(root, m.opts...)
				lr, other := vdLeafrefErrors(verr)
				in := vdLeafrefReplay{Pkg: name, TreeSeed: jb.TreeSeed, PField: jb.PField, Mode: m.name}
				if pan {
					sum.finding(Finding{Signature: "leafref/panic", What: "Validate panics: " + verr.Error(), Input: in})
				}
				for _, o := range other {
					sum.finding(Finding{Signature: "leafref/unexpected-validate-error", What: "non-leafref error on a generated tree: " + o, Input: in})
				}
				vf.cf.add(fmt.Sprintf("LCheck %d %s %s %s", id, m.coq, tt, coqBool(len(lr) > 0)))
				id++
				sum.OracleRuns++
				sum.count("mode_"+m.name, map[bool]string{true: "error", false: "no error"}[len(lr) > 0])
				switch {
				case strings.HasPrefix(m.name, "ignore") && len(lr) > 0:
					sum.finding(Finding{Signature: "leafref/error-despite-ignore-missing-data", What: "leafref error with IgnoreMissingData: " + lr[0], Input: in})
				case m.name == "nil" && ndang > 0 && len(lr) == 0:
					sum.finding(Finding{Signature: "leafref/dangling-not-reported", What: "dangling leafref not reported: " + firstDangling, Input: in})
				case !strings.HasPrefix(m.name, "ignore") && ndang == 0 && len(lr) > 0:
					sum.finding(Finding{Signature: "leafref/false-error", What: "every leafref value is among the selected values, but: " + lr[0], Input: in})
				case m.name == "non-nil" && ndang > 0 && len(lr) == 0:
					// (cannot happen once leafrefErrOrLog is repaired)
					sum.finding(Finding{Signature: "leafref/non-nil-options-suppress-errors", What: "with &LeafrefOptions{IgnoreMissingData: false} the dangling leafref " + firstDangling + " is not reported (leafrefErrOrLog returns nil whenever options are given)", Input: in})
				}
				key := m.name + "|" + tt
				if !seen[key] {
					seen[key] = true
					if nsat > 0 && (ndang > 0 || compressed) {
						sum.Nontrivial++
					}
				}
			}
			sum.count("dangling", fmt.Sprintf("%d", ndang))
			sum.count("satisfied", fmt.Sprintf("%d", nsat))
			sum.sample(map[string]interface{}{"pkg": name, "satisfied": nsat, "dangling": ndang, "first_dangling": firstDangling})
		}
		fs, err := vf.write(out, "leafref", 120)
		if err != nil {
			return nil, err
		}
		files = append(files, fs...)
	}
	sum.Cases = id
	sum.Extra = map[string]interface{}{"case_files": files}
	return sum, nil
}
