//go:build verif

package main

import (
	"encoding/json"
	"fmt"
	"math/rand"
	"os"
	"reflect"
	"sort"
	"strings"

	"github.com/openconfig/ygot/internal/verifharness/reg"
	"github.com/openconfig/ygot/ygot"
	"github.com/openconfig/ygot/ytypes"
)

func init() { streams["jsonrt"] = jsonrtStream }

type jcfgT struct {
	appendMod, prependIref, shadow bool
	rewrite                        map[string]string
}

func (c jcfgT) term() string {
	var rw []string
	for _, k := range sortedKeys(c.rewrite) {
		rw = append(rw, "("+coqStr(k)+","+coqStr(c.rewrite[k])+")")
	}
	return fmt.Sprintf("{| c_append_mod := %s; c_prepend_iref := %s; c_shadow := %s; c_rewrite := %s |}",
		coqBool(c.appendMod), coqBool(c.prependIref), coqBool(c.shadow), coqList(rw))
}

func (c jcfgT) ygot() *ygot.RFC7951JSONConfig {
	return &ygot.RFC7951JSONConfig{AppendModuleName: c.appendMod, PrependModuleNameIdentityref: c.prependIref,
		PreferShadowPath: c.shadow, RewriteModuleNames: c.rewrite}
}

func randJcfg(rng *rand.Rand) jcfgT {
	c := jcfgT{appendMod: rng.Intn(2) == 0, prependIref: rng.Intn(3) == 0, shadow: rng.Intn(4) == 0}
	if rng.Intn(4) == 0 {
		c.rewrite = map[string]string{"v-types": "renamed-types"}
		if rng.Intn(2) == 0 {
			c.rewrite["v-main"] = "renamed-main"
		}
	}
	return c
}

func uoptsTerm(ignoreExtra, shadow bool) string {
	return fmt.Sprintf("{| o_ignore_extra := %s; o_prefer_shadow := %s |}", coqBool(ignoreExtra), coqBool(shadow))
}

func uoptsYgot(ignoreExtra, shadow bool) []ytypes.UnmarshalOpt {
	var o []ytypes.UnmarshalOpt
	if ignoreExtra {
		o = append(o, &ytypes.IgnoreExtraFields{})
	}
	if shadow {
		o = append(o, &ytypes.PreferShadowPath{})
	}
	return o
}

// safeUnmarshal runs the generated Unmarshal with panic recovery.
func safeUnmarshal(p *reg.Pkg, data []byte, into ygot.GoStruct, opts ...ytypes.UnmarshalOpt) (err error, panicked bool) {
	defer func() {
		if r := recover(); r != nil {
			err, panicked = fmt.Errorf("panic: %v", r), true
		}
	}()
	return p.Unmarshal(data, into, opts...), false
}

func safeConstructJSON(t ygot.GoStruct, cfg *ygot.RFC7951JSONConfig) (m map[string]interface{}, err error, panicked bool) {
	defer func() {
		if r := recover(); r != nil {
			m, err, panicked = nil, fmt.Errorf("panic: %v", r), true
		}
	}()
	m, err = ygot.ConstructIETFJSON(t, cfg)
	return m, err, false
}

// treeFile is a case file for one generated package: the header carries the schema, the enum
// environment and the float oracle.
type treeFile struct {
	pkg   *reg.Pkg
	cf    *caseFile
	sch   string
	env   string
	typ   string
	fn    string
	extra string // extra Require lines
}

func newTreeFile(p *reg.Pkg, typ, fn, requires string) *treeFile {
	sch, env := schemaTerm(p)
	return &treeFile{pkg: p, cf: &caseFile{typ: typ}, sch: sch, env: env, typ: typ, fn: fn, extra: requires}
}

func (tf *treeFile) write(out, stream string, shard int) ([]string, error) {
	// the schema and enum environment are compiled once per package (sch_*.v) and imported by
	// every case shard; only the float oracle is per shard set
	mod := "sch_" + stream + "_" + tf.pkg.Name
	schSrc := "From Ygot Require Import Tree.Tree.\nOpen Scope N_scope.\n" +
		"Definition sch : schema := " + tf.sch + ".\nDefinition env : enum_env := " + tf.env + ".\n"
	if err := os.WriteFile(out+"/"+mod+".v", []byte(schSrc), 0o644); err != nil {
		return nil, err
	}
	tf.cf.header = "From Ygot Require Import Tree.Tree Tree.Codec Tree.Render Tree.TreeOps Tree.Unmarshal " + tf.extra + ".\nRequire Import " + mod + ".\nOpen Scope N_scope.\n" +
		"Definition fo : float_oracle := " + floatOracleTerm() + "."
	tf.cf.fn = tf.fn + " sch env fo"
	return tf.cf.write(out, stream+"_"+tf.pkg.Name, shard)
}

// firstDiff gives a short description of where two canonical tree dumps differ.
func firstDiff(a, b string) string {
	n := len(a)
	if len(b) < n {
		n = len(b)
	}
	i := 0
	for i < n && a[i] == b[i] {
		i++
	}
	lo := i - 60
	if lo < 0 {
		lo = 0
	}
	hi := i + 60
	ha, hb := hi, hi
	if ha > len(a) {
		ha = len(a)
	}
	if hb > len(b) {
		hb = len(b)
	}
	return fmt.Sprintf("...%s  VS  ...%s", a[lo:ha], b[lo:hb])
}

func jsonrtStream(rng *rand.Rand, n int, tier string, out string) (*Summary, error) {
	sum := &Summary{Rule: "random schema-conforming trees of every generated package (uncompressed simple/wrapper unions, compressed), rendered with a random RFC7951JSONConfig; render and unmarshal-into-empty-root are compared with the model; non-trivial = tree with >= 8 leaves incl. a list entry; distinct by tree dump"}
	var files []string
	id := 0
	seen := map[string]bool{}
	names := reg.Names()
	per := n / (2 * len(names))
	if per < 1 {
		per = 1
	}
	for _, name := range names {
		p := reg.Get(name)
		// besides comparing outputs, every generated tree must satisfy the hypotheses of the C01
		// theorems (wf_schemab/wf_envb/wf_cfgb/wf_treeb) and the theorem's conclusion is
		// re-evaluated with the model: the theorem then speaks about the trees the real
		// generated packages hold
		tf := newTreeFile(p, "tcase", "(fun s e f c => (if schema_wf_ok s && env_wf_ok e then [] else [999999%nat]) ++ tmismatches s e f c ++ wf_case_mismatches s e f c ++ cfg_case_mismatches e c ++ c01_case_mismatches s e f c)", "Corr.TreeCorr Tree.RoundTrip Corr.WfCorr")
		g := newTreeGen(rng, p)
		for i := 0; i < per; i++ {
			if i%7 == 3 {
				g.pField = 0.9
			} else {
				g.pField = 0.45
			}
			g.bigBin = i%9 == 5
			if g.bigBin {
				g.pField = 0.8 // so that the tree holds unrestricted binary leaves
			}
			t := g.genTree()
			cfg := randJcfg(rng)
			tt := treeTerm(t)
			m, err, pan := safeConstructJSON(t, cfg.ygot())
			var jb []byte
			ro := coqErr
			if pan {
				ro = coqPanic
				sum.finding(Finding{Signature: "render-panic", What: "ConstructIETFJSON panics: " + err.Error(), Input: map[string]interface{}{"pkg": name, "tree": tt}})
			} else if err == nil {
				jb, _ = json.Marshal(m)
				jt, _ := jsonBytesTerm(jb)
				ro = coqOk(jt)
			}
			tf.cf.add(fmt.Sprintf("JRender %d %s %s %s", id, cfg.term(), tt, ro))
			id++
			sum.count("render_outcome", map[bool]string{true: "ok", false: "err"}[err == nil])
			sum.count("leaves", fmt.Sprintf("%02d+", g.leafCount/10*10))
			if !seen[tt] {
				seen[tt] = true
				if g.leafCount >= 8 && strings.Contains(tt, "TList [(") {
					sum.Nontrivial++
				}
			}
			if err != nil {
				sum.finding(Finding{Signature: "render-error", What: "ConstructIETFJSON fails on a schema-conforming tree: " + err.Error(), Input: map[string]interface{}{"pkg": name, "tree": tt}})
				continue
			}
			// ---- C19 oracle: RFC 7951 lexical forms and member-name prefixes
			if doc, derr := decodeJSON(jb); derr == nil {
				sum.OracleRuns++
				c19Walk(p, reflect.ValueOf(t), doc, "", cfg, "", func(sig, what string) {
					sum.finding(Finding{Signature: sig, What: "RFC 7951 encoding violated: " + what, Input: map[string]interface{}{"pkg": name, "json": string(jb), "cfg": cfg.term()}})
				})
			}
			// unmarshal into an empty root
			root2 := p.NewRoot()
			uerr, upan := safeUnmarshal(p, jb, root2, uoptsYgot(false, cfg.shadow)...)
			uo := coqErr
			if upan {
				uo = coqPanic
			} else if uerr == nil {
				uo = coqOk(treeTerm(root2))
			}
			jt, _ := jsonBytesTerm(jb)
			tf.cf.add(fmt.Sprintf("JUnmarshal %d %s (TCont []) %s %s", id, uoptsTerm(false, cfg.shadow), jt, uo))
			id++
			sum.sample(map[string]interface{}{"pkg": name, "json": string(jb)})
			// ---- C01 oracle: lossless round trip and byte-identical re-render
			sum.OracleRuns++
			switch {
			case upan:
				sum.finding(Finding{Signature: "roundtrip/unmarshal-panic", What: "Unmarshal of rendered JSON panics: " + uerr.Error(), Input: map[string]interface{}{"pkg": name, "json": string(jb)}})
			case uerr != nil:
				sum.finding(Finding{Signature: "roundtrip/unmarshal-error", What: "Unmarshal rejects JSON that ygot rendered: " + uerr.Error(), Input: map[string]interface{}{"pkg": name, "json": string(jb)}})
			default:
				t2 := treeTerm(root2)
				if t2 != tt {
					sum.finding(Finding{Signature: "roundtrip/tree-differs", What: "tree after render+unmarshal differs: " + firstDiff(tt, t2), Input: map[string]interface{}{"pkg": name, "json": string(jb)}})
				}
				m2, err2, _ := safeConstructJSON(root2, cfg.ygot())
				jb2, _ := json.Marshal(m2)
				if err2 != nil || string(jb2) != string(jb) {
					sum.finding(Finding{Signature: "roundtrip/rerender-differs", What: "re-rendered JSON is not byte-identical", Input: map[string]interface{}{"pkg": name, "json": string(jb)}, Observed: string(jb2)})
				}
			}
		}
		if p.Flags["wrapper_unions"] {
			c01WrapperBinaryProbe(p, sum)
		}
		fs, err := tf.write(out, "jsonrt", 150)
		if err != nil {
			return nil, err
		}
		files = append(files, fs...)
		// ---- a struct inside the tree rendered as a document of its own (Marshal7951 on a
		// container): its members are at the top level, so each carries its module prefix, whatever
		// the same struct type looked like when it was rendered inside a whole tree earlier in this
		// process.  One container type per package, with its own schema term.
		if sfs, err := c19SubRender(rng, p, &id, sum, out); err != nil {
			return nil, err
		} else {
			files = append(files, sfs...)
		}
	}
	sum.Cases = id
	sum.Extra = map[string]interface{}{"case_files": files}
	_ = os.Stderr
	return sum, nil
}

// c01WrapperBinaryProbe: with wrapper unions the generated To_<Union> helper has a case for the
// package's Binary type but not for []byte, which is what the JSON decoder hands it: a union
// holding a binary member renders but cannot be unmarshalled. The tree generator therefore never
// puts binary values into wrapper unions; this probe keeps the defect visible.
func c01WrapperBinaryProbe(p *reg.Pkg, sum *Summary) {
	root := p.NewRoot()
	var hit bool
	var walk func(v reflect.Value, depth int)
	walk = func(v reflect.Value, depth int) {
		if hit || depth > 4 {
			return
		}
		s := v.Elem()
		for i := 0; i < s.NumField() && !hit; i++ {
			f := s.Field(i)
			ft := s.Type().Field(i).Type
			switch {
			case ft.Kind() == reflect.Ptr && ft.Elem().Kind() == reflect.Struct && !isOrderedMapType(ft):
				c := reflect.New(ft.Elem())
				f.Set(c)
				walk(c, depth+1)
				if !hit {
					f.Set(reflect.Zero(ft))
				}
			case ft.Kind() == reflect.Interface:
				m := v.MethodByName("To_" + ft.Name())
				if !m.IsValid() {
					continue
				}
				// find the package's Binary type through the helper's accepted types
				for _, cand := range []interface{}{[]byte{1, 2}} {
					bt := binaryTypeOf(s.Type())
					if bt == nil {
						continue
					}
					out := m.Call([]reflect.Value{reflect.ValueOf(cand).Convert(bt)})
					if out[1].IsNil() {
						f.Set(out[0])
						hit = true
					}
				}
			}
		}
	}
	walk(reflect.ValueOf(root), 0)
	if !hit {
		return
	}
	sum.OracleRuns++
	m, err := ygot.ConstructIETFJSON(root, &ygot.RFC7951JSONConfig{})
	if err != nil {
		return
	}
	jb, _ := json.Marshal(m)
	r2 := p.NewRoot()
	if uerr, _ := safeUnmarshal(p, jb, r2); uerr != nil {
		sum.finding(Finding{Signature: "roundtrip/wrapper-union-binary-member", What: "a wrapper union holding a binary value renders but Unmarshal rejects the rendered JSON: " + uerr.Error(), Input: map[string]interface{}{"pkg": p.Name, "json": string(jb)}})
	}
}

// binaryTypeOf finds the generated Binary type ([]byte with a name) among the field types of t.
func binaryTypeOf(t reflect.Type) reflect.Type {
	for i := 0; i < t.NumField(); i++ {
		ft := t.Field(i).Type
		if ft.Kind() == reflect.Slice && ft.Elem().Kind() == reflect.Uint8 && ft.Name() == ygot.BinaryTypeName {
			return ft
		}
	}
	return nil
}

// c19SubRender: JRender cases for instances of one container type of the package, each with the
// schema of that container as the root schema (file cases_jsonrt_sub_<pkg>_*.v).
func c19SubRender(rng *rand.Rand, p *reg.Pkg, id *int, sum *Summary, out string) ([]string, error) {
	g := newTreeGen(rng, p)
	g.pField = 0.9
	var subs []reflect.Value
	vdCollectStructs(reflect.ValueOf(g.genTree()), &subs, 0)
	var conts []reflect.Type
	seenT := map[reflect.Type]bool{}
	for _, v := range subs {
		t := v.Type().Elem()
		if e := p.SchemaTree[t.Name()]; e != nil && e.IsContainer() && !seenT[t] {
			seenT[t] = true
			conts = append(conts, t)
		}
	}
	if len(conts) == 0 {
		return nil, nil
	}
	sort.Slice(conts, func(i, j int) bool { return conts[i].Name() < conts[j].Name() })
	st := conts[rng.Intn(len(conts))]
	se := p.SchemaTree[st.Name()]
	c := &schemaCtx{pkg: p, root: p.NewRoot()}
	_, env := schemaTerm(p)
	tf := &treeFile{pkg: p, cf: &caseFile{typ: "tcase"}, sch: "(SCont " + c.fieldsTerm(st, se) + ")", env: env, typ: "tcase", fn: "tmismatches", extra: "Corr.TreeCorr"}
	n := 0
	for try := 0; try < 40 && n < 12; try++ {
		g.pField = 0.6
		var cands []reflect.Value
		vdCollectStructs(reflect.ValueOf(g.genTree()), &cands, 0)
		for _, v := range cands {
			if v.Type().Elem() != st || n >= 12 {
				continue
			}
			sg, ok := v.Interface().(ygot.GoStruct)
			if !ok {
				continue
			}
			cfg := randJcfg(rng)
			cfg.appendMod = cfg.appendMod || n%2 == 0
			tt := treeTerm(sg)
			m, err, pan := safeConstructJSON(sg, cfg.ygot())
			ro := coqErr
			switch {
			case pan:
				ro = coqPanic
				sum.finding(Finding{Signature: "render-panic", What: "ConstructIETFJSON panics on a container of the tree: " + err.Error(), Input: map[string]interface{}{"pkg": p.Name, "struct": st.Name(), "tree": tt}})
			case err == nil:
				jb, _ := json.Marshal(m)
				jt, _ := jsonBytesTerm(jb)
				ro = coqOk(jt)
				// C19 oracle: at the top level every member carries a module prefix
				sum.OracleRuns++
				if cfg.appendMod {
					for k := range m {
						if !strings.Contains(k, ":") {
							sum.finding(Finding{Signature: "render/top-level-member-without-module", What: "member " + k + " of a container rendered as a document has no module prefix (AppendModuleName)",
								Input: map[string]interface{}{"pkg": p.Name, "struct": st.Name(), "tree": tt}, Observed: string(jb)})
							break
						}
					}
				}
			}
			tf.cf.add(fmt.Sprintf("JRender %d %s %s %s", *id, cfg.term(), tt, ro))
			*id++
			n++
			sum.count("sub_render", st.Name())
		}
	}
	return tf.write(out, "jsonrt_sub", 150)
}
