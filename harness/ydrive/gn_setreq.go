//go:build verif

package main

// gn_setreq.go — gNMI layer, stream "setreq": random gNMI SetRequests (delete / replace /
// update on overlapping subtrees, scalar and JSON_IETF payloads, prefixes, origin/target) applied
// with ytypes.UnmarshalSetRequest, and the same material as Notifications applied with
// ytypes.UnmarshalNotifications on a populated tree.  C13 oracle: a reference fold over leaf maps
// written in plain Go (deletes, then replaces, then updates, each in message order).

import (
	"fmt"
	"math/rand"
	"reflect"
	"sort"
	"strings"

	gpb "github.com/openconfig/gnmi/proto/gnmi"
	"github.com/openconfig/ygot/internal/verifharness/reg"
	"github.com/openconfig/ygot/util"
	"github.com/openconfig/ygot/ygot"
	"github.com/openconfig/ygot/ytypes"
)

func init() { streams["setreq"] = gnSetReqStream }

type gnReqOp struct {
	site  *gnSite
	path  *gpb.Path // absolute, before the prefix is split off
	tv    *gpb.TypedValue
	label string
	want  string
	mut   string
}

func gnSafeSetReq(s *ytypes.Schema, req *gpb.SetRequest, opts ...ytypes.UnmarshalOpt) (err error, panicked bool) {
	defer func() {
		if r := recover(); r != nil {
			err, panicked = fmt.Errorf("panic: %v", r), true
		}
	}()
	return ytypes.UnmarshalSetRequest(s, req, opts...), false
}

func gnCommonPrefixLen(ps []*gpb.Path) int {
	if len(ps) == 0 {
		return 0
	}
	n := len(ps[0].Elem)
	for _, p := range ps[1:] {
		i := 0
		for i < n && i < len(p.Elem) && util.PathElemsEqual(p.Elem[i], ps[0].Elem[i]) {
			i++
		}
		n = i
	}
	return n
}

func gnUpdatesTerm(us []*gpb.Update) (string, bool) {
	var items []string
	for _, u := range us {
		t, ok := gnTvTerm(u.Val)
		if !ok {
			return "", false
		}
		items = append(items, "("+gnGPTerm(u.Path)+", "+t+")")
	}
	return coqList(items), true
}

func gnSReqTerm(r *gpb.SetRequest) (string, bool) {
	var ds []string
	for _, d := range r.Delete {
		ds = append(ds, gnGPTerm(d))
	}
	rs, ok1 := gnUpdatesTerm(r.Replace)
	us, ok2 := gnUpdatesTerm(r.Update)
	if !ok1 || !ok2 {
		return "", false
	}
	pre := "empty_gp"
	if r.Prefix != nil {
		pre = gnGPTerm(r.Prefix)
	}
	return fmt.Sprintf("{| sr_prefix := %s; sr_deletes := %s; sr_replaces := %s; sr_updates := %s |}", pre, coqList(ds), rs, us), true
}

// gnApplyRef is the reference semantics of one set on a leaf map.
func gnApplyRef(lm map[string]string, op gnReqOp) {
	for k, v := range op.site.rel {
		lm[op.site.lm+k] = v
	}
}

func gnDeleteRef(lm map[string]string, under string) {
	for k := range lm {
		if gnUnder(k, under) {
			delete(lm, k)
		}
	}
}

// gnReqAmbiguous replays the operations of the request one by one on a copy of the tree and
// reports whether some intermediate tree holds two entries of one list that print the same key
// (then Go's map iteration order decides which one a path addresses and no deterministic model
// applies).  Only used to drop such cases.
func gnReqAmbiguous(p *reg.Pkg, root ygot.GoStruct, req *gpb.SetRequest, shadow, ignore bool) (amb bool) {
	defer func() {
		if r := recover(); r != nil {
			amb = false
		}
	}()
	cp, err := ygot.DeepCopy(root)
	if err != nil {
		return false
	}
	schema := gnRootEntry(p, cp)
	join := func(q *gpb.Path) *gpb.Path {
		if req.Prefix == nil {
			return q
		}
		j, err := util.JoinPaths(req.Prefix, q)
		if err != nil {
			return nil
		}
		return j
	}
	var dopts []ytypes.DelNodeOpt
	sopts := []ytypes.SetNodeOpt{&ytypes.InitMissingElements{}}
	if shadow {
		dopts = append(dopts, &ytypes.PreferShadowPath{})
		sopts = append(sopts, &ytypes.PreferShadowPath{})
	}
	if ignore {
		sopts = append(sopts, &ytypes.IgnoreExtraFields{})
	}
	check := func() bool { return gnAmbiguous(reflect.ValueOf(cp)) || gnDupKeys(reflect.ValueOf(cp)) }
	for _, d := range req.Delete {
		if j := join(d); j != nil {
			ytypes.DeleteNode(schema, cp, j, dopts...)
		}
		if check() {
			return true
		}
	}
	for _, u := range req.Replace {
		if j := join(u.Path); j != nil {
			ytypes.DeleteNode(schema, cp, j, dopts...)
			ytypes.SetNode(schema, cp, j, u.Val, sopts...)
		}
		if check() {
			return true
		}
	}
	for _, u := range req.Update {
		if j := join(u.Path); j != nil {
			ytypes.SetNode(schema, cp, j, u.Val, sopts...)
		}
		if check() {
			return true
		}
	}
	return false
}

func gnSetReqStream(rng *rand.Rand, n int, tier string, out string) (*Summary, error) {
	rp, replaying := gnLoadReplay()
	seed := gnSeedFlag()
	if replaying {
		rng, n, tier, seed = rand.New(rand.NewSource(rp.Seed)), rp.N, rp.Tier, rp.Seed
	}
	sum := &Summary{Rule: "random small trees of every generated package; per tree one SetRequest with 1-6 operations spread over delete / replace / update, paths from the nodeops descent (existing and absent nodes; 35% of the later operations reuse an earlier path or one of its prefixes so that subtrees overlap), type-correct scalar TypedValues and JSON_IETF payloads of generated leaves / containers / list entries (10% arbitrary values, 8% malformed paths), the longest common prefix (or a part of it) moved into the request prefix in half of the cases, origin/target set in 10%; options PreferShadowPath (shadow package only), IgnoreExtraFields 10%, BestEffortUnmarshal 25%. One request in five without replaces is applied as Notifications (UnmarshalNotifications, atomic in a third of them) instead. Non-trivial = request with >= 2 operations that succeeds and changes the tree; distinct by case term."}
	var files []string
	id := 0
	seen := map[string]bool{}
	names := reg.Names()
	per := n / len(names)
	index := 0
	for _, name := range names {
		p := reg.Get(name)
		tf := gnNewFile(p)
		g := newTreeGen(rng, p)
		g.maxList = 2
		d := &gnDesc{rng: rng, g: g, pkg: p}
		if !replaying || rp.Index == -2 {
			// directed (own PRNG): atomic notifications that carry nothing
			mc := 6
			if tier == "thorough" {
				mc = 40
			}
			gnAtomicEmptyCases(p, rand.New(rand.NewSource(seed^vdHash("atomic-empty"+name))), mc, tf, &id, sum, gnReplay{Seed: seed, N: n, Tier: tier, Index: -2})
		}
		for done := 0; done < per; done++ {
			index++
			g.pField = 0.2 + 0.25*rng.Float64()
			g.emptyLL = false
			root := g.genTree()
			gnPrune(reflect.ValueOf(root), true, false)
			useShadow := p.Flags["shadow"] && rng.Intn(3) == 0
			ignore, best := rng.Intn(10) == 0, rng.Intn(4) == 0
			nops := 1 + rng.Intn(6)
			var ops []gnReqOp
			kinds := []int{} // 0 delete, 1 replace, 2 update
			clean := true    // the reference semantics applies
			for i := 0; i < nops; i++ {
				var s *gnSite
				if len(ops) > 0 && rng.Intn(100) < 35 {
					// overlap: the same node again, or an ancestor of it (regenerated site for the prefix)
					prev := ops[rng.Intn(len(ops))]
					if rng.Intn(2) == 0 || len(prev.site.trail) == 0 {
						cp := *prev.site
						s = &cp
					} else {
						s = prev.site.ancestor(rng.Intn(len(prev.site.trail)))
					}
				}
				if s == nil {
					s = d.site(root, useShadow)
				}
				op := gnReqOp{site: s, path: gnClonePath(s.path)}
				if rng.Intn(100) < 8 {
					op.mut = gnMutatePath(rng, op.path)
					clean = false
				}
				k := rng.Intn(3)
				if k != 0 {
					// each set needs its own copy of the site: valueFor stores the payload's leaf map in it
					cp := *s
					op.site = &cp
					r := rng.Intn(100)
					switch {
					case r < 10:
						op.tv, op.label = gnOddValue(rng), "odd"
					default:
						op.tv, op.want, op.label = d.valueFor(op.site, r < 45 || op.site.kind == "container" || op.site.kind == "entry")
						if op.label == "" {
							op.tv, op.label = gnOddValue(rng), "odd"
						}
					}
					if op.label == "odd" {
						clean = false
					}
				}
				if op.site.allowed[op.site.lm] || op.site.kind == "list" || op.site.kind == "unkeyed" || op.site.shadow {
					clean = false // key leaves, keyless list paths, shadow paths: outside the reference semantics
				}
				ops = append(ops, op)
				kinds = append(kinds, k)
			}
			// prefix
			var all []*gpb.Path
			for _, op := range ops {
				all = append(all, op.path)
			}
			req := &gpb.SetRequest{}
			cut := 0
			if rng.Intn(2) == 0 {
				if l := gnCommonPrefixLen(all); l > 0 {
					cut = 1 + rng.Intn(l)
				}
				req.Prefix = &gpb.Path{Elem: append([]*gpb.PathElem{}, all[0].Elem[:cut]...)}
			}
			if rng.Intn(10) == 0 {
				if req.Prefix == nil {
					req.Prefix = &gpb.Path{}
				}
				req.Prefix.Origin = pick(rng, []string{"", "openconfig", "a"})
				req.Prefix.Target = pick(rng, []string{"", "dev1"})
			}
			for i, op := range ops {
				rel := &gpb.Path{Elem: op.path.Elem[cut:]}
				if req.Prefix != nil && (req.Prefix.Origin != "" || req.Prefix.Target != "") && rng.Intn(3) == 0 {
					rel.Origin = pick(rng, []string{"", "openconfig", "a", "b"})
					rel.Target = pick(rng, []string{"", "dev1", "dev2"})
				}
				switch kinds[i] {
				case 0:
					req.Delete = append(req.Delete, rel)
				case 1:
					req.Replace = append(req.Replace, &gpb.Update{Path: rel, Val: op.tv})
				default:
					req.Update = append(req.Update, &gpb.Update{Path: rel, Val: op.tv})
				}
			}
			asNotif := len(req.Replace) == 0 && rng.Intn(5) == 0
			atomic := rng.Intn(3) == 0
			if replaying && index != rp.Index {
				continue // after the last use of rng: the generation stays in step
			}
			var uopts []ytypes.UnmarshalOpt
			if useShadow {
				uopts = append(uopts, &ytypes.PreferShadowPath{})
				clean = false
			}
			if ignore {
				uopts = append(uopts, &ytypes.IgnoreExtraFields{})
			}
			if best {
				uopts = append(uopts, &ytypes.BestEffortUnmarshal{})
			}
			if gnReqAmbiguous(p, root, req, useShadow, ignore) {
				sum.count("notes", "case dropped: an intermediate tree holds two entries of a list that print the same key (map iteration order decides)")
				continue
			}
			pre := treeTerm(root)
			lmPre := leafMapOf(root)
			anyJSON := false
			for _, op := range ops {
				if op.tv.GetJsonIetfVal() != nil {
					anyJSON = true
				}
			}
			in := map[string]interface{}{"pkg": name, "request": fmt.Sprintf("%v", req), "tree_before": pre,
				"opts":   map[string]bool{"shadow": useShadow, "ignore_extra": ignore, "best_effort": best},
				"replay": gnReplay{Seed: seed, N: n, Tier: tier, Index: index}}
			var err error
			var pan bool
			var term string
			if asNotif {
				nt := &gpb.Notification{Prefix: req.Prefix, Delete: req.Delete, Update: req.Update, Atomic: atomic}
				nst, ok := gnNotifsTerm([]*gpb.Notification{nt})
				if !ok || (req.Prefix != nil && (req.Prefix.Origin != "" || req.Prefix.Target != "")) {
					continue
				}
				hasOT := false
				for _, dd := range req.Delete {
					hasOT = hasOT || dd.Origin != "" || dd.Target != ""
				}
				for _, uu := range req.Update {
					hasOT = hasOT || uu.Path.Origin != "" || uu.Path.Target != ""
				}
				if hasOT {
					continue
				}
				err, pan = gnSafeUnmarshalNotifs(gnSchema(p, root), []*gpb.Notification{nt}, uopts...)
				post := "(Some " + treeTerm(root) + ")"
				if anyJSON && (err != nil || pan) {
					post = "None"
				}
				term = fmt.Sprintf("GUnmarshalNotifs %d %s %s %s %s %s", id, gnSrOptsTerm(useShadow, ignore, best), pre, nst, gnSrOut(err, pan), post)
				if atomic {
					clean = false
				}
				sum.count("form", "notification")
			} else {
				rt, ok := gnSReqTerm(req)
				if !ok {
					continue
				}
				err, pan = gnSafeSetReq(gnSchema(p, root), req, uopts...)
				post := "(Some " + treeTerm(root) + ")"
				if anyJSON && (err != nil || pan) {
					post = "None"
				}
				term = fmt.Sprintf("GSetReq %d %s %s %s %s %s", id, gnSrOptsTerm(useShadow, ignore, best), pre, rt, gnSrOut(err, pan), post)
				sum.count("form", "setrequest")
			}
			if err != nil && anyJSON && strings.Contains(err.Error(), "unknown union type, got: []uint8") {
				// wrapper unions cannot decode a binary member; the JSON decoder of the tree layer does not model it
				sum.count("notes", "case dropped: binary member of a wrapper union in a JSON payload")
				continue
			}
			if gnAmbiguous(reflect.ValueOf(root)) {
				sum.count("notes", "case dropped: two entries of a list print the same key after the request (map iteration order decides)")
				continue
			}
			if gnDupKeys(reflect.ValueOf(root)) {
				sum.count("notes", "case dropped: a map with wrapper-union keys holds two equal-looking keys (outside the tree model)")
				continue
			}
			tf.cf.add(term)
			id++
			postTree := treeTerm(root)
			ck := gnCaseKey(term)
			if !seen[ck] {
				seen[ck] = true
				if len(ops) >= 2 && err == nil && postTree != pre {
					sum.Nontrivial++
				}
			}
			sum.count("outcome", gnSrOut(err, pan))
			sum.count("operations", fmt.Sprintf("%d", len(ops)))
			sum.count("shape", fmt.Sprintf("d%d r%d u%d", len(req.Delete), len(req.Replace), len(req.Update)))
			sum.sample(map[string]interface{}{"pkg": name, "request": fmt.Sprintf("%v", req)})
			// ---- C13 oracle
			switch {
			case pan:
				sig := "setrequest/panic"
				if best && strings.Contains(err.Error(), "interface conversion") {
					sig = "setrequest/best-effort-join-error-panics"
				}
				sum.finding(Finding{Signature: sig, What: "UnmarshalSetRequest panics: " + err.Error(), Input: in})
			case err != nil && clean && !best:
				sum.OracleRuns++
				hasOT := req.Prefix != nil && (req.Prefix.Origin != "" || req.Prefix.Target != "")
				if !hasOT {
					sig := "setrequest/valid-request-rejected"
					switch {
					case strings.Contains(err.Error(), "into empty") || strings.Contains(err.Error(), "empty type"):
						sig = "gnmi/empty-type"
					case strings.Contains(err.Error(), "got empty leaf list"):
						sig = "gnmi/empty-leaflist"
					case strings.Contains(err.Error(), "unable to append new ordered map element"):
						// C31: JSON naming an existing entry of an ordered list cannot be merged
						sig = "setrequest/ordered-list-merge"
					case strings.Contains(err.Error(), "unknown union type, got: []uint8"):
						sig = "union/wrapper-binary-unsettable"
					}
					sum.finding(Finding{Signature: sig, What: "a SetRequest built from schema-valid paths and type-correct values is rejected: " + err.Error(), Input: in})
				}
			case err == nil && clean:
				sum.OracleRuns++
				ref := map[string]string{}
				for k, v := range lmPre {
					ref[k] = v
				}
				allowed := map[string]bool{}
				for i, op := range ops {
					if kinds[i] == 0 {
						gnDeleteRef(ref, op.site.lm)
					}
					for k := range op.site.allowed {
						allowed[k] = true
					}
				}
				for i, op := range ops {
					if kinds[i] == 1 {
						gnDeleteRef(ref, op.site.lm)
						gnApplyRef(ref, op)
					}
				}
				for i, op := range ops {
					if kinds[i] == 2 {
						gnApplyRef(ref, op)
					}
				}
				got := leafMapOf(root)
				var bad []string
				for _, k := range leafMapDiff(ref, got, 200) {
					if strings.Contains(k, "#") || allowed[k] {
						continue
					}
					bad = append(bad, fmt.Sprintf("%s: expected %q, got %q", k, ref[k], got[k]))
				}
				sort.Strings(bad)
				if len(bad) > 6 {
					bad = bad[:6]
				}
				if len(bad) > 0 {
					sum.finding(Finding{Signature: "setrequest/semantics", What: "the tree after UnmarshalSetRequest differs from the gNMI Set semantics (delete, replace, update in this order): " + strings.Join(bad, " ; "), Input: in})
				}
			}
			gnPrune(reflect.ValueOf(root), false, false)
		}
		fs, err := gnWrite(tf, out, "setreq", 400)
		if err != nil {
			return nil, err
		}
		files = append(files, fs...)
	}
	sum.Cases = id
	sum.Extra = map[string]interface{}{"case_files": files}
	return sum, nil
}
