//go:build verif

package main

import (
	"reflect"
	"regexp"
	"sort"
	"strings"

	"github.com/openconfig/ygot/ygot"
)

// leafMapOf flattens a GoStruct into "data path -> canonical value term" using only struct tags
// and reflection (independent of ygot's own walkers). Keyed list entries contribute a path
// element with their key values; ordered lists additionally record "<list path>#order" ->
// the sequence of keys; unkeyed list entries are indexed by position; presence containers that
// are set contribute "<path>#presence".
func leafMapOf(g ygot.GoStruct) map[string]string {
	out := map[string]string{}
	walkLeaves(reflect.ValueOf(g), "", out)
	return out
}

func keyPredicate(names []string, vals []reflect.Value) string {
	var b strings.Builder
	for i, v := range vals {
		t, _ := scalarTerm(v)
		n := "?"
		if i < len(names) {
			n = names[i]
		}
		b.WriteString("[" + n + "=" + t + "]")
	}
	return b.String()
}

// keyNamesOf returns the YANG key leaf names of a list entry type in key order: for a struct
// key the order of the key struct's fields, mapped through the entry's path tags.
func keyNamesOf(entryT reflect.Type, keyT reflect.Type, ordered bool, nkeys int) []string {
	leafName := func(goField string) string {
		f, ok := entryT.FieldByName(goField)
		if !ok {
			return goField
		}
		for _, alt := range strings.Split(f.Tag.Get("path"), "|") {
			if !strings.Contains(alt, "/") {
				return alt
			}
		}
		alts := strings.Split(f.Tag.Get("path"), "|")
		parts := strings.Split(alts[0], "/")
		return parts[len(parts)-1]
	}
	if keyT != nil && keyT.Kind() == reflect.Struct {
		var out []string
		for i := 0; i < keyT.NumField(); i++ {
			out = append(out, leafName(keyT.Field(i).Name))
		}
		return out
	}
	// single key (or ordered map, whose Keys() gives structs for multi-key as well): find the
	// field(s) that carry a one-element path alternative equal to a key is not recorded in tags,
	// so fall back to positional names
	out := make([]string, nkeys)
	for i := range out {
		out[i] = "key" + string(rune('0'+i))
	}
	return out
}

func walkLeaves(v reflect.Value, prefix string, out map[string]string) {
	if v.Kind() == reflect.Interface {
		v = v.Elem()
	}
	if v.Kind() != reflect.Ptr || v.IsNil() {
		return
	}
	s := v.Elem()
	for i := 0; i < s.NumField(); i++ {
		sf := s.Type().Field(i)
		tag, ok := sf.Tag.Lookup("path")
		if !ok {
			continue
		}
		alt := strings.Split(tag, "|")[0]
		p := prefix + "/" + alt
		fv := s.Field(i)
		ft := sf.Type
		switch {
		case isOrderedMapType(ft):
			if fv.IsNil() {
				continue
			}
			es := orderedEntries(fv.Interface().(ygot.GoOrderedMap))
			var order []string
			for _, e := range es {
				kp := keyPredicate(keyNamesOf(entryTypeOfOrderedMap(ft), nil, true, len(e.keys)), e.keys)
				order = append(order, kp)
				walkLeaves(e.entry, p+kp, out)
			}
			out[p+"#order"] = strings.Join(order, ",")
		case ft.Kind() == reflect.Map:
			it := fv.MapRange()
			for it.Next() {
				ks := keyValues(it.Key())
				kp := keyPredicate(keyNamesOf(ft.Elem().Elem(), ft.Key(), false, len(ks)), ks)
				out[p+kp+"#entry"] = "1"
				walkLeaves(it.Value(), p+kp, out)
			}
		case ft.Kind() == reflect.Ptr && ft.Elem().Kind() == reflect.Struct:
			if fv.IsNil() {
				continue
			}
			if sf.Tag.Get("yangPresence") == "true" {
				out[p+"#presence"] = "1"
			}
			walkLeaves(fv, p, out)
		case ft.Kind() == reflect.Slice && ft.Elem().Kind() == reflect.Ptr && ft.Elem().Elem().Kind() == reflect.Struct:
			for j := 0; j < fv.Len(); j++ {
				walkLeaves(fv.Index(j), p+"["+string(rune('0'+j))+"]", out)
			}
		default:
			if t, ok := fieldTerm(fv); ok {
				out[p] = t
			}
		}
	}
}

func sortedLeafKeys(m map[string]string) []string {
	ks := make([]string, 0, len(m))
	for k := range m {
		ks = append(ks, k)
	}
	sort.Strings(ks)
	return ks
}

// leafMapDiff lists the paths on which two leaf maps differ (at most max).
func leafMapDiff(a, b map[string]string, max int) []string {
	var out []string
	for _, k := range sortedLeafKeys(a) {
		if b[k] != a[k] {
			out = append(out, k)
		}
	}
	for _, k := range sortedLeafKeys(b) {
		if _, ok := a[k]; !ok {
			out = append(out, k)
		}
	}
	if len(out) > max {
		out = out[:max]
	}
	return out
}

var reVInt = regexp.MustCompile(`^(?:\(TLeaf )?\(VInt ([IU][0-9]+) (\(?-?[0-9]+\)?)%Z\)\)?$`)

// sameNumberOtherKind: two scalar terms that are integers with the same value and different
// width kinds ((VInt U8 75%Z) vs (VInt U64 75%Z)): what a union with two integer members holds
// before and after a trip through gNMI, whose uint_val/int_val do not carry the member type.
func sameNumberOtherKind(a, b string) bool {
	ma, mb := reVInt.FindStringSubmatch(a), reVInt.FindStringSubmatch(b)
	return ma != nil && mb != nil && ma[1] != mb[1] && strings.Trim(ma[2], "()") == strings.Trim(mb[2], "()")
}

// unionIntKindOnly: every key of d differs between x and y only in the width kind of an integer.
func unionIntKindOnly(d []string, x, y map[string]string) bool {
	if len(d) == 0 {
		return false
	}
	for _, k := range d {
		if !sameNumberOtherKind(x[k], y[k]) {
			return false
		}
	}
	return true
}
