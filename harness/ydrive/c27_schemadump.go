//go:build verif

package main

// c27_schemadump.go — translators of the generator checks (C26, C27).
//
// Stream "c27dump": for every generated package named in the manifest ($C26_MANIFEST, written by
// lib/gencorpus.py) print, as Coq terms of one type (Gen/SchemaEq.v: ynode),
//   (a) the goyang compilation of the package's input modules, obtained here with goyang alone
//       (yang.NewModules / Read / Process / ToEntry — no ygot code), and
//   (b) the tree that the generated package embeds (its SchemaTree, i.e. ygot.GzipToSchema of the
//       embedded bytes), found through the registered package's root struct name.
// The Coq side applies the verified transformation `embed` to (a) and decides equality with (b).
// The printer is the same function for both trees; attributes that the JSON form does not carry
// (the instantiating module) are printed from (a) only.

import (
	"encoding/json"
	"fmt"
	"math/rand"
	"os"
	"reflect"
	"sort"
	"strings"

	"github.com/openconfig/goyang/pkg/yang"
	"github.com/openconfig/ygot/internal/verifharness/reg"
)

// c26Pkg is one manifest entry: how a registered generated package was produced.
type c26Pkg struct {
	Name         string   `json:"name"`
	Yang         []string `json:"yang"`  // files handed to the generator
	Path         []string `json:"path"`  // include directories
	Flags        []string `json:"flags"` // generator flags (informational)
	RootName     string   `json:"rootname"`
	Compress     bool     `json:"compress"`
	PreferState  bool     `json:"prefer_state"`
	ExcludeState bool     `json:"exclude_state"`
	OrderedMaps  bool     `json:"ordered_maps"`
	Descr        bool     `json:"descriptions"`
	Excluded     []string `json:"excluded"`
	PathStructs  bool     `json:"path_structs"`
	Group        string   `json:"group"`
}

func c26LoadManifest() ([]c26Pkg, error) {
	f := os.Getenv("C26_MANIFEST")
	if f == "" {
		return nil, fmt.Errorf("C26_MANIFEST is not set")
	}
	b, err := os.ReadFile(f)
	if err != nil {
		return nil, err
	}
	var m struct {
		Packages []c26Pkg `json:"packages"`
	}
	if err := json.Unmarshal(b, &m); err != nil {
		return nil, err
	}
	return m.Packages, nil
}

// c27Compile is the independent reading of the input modules: goyang only, the same calls in the
// same order as any goyang client (and as ygen.processModules).
func c27Compile(files, paths []string) ([]*yang.Entry, error) {
	ms := yang.NewModules()
	for _, p := range paths {
		ms.AddPath(p + "/...")
	}
	for _, f := range files {
		if err := ms.Read(f); err != nil {
			return nil, err
		}
	}
	if errs := ms.Process(); len(errs) > 0 {
		return nil, fmt.Errorf("%v", errs)
	}
	seen := map[string]bool{}
	var names []string
	for _, m := range ms.Modules {
		if !seen[m.Name] {
			seen[m.Name] = true
			names = append(names, m.Name)
		}
	}
	sort.Strings(names)
	var out []*yang.Entry
	for _, n := range names {
		e := yang.ToEntry(ms.Modules[n])
		if errs := e.GetErrors(); len(errs) > 0 {
			return nil, fmt.Errorf("%v", errs)
		}
		out = append(out, e)
	}
	return out, nil
}

// c27Share names every distinct string once, so that the big terms consist of identifiers.
type c27Share struct {
	ids  map[string]string
	defs []string
	pfx  string
}

func c27NewShare(pfx string) *c27Share { return &c27Share{ids: map[string]string{}, pfx: pfx} }

func (s *c27Share) str(x string) string {
	if x == "" {
		return "[]"
	}
	if id, ok := s.ids[x]; ok {
		return id
	}
	id := fmt.Sprintf("%s%d", s.pfx, len(s.ids))
	s.ids[x] = id
	s.defs = append(s.defs, fmt.Sprintf("Definition %s : str := %s.", id, coqStr(x)))
	return id
}

func (s *c27Share) strs(xs []string) string {
	items := make([]string, len(xs))
	for i, x := range xs {
		items[i] = s.str(x)
	}
	return coqList(items)
}

func c27Num(n yang.Number) string {
	return fmt.Sprintf("(Num %s %d %d)", coqBool(n.Negative), n.Value, n.FractionDigits)
}

func c27Range(r yang.YangRange) string {
	items := make([]string, len(r))
	for i, p := range r {
		items[i] = "(" + c27Num(p.Min) + "," + c27Num(p.Max) + ")"
	}
	return coqList(items)
}

func c27Named(s *c27Share, e *yang.EnumType) string {
	if e == nil {
		return "[]"
	}
	names := make([]string, 0, len(e.ToInt))
	for n := range e.ToInt {
		names = append(names, n)
	}
	sort.Strings(names)
	items := make([]string, len(names))
	for i, n := range names {
		items[i] = "(" + s.str(n) + "," + coqZ(e.ToInt[n]) + ")"
	}
	return coqList(items)
}

func c27Type(s *c27Share, t *yang.YangType) string {
	idb := "None"
	if t.IdentityBase != nil {
		var vs []string
		for _, v := range t.IdentityBase.Values {
			vs = append(vs, v.Name)
		}
		idb = "(Some (" + s.str(t.IdentityBase.Name) + "," + s.strs(vs) + "))"
	}
	ms := make([]string, len(t.Type))
	for i, m := range t.Type {
		ms[i] = c27Type(s, m)
	}
	return fmt.Sprintf("(YT %s %d %s %s %s %s %s %s %d %s %s %s %s %s %s %s)", s.str(t.Name), int(t.Kind), idb,
		c27Named(s, t.Enum), c27Named(s, t.Bit), s.str(t.Units), s.str(t.Default), coqBool(t.HasDefault), t.FractionDigits,
		c27Range(t.Length), coqBool(t.OptionalInstance), s.str(t.Path), s.strs(t.Pattern), s.strs(t.POSIXPattern),
		c27Range(t.Range), coqList(ms))
}

// c27ExtraName reads the argument of a statement kept in Entry.Extra: a *yang.Value in a compiled
// tree, a map with a "Name" member after the JSON round trip.
func c27ExtraName(v interface{}) (string, bool) {
	switch x := v.(type) {
	case *yang.Value:
		if x == nil {
			return "", false
		}
		return x.Name, true
	case map[string]interface{}:
		n, _ := x["Name"].(string)
		return n, true
	}
	return "", false
}

// c27Node prints one entry. withMod: print the instantiating module (compiled trees only).
func c27Node(s *c27Share, e *yang.Entry, withMod bool) string {
	la := "None"
	if e.ListAttr != nil {
		la = fmt.Sprintf("(Some (%d,%d,%s))", e.ListAttr.MinElements, e.ListAttr.MaxElements, coqBool(e.ListAttr.OrderedByUser))
	}
	pres := "None"
	if vs, ok := e.Extra["presence"]; ok && len(vs) > 0 {
		if n, ok := c27ExtraName(vs[0]); ok {
			pres = "(Some " + s.str(n) + ")"
		}
	}
	mod := ""
	if withMod {
		if m, err := e.InstantiatingModule(); err == nil {
			mod = m
		}
	}
	pfx := ""
	if e.Prefix != nil {
		pfx = e.Prefix.Name
	}
	sp := ""
	if v, ok := e.Annotation["schemapath"]; ok {
		sp, _ = v.(string)
	}
	attrs := fmt.Sprintf("(MkA %s %d %d %d %s %s %s %s %s %s %s %s %s)", s.str(e.Name), int(e.Kind), int(e.Config), int(e.Mandatory),
		s.str(e.Key), la, pres, s.strs(e.Default), s.str(e.Units), s.str(e.Description), s.str(mod), s.str(pfx), s.str(sp))
	ty := "None"
	if e.Type != nil {
		ty = "(Some " + c27Type(s, e.Type) + ")"
	}
	names := make([]string, 0, len(e.Dir))
	for n := range e.Dir {
		names = append(names, n)
	}
	sort.Strings(names)
	ch := make([]string, 0, len(names))
	for _, n := range names {
		if e.Dir[n].RPC != nil {
			continue // util.Children drops RPC entries
		}
		ch = append(ch, c27Node(s, e.Dir[n], withMod))
	}
	return "(YN " + attrs + " " + ty + " " + coqList(ch) + ")"
}

func c27Opts(s *c27Share, p c26Pkg) string {
	return fmt.Sprintf("{| o_rootname := %s; o_prefer_state := %s; o_descriptions := %s; o_excluded := %s |}",
		s.str(p.RootName), coqBool(p.PreferState), coqBool(p.Descr), s.strs(p.Excluded))
}

// c27EmbeddedRoot returns the root entry of the schema embedded in a registered package.
func c27EmbeddedRoot(rp *reg.Pkg) *yang.Entry {
	t := reflect.TypeOf(rp.NewRoot()).Elem()
	return rp.SchemaTree[t.Name()]
}

func c27CountNodes(e *yang.Entry) int {
	n := 1
	for _, c := range e.Dir {
		n += c27CountNodes(c)
	}
	return n
}

func c27Dump(rng *rand.Rand, n int, tier string, out string) (*Summary, error) {
	sum := &Summary{Rule: "one case per generated package (goyang tree x embedded tree); non-trivial: distinct (input modules, transformation options)"}
	pkgs, err := c26LoadManifest()
	if err != nil {
		return nil, err
	}
	var b strings.Builder
	sh := c27NewShare("c27s")
	var cases []string
	distinct := map[string]bool{}
	var order []string
	for _, p := range pkgs {
		rp := reg.Get(p.Name)
		if rp == nil {
			continue // did not generate / compile: reported by the pre hook
		}
		mods, err := c27Compile(p.Yang, p.Path)
		if err != nil {
			sum.finding(Finding{Signature: "schema-eq/goyang-rejects", What: "goyang alone rejects modules the generator accepted: " + err.Error(), Input: p})
			continue
		}
		root := c27EmbeddedRoot(rp)
		if root == nil {
			sum.finding(Finding{Signature: "schema-eq/no-embedded-root", What: "SchemaTree has no entry for the root struct", Input: p})
			continue
		}
		var ms []string
		nodes := 0
		for _, m := range mods {
			ms = append(ms, c27Node(sh, m, true))
			nodes += c27CountNodes(m)
		}
		id := fmt.Sprintf("c27case_%d", len(cases))
		fmt.Fprintf(&b, "Definition %s : ecase := {| ec_name := %s; ec_opts := %s;\n ec_mods := %s;\n ec_embedded := %s |}.\n",
			id, sh.str(p.Name), c27Opts(sh, p), coqList(ms), c27Node(sh, root, false))
		cases = append(cases, id)
		order = append(order, p.Name)
		sum.Cases++
		sum.OracleRuns++
		sum.count("group", p.Group)
		sum.count("nodes", fmt.Sprintf("%d", (nodes/50)*50))
		distinct[strings.Join(p.Yang, ",")+fmt.Sprintf("|%v%v%v", p.PreferState, p.Descr, p.RootName)] = true
		sum.sample(map[string]interface{}{"package": p.Name, "flags": p.Flags, "goyang_nodes": nodes, "embedded_nodes": c27CountNodes(root)})
	}
	sum.Nontrivial = len(distinct)
	sum.Extra = map[string]interface{}{"packages": order}
	var f strings.Builder
	f.WriteString("(* GENERATED by the c27dump stream on every run -- do not edit. *)\nFrom Ygot Require Import Base.Base Gen.SchemaEq.\nOpen Scope N_scope.\n")
	f.WriteString(strings.Join(sh.defs, "\n"))
	f.WriteString("\n")
	f.WriteString(b.String())
	fmt.Fprintf(&f, "Definition c27_cases : list ecase := %s.\n", coqList(cases))
	if err := os.WriteFile(out+"/C27_cases.v", []byte(f.String()), 0o644); err != nil {
		return nil, err
	}
	return sum, nil
}

func init() { streams["c27dump"] = c27Dump }
