//go:build verif

package main

// Property C06 — scalar restriction checks match YANG value-space semantics.
//
// Stream "restrict": yang.Number (Less/Equal/FromInt/FromUint) and the range/length halves of
// the five exported ytypes.Validate*Restrictions functions, on boundary and random ranges and
// values.  Stream "regex": util.SanitizedPattern and the pattern half of
// ValidateStringRestrictions, on patterns generated from a grammar of the supported regular
// expression subset and on strings derived from the patterns.
//
// Every case goes to the Coq case file (model re-computation) and through an oracle that
// evaluates the property statement directly on the implementation:
//   - ranges/lengths: exact arithmetic (math/big) on the generated bounds and values;
//   - patterns: a backtracking whole-string matcher over the generated syntax tree (the XSD
//     reading by construction), cross-checked against Go's regexp on "^(?:" + the pattern with
//     every literal ^ and $ escaped by this file's own class-aware escaper + ")$".

import (
	"encoding/json"
	"fmt"
	"math"
	"math/big"
	"math/rand"
	"os"
	"regexp"
	"strconv"
	"strings"
	"unicode/utf8"

	"github.com/openconfig/goyang/pkg/yang"
	"github.com/openconfig/ygot/util"
	"github.com/openconfig/ygot/ytypes"
)

func init() {
	streams["restrict"] = c06RestrictStream
	streams["regex"] = c06RegexStream
}

const c06Header = "From Ygot Require Import Base.Base Scalar.Number Scalar.Regex Scalar.FixRegexp Scalar.Restrict Corr.RestrictCorr."

// ---------- Coq printers ----------

func c06CoqNum(n yang.Number) string {
	return fmt.Sprintf("(Num %d %d %s)", n.Value, n.FractionDigits, coqBool(n.Negative))
}

func c06CoqRanges(rs yang.YangRange) string {
	items := make([]string, len(rs))
	for i, r := range rs {
		items[i] = "(YR " + c06CoqNum(r.Min) + " " + c06CoqNum(r.Max) + ")"
	}
	return coqList(items)
}

func c06CoqZ(z int64) string { return fmt.Sprintf("(%d)%%Z", z) }

func c06CoqBytes(b []byte) string {
	items := make([]string, len(b))
	for i, x := range b {
		items[i] = strconv.Itoa(int(x))
	}
	return coqList(items)
}

func c06CoqRes(err error, panicked bool) string {
	switch {
	case panicked:
		return coqPanic
	case err != nil:
		return coqErr
	}
	return coqOk("tt")
}

func c06CoqType(t *yang.YangType) string {
	return "(YT " + c06CoqRanges(t.Range) + " " + c06CoqRanges(t.Length) + " " + coqStrList(t.Pattern) + " " + coqStrList(t.POSIXPattern) + ")"
}

// ---------- JSON forms (findings / replay) ----------

type c06JNum struct {
	V   uint64 `json:"v"`
	FD  uint8  `json:"fd"`
	Neg bool   `json:"neg,omitempty"`
}
type c06JRange struct {
	Min c06JNum `json:"min"`
	Max c06JNum `json:"max"`
}

// c06Case is the replayable description of one case of either stream.
type c06Case struct {
	Kind    string      `json:"kind"` // less int uint decimal string-length binary-length regex
	Ranges  []c06JRange `json:"ranges,omitempty"`
	A       *c06JNum    `json:"a,omitempty"`
	B       *c06JNum    `json:"b,omitempty"`
	Int     int64       `json:"int,omitempty"`
	Uint    uint64      `json:"uint,omitempty"`
	Decimal string      `json:"decimal,omitempty"` // decimal text of the float64 under test
	Value   string      `json:"value,omitempty"`
	Bytes   []byte      `json:"bytes,omitempty"`
	Pattern string      `json:"pattern,omitempty"`
	POSIX   bool        `json:"posix,omitempty"`
}

func c06ToJNum(n yang.Number) c06JNum {
	return c06JNum{V: n.Value, FD: n.FractionDigits, Neg: n.Negative}
}
func c06FromJNum(j c06JNum) yang.Number {
	return yang.Number{Value: j.V, FractionDigits: j.FD, Negative: j.Neg}
}
func c06ToJRanges(rs yang.YangRange) []c06JRange {
	var out []c06JRange
	for _, r := range rs {
		out = append(out, c06JRange{c06ToJNum(r.Min), c06ToJNum(r.Max)})
	}
	return out
}
func c06FromJRanges(js []c06JRange) yang.YangRange {
	var out yang.YangRange
	for _, j := range js {
		out = append(out, yang.YRange{Min: c06FromJNum(j.Min), Max: c06FromJNum(j.Max)})
	}
	return out
}

// ---------- exact arithmetic ----------

func c06WF(n yang.Number) bool {
	return n.FractionDigits <= 18 && !(n.Negative && n.Value == 0)
}

func c06Rat(n yang.Number) *big.Rat {
	v := new(big.Int).SetUint64(n.Value)
	d := new(big.Int).Exp(big.NewInt(10), big.NewInt(int64(n.FractionDigits)), nil)
	r := new(big.Rat).SetFrac(v, d)
	if n.Negative {
		r.Neg(r)
	}
	return r
}

func c06InRangesExact(rs yang.YangRange, v *big.Rat) bool {
	if len(rs) == 0 {
		return true
	}
	for _, r := range rs {
		if c06Rat(r.Min).Cmp(v) <= 0 && v.Cmp(c06Rat(r.Max)) <= 0 {
			return true
		}
	}
	return false
}

func c06RangesWF(rs yang.YangRange) bool {
	for _, r := range rs {
		if !c06WF(r.Min) || !c06WF(r.Max) {
			return false
		}
	}
	return true
}

// ---------- calling the implementation ----------

func c06Call(f func() error) (err error, panicked bool) {
	defer func() {
		if r := recover(); r != nil {
			err, panicked = fmt.Errorf("panic: %v", r), true
		}
	}()
	return f(), false
}

func c06LessEqual(a, b yang.Number) (lt, eq, panicked bool) {
	defer func() {
		if r := recover(); r != nil {
			panicked = true
		}
	}()
	return a.Less(b), a.Equal(b), false
}

// ---------- generators for numbers and ranges ----------

var c06Int64Edges = []int64{math.MinInt64, math.MinInt64 + 1, -1 << 31, -129, -128, -1, 0, 1, 9, 10, 11, 99, 100, 127, 128, 255, 256, 1<<31 - 1, 1 << 31, 1<<32 - 1, 999999999999999999, 1000000000000000000, math.MaxInt64 - 1, math.MaxInt64}
var c06Uint64Edges = []uint64{0, 1, 9, 10, 255, 256, 65535, 65536, 1<<32 - 1, 1 << 32, 1<<63 - 1, 1 << 63, 1<<63 + 1, 9999999999999999999, 10000000000000000000, math.MaxUint64 - 1, math.MaxUint64}

func c06GenInt64(rng *rand.Rand) int64 {
	switch rng.Intn(4) {
	case 0:
		return pick(rng, c06Int64Edges)
	case 1:
		return int64(rng.Intn(41) - 20)
	case 2:
		return int64(rng.Uint64())
	}
	return int64(rng.Intn(2001) - 1000)
}

func c06GenUint64(rng *rand.Rand) uint64 {
	switch rng.Intn(4) {
	case 0:
		return pick(rng, c06Uint64Edges)
	case 1:
		return uint64(rng.Intn(41))
	case 2:
		return rng.Uint64()
	}
	return uint64(rng.Intn(2001))
}

// c06Near returns a value at or next to a bound of one of the ranges (or a random one).
func c06NearInt(rng *rand.Rand, bounds []int64) int64 {
	if len(bounds) == 0 || rng.Intn(4) == 0 {
		return c06GenInt64(rng)
	}
	b := pick(rng, bounds)
	switch rng.Intn(3) {
	case 0:
		if b > math.MinInt64 {
			return b - 1
		}
	case 1:
		if b < math.MaxInt64 {
			return b + 1
		}
	}
	return b
}

func c06NearUint(rng *rand.Rand, bounds []uint64) uint64 {
	if len(bounds) == 0 || rng.Intn(4) == 0 {
		return c06GenUint64(rng)
	}
	b := pick(rng, bounds)
	switch rng.Intn(3) {
	case 0:
		if b > 0 {
			return b - 1
		}
	case 1:
		if b < math.MaxUint64 {
			return b + 1
		}
	}
	return b
}

// c06GenNumber draws a Number; kind "wf" stays within what goyang builds (fd<=18, no -0),
// kind "exotic" also produces fd in 19..40 and negative zero (Less/Equal correspondence only:
// the model reproduces the uint64 wrap-around, the theorems do not cover them).
func c06GenNumber(rng *rand.Rand, kind string) yang.Number {
	var n yang.Number
	switch rng.Intn(5) {
	case 0:
		return yang.FromInt(c06GenInt64(rng))
	case 1:
		return yang.FromUint(c06GenUint64(rng))
	case 2:
		n.Value = pick(rng, c06Uint64Edges)
	case 3:
		n.Value = uint64(rng.Intn(100000))
	default:
		n.Value = rng.Uint64() >> uint(rng.Intn(64))
	}
	n.FractionDigits = uint8(rng.Intn(19))
	n.Negative = rng.Intn(3) == 0
	if kind == "exotic" {
		if rng.Intn(2) == 0 {
			n.FractionDigits = uint8(19 + rng.Intn(22))
		}
		if rng.Intn(4) == 0 {
			n.Value = 0
		}
	} else if n.Value == 0 {
		n.Negative = false
	}
	return n
}

// c06Scale returns m as a Number with fd fraction digits shifted so that it denotes the same
// value with a different representation when that is possible without overflow.
func c06Rescale(rng *rand.Rand, n yang.Number) yang.Number {
	for n.FractionDigits < 18 && n.Value <= math.MaxUint64/10 && rng.Intn(2) == 0 {
		n.Value *= 10
		n.FractionDigits++
	}
	return n
}

// ---------- stream restrict ----------

func c06RestrictStream(rng *rand.Rand, n int, tier string, out string) (*Summary, error) {
	sum := &Summary{Rule: "restrict: (a) yang.Number pairs (integers, decimals with 0..18 fraction digits, equal values in different representations, uint64/int64 edges; 'exotic' = fraction digits 19..40 or negative zero) through Less/Equal, FromInt/FromUint; (b) 0..3 range parts (ordered, touching, inverted, decimal bounds on integer types) x values at and next to every bound through ValidateInt/Uint/DecimalRestrictions; decimal values are decimal texts with at most fraction-digits digits converted to float64; (c) length parts x strings with 1..4-byte runes and byte strings through ValidateString/BinaryRestrictions. A case is non-trivial if it has at least one range part (or is a Number pair with different fraction digits); distinct by input."}
	cf := &caseFile{header: c06Header, typ: "rcase", fn: "mismatches"}
	seen := map[string]bool{}
	id := 0
	note := func(key string, nontrivial bool) {
		if !seen[key] {
			seen[key] = true
			if nontrivial {
				sum.Nontrivial++
			}
		}
	}

	doLess := func(a, b yang.Number, kind string) {
		lt, eq, p := c06LessEqual(a, b)
		if p {
			// FractionDigits >= 64: division by zero in Trunc; outside model and generators
			sum.count("less", "panic")
			return
		}
		cf.add(fmt.Sprintf("RLess %d %s %s %s %s", id, c06CoqNum(a), c06CoqNum(b), coqBool(lt), coqBool(eq)))
		id++
		sum.count("less_kind", kind)
		note("L"+c06CoqNum(a)+c06CoqNum(b), a.FractionDigits != b.FractionDigits)
		if c06WF(a) && c06WF(b) {
			sum.OracleRuns++
			c := c06Rat(a).Cmp(c06Rat(b))
			if lt != (c < 0) || eq != (c == 0) {
				ja, jb := c06ToJNum(a), c06ToJNum(b)
				sum.finding(Finding{Signature: "number/less", What: "yang.Number.Less/Equal disagrees with the order of the denoted rationals", Input: c06Case{Kind: "less", A: &ja, B: &jb}, Observed: map[string]bool{"less": lt, "equal": eq}, Expected: map[string]bool{"less": c < 0, "equal": c == 0}})
			}
			sum.count("less_outcome", map[int]string{-1: "lt", 0: "eq", 1: "gt"}[c])
		}
	}
	doFrom := func(z int64, u uint64) {
		cf.add(fmt.Sprintf("RFromInt %d %s %s", id, c06CoqZ(z), c06CoqNum(yang.FromInt(z))))
		id++
		cf.add(fmt.Sprintf("RFromUint %d %d %s", id, u, c06CoqNum(yang.FromUint(u))))
		id++
	}
	doInt := func(rs yang.YangRange, z int64) {
		t := &yang.YangType{Kind: yang.Yint64, Range: rs}
		err, p := c06Call(func() error { return ytypes.ValidateIntRestrictions(t, z) })
		cf.add(fmt.Sprintf("RInt %d %s %s %s", id, c06CoqRanges(rs), c06CoqZ(z), c06CoqRes(err, p)))
		id++
		note(fmt.Sprintf("I%s/%d", c06CoqRanges(rs), z), len(rs) > 0)
		sum.count("int_outcome", map[bool]string{true: "accept", false: "reject"}[err == nil])
		sum.count("range_parts", strconv.Itoa(len(rs)))
		if c06RangesWF(rs) {
			sum.OracleRuns++
			want := c06InRangesExact(rs, new(big.Rat).SetInt64(z))
			if p || (err == nil) != want {
				sum.finding(Finding{Signature: "range/int", What: "ValidateIntRestrictions disagrees with range membership", Input: c06Case{Kind: "int", Ranges: c06ToJRanges(rs), Int: z}, Observed: err == nil, Expected: want})
			}
		}
	}
	doUint := func(rs yang.YangRange, u uint64) {
		t := &yang.YangType{Kind: yang.Yuint64, Range: rs}
		err, p := c06Call(func() error { return ytypes.ValidateUintRestrictions(t, u) })
		cf.add(fmt.Sprintf("RUint %d %s %d %s", id, c06CoqRanges(rs), u, c06CoqRes(err, p)))
		id++
		note(fmt.Sprintf("U%s/%d", c06CoqRanges(rs), u), len(rs) > 0)
		sum.count("uint_outcome", map[bool]string{true: "accept", false: "reject"}[err == nil])
		if c06RangesWF(rs) {
			sum.OracleRuns++
			want := c06InRangesExact(rs, new(big.Rat).SetInt(new(big.Int).SetUint64(u)))
			if p || (err == nil) != want {
				sum.finding(Finding{Signature: "range/uint", What: "ValidateUintRestrictions disagrees with range membership", Input: c06Case{Kind: "uint", Ranges: c06ToJRanges(rs), Uint: u}, Observed: err == nil, Expected: want})
			}
		}
	}
	_ = 0
	// dec is the decimal text of the value (at most 18 fraction digits): the decimal64 value
	// the user means; f is the float64 that ygot's generated code stores for it.
	doDecimal := func(rs yang.YangRange, dec string) {
		f, perr := strconv.ParseFloat(dec, 64)
		if perr != nil {
			return
		}
		t := &yang.YangType{Kind: yang.Ydecimal64, Range: rs}
		err, p := c06Call(func() error { return ytypes.ValidateDecimalRestrictions(t, f) })
		v := c06RefNumber(f)
		cf.add(fmt.Sprintf("RDec %d %s %s %s", id, c06CoqRanges(rs), c06CoqNum(v), c06CoqRes(err, p)))
		id++
		note(fmt.Sprintf("D%s/%s", c06CoqRanges(rs), dec), len(rs) > 0)
		sum.count("decimal_outcome", map[bool]string{true: "accept", false: "reject"}[err == nil])
		sum.count("fromfloat_fraction_digits", strconv.Itoa(int(v.FractionDigits)))
		exact, ok := new(big.Rat).SetString(dec)
		// the oracle applies when the float64 still identifies the decimal text (its shortest
		// round-trip form is that text) — i.e. the value is representable by the Go type at all
		if ok && c06RangesWF(rs) && c06SameDecimal(f, exact) {
			sum.OracleRuns++
			want := c06InRangesExact(rs, exact)
			if p || (err == nil) != want {
				sig := "decimal/fromfloat-rounding"
				if v.FractionDigits > 18 {
					sig = "decimal/fromfloat-19-digits"
				}
				sum.finding(Finding{Signature: sig, What: "ValidateDecimalRestrictions disagrees with range membership of the decimal value: yang.FromFloat(" + dec + ") = " + fmt.Sprintf("{Value:%d FractionDigits:%d Negative:%v}", v.Value, v.FractionDigits, v.Negative), Input: c06Case{Kind: "decimal", Ranges: c06ToJRanges(rs), Decimal: dec}, Observed: err == nil, Expected: want})
			}
		}
	}
	doStrLen := func(ls yang.YangRange, s string) {
		t := &yang.YangType{Kind: yang.Ystring, Length: ls}
		err, p := c06Call(func() error { return ytypes.ValidateStringRestrictions(t, s) })
		cf.add(fmt.Sprintf("RStr %d %s %s %s", id, c06CoqType(t), coqStr(s), c06CoqRes(err, p)))
		id++
		note(fmt.Sprintf("S%s/%s", c06CoqRanges(ls), s), len(ls) > 0)
		sum.count("strlen_outcome", map[bool]string{true: "accept", false: "reject"}[err == nil])
		if utf8.RuneCountInString(s) != len(s) {
			sum.count("strlen_input", "multibyte")
		} else {
			sum.count("strlen_input", "ascii")
		}
		if c06RangesWF(ls) {
			sum.OracleRuns++
			want := c06InRangesExact(ls, new(big.Rat).SetInt64(int64(len([]rune(s)))))
			if p || (err == nil) != want {
				sum.finding(Finding{Signature: "length/string", What: "ValidateStringRestrictions length check disagrees with the number of characters", Input: c06Case{Kind: "string-length", Ranges: c06ToJRanges(ls), Value: s}, Observed: err == nil, Expected: want})
			}
		}
	}
	doBinLen := func(ls yang.YangRange, b []byte) {
		t := &yang.YangType{Kind: yang.Ybinary, Length: ls}
		err, p := c06Call(func() error { return ytypes.ValidateBinaryRestrictions(t, b) })
		cf.add(fmt.Sprintf("RBin %d %s %s %s", id, c06CoqRanges(ls), c06CoqBytes(b), c06CoqRes(err, p)))
		id++
		note(fmt.Sprintf("B%s/%x", c06CoqRanges(ls), b), len(ls) > 0)
		sum.count("binlen_outcome", map[bool]string{true: "accept", false: "reject"}[err == nil])
		if c06RangesWF(ls) {
			sum.OracleRuns++
			want := c06InRangesExact(ls, new(big.Rat).SetInt64(int64(len(b))))
			if p || (err == nil) != want {
				sum.finding(Finding{Signature: "length/binary", What: "ValidateBinaryRestrictions disagrees with the number of bytes", Input: c06Case{Kind: "binary-length", Ranges: c06ToJRanges(ls), Bytes: b}, Observed: err == nil, Expected: want})
			}
		}
	}

	finish := func() (*Summary, error) {
		sum.Cases = id
		files, err := cf.write(out, "restrict", 400)
		if sum.Extra == nil {
			sum.Extra = map[string]interface{}{}
		}
		sum.Extra["case_files"] = files
		return sum, err
	}

	if replayFile != "" {
		c, err := c06ReadReplay()
		if err != nil {
			return nil, err
		}
		rs := c06FromJRanges(c.Ranges)
		switch c.Kind {
		case "less":
			doLess(c06FromJNum(*c.A), c06FromJNum(*c.B), "replay")
		case "int":
			doInt(rs, c.Int)
		case "uint":
			doUint(rs, c.Uint)
		case "decimal":
			doDecimal(rs, c.Decimal)
		case "string-length":
			doStrLen(rs, c.Value)
		case "binary-length":
			doBinLen(rs, c.Bytes)
		default:
			return nil, fmt.Errorf("restrict: cannot replay kind %q", c.Kind)
		}
		return finish()
	}

	// --- hand-picked corner cases ---
	for _, z := range c06Int64Edges {
		doFrom(z, uint64(z))
	}
	dnum := func(v uint64, fd uint8, neg bool) yang.Number {
		return yang.Number{Value: v, FractionDigits: fd, Negative: neg}
	}
	cornerPairs := [][2]yang.Number{
		{dnum(30, 2, false), dnum(4, 1, false)}, {dnum(25, 1, true), dnum(249, 2, true)}, {dnum(10, 0, false), dnum(10000, 3, false)},
		{dnum(math.MaxUint64, 18, false), dnum(math.MaxUint64, 0, false)}, {dnum(math.MaxUint64, 18, false), dnum(18, 0, false)},
		{dnum(1, 18, false), dnum(0, 0, false)}, {dnum(1, 18, true), dnum(0, 5, false)}, {dnum(999999999999999999, 18, false), dnum(1, 0, false)},
		{dnum(1000000000000000000, 18, false), dnum(1, 0, false)}, {yang.FromInt(math.MinInt64), yang.FromInt(math.MaxInt64)},
		{yang.FromInt(math.MinInt64), dnum(1<<63, 0, true)}, {dnum(5, 1, false), dnum(50, 2, true)}, {dnum(0, 0, false), dnum(0, 18, false)},
		{dnum(0, 0, true), dnum(0, 0, false)}, {dnum(5, 19, false), dnum(3, 1, false)}, {dnum(12345678901234567890, 19, false), dnum(1, 0, false)},
		{dnum(7, 20, false), dnum(7, 21, false)}, {dnum(1, 1, false), dnum(10, 2, false)},
	}
	for _, pr := range cornerPairs {
		k := "corner"
		if !c06WF(pr[0]) || !c06WF(pr[1]) {
			k = "exotic"
		}
		doLess(pr[0], pr[1], k)
		doLess(pr[1], pr[0], k)
	}
	ir := func(lo, hi int64) yang.YRange { return yang.YRange{Min: yang.FromInt(lo), Max: yang.FromInt(hi)} }
	ur := func(lo, hi uint64) yang.YRange { return yang.YRange{Min: yang.FromUint(lo), Max: yang.FromUint(hi)} }
	for _, z := range []int64{math.MinInt64, -6, -5, 0, 5, 6, 9, 10, 11, math.MaxInt64} {
		doInt(nil, z)
		doInt(yang.YangRange{ir(-5, 5), ir(10, 10)}, z)
		doInt(yang.YangRange{ir(math.MinInt64, math.MinInt64), ir(math.MaxInt64, math.MaxInt64)}, z)
		doInt(yang.YangRange{ir(5, -5)}, z)                                         // inverted: empty
		doInt(yang.YangRange{{Min: dnum(55, 1, true), Max: dnum(55, 1, false)}}, z) // -5.5..5.5 on an integer
	}
	for _, u := range []uint64{0, 1, 2, 254, 255, 256, 1 << 63, math.MaxUint64 - 1, math.MaxUint64} {
		doUint(nil, u)
		doUint(yang.YangRange{ur(1, 255), ur(1<<63, 1<<63)}, u)
		doUint(yang.YangRange{ur(math.MaxUint64, math.MaxUint64)}, u)
		doUint(yang.YangRange{ir(-5, 1)}, u)
	}
	dr := func(lo, hi string, fd uint8) yang.YRange {
		a, _ := yang.ParseDecimal(lo, fd)
		b, _ := yang.ParseDecimal(hi, fd)
		return yang.YRange{Min: a, Max: b}
	}
	for _, d := range []string{"0.56", "0.57", "0.58", "1.00", "1.005", "0.07", "0.1", "0.3", "-0.57", "2.675", "33.33", "1.01", "0.999"} {
		doDecimal(nil, d)
		doDecimal(yang.YangRange{dr("0.57", "1.00", 2)}, d)
		doDecimal(yang.YangRange{dr("-1.000", "0.070", 3), dr("1.005", "33.330", 3)}, d)
	}
	doDecimal(yang.YangRange{dr("0.001", "1.000", 3)}, "0.001234567890123456")
	doDecimal(yang.YangRange{dr("-92233720368547758.08", "92233720368547758.07", 2)}, "92233720368547758.07")
	lr := func(lo, hi uint64) yang.YRange { return ur(lo, hi) }
	for _, s := range []string{"", "a", "ab", "abc", "é", "é世", "é世😀", "aé", "日本語", "\n", "a\x00b"} {
		doStrLen(nil, s)
		doStrLen(yang.YangRange{lr(2, 2)}, s)
		doStrLen(yang.YangRange{lr(0, 0), lr(3, 4)}, s)
		doBinLen(nil, []byte(s))
		doBinLen(yang.YangRange{lr(2, 2)}, []byte(s))
		doBinLen(yang.YangRange{lr(0, 0), lr(3, 4)}, []byte(s))
	}

	// --- random cases ---
	genIntRanges := func() (yang.YangRange, []int64) {
		var rs yang.YangRange
		var bounds []int64
		for k := rng.Intn(4); k > 0; k-- {
			lo, hi := c06GenInt64(rng), c06GenInt64(rng)
			if lo > hi && rng.Intn(8) != 0 {
				lo, hi = hi, lo
			}
			if rng.Intn(5) == 0 {
				hi = lo
			}
			r := ir(lo, hi)
			if rng.Intn(6) == 0 { // same bounds in a decimal representation
				r.Min, r.Max = c06Rescale(rng, r.Min), c06Rescale(rng, r.Max)
			}
			rs = append(rs, r)
			bounds = append(bounds, lo, hi)
		}
		return rs, bounds
	}
	genUintRanges := func(small bool) (yang.YangRange, []uint64) {
		var rs yang.YangRange
		var bounds []uint64
		for k := rng.Intn(4); k > 0; k-- {
			lo, hi := c06GenUint64(rng), c06GenUint64(rng)
			if small {
				lo, hi = uint64(rng.Intn(7)), uint64(rng.Intn(7))
			}
			if lo > hi && rng.Intn(8) != 0 {
				lo, hi = hi, lo
			}
			if rng.Intn(5) == 0 {
				hi = lo
			}
			rs = append(rs, ur(lo, hi))
			bounds = append(bounds, lo, hi)
		}
		return rs, bounds
	}
	genDecText := func(fd int) string {
		// sign, integer part, exactly k<=fd fraction digits
		var b strings.Builder
		if rng.Intn(3) == 0 {
			b.WriteByte('-')
		}
		switch rng.Intn(3) {
		case 0:
			b.WriteString("0")
		case 1:
			b.WriteString(strconv.Itoa(rng.Intn(100)))
		default:
			b.WriteString(strconv.Itoa(rng.Intn(1000000)))
		}
		k := 1 + rng.Intn(fd)
		b.WriteByte('.')
		for i := 0; i < k; i++ {
			b.WriteByte(byte('0' + rng.Intn(10)))
		}
		return b.String()
	}
	strRunes := []rune{'a', 'b', 'z', '0', ' ', 'é', 'ß', '世', '語', '😀', '\n'}
	for id < n {
		switch rng.Intn(12) {
		case 0, 1:
			a := c06GenNumber(rng, "wf")
			b := c06GenNumber(rng, "wf")
			switch rng.Intn(4) {
			case 0:
				b = c06Rescale(rng, a) // same value, other representation
			case 1: // neighbours in the last digit
				b = a
				if b.Value < math.MaxUint64 {
					b.Value++
				}
				b = c06Rescale(rng, b)
			}
			doLess(a, b, "wf")
		case 2:
			doLess(c06GenNumber(rng, "exotic"), c06GenNumber(rng, "exotic"), "exotic")
		case 3, 4, 5:
			rs, bounds := genIntRanges()
			for k := 0; k < 3; k++ {
				doInt(rs, c06NearInt(rng, bounds))
			}
		case 6, 7:
			rs, bounds := genUintRanges(false)
			for k := 0; k < 3; k++ {
				doUint(rs, c06NearUint(rng, bounds))
			}
		case 8, 9:
			fd := 1 + rng.Intn(6)
			var rs yang.YangRange
			var texts []string
			for k := rng.Intn(3); k > 0; k-- {
				lo, hi := genDecText(fd), genDecText(fd)
				a, e1 := yang.ParseDecimal(lo, uint8(fd))
				b, e2 := yang.ParseDecimal(hi, uint8(fd))
				if e1 != nil || e2 != nil {
					continue
				}
				if b.Less(a) {
					a, b, lo, hi = b, a, hi, lo
				}
				rs = append(rs, yang.YRange{Min: a, Max: b})
				texts = append(texts, lo, hi)
			}
			for k := 0; k < 3; k++ {
				d := genDecText(fd)
				if len(texts) > 0 && rng.Intn(3) != 0 {
					d = pick(rng, texts) // exactly a bound
				}
				doDecimal(rs, d)
			}
		case 10:
			ls, _ := genUintRanges(true)
			var b strings.Builder
			for k := rng.Intn(7); k > 0; k-- {
				b.WriteRune(pick(rng, strRunes))
			}
			doStrLen(ls, b.String())
		case 11:
			ls, _ := genUintRanges(true)
			bs := make([]byte, rng.Intn(7))
			rng.Read(bs)
			if rng.Intn(2) == 0 {
				bs = []byte(string(pick(rng, strRunes)) + string(pick(rng, strRunes)))
			}
			doBinLen(ls, bs)
		}
	}
	if tier == "thorough" {
		// exhaustive small scope: all range lists of <= 2 parts with bounds in -3..3 x all values in -4..4
		cnt := 0
		for lo1 := int64(-3); lo1 <= 3; lo1++ {
			for hi1 := int64(-3); hi1 <= 3; hi1++ {
				for lo2 := int64(-3); lo2 <= 3; lo2 += 2 {
					for hi2 := int64(-3); hi2 <= 3; hi2 += 3 {
						rs := yang.YangRange{ir(lo1, hi1), ir(lo2, hi2)}
						for z := int64(-4); z <= 4; z++ {
							cnt++
							if cnt%9 == 0 {
								doInt(rs, z)
							} else {
								sum.OracleRuns++
								err := ytypes.ValidateIntRestrictions(&yang.YangType{Kind: yang.Yint64, Range: rs}, z)
								if (err == nil) != c06InRangesExact(rs, new(big.Rat).SetInt64(z)) {
									sum.finding(Finding{Signature: "range/int", What: "ValidateIntRestrictions disagrees with range membership", Input: c06Case{Kind: "int", Ranges: c06ToJRanges(rs), Int: z}})
								}
							}
						}
					}
				}
			}
		}
		// decimals with two fraction digits 0.00..2.99 against 0.57..1.00
		rs := yang.YangRange{dr("0.57", "1.00", 2)}
		for c := 0; c < 300; c++ {
			doDecimal(rs, fmt.Sprintf("%d.%02d", c/100, c%100))
		}
		sum.Extra = map[string]interface{}{"exhaustive_int_cases": cnt}
	}
	return finish()
}

// c06SameDecimal reports whether the float64 f still denotes the decimal value d, i.e. the
// shortest decimal text that round-trips to f is d.
func c06SameDecimal(f float64, d *big.Rat) bool {
	s := strconv.FormatFloat(f, 'f', -1, 64)
	r, ok := new(big.Rat).SetString(s)
	return ok && r.Cmp(d) == 0
}

func c06ReadReplay() (*c06Case, error) {
	b, err := os.ReadFile(replayFile)
	if err != nil {
		return nil, err
	}
	var wrap struct {
		Case json.RawMessage `json:"case"`
	}
	if err := json.Unmarshal(b, &wrap); err != nil {
		return nil, err
	}
	var c c06Case
	if err := json.Unmarshal(wrap.Case, &c); err != nil {
		return nil, err
	}
	return &c, nil
}

// =====================================================================================
// stream regex
// =====================================================================================

type c06Range struct{ lo, hi rune }

// c06Node is a regular expression over the supported subset, with the XSD meaning.
type c06Node struct {
	kind     string // lit any set seq alt star plus opt rep group eps
	ch       rune
	neg      bool
	items    []c06Range // set: ranges
	short    string     // set rendered as an escape: \d \w \s \D \W \S
	kids     []*c06Node
	min, max int // rep; max<0 = unbounded
}

var c06Digit = []c06Range{{'0', '9'}}
var c06Word = []c06Range{{'0', '9'}, {'A', 'Z'}, {'_', '_'}, {'a', 'z'}}
var c06Space = []c06Range{{'\t', '\n'}, {'\f', '\r'}, {' ', ' '}}

func (n *c06Node) setHas(r rune) bool {
	in := false
	for _, x := range n.items {
		if x.lo <= r && r <= x.hi {
			in = true
		}
	}
	return in != n.neg
}

// c06Match: does node match the whole of s (XSD semantics)?
func c06Match(n *c06Node, s []rune) bool {
	return c06M(n, s, 0, func(j int) bool { return j == len(s) })
}

func c06M(n *c06Node, s []rune, i int, k func(int) bool) bool {
	switch n.kind {
	case "eps":
		return k(i)
	case "lit":
		return i < len(s) && s[i] == n.ch && k(i+1)
	case "any": // every character except newline (Go's and, up to \r, XSD's '.')
		return i < len(s) && s[i] != '\n' && k(i+1)
	case "set":
		return i < len(s) && n.setHas(s[i]) && k(i+1)
	case "group":
		return c06M(n.kids[0], s, i, k)
	case "seq":
		var step func(idx, pos int) bool
		step = func(idx, pos int) bool {
			if idx == len(n.kids) {
				return k(pos)
			}
			return c06M(n.kids[idx], s, pos, func(j int) bool { return step(idx+1, j) })
		}
		return step(0, i)
	case "alt":
		for _, c := range n.kids {
			if c06M(c, s, i, k) {
				return true
			}
		}
		return false
	case "opt":
		return k(i) || c06M(n.kids[0], s, i, k)
	case "star", "plus", "rep":
		min, max := 0, -1
		if n.kind == "plus" {
			min = 1
		} else if n.kind == "rep" {
			min, max = n.min, n.max
		}
		var loop func(cnt, pos int) bool
		loop = func(cnt, pos int) bool {
			if cnt >= min && k(pos) {
				return true
			}
			if max >= 0 && cnt >= max {
				return false
			}
			return c06M(n.kids[0], s, pos, func(j int) bool {
				if j == pos && cnt >= min {
					return false // an empty iteration adds nothing
				}
				return loop(cnt+1, j)
			})
		}
		return loop(0, i)
	}
	return false
}

var c06LitRunes = []rune{'a', 'b', 'c', 'x', '0', '1', '-', '_', ' ', '/', 'é', '世', '😀', '.', '*', '+', '?', '(', ')', '[', ']', '{', '}', '|', '\\', '^', '$', '^', '$'}
var c06PlainLit = []rune{'a', 'b', 'c', 'x', '0', '1', 'é'}

func c06GenNode(rng *rand.Rand, depth int, posix bool) *c06Node {
	k := rng.Intn(16)
	if depth <= 0 && k >= 8 {
		k = rng.Intn(8)
	}
	switch k {
	case 0, 1, 2:
		return &c06Node{kind: "lit", ch: pick(rng, c06PlainLit)}
	case 3, 4:
		return &c06Node{kind: "lit", ch: pick(rng, c06LitRunes)}
	case 5:
		return &c06Node{kind: "any"}
	case 6:
		if posix || rng.Intn(2) == 0 {
			return c06GenClass(rng, posix)
		}
		sh := pick(rng, []string{`\d`, `\w`, `\s`, `\D`, `\W`, `\S`})
		n := &c06Node{kind: "set", short: sh, neg: sh[1] < 'a'}
		switch sh[1] {
		case 'd', 'D':
			n.items = c06Digit
		case 'w', 'W':
			n.items = c06Word
		default:
			n.items = c06Space
		}
		return n
	case 7:
		return c06GenClass(rng, posix)
	case 8, 9, 10:
		n := &c06Node{kind: "seq"}
		for c := 2 + rng.Intn(3); c > 0; c-- {
			n.kids = append(n.kids, c06GenNode(rng, depth-1, posix))
		}
		return n
	case 11, 12:
		n := &c06Node{kind: "alt"}
		for c := 2 + rng.Intn(2); c > 0; c-- {
			if rng.Intn(10) == 0 {
				n.kids = append(n.kids, &c06Node{kind: "eps"})
			} else {
				n.kids = append(n.kids, c06GenNode(rng, depth-1, posix))
			}
		}
		return n
	case 13:
		return &c06Node{kind: pick(rng, []string{"star", "plus", "opt"}), kids: []*c06Node{c06GenNode(rng, depth-1, posix)}}
	case 14:
		n := &c06Node{kind: "rep", kids: []*c06Node{c06GenNode(rng, depth-1, posix)}, min: rng.Intn(3)}
		switch rng.Intn(3) {
		case 0:
			n.max = n.min
		case 1:
			n.max = -1
		default:
			n.max = n.min + rng.Intn(3)
		}
		return n
	}
	return &c06Node{kind: "group", kids: []*c06Node{c06GenNode(rng, depth-1, posix)}}
}

func c06GenClass(rng *rand.Rand, posix bool) *c06Node {
	n := &c06Node{kind: "set", neg: rng.Intn(3) == 0}
	for c := 1 + rng.Intn(3); c > 0; c-- {
		switch rng.Intn(4) {
		case 0:
			n.items = append(n.items, pick(rng, []c06Range{{'a', 'c'}, {'0', '9'}, {'a', 'z'}, {'x', 'z'}, {'à', 'ü'}}))
		case 1:
			r := pick(rng, []rune{'^', '$', '-', ']', '[', '\\', '.', '|', '*'})
			n.items = append(n.items, c06Range{r, r})
		default:
			r := pick(rng, c06PlainLit)
			n.items = append(n.items, c06Range{r, r})
		}
	}
	return n
}

const c06Meta = `.\?*+{}()[]|`

// c06Render writes the pattern text of n.  ctx: 0 = top/alternative, 1 = inside a sequence,
// 2 = operand of a repetition.  A literal ^ or $ is written raw or escaped at random (both are
// the same ordinary character in XSD) except where ygot's convention would read it as an
// anchor (first/last position of the whole pattern), which the caller repairs.
func c06Render(rng *rand.Rand, n *c06Node, ctx int, posix bool, b *strings.Builder) {
	paren := func(inner func()) {
		if !posix && rng.Intn(4) == 0 {
			b.WriteString("(?:")
		} else {
			b.WriteString("(")
		}
		inner()
		b.WriteString(")")
	}
	switch n.kind {
	case "eps":
		if ctx == 2 {
			b.WriteString("()")
		}
	case "lit":
		switch {
		case strings.ContainsRune(c06Meta, n.ch):
			b.WriteRune('\\')
			b.WriteRune(n.ch)
		case (n.ch == '^' || n.ch == '$') && (posix || rng.Intn(2) == 0):
			b.WriteRune('\\')
			b.WriteRune(n.ch)
		default:
			b.WriteRune(n.ch)
		}
	case "any":
		b.WriteString(".")
	case "set":
		if n.short != "" {
			b.WriteString(n.short)
			return
		}
		b.WriteString("[")
		if n.neg {
			b.WriteString("^")
		}
		for i, it := range n.items {
			wr := func(r rune, first bool) {
				switch {
				case r == ']' || r == '[' || r == '\\' || r == '-':
					b.WriteRune('\\')
					b.WriteRune(r)
				case r == '^' && (first || rng.Intn(2) == 0):
					b.WriteString(`\^`)
				default:
					b.WriteRune(r)
				}
			}
			wr(it.lo, i == 0 && !n.neg)
			if it.hi != it.lo {
				b.WriteString("-")
				wr(it.hi, false)
			}
		}
		b.WriteString("]")
	case "group":
		paren(func() { c06Render(rng, n.kids[0], 0, posix, b) })
	case "seq":
		f := func() {
			for _, c := range n.kids {
				c06Render(rng, c, 1, posix, b)
			}
		}
		if ctx == 2 {
			paren(f)
		} else {
			f()
		}
	case "alt":
		f := func() {
			for i, c := range n.kids {
				if i > 0 {
					b.WriteString("|")
				}
				c06Render(rng, c, 0, posix, b)
			}
		}
		if ctx != 0 {
			paren(f)
		} else {
			f()
		}
	case "star", "plus", "opt", "rep":
		f := func() {
			c06Render(rng, n.kids[0], 2, posix, b)
			switch n.kind {
			case "star":
				b.WriteString("*")
			case "plus":
				b.WriteString("+")
			case "opt":
				b.WriteString("?")
			default:
				switch {
				case n.max == n.min:
					fmt.Fprintf(b, "{%d}", n.min)
				case n.max < 0:
					fmt.Fprintf(b, "{%d,}", n.min)
				default:
					fmt.Fprintf(b, "{%d,%d}", n.min, n.max)
				}
			}
		}
		if ctx == 2 {
			paren(f) // a repetition of a repetition needs a group (Go rejects a**)
		} else {
			f()
		}
	}
}

// c06Sample draws a string of the language of n.
func c06Sample(rng *rand.Rand, n *c06Node, b *strings.Builder) {
	switch n.kind {
	case "lit":
		b.WriteRune(n.ch)
	case "any":
		b.WriteRune(pick(rng, []rune{'a', 'z', '.', 'é', ' ', '$'}))
	case "set":
		cands := []rune{'a', 'b', 'c', 'x', 'y', '0', '5', '9', '_', ' ', '\t', 'é', 'ö', '^', '$', '-', ']', '[', '\\', '.', '|', '*', 'Q', '世'}
		for try := 0; try < 40; try++ {
			r := pick(rng, cands)
			if n.setHas(r) {
				b.WriteRune(r)
				return
			}
		}
		if !n.neg && len(n.items) > 0 {
			b.WriteRune(n.items[0].lo)
		} else {
			b.WriteRune('~')
		}
	case "group":
		c06Sample(rng, n.kids[0], b)
	case "seq":
		for _, c := range n.kids {
			c06Sample(rng, c, b)
		}
	case "alt":
		c06Sample(rng, pick(rng, n.kids), b)
	case "opt":
		if rng.Intn(2) == 0 {
			c06Sample(rng, n.kids[0], b)
		}
	case "star", "plus", "rep":
		min, max := 0, 3
		if n.kind == "plus" {
			min = 1
		} else if n.kind == "rep" {
			min, max = n.min, n.max
			if max < 0 {
				max = min + 2
			}
		}
		for c := min + rng.Intn(max-min+1); c > 0; c-- {
			c06Sample(rng, n.kids[0], b)
		}
	}
}

func c06Mutate(rng *rand.Rand, s string) string {
	rs := []rune(s)
	ins := []rune{'a', 'x', 'é', '^', '$', '\n', '|', ')', '0', ' '}
	switch rng.Intn(5) {
	case 0:
		if len(rs) > 0 {
			i := rng.Intn(len(rs))
			rs = append(rs[:i:i], rs[i+1:]...)
		}
	case 1:
		i := rng.Intn(len(rs) + 1)
		rs = append(rs[:i:i], append([]rune{pick(rng, ins)}, rs[i:]...)...)
	case 2:
		if len(rs) > 0 {
			rs[rng.Intn(len(rs))] = pick(rng, ins)
		}
	case 3:
		rs = append(rs, pick(rng, ins))
	default:
		rs = append([]rune{pick(rng, ins)}, rs...)
	}
	return string(rs)
}

// ----- the oracle from the pattern text alone (used for replays and as a cross-check) -----

// c06Strip applies ygot's convention (pinned by TestSanitizedPattern): one leading ^ and one
// trailing unescaped $ are redundant anchors.
func c06Strip(p string) string {
	p = strings.TrimPrefix(p, "^")
	if strings.HasSuffix(p, "$") {
		bs := 0
		for i := len(p) - 2; i >= 0 && p[i] == '\\'; i-- {
			bs++
		}
		if bs%2 == 0 {
			p = p[:len(p)-1]
		}
	}
	return p
}

// c06XsdToGo escapes what is an ordinary character in XSD but an operator in Go: $ anywhere,
// ^ anywhere except directly after the '[' that opens a class.
func c06XsdToGo(p string) string {
	var b strings.Builder
	esc, inClass, classStart := false, false, false
	for _, r := range p {
		switch {
		case esc:
			esc = false
			classStart = false
		case r == '\\':
			esc = true
			classStart = false
		case r == '$':
			b.WriteRune('\\')
			classStart = false
		case r == '^':
			if !classStart {
				b.WriteRune('\\')
			}
			classStart = false
		case r == '[' && !inClass:
			inClass, classStart = true, true
			b.WriteRune(r)
			continue
		case r == ']' && inClass:
			inClass = false
		default:
			classStart = false
		}
		b.WriteRune(r)
	}
	return b.String()
}

func c06XsdRegexp(p string) (*regexp.Regexp, error) {
	return regexp.Compile("^(?:" + c06XsdToGo(c06Strip(p)) + ")$")
}

// c06Cause classifies a deviating pattern by the defect of fixYangRegexp it triggers.
func c06Cause(p string) string {
	if p == "" {
		return "regex/empty-pattern"
	}
	if r, sz := utf8.DecodeLastRuneInString(p); r != utf8.RuneError && sz > 1 {
		return "regex/multibyte-end"
	}
	if strings.HasSuffix(p, `\$`) && c06Strip(p) == strings.TrimPrefix(p, "^") {
		return "regex/escaped-dollar-end"
	}
	if strings.HasPrefix(p, "^") && strings.Contains(p, "|") {
		return "regex/leading-caret-alternation"
	}
	for i := 0; i+2 < len(p); i++ {
		if p[i] == '\\' && p[i+1] == '[' && p[i+2] == '^' {
			bs := 0
			for j := i - 1; j >= 0 && p[j] == '\\'; j-- {
				bs++
			}
			if bs%2 == 0 {
				return "regex/escaped-bracket-caret"
			}
		}
	}
	return "regex/verdict"
}

type c06RegexCase struct {
	pattern string
	posix   bool
	ast     *c06Node // nil for replays and hand-written patterns
	cands   []string
	kind    string
}

func c06RegexStream(rng *rand.Rand, n int, tier string, out string) (*Summary, error) {
	sum := &Summary{Rule: "regex: patterns rendered from random syntax trees over the supported subset (literals incl. 2/3/4-byte runes and every metacharacter escaped, raw and escaped ^ $, '.', \\d \\w \\s and negations, classes and negated classes with ranges, * + ? {n} {n,} {n,m}, alternation incl. empty branches, capturing and (?:) groups), optionally with a leading ^ and/or trailing $ (ygot's anchor convention), plus forced shapes (last rune multi-byte, ^ before a top-level alternation, \\$ at the end, \\[^, empty pattern) and posix-pattern variants written as ^(...)$; each with about six values: two sampled from the language, their one-rune mutations, the empty string, and for POSIX a multi-line value. Per value: SanitizedPattern output, compile status, ValidateStringRestrictions verdict, and Go's MatchString of the raw pattern go to the model. A case is non-trivial if the pattern has an operator, a class, a ^/$ or a non-ASCII rune; distinct by (pattern, value)."}
	cf := &caseFile{header: c06Header, typ: "rcase", fn: "mismatches"}
	seen := map[string]bool{}
	id := 0

	run := func(c c06RegexCase) {
		t := &yang.YangType{Kind: yang.Ystring}
		if c.posix {
			t.POSIXPattern = []string{c.pattern}
		} else {
			t.Pattern = []string{c.pattern}
		}
		san, isPOSIX := util.SanitizedPattern(t)
		cf.add(fmt.Sprintf("RSan %d %s %s %s %s", id, coqStrList(t.Pattern), coqStrList(t.POSIXPattern), coqStrList(san), coqBool(isPOSIX)))
		id++
		compile := regexp.Compile
		if c.posix {
			compile = regexp.CompilePOSIX
		}
		sre, serr := compile(san[0])
		raw, rawErr := compile(c.pattern)
		sum.count("pattern_kind", c.kind)
		sum.count("sanitized_compiles", coqBool(serr == nil))
		feature := strings.ContainsAny(c.pattern, `|*+?[{(.^$\`) || len(c.pattern) != utf8.RuneCountInString(c.pattern)
		xre, xerr := c06XsdRegexp(c.pattern)
		if c.posix {
			// a posix-pattern is used as written (unanchored search); its reading is that of the
			// same text with ^ and $ meaning the ends of the value and [^x] including newline
			xre, xerr = regexp.Compile(c.pattern)
			if rawErr != nil {
				xerr = rawErr // not a POSIX ERE: nothing to check
			}
		}
		cause := c06Cause(c.pattern)
		if c.posix {
			cause = "regex/posix"
		}
		accepted, oracleAccepts := 0, 0
		var firstOracleMatch string
		for vi, v := range c.cands {
			err, p := c06Call(func() error { return ytypes.ValidateStringRestrictions(t, v) })
			cf.add(fmt.Sprintf("RStr %d %s %s %s", id, c06CoqType(t), coqStr(v), c06CoqRes(err, p)))
			id++
			// Go's own reading of the sanitized text (first value: compile status) and of the raw
			// text (every value), for the parser/matcher correspondence
			if vi == 0 {
				cf.add(fmt.Sprintf("RMatch %d %s %s %s %s %s", id, coqBool(c.posix), coqStr(san[0]), coqStr(v), coqBool(serr == nil), coqBool(serr == nil && sre.MatchString(v))))
				id++
			}
			cf.add(fmt.Sprintf("RMatch %d %s %s %s %s %s", id, coqBool(c.posix), coqStr(c.pattern), coqStr(v), coqBool(rawErr == nil), coqBool(rawErr == nil && raw.MatchString(v))))
			id++
			key := c.pattern + "\x00" + v
			if !seen[key] {
				seen[key] = true
				if feature {
					sum.Nontrivial++
				}
			}
			if p {
				sum.finding(Finding{Signature: "regex/panic", What: "ValidateStringRestrictions panics", Input: c06Case{Kind: "regex", Pattern: c.pattern, POSIX: c.posix, Value: v}})
				continue
			}
			got := err == nil
			if got {
				accepted++
			}
			// --- oracle: whole-string XSD reading ---
			var want bool
			switch {
			case c.ast != nil:
				want = c06Match(c.ast, []rune(v))
				if xerr == nil && xre.MatchString(v) != want {
					sum.finding(Finding{Signature: "oracle/disagree", What: "harness self-check: the tree matcher and the escaped-regexp reading of the pattern differ", Input: c06Case{Kind: "regex", Pattern: c.pattern, POSIX: c.posix, Value: v}, Observed: xre.MatchString(v), Expected: want})
				}
			case xerr == nil:
				want = xre.MatchString(v)
			default:
				continue // not a pattern of the subset
			}
			sum.OracleRuns++
			if want {
				oracleAccepts++
				if firstOracleMatch == "" {
					firstOracleMatch = v
				}
			}
			sum.count("verdict", map[bool]string{true: "accept", false: "reject"}[got]+"/oracle-"+map[bool]string{true: "in", false: "out"}[want])
			if got != want {
				sig := cause
				if c.posix && strings.Contains(v, "\n") {
					sig = "regex/posix-multiline"
				}
				what := "ValidateStringRestrictions accepts a value outside the pattern's language"
				if want {
					what = "ValidateStringRestrictions rejects a value of the pattern's language"
				}
				sum.finding(Finding{Signature: sig, What: what + " (sanitized pattern " + strconv.Quote(san[0]) + ")", Input: c06Case{Kind: "regex", Pattern: c.pattern, POSIX: c.posix, Value: v}, Observed: got, Expected: want})
			}
		}
		// a pattern that compiles as written must not make every value fail
		if rawErr == nil && accepted == 0 && oracleAccepts > 0 && (cause == "regex/verdict" || cause == "regex/posix") {
			sum.finding(Finding{Signature: "regex/all-fail", What: "the pattern compiles as written but every candidate value is rejected (sanitized pattern " + strconv.Quote(san[0]) + ")", Input: c06Case{Kind: "regex", Pattern: c.pattern, POSIX: c.posix, Value: firstOracleMatch}})
		}
		if rawErr == nil && accepted == 0 && oracleAccepts > 0 {
			sum.count("all_fail", cause)
		}
		if len(sum.Samples) < 5 && c.ast != nil {
			sum.sample(map[string]interface{}{"pattern": c.pattern, "posix": c.posix, "sanitized": san[0], "values": c.cands})
		}
	}

	finish := func() (*Summary, error) {
		sum.Cases = id
		files, err := cf.write(out, "regex", 400)
		if sum.Extra == nil {
			sum.Extra = map[string]interface{}{}
		}
		sum.Extra["case_files"] = files
		return sum, err
	}

	if replayFile != "" {
		c, err := c06ReadReplay()
		if err != nil {
			return nil, err
		}
		if c.Kind != "regex" {
			return nil, fmt.Errorf("regex: cannot replay kind %q", c.Kind)
		}
		run(c06RegexCase{pattern: c.Pattern, posix: c.POSIX, cands: []string{c.Value}, kind: "replay"})
		return finish()
	}

	// hand-written patterns (no tree: oracle = escaped-regexp reading)
	hand := []struct {
		p     string
		cands []string
	}{
		{"abcé", []string{"abcé", "abc", "abcéx"}}, {"é", []string{"é", ""}}, {"^é", []string{"é", "éx"}}, {"a|世", []string{"a", "世", "a世"}},
		{"^a|b", []string{"a", "b", "ax", "xb", "x"}}, {"^a|b$", []string{"a", "b", "ax", "xb"}}, {"a|b$", []string{"a", "b", "ax", "xb"}},
		{`abc\$`, []string{"abc$", "abc"}}, {`\[^a`, []string{"[^a", "[a"}}, {"", []string{"", "zzz"}}, {"$", []string{"", "$"}}, {"^", []string{"", "^"}},
		{"^abc", []string{"abc", "abcd", "xabc"}}, {"^abc$", []string{"abc", "abcd"}}, {"abc$", []string{"abc", "xabc"}}, {`a$b^c[^d]\\\ne`, []string{`a$b^cx\` + "\ne", "a"}},
		{"a^b", []string{"a^b", "ab"}}, {"[a^b$]", []string{"^", "$", "a", "c"}}, {"[^^]", []string{"^", "a"}}, {`\^a`, []string{"^a", "a"}}, {`a\\$`, []string{`a\`, `a\$`}},
		{"a{2,3}", []string{"a", "aa", "aaa", "aaaa"}}, {"(a|)*b", []string{"b", "aab", "a"}}, {"(a*)*", []string{"", "aaa", "b"}}, {`\d+\.\d{1,2}`, []string{"3.14", "3.141", "x.1"}},
		{".", []string{"a", "\n", ""}}, {"[^a]", []string{"\n", "a", "b"}}, {`\s\S\w\W`, []string{" xa-", "x a-"}}, {"a**", []string{"a"}}, {"a)", []string{"a"}}, {"[b-a]", []string{"a"}},
	}
	for _, h := range hand {
		run(c06RegexCase{pattern: h.p, cands: h.cands, kind: "hand"})
	}
	for _, h := range []struct {
		p     string
		cands []string
	}{{"^abc$", []string{"abc", "abc\nxyz", "xyz\nabc", "abcd"}}, {"^(a|b)$", []string{"a", "b", "ab", "x\nb"}}, {"^[^a]$", []string{"b", "\n", "a"}}, {"^(a**)$", []string{"aa", "b"}}, {`^\d$`, []string{"1"}}, {"abc", []string{"abc", "xabcx", "x"}}} {
		run(c06RegexCase{pattern: h.p, posix: true, cands: h.cands, kind: "hand-posix"})
	}

	for id < n {
		posix := rng.Intn(8) == 0
		ast := c06GenNode(rng, 3, posix)
		kind := "grammar"
		// forced shapes
		switch rng.Intn(14) {
		case 0:
			ast = &c06Node{kind: "seq", kids: []*c06Node{ast, {kind: "lit", ch: pick(rng, []rune{'é', '世', '😀'})}}}
			kind = "multibyte-end"
		case 1:
			ast = &c06Node{kind: "seq", kids: []*c06Node{ast, {kind: "lit", ch: '$'}}}
			kind = "dollar-literal-end"
		case 2:
			ast = &c06Node{kind: "seq", kids: []*c06Node{{kind: "lit", ch: '['}, {kind: "lit", ch: '^'}, ast}}
			kind = "bracket-caret"
		case 3:
			ast = &c06Node{kind: "alt", kids: []*c06Node{ast, c06GenNode(rng, 2, posix)}}
			kind = "top-alternation"
		}
		var b strings.Builder
		c06Render(rng, ast, 0, posix, &b)
		body := b.String()
		// ygot reads a leading ^ / trailing $ as anchors: a literal there must be written escaped
		if strings.HasPrefix(body, "^") {
			body = `\` + body
		}
		if strings.HasSuffix(body, "$") && c06Strip(body) != body {
			body = body[:len(body)-1] + `\$`
		}
		pattern := body
		if posix {
			pattern = "^(" + body + ")$"
			kind += "-posix"
		} else {
			if kind == "top-alternation" || rng.Intn(7) == 0 {
				if rng.Intn(2) == 0 {
					pattern = "^" + pattern
				}
			}
			if rng.Intn(8) == 0 {
				pattern += "$"
			}
		}
		var cands []string
		for k := 0; k < 2; k++ {
			var sb strings.Builder
			c06Sample(rng, ast, &sb)
			cands = append(cands, sb.String(), c06Mutate(rng, sb.String()))
		}
		cands = append(cands, "")
		if posix {
			cands = append(cands, cands[0]+"\nzz", "zz\n"+cands[0])
		} else {
			cands = append(cands, c06Mutate(rng, cands[2]))
		}
		run(c06RegexCase{pattern: pattern, posix: posix, ast: ast, cands: cands, kind: kind})
	}
	if tier == "thorough" {
		// exhaustive small scope: every pattern of length <= 3 over {a, |, ^, $, é, \} that
		// compiles as written, against every value of length <= 2 over {a, é, ^, $}
		alpha := []rune{'a', '|', '^', '$', 'é', '\\'}
		vals := []string{""}
		for _, x := range []rune{'a', 'é', '^', '$'} {
			vals = append(vals, string(x))
			for _, y := range []rune{'a', 'é', '^', '$'} {
				vals = append(vals, string(x)+string(y))
			}
		}
		cnt := 0
		var rec func(prefix []rune, depth int)
		rec = func(prefix []rune, depth int) {
			if len(prefix) > 0 {
				p := string(prefix)
				if _, err := c06XsdRegexp(p); err == nil {
					cnt++
					run(c06RegexCase{pattern: p, cands: vals, kind: "exhaustive"})
				}
			}
			if depth == 0 {
				return
			}
			for _, r := range alpha {
				rec(append(prefix[:len(prefix):len(prefix)], r), depth-1)
			}
		}
		rec(nil, 3)
		sum.Extra = map[string]interface{}{"exhaustive_patterns": cnt}
	}
	return finish()
}

// c06RefNumber is the harness's own reading of "the decimal64 value a float64 stands for": the
// shortest decimal text that identifies the float, parsed exactly. It does not call ygot; the
// model is given this Number, so an implementation that converts differently (e.g. through
// yang.FromFloat's repeated multiplication, 0.57 -> 0.5699999999999999) disagrees with the model.
func c06RefNumber(f float64) yang.Number {
	s := strconv.FormatFloat(f, 'f', -1, 64)
	fd := 1
	if i := strings.IndexByte(s, '.'); i >= 0 {
		fd = len(s) - i - 1
	}
	if fd <= int(yang.MaxFractionDigits) {
		if n, err := yang.ParseDecimal(s, uint8(fd)); err == nil {
			return n
		}
	}
	return yang.FromFloat(f)
}
