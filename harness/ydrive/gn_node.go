//go:build verif

package main

// gn_node.go — gNMI layer, stream "nodeops": sequences of GetNode / SetNode / DeleteNode on
// random trees.  Paths come from a random descent over the generated struct types that follows
// the data where it exists (existing leaves, leaf-lists, containers, lists, list entries) and
// leaves it where it does not (absent nodes, fresh list keys), plus malformed variants.
// Every operation is one Coq case with the tree before and after it; the oracles of C10
// (get-after-set, frame condition) and C12 (delete removes exactly the subtree, idempotence)
// are evaluated on leafMapOf.

import (
	"encoding/json"
	"fmt"
	"math/rand"
	"reflect"
	"sort"
	"strings"

	gpb "github.com/openconfig/gnmi/proto/gnmi"
	"github.com/openconfig/goyang/pkg/yang"
	"github.com/openconfig/ygot/internal/verifharness/reg"
	"github.com/openconfig/ygot/util"
	"github.com/openconfig/ygot/ygot"
	"github.com/openconfig/ygot/ytypes"
)

func init() { streams["nodeops"] = gnNodeStream }

// gnSite is the node a generated path points to.
type gnSite struct {
	path    *gpb.Path
	kind    string // leaf, leaflist, container, list, entry, unkeyed
	entry   *yang.Entry
	structT reflect.Type        // struct type that holds the field
	field   reflect.StructField // the field of the node (for entry: the list field)
	entryT  reflect.Type        // entry struct type (kind entry/list)
	lm      string              // leafMapOf key (leaf) or key prefix (other kinds)
	allowed map[string]bool     // marker / key-leaf entries that creating the ancestors may add
	exists  bool
	alt     int               // index of the path alternative used for the last field
	shadow  bool              // a shadow-path alternative was used somewhere
	fresh   bool              // a list entry on the way does not exist
	ent     reflect.Value     // kind entry: a struct holding the key leaves the path names
	rel     map[string]string // set by valueFor: leaf map of the generated payload, relative to lm
	trail   []gnSite          // the containers / list entries passed on the way (as sites of their own)
}

// ancestor returns the i-th node on the way to s as a site.
func (s *gnSite) ancestor(i int) *gnSite {
	a := s.trail[i]
	a.path = &gpb.Path{Elem: append([]*gpb.PathElem{}, s.path.Elem[:len(a.path.Elem)]...)}
	a.allowed = s.allowed
	a.shadow = s.shadow
	return &a
}

type gnDesc struct {
	rng *rand.Rand
	g   *treeGen
	pkg *reg.Pkg
}

func gnAlts(tag string) [][]string {
	var out [][]string
	for _, a := range strings.Split(tag, "|") {
		var els []string
		for _, e := range strings.Split(a, "/") {
			if e != "" {
				els = append(els, e)
			}
		}
		out = append(out, els)
	}
	return out
}

func gnSortedEntries(f reflect.Value) []keyedEntry {
	var es []keyedEntry
	if isOrderedMapType(f.Type()) {
		if f.IsNil() {
			return nil
		}
		return orderedEntries(f.Interface().(ygot.GoOrderedMap))
	}
	it := f.MapRange()
	for it.Next() {
		es = append(es, keyedEntry{keys: keyValues(it.Key()), entry: it.Value()})
	}
	sort.Slice(es, func(i, j int) bool { return lessKeys(es[i].keys, es[j].keys) })
	return es
}

// descend picks a random node below the struct of type t (value v, possibly invalid = absent).
func (d *gnDesc) descend(t reflect.Type, v reflect.Value, e *yang.Entry, s *gnSite, depth int, useShadow bool) {
	rng := d.rng
	// candidate fields, set ones three times
	var cand []int
	for i := 0; i < t.NumField(); i++ {
		if _, ok := t.Field(i).Tag.Lookup("path"); !ok {
			continue
		}
		cand = append(cand, i)
		if v.IsValid() && !v.IsNil() && !v.Elem().Field(i).IsZero() {
			cand = append(cand, i, i)
		}
	}
	if len(cand) == 0 {
		s.kind = "container"
		return
	}
	i := cand[rng.Intn(len(cand))]
	f := t.Field(i)
	ce, err := util.ChildSchema(e, f)
	if err != nil || ce == nil {
		s.kind = "container"
		return
	}
	var fv reflect.Value
	if v.IsValid() && !v.IsNil() {
		fv = v.Elem().Field(i)
	}
	alts := gnAlts(f.Tag.Get("path"))
	s.alt = 0
	names := alts[0]
	if sp, ok := f.Tag.Lookup("shadow-path"); ok && useShadow && rng.Intn(2) == 0 {
		sa := gnAlts(sp)
		names = sa[rng.Intn(len(sa))]
		s.shadow = true
	} else if len(alts) > 1 && rng.Intn(3) == 0 {
		s.alt = 1 + rng.Intn(len(alts)-1)
		names = alts[s.alt]
	}
	for _, n := range names {
		s.path.Elem = append(s.path.Elem, &gpb.PathElem{Name: n})
	}
	s.lm += "/" + strings.Split(f.Tag.Get("path"), "|")[0]
	s.structT, s.field, s.entry = t, f, ce
	set := fv.IsValid() && !fv.IsZero()
	s.exists = s.exists && set
	switch {
	case ce.IsLeaf():
		s.kind = "leaf"
	case ce.IsLeafList():
		s.kind = "leaflist"
	case ce.IsList() && (isOrderedMapType(f.Type) || f.Type.Kind() == reflect.Map):
		ordered := isOrderedMapType(f.Type)
		var entryT reflect.Type
		var keyT reflect.Type
		if ordered {
			entryT = entryTypeOfOrderedMap(f.Type)
		} else {
			entryT, keyT = f.Type.Elem().Elem(), f.Type.Key()
		}
		s.entryT = entryT
		if ordered {
			s.allowed[s.lm+"#order"] = true
		}
		if rng.Intn(12) == 0 {
			s.kind = "list"
			return
		}
		var es []keyedEntry
		if set {
			es = gnSortedEntries(fv)
		}
		var ent reflect.Value
		var kvals []reflect.Value
		if len(es) > 0 && rng.Intn(10) < 7 {
			ke := es[rng.Intn(len(es))]
			ent, kvals = ke.entry, ke.keys
		} else {
			ent, kvals, _ = d.g.newEntry(entryT, ce, 9)
			s.exists = false
			s.fresh = true
			if len(es) > 0 && rng.Intn(3) == 0 {
				// the keys of an existing entry with one string key replaced by the text "*": without
				// wildcard handling that names a new entry, not the existing ones
				kfs := d.g.keyFieldNames(entryT, ce)
				var strPos []int
				for q, kf := range kfs {
					if kv := ent.Elem().FieldByName(kf); kv.Kind() == reflect.Ptr && kv.Type().Elem().Kind() == reflect.String {
						strPos = append(strPos, q)
					}
				}
				ke := es[rng.Intn(len(es))]
				allPtr := true
				for _, kf := range kfs {
					if kv := ke.entry.Elem().FieldByName(kf); kv.Kind() != reflect.Ptr || kv.IsNil() {
						allPtr = false // enumerated / union key leaves, unset key leaves: not here
					}
				}
				if len(strPos) > 0 && len(kvals) == len(kfs) && allPtr {
					star := strPos[rng.Intn(len(strPos))]
					for q, kf := range kfs {
						dst := ent.Elem().FieldByName(kf)
						if q == star {
							st := "*"
							dst.Set(reflect.ValueOf(&st))
						} else {
							dst.Set(mgCloneValue(ke.entry.Elem().FieldByName(kf)))
						}
						kv := dst
						if kv.Kind() == reflect.Ptr {
							kv = kv.Elem()
						}
						kvals[q] = kv
					}
				}
			}
			// is it by chance an existing key?
			for _, ke := range es {
				same := len(ke.keys) == len(kvals)
				for q := range kvals {
					a, _ := scalarTerm(ke.keys[q])
					b, _ := scalarTerm(kvals[q])
					if same && a != b {
						same = false
					}
				}
				if same {
					ent, kvals = ke.entry, ke.keys
					s.exists, s.fresh = set, false
				}
			}
		}
		keys, kerr := ygot.PathKeyFromStruct(ent)
		if kerr != nil {
			s.kind = "list"
			return
		}
		s.path.Elem[len(s.path.Elem)-1].Key = keys
		s.lm += keyPredicate(keyNamesOf(entryT, keyT, ordered, len(kvals)), kvals)
		s.allowed[s.lm+"#entry"] = true
		for _, kf := range d.g.keyFieldNames(entryT, ce) {
			sf, _ := entryT.FieldByName(kf)
			s.allowed[s.lm+"/"+strings.Split(sf.Tag.Get("path"), "|")[0]] = true
		}
		if rng.Intn(4) == 0 || depth == 0 {
			s.kind = "entry"
			s.ent = ent
			return
		}
		var ev reflect.Value
		if s.exists {
			ev = ent
		}
		s.trail = append(s.trail, gnSite{path: &gpb.Path{Elem: s.path.Elem[:len(s.path.Elem):len(s.path.Elem)]}, kind: "entry", entry: ce, structT: t, field: f,
			entryT: entryT, lm: s.lm, exists: s.exists, fresh: s.fresh, ent: ent})
		d.descend(entryT, ev, ce, s, depth-1, useShadow)
	case ce.IsList():
		s.kind = "unkeyed"
	case ce.IsDir() && f.Type.Kind() == reflect.Ptr:
		if f.Tag.Get("yangPresence") == "true" {
			s.allowed[s.lm+"#presence"] = true
		}
		if rng.Intn(5) == 0 || depth == 0 {
			s.kind = "container"
			s.entryT = f.Type.Elem()
			return
		}
		var cv reflect.Value
		if set {
			cv = fv
		}
		s.trail = append(s.trail, gnSite{path: &gpb.Path{Elem: s.path.Elem[:len(s.path.Elem):len(s.path.Elem)]}, kind: "container", entry: ce, structT: t, field: f,
			entryT: f.Type.Elem(), lm: s.lm, exists: s.exists, fresh: s.fresh})
		d.descend(f.Type.Elem(), cv, ce, s, depth-1, useShadow)
	default:
		s.kind = "container"
	}
}

func (d *gnDesc) site(root ygot.GoStruct, useShadow bool) *gnSite {
	s := &gnSite{path: &gpb.Path{}, allowed: map[string]bool{}, exists: true}
	rt := reflect.TypeOf(root).Elem()
	d.descend(rt, reflect.ValueOf(root), d.pkg.SchemaTree[rt.Name()], s, 6, useShadow)
	return s
}

// gnMutatePath makes a malformed / unusual variant of the path; returns a label.
func gnMutatePath(rng *rand.Rand, p *gpb.Path) string {
	n := len(p.Elem)
	if n == 0 {
		p.Elem = append(p.Elem, &gpb.PathElem{Name: "nonexistent"})
		return "unknown-elem"
	}
	keyed := []int{}
	for i, e := range p.Elem {
		if len(e.Key) > 0 {
			keyed = append(keyed, i)
		}
	}
	switch k := rng.Intn(9); {
	case k == 0:
		p.Elem = append(p.Elem, &gpb.PathElem{Name: pick(rng, []string{"extra", "config", "k", "name"})})
		return "extra-elem"
	case k == 1:
		i := rng.Intn(n)
		p.Elem[i] = &gpb.PathElem{Name: p.Elem[i].Name + "x", Key: p.Elem[i].Key}
		return "unknown-elem"
	case k == 2 && len(keyed) > 0:
		i := keyed[rng.Intn(len(keyed))]
		nk := map[string]string{}
		drop := sortedKeys(p.Elem[i].Key)[rng.Intn(len(p.Elem[i].Key))]
		for kk, vv := range p.Elem[i].Key {
			if kk != drop {
				nk[kk] = vv
			}
		}
		p.Elem[i] = &gpb.PathElem{Name: p.Elem[i].Name, Key: nk}
		return "missing-key"
	case k == 3 && len(keyed) > 0:
		i := keyed[rng.Intn(len(keyed))]
		nk := map[string]string{}
		for kk, vv := range p.Elem[i].Key {
			nk[kk] = vv
		}
		nk["bogus"] = "1"
		p.Elem[i] = &gpb.PathElem{Name: p.Elem[i].Name, Key: nk}
		return "extra-key"
	case k == 4 && len(keyed) > 0:
		i := keyed[rng.Intn(len(keyed))]
		nk := map[string]string{}
		ks := sortedKeys(p.Elem[i].Key)
		star := ks[rng.Intn(len(ks))]
		for kk, vv := range p.Elem[i].Key {
			nk[kk] = vv
			if kk == star {
				nk[kk] = "*"
			}
		}
		p.Elem[i] = &gpb.PathElem{Name: p.Elem[i].Name, Key: nk}
		return "wildcard-key"
	case k == 5 && len(keyed) > 0:
		i := keyed[rng.Intn(len(keyed))]
		nk := map[string]string{}
		ks := sortedKeys(p.Elem[i].Key)
		bad := ks[rng.Intn(len(ks))]
		for kk, vv := range p.Elem[i].Key {
			nk[kk] = vv
			if kk == bad {
				nk[kk] = pick(rng, gnKeyStrings)
			}
		}
		p.Elem[i] = &gpb.PathElem{Name: p.Elem[i].Name, Key: nk}
		return "odd-key-value"
	case k == 6:
		i := rng.Intn(n)
		if len(p.Elem[i].Key) == 0 {
			p.Elem[i] = &gpb.PathElem{Name: p.Elem[i].Name, Key: map[string]string{"k": "v"}}
			return "key-on-nonlist"
		}
		p.Elem[i] = &gpb.PathElem{Name: p.Elem[i].Name}
		return "no-keys"
	case k == 7:
		p.Elem = p.Elem[:rng.Intn(n)]
		return "truncated"
	}
	p.Elem = append([]*gpb.PathElem{{Name: "nonexistent"}}, p.Elem...)
	return "unknown-elem"
}

// gnOddValues: TypedValues offered to any node regardless of its type.
func gnOddValue(rng *rand.Rand) *gpb.TypedValue {
	switch rng.Intn(16) {
	case 0:
		return &gpb.TypedValue{Value: &gpb.TypedValue_StringVal{StringVal: pick(rng, gnKeyStrings)}}
	case 1:
		return &gpb.TypedValue{Value: &gpb.TypedValue_IntVal{IntVal: pick(rng, []int64{0, 1, -1, 127, 128, -129, 70000, 1 << 40, -1 << 63})}}
	case 2:
		return &gpb.TypedValue{Value: &gpb.TypedValue_UintVal{UintVal: pick(rng, []uint64{0, 1, 255, 256, 65536, 1 << 32, 1<<64 - 1})}}
	case 3:
		return &gpb.TypedValue{Value: &gpb.TypedValue_BoolVal{BoolVal: rng.Intn(2) == 0}}
	case 4:
		return &gpb.TypedValue{Value: &gpb.TypedValue_BytesVal{BytesVal: []byte{1, 2, 255}}}
	case 5:
		return &gpb.TypedValue{Value: &gpb.TypedValue_DoubleVal{DoubleVal: pick(rng, floatPool)}}
	case 6:
		return &gpb.TypedValue{Value: &gpb.TypedValue_FloatVal{FloatVal: pick(rng, []float32{0, 1.5, -2.25, 3.14, 0.1})}}
	case 7:
		return &gpb.TypedValue{Value: &gpb.TypedValue_DecimalVal{DecimalVal: &gpb.Decimal64{Digits: pick(rng, []int64{0, 314, -225, 1, 123456789, 5}), Precision: pick(rng, []uint32{0, 1, 2, 3, 1, 2, 18, 19, 25})}}}
	case 8:
		return &gpb.TypedValue{Value: &gpb.TypedValue_LeaflistVal{LeaflistVal: &gpb.ScalarArray{}}}
	case 9:
		return &gpb.TypedValue{Value: &gpb.TypedValue_LeaflistVal{LeaflistVal: &gpb.ScalarArray{Element: []*gpb.TypedValue{
			{Value: &gpb.TypedValue_StringVal{StringVal: "a"}}, {Value: &gpb.TypedValue_IntVal{IntVal: 5}}, {Value: &gpb.TypedValue_StringVal{StringVal: "a"}}}}}}
	case 10:
		return &gpb.TypedValue{Value: &gpb.TypedValue_LeaflistVal{LeaflistVal: &gpb.ScalarArray{Element: []*gpb.TypedValue{
			{Value: &gpb.TypedValue_UintVal{UintVal: 7}}, {Value: &gpb.TypedValue_UintVal{UintVal: 70000}}}}}}
	case 11:
		return &gpb.TypedValue{Value: &gpb.TypedValue_AsciiVal{AsciiVal: "ascii"}}
	case 12:
		return &gpb.TypedValue{Value: &gpb.TypedValue_JsonVal{JsonVal: []byte(`"x"`)}}
	case 13:
		return &gpb.TypedValue{Value: &gpb.TypedValue_JsonIetfVal{JsonIetfVal: []byte(pick(rng, []string{`"x"`, `5`, `null`, `{}`, `[]`, `[null]`, `true`, `"7"`, `{"k":"a"}`, `[{"k":"a"}]`, `{"nonexistent":1}`}))}}
	case 14:
		return nil
	}
	return &gpb.TypedValue{Value: &gpb.TypedValue_IntVal{IntVal: int64(rng.Intn(300))}}
}

// gnValueMatrix: one constructor per TypedValue arm and boundary value (fresh values: SetNode with
// TolerateJSONInconsistencies rewrites its argument).
func gnValueMatrix() []func() *gpb.TypedValue {
	var out []func() *gpb.TypedValue
	add := func(f func() *gpb.TypedValue) { out = append(out, f) }
	for _, s := range []string{"", "x", "RED", "id-a", "v-main:id-c", "ACCEPT", "UP", "7", "true", "YWJj"} {
		s := s
		add(func() *gpb.TypedValue { return &gpb.TypedValue{Value: &gpb.TypedValue_StringVal{StringVal: s}} })
	}
	for _, i := range []int64{0, -1, 127, 128, -128, -129, 255, 256, 32767, 32768, 65535, 65536, 2147483647, 2147483648, 4294967295, 4294967296, 1<<63 - 1, -1 << 63} {
		i := i
		add(func() *gpb.TypedValue { return &gpb.TypedValue{Value: &gpb.TypedValue_IntVal{IntVal: i}} })
	}
	for _, u := range []uint64{0, 100, 101, 255, 256, 65535, 65536, 4294967295, 4294967296, 1<<63 - 1, 1 << 63, 1<<64 - 1} {
		u := u
		add(func() *gpb.TypedValue { return &gpb.TypedValue{Value: &gpb.TypedValue_UintVal{UintVal: u}} })
	}
	add(func() *gpb.TypedValue { return &gpb.TypedValue{Value: &gpb.TypedValue_BoolVal{BoolVal: true}} })
	add(func() *gpb.TypedValue { return &gpb.TypedValue{Value: &gpb.TypedValue_BoolVal{BoolVal: false}} })
	add(func() *gpb.TypedValue { return &gpb.TypedValue{Value: &gpb.TypedValue_BytesVal{BytesVal: []byte{}}} })
	add(func() *gpb.TypedValue {
		return &gpb.TypedValue{Value: &gpb.TypedValue_BytesVal{BytesVal: []byte{0, 255, 7}}}
	})
	add(func() *gpb.TypedValue { return &gpb.TypedValue{Value: &gpb.TypedValue_DoubleVal{DoubleVal: 3.14}} })
	add(func() *gpb.TypedValue { return &gpb.TypedValue{Value: &gpb.TypedValue_FloatVal{FloatVal: 1.5}} })
	add(func() *gpb.TypedValue { return &gpb.TypedValue{Value: &gpb.TypedValue_FloatVal{FloatVal: 0.1}} })
	add(func() *gpb.TypedValue {
		return &gpb.TypedValue{Value: &gpb.TypedValue_DecimalVal{DecimalVal: &gpb.Decimal64{Digits: 314, Precision: 2}}}
	})
	add(func() *gpb.TypedValue {
		return &gpb.TypedValue{Value: &gpb.TypedValue_DecimalVal{DecimalVal: &gpb.Decimal64{Digits: -1, Precision: 3}}}
	})
	add(func() *gpb.TypedValue {
		return &gpb.TypedValue{Value: &gpb.TypedValue_LeaflistVal{LeaflistVal: &gpb.ScalarArray{}}}
	})
	add(func() *gpb.TypedValue {
		return &gpb.TypedValue{Value: &gpb.TypedValue_LeaflistVal{LeaflistVal: &gpb.ScalarArray{Element: []*gpb.TypedValue{
			{Value: &gpb.TypedValue_StringVal{StringVal: "a"}}, {Value: &gpb.TypedValue_StringVal{StringVal: "a"}}}}}}
	})
	add(func() *gpb.TypedValue {
		return &gpb.TypedValue{Value: &gpb.TypedValue_LeaflistVal{LeaflistVal: &gpb.ScalarArray{Element: []*gpb.TypedValue{
			{Value: &gpb.TypedValue_IntVal{IntVal: 5}}, {Value: &gpb.TypedValue_IntVal{IntVal: -5}}, {Value: &gpb.TypedValue_StringVal{StringVal: "GREEN"}}}}}}
	})
	add(func() *gpb.TypedValue {
		return &gpb.TypedValue{Value: &gpb.TypedValue_LeaflistVal{LeaflistVal: &gpb.ScalarArray{Element: []*gpb.TypedValue{
			{Value: &gpb.TypedValue_UintVal{UintVal: 5}}, {Value: &gpb.TypedValue_UintVal{UintVal: 70000}}}}}}
	})
	add(func() *gpb.TypedValue { return &gpb.TypedValue{Value: &gpb.TypedValue_AsciiVal{AsciiVal: "a"}} })
	add(func() *gpb.TypedValue { return &gpb.TypedValue{Value: &gpb.TypedValue_JsonVal{JsonVal: []byte(`"x"`)}} })
	for _, j := range []string{`"x"`, `5`, `"5"`, `null`, `[null]`, `true`, `[]`, `["a","b"]`, `[1,2]`, `{}`, `3.14`, `"3.14"`} {
		j := j
		add(func() *gpb.TypedValue {
			return &gpb.TypedValue{Value: &gpb.TypedValue_JsonIetfVal{JsonIetfVal: []byte(j)}}
		})
	}
	add(func() *gpb.TypedValue { return nil })
	return out
}

// gnNestedMember walks a ConstructIETFJSON map down the given element names.
func gnNestedMember(m map[string]interface{}, names []string) (interface{}, bool) {
	var cur interface{} = m
	for _, n := range names {
		mm, ok := cur.(map[string]interface{})
		if !ok {
			return nil, false
		}
		cur, ok = mm[n]
		if !ok {
			return nil, false
		}
	}
	return cur, true
}

// gnValueFor generates a type-correct value for the site: the TypedValue, the canonical term of
// the Go value it denotes ("" when not applicable) and a label.
func (d *gnDesc) valueFor(s *gnSite, asJSON bool) (tv *gpb.TypedValue, want string, label string) {
	defer func() {
		if r := recover(); r != nil {
			tv, want, label = nil, "", ""
		}
	}()
	switch s.kind {
	case "leaf", "leaflist":
		fresh := reflect.New(s.structT)
		fv := fresh.Elem().FieldByName(s.field.Name)
		save := d.g.emptyLL
		d.g.emptyLL = false
		d.g.setField(fresh, fv, s.field, s.entry, 9)
		d.g.emptyLL = save
		if fv.IsZero() {
			return nil, "", ""
		}
		want, _ = fieldTerm(fv)
		s.rel = map[string]string{"": want}
		if asJSON && s.kind == "leaflist" && d.rng.Intn(3) == 0 {
			// the empty array: the leaf-list is set to "no values", whatever it held
			s.rel = map[string]string{"": ""} // the reference: the leaf-list holds nothing afterwards
			return &gpb.TypedValue{Value: &gpb.TypedValue_JsonIetfVal{JsonIetfVal: []byte("[]")}}, "", "json-leaflist-empty"
		}
		if asJSON {
			m, err := ygot.ConstructIETFJSON(fresh.Interface().(ygot.GoStruct), &ygot.RFC7951JSONConfig{})
			if err != nil {
				return nil, "", ""
			}
			mem, ok := gnNestedMember(m, gnAlts(s.field.Tag.Get("path"))[0])
			if !ok {
				return nil, "", ""
			}
			b, _ := json.Marshal(mem)
			return &gpb.TypedValue{Value: &gpb.TypedValue_JsonIetfVal{JsonIetfVal: b}}, want, "json-" + s.kind
		}
		t, err := ygot.EncodeTypedValue(fv.Interface(), gpb.Encoding_JSON)
		if err != nil || t == nil {
			return nil, "", ""
		}
		return t, want, "scalar-" + s.kind
	case "container", "entry":
		if s.entryT == nil {
			return nil, "", ""
		}
		fresh := reflect.New(s.entryT)
		skip := map[string]bool{}
		if s.kind == "entry" && s.ent.IsValid() {
			// the payload of a list entry carries the key leaves the path names
			for _, kf := range d.g.keyFieldNames(s.entryT, s.entry) {
				fresh.Elem().FieldByName(kf).Set(s.ent.Elem().FieldByName(kf))
				skip[kf] = true
			}
		}
		save := d.g.pField
		d.g.pField = 0.35
		d.g.populate(fresh, s.entry, 3, skip)
		d.g.pField = save
		gnPrune(fresh, true, false)
		s.rel = map[string]string{}
		walkLeaves(fresh, "", s.rel)
		t, err := ygot.EncodeTypedValue(fresh.Interface(), gpb.Encoding_JSON_IETF, &ygot.RFC7951JSONConfig{})
		if err != nil || t == nil {
			return nil, "", ""
		}
		return t, "", "json-" + s.kind
	}
	return nil, "", ""
}

// gnAmbiguous reports whether some single-key map of the tree holds two entries whose key leaves
// print the same string (possible after a key leaf was overwritten): retrieveNodeList then
// returns whichever entry Go's map iteration meets first, so no deterministic model applies.
func gnAmbiguous(v reflect.Value) bool {
	if v.Kind() == reflect.Interface {
		v = v.Elem()
	}
	if v.Kind() != reflect.Ptr || v.IsNil() || v.Elem().Kind() != reflect.Struct {
		return false
	}
	s := v.Elem()
	for i := 0; i < s.NumField(); i++ {
		f := s.Field(i)
		switch {
		case isOrderedMapType(f.Type()):
			if f.IsNil() {
				continue
			}
			for _, e := range orderedEntries(f.Interface().(ygot.GoOrderedMap)) {
				if gnAmbiguous(e.entry) {
					return true
				}
			}
		case f.Kind() == reflect.Map:
			seen := map[string]bool{}
			it := f.MapRange()
			for it.Next() {
				if it.Key().Kind() != reflect.Struct {
					ks := ""
					km, err := ygot.PathKeyFromStruct(it.Value())
					if err != nil && strings.Contains(err.Error(), "invalid") {
						// a union-typed key leaf is nil: KeyValueAsString(nil) fails, and whether a traversal of this
						// list fails depends on whether Go's map iteration meets this entry before the addressed one
						return true
					}
					if err == nil {
						for _, k := range sortedKeys(km) {
							ks += km[k] + ";"
						}
					} else if str, err := ygot.KeyValueAsString(it.Key().Interface()); err == nil {
						ks = str + ";"
					}
					if seen[ks] {
						return true
					}
					seen[ks] = true
				}
				if gnAmbiguous(it.Value()) {
					return true
				}
			}
		case f.Kind() == reflect.Ptr && f.Type().Elem().Kind() == reflect.Struct:
			if gnAmbiguous(f) {
				return true
			}
		}
	}
	return false
}

// gnDupKeys reports whether a Go map of the tree holds two keys that print the same: possible
// with wrapper-union keys only (the map key is a pointer, so insertAndGetKey never overwrites).
// The tree model identifies a union with its member value and cannot represent such a map.
func gnDupKeys(v reflect.Value) bool {
	if v.Kind() == reflect.Interface {
		v = v.Elem()
	}
	if v.Kind() != reflect.Ptr || v.IsNil() || v.Elem().Kind() != reflect.Struct {
		return false
	}
	s := v.Elem()
	for i := 0; i < s.NumField(); i++ {
		f := s.Field(i)
		switch {
		case isOrderedMapType(f.Type()):
			if f.IsNil() {
				continue
			}
			for _, e := range orderedEntries(f.Interface().(ygot.GoOrderedMap)) {
				if gnDupKeys(e.entry) {
					return true
				}
			}
		case f.Kind() == reflect.Map:
			seen := map[string]bool{}
			it := f.MapRange()
			for it.Next() {
				ks := ""
				for _, kv := range keyValues(it.Key()) {
					t, _ := scalarTerm(kv)
					ks += t + "|"
				}
				if seen[ks] {
					return true
				}
				seen[ks] = true
				if gnDupKeys(it.Value()) {
					return true
				}
			}
		case f.Kind() == reflect.Ptr && f.Type().Elem().Kind() == reflect.Struct:
			if gnDupKeys(f) {
				return true
			}
		}
	}
	return false
}

// gnDesynced reports whether some list entry's key leaves disagree with its map key (after a key
// leaf was overwritten or deleted, or a JSON payload carried other keys): the C10 / C12 oracles
// assume addressable entries and are skipped on such trees.
func gnDesynced(v reflect.Value) bool {
	if v.Kind() == reflect.Interface {
		v = v.Elem()
	}
	if v.Kind() != reflect.Ptr || v.IsNil() || v.Elem().Kind() != reflect.Struct {
		return false
	}
	s := v.Elem()
	entryBad := func(key, ent reflect.Value) bool {
		a, err := ygot.PathKeyFromStruct(ent)
		if err != nil {
			return true
		}
		var b []string
		if key.Kind() == reflect.Struct {
			km, err := ygot.PathKeyFromStruct(key)
			if err != nil {
				return true
			}
			for _, k := range sortedKeys(km) {
				if a[k] != km[k] {
					return true
				}
			}
			return len(a) != len(km)
		}
		ks, err := ygot.KeyValueAsString(key.Interface())
		if err != nil {
			return true
		}
		for _, x := range a {
			b = append(b, x)
		}
		return len(b) != 1 || b[0] != ks
	}
	for i := 0; i < s.NumField(); i++ {
		f := s.Field(i)
		switch {
		case isOrderedMapType(f.Type()):
			if f.IsNil() {
				continue
			}
			keys := f.MethodByName("Keys").Call(nil)[0]
			vals := f.MethodByName("Values").Call(nil)[0]
			for j := 0; j < keys.Len(); j++ {
				if entryBad(keys.Index(j), vals.Index(j)) || gnDesynced(vals.Index(j)) {
					return true
				}
			}
		case f.Kind() == reflect.Map:
			it := f.MapRange()
			for it.Next() {
				if entryBad(it.Key(), it.Value()) || gnDesynced(it.Value()) {
					return true
				}
			}
		case f.Kind() == reflect.Ptr && f.Type().Elem().Kind() == reflect.Struct:
			if gnDesynced(f) {
				return true
			}
		}
	}
	return false
}

// gnCaseKey is the case term without its constructor and id.
func gnCaseKey(term string) string {
	parts := strings.SplitN(term, " ", 3)
	if len(parts) == 3 {
		return parts[0] + " " + parts[2]
	}
	return term
}

func gnSetOptsTerm(init, tol, shadow, ignore bool) string {
	return fmt.Sprintf("{| s_init := %s; s_tol_json := %s; s_shadow := %s; s_ignore_extra := %s |}", coqBool(init), coqBool(tol), coqBool(shadow), coqBool(ignore))
}

func gnGetOptsTerm(partial, wild, tolNil, shadow bool) string {
	return fmt.Sprintf("{| g_partial := %s; g_wild := %s; g_tolerate_nil := %s; g_shadow := %s |}", coqBool(partial), coqBool(wild), coqBool(tolNil), coqBool(shadow))
}

func gnSafeGet(schema *yang.Entry, root ygot.GoStruct, path *gpb.Path, opts ...ytypes.GetNodeOpt) (ns []*ytypes.TreeNode, err error, panicked bool) {
	defer func() {
		if r := recover(); r != nil {
			ns, err, panicked = nil, fmt.Errorf("panic: %v", r), true
		}
	}()
	ns, err = ytypes.GetNode(schema, root, path, opts...)
	return ns, err, false
}

func gnSafeDel(schema *yang.Entry, root ygot.GoStruct, path *gpb.Path, opts ...ytypes.DelNodeOpt) (err error, panicked bool) {
	defer func() {
		if r := recover(); r != nil {
			err, panicked = fmt.Errorf("panic: %v", r), true
		}
	}()
	return ytypes.DeleteNode(schema, root, path, opts...), false
}

// gnDataTerm prints TreeNode.Data as an option tree.
func gnDataTerm(data interface{}) string {
	if data == nil {
		return "None"
	}
	v := reflect.ValueOf(data)
	if v.Kind() == reflect.Ptr && !v.IsNil() && v.Elem().Kind() == reflect.Struct && v.Elem().NumField() == 1 {
		if _, tagged := v.Elem().Type().Field(0).Tag.Lookup("path"); !tagged {
			// the value of a wrapper union: *X_Union_String{String: ...}
			if t, ok := scalarTerm(v); ok {
				return "(Some (TLeaf " + t + "))"
			}
			return "None"
		}
	}
	if t, ok := fieldTerm(v); ok {
		return "(Some " + t + ")"
	}
	return "None"
}

func gnNodesTerm(ns []*ytypes.TreeNode) string {
	var items []string
	for _, n := range ns {
		items = append(items, "{| gn_path := "+gnPathTerm(n.Path)+"; gn_data := "+gnDataTerm(n.Data)+" |}")
	}
	return coqList(items)
}

func gnClonePath(p *gpb.Path) *gpb.Path {
	q := &gpb.Path{Origin: p.GetOrigin(), Target: p.GetTarget()}
	for _, e := range p.GetElem() {
		ne := &gpb.PathElem{Name: e.Name}
		if e.Key != nil {
			ne.Key = map[string]string{}
			for k, v := range e.Key {
				ne.Key[k] = v
			}
		}
		q.Elem = append(q.Elem, ne)
	}
	return q
}

// gnLeafKeysUnder lists the leaf-map entries at or below prefix lm (the node itself, its
// children "lm/..." and its list entries / markers "lm[...", "lm#...").
func gnUnder(k, lm string) bool {
	if !strings.HasPrefix(k, lm) {
		return false
	}
	rest := k[len(lm):]
	return rest == "" || rest[0] == '/' || rest[0] == '[' || rest[0] == '#'
}

func gnNodeStream(rng *rand.Rand, n int, tier string, out string) (*Summary, error) {
	rp, replaying := gnLoadReplay()
	seed := gnSeedFlag()
	if replaying {
		rng, n, tier, seed = rand.New(rand.NewSource(rp.Seed)), rp.N, rp.Tier, rp.Seed
	}
	sum := &Summary{Rule: "random small trees of every generated package; per tree a sequence of 1-10 operations (GetNode 25%, SetNode 45%, DeleteNode 30%) on the evolving tree; paths from a random descent over the struct types that follows existing data with weight 3 (leaves, leaf-lists, containers, whole lists, list entries with their own key strings, fresh keys, second path alternatives, shadow paths), 15% malformed variants (unknown/extra elements, missing/extra/wildcard/odd key values, truncation); SetNode values: type-correct TypedValue from the tree generator (60%), JSON_IETF payload of a generated leaf/subtree (15%), arbitrary TypedValue (25%); options drawn at random. Non-trivial = operation that succeeds and changes the tree or returns a node, or fails for a type-correct input; distinct by case term."}
	var files []string
	id := 0
	seen := map[string]bool{}
	names := reg.Names()
	per := n / len(names)
	index := 0
	keep := func(i int) bool { return !replaying || i == rp.Index }
	recorded := 0
	for _, name := range names {
		p := reg.Get(name)
		tf := gnNewFile(p)
		g := newTreeGen(rng, p)
		g.maxList = 2
		d := &gnDesc{rng: rng, g: g, pkg: p}
		done := 0
		if !replaying {
			gnSharedBytesCases(p, tf, &id, sum)
			gnDecimalValCases(p, tf, &id, sum)
		}
		for done < per {
			index++
			g.pField = 0.2 + 0.2*rng.Float64()
			g.emptyLL = rng.Intn(8) == 0
			root := g.genTree()
			gnPrune(reflect.ValueOf(root), rng.Intn(2) == 0, false)
			schema := gnRootEntry(p, root)
			nops := 1 + rng.Intn(10)
			record := keep(index)
			sm := sum
			if !record {
				sm = &Summary{} // replay: other trees are regenerated only to keep the PRNG in step
			}
			desync := false // a key leaf was overwritten: map keys and key leaves disagree from here on
			for op := 0; op < nops && done < per; op++ {
				useShadow := p.Flags["shadow"] && rng.Intn(3) == 0
				s := d.site(root, useShadow)
				mut := ""
				path := gnClonePath(s.path)
				if rng.Intn(100) < 15 {
					mut = gnMutatePath(rng, path)
				}
				kind := rng.Intn(100)
				desync = desync || gnDesynced(reflect.ValueOf(root))
				pre := treeTerm(root)
				lmPre := leafMapOf(root)
				in := map[string]interface{}{"pkg": name, "path": gnPathString(path), "site": s.kind, "mutation": mut, "tree_before": pre,
					"replay": gnReplay{Seed: seed, N: n, Tier: tier, Index: index}, "op_index": op, "leafmap_key": s.lm, "exists": s.exists}
				var term string
				nontrivial := false
				switch {
				case kind < 25:
					// ---------------- GetNode
					partial, wild, tolNil := rng.Intn(4) == 0, rng.Intn(4) == 0, rng.Intn(4) == 0
					var opts []ytypes.GetNodeOpt
					if partial {
						opts = append(opts, &ytypes.GetPartialKeyMatch{})
					}
					if wild {
						opts = append(opts, &ytypes.GetHandleWildcards{})
					}
					if tolNil {
						opts = append(opts, &ytypes.GetTolerateNil{})
					}
					if useShadow {
						opts = append(opts, &ytypes.PreferShadowPath{})
					}
					ns, err, pan := gnSafeGet(schema, root, path, opts...)
					o := coqErr
					switch {
					case pan:
						o = coqPanic
						sm.finding(Finding{Signature: "getnode/panic", What: "GetNode panics: " + err.Error(), Input: in})
					case err == nil:
						o = coqOk(gnNodesTerm(ns))
						nontrivial = len(ns) > 0
					}
					term = fmt.Sprintf("GGet %d %s %s %s %s", id, gnGetOptsTerm(partial, wild, tolNil, useShadow), pre, gnPathTerm(path), o)
					in["op"] = "get"
					sm.count("ops", "get/"+map[bool]string{true: "ok", false: "err"}[err == nil])
					if post := treeTerm(root); post != pre {
						sm.finding(Finding{Signature: "getnode/mutates", What: "GetNode changed the tree", Input: in})
					}
				case kind < 70:
					// ---------------- SetNode
					init, tol, ignore := rng.Intn(10) < 7, rng.Intn(7) == 0, rng.Intn(7) == 0
					var tv *gpb.TypedValue
					want, label := "", "odd"
					switch r := rng.Intn(100); {
					case r < 60:
						tv, want, label = d.valueFor(s, false)
					case r < 75:
						tv, want, label = d.valueFor(s, true)
					}
					if label == "" || label == "odd" {
						tv, want, label = gnOddValue(rng), "", "odd"
					}
					if bv, isBool := tv.GetValue().(*gpb.TypedValue_BoolVal); isBool && !bv.BoolVal && s.entry != nil && (s.entry.IsLeaf() || s.entry.IsLeafList()) {
						if _, lt := resolveType(s.entry); lt != nil && lt.Kind == yang.Yempty {
							// bool_val:false on a leaf of type empty is not modelled (see the value matrix below)
							tv = &gpb.TypedValue{Value: &gpb.TypedValue_BoolVal{BoolVal: true}}
							sm.count("unmodelled", "empty-leaf/bool_val:false replaced by true")
						}
					}
					tvt, ok := gnTvTerm(tv)
					if !ok {
						continue
					}
					var opts []ytypes.SetNodeOpt
					if init {
						opts = append(opts, &ytypes.InitMissingElements{})
					}
					if tol {
						opts = append(opts, &ytypes.TolerateJSONInconsistencies{})
					}
					if useShadow {
						opts = append(opts, &ytypes.PreferShadowPath{})
					}
					if ignore {
						opts = append(opts, &ytypes.IgnoreExtraFields{})
					}
					var val interface{} = tv
					err, pan := gnSafeSet(schema, root, path, val, opts...)
					post := treeTerm(root)
					isJSON := tv.GetJsonIetfVal() != nil
					if err != nil && strings.Contains(err.Error(), "unknown union type, got: []uint8") {
						// wrapper unions: the generated To_<Union>() has no []byte arm, a binary member cannot be
						// decoded from gNMI or JSON (the gNMI side is modelled by key_oracle.union_bytes; the JSON
						// decoder of the tree layer is not, so such a JSON case is not compared)
						sm.finding(Finding{Signature: "union/wrapper-binary-unsettable", What: "a binary member of a wrapper union cannot be set: " + err.Error(), Input: in})
						if isJSON {
							id++
							done++
							continue
						}
					}
					postTerm := "(Some " + post + ")"
					if isJSON && (err != nil || pan) {
						postTerm = "None" // the state after a failing JSON unmarshal is not modelled
					}
					term = fmt.Sprintf("GSet %d %s %s %s %s %s %s", id, gnSetOptsTerm(init, tol, useShadow, ignore), pre, gnPathTerm(path), tvt, gnResUnit(err, pan), postTerm)
					in["op"], in["value"], in["value_kind"] = "set", fmt.Sprintf("%v", tv), label
					in["opts"] = map[string]bool{"init": init, "tolerate_json": tol, "shadow": useShadow, "ignore_extra": ignore}
					sm.count("ops", "set/"+label+"/"+map[bool]string{true: "ok", false: "err"}[err == nil])
					nontrivial = (err == nil && post != pre) || (err != nil && want != "")
					lmPost := leafMapOf(root)
					// ---- C10 oracle
					sm.OracleRuns++
					switch {
					case pan:
						sm.finding(Finding{Signature: "setnode/panic", What: "SetNode panics: " + err.Error(), Input: in})
					case err != nil:
						// C10 speaks about SetNode calls that succeed; what a failing call leaves behind
						// (documented: "may modify the supplied root even if the function fails") is
						// counted, compared with the model, and stated as c10_refuted_failed_set_mutates /
						// c13_no_rollback, but it is no violation of C10
						if dd := leafMapDiff(lmPre, lmPost, 4); len(dd) > 0 {
							sm.count("failed_set", "changes-leaves")
						} else if post != pre {
							sm.count("failed_set", "leaves-empty-nodes")
						} else if desync {
							// an earlier operation of the sequence took a key leaf away from an entry (known
							// finding deletenode/key-leaf-deleted / setnode/key-leaf-overwrite): the path derived
							// from that entry carries an empty key value
							sm.count("failed_set", "tree with an entry whose key leaves disagree with its map key")
						} else if mut == "" && !useShadow && want != "" && (init || s.exists) && label == "scalar-"+s.kind {
							sig := "setnode/type-correct-value-rejected"
							switch {
							case strings.Contains(err.Error(), "into empty") || strings.Contains(err.Error(), "empty type"):
								sig = "gnmi/empty-type"
							case strings.Contains(err.Error(), "unable to find any nodes") && !init:
								sig = ""
							}
							if sig != "" {
								sm.finding(Finding{Signature: sig, What: "SetNode rejects a type-correct value: " + err.Error(), Input: in})
							}
						}
					case mut == "" && want != "" && (label == "scalar-leaf" || label == "scalar-leaflist") && !useShadow && (init || s.exists) && s.allowed[s.lm] && lmPre[s.lm] != want:
						// a list key leaf is overwritten with another value: the Go map key stays, the entry is
						// no longer found under either key
						ns, gerr, _ := gnSafeGet(schema, root, path)
						desync = true
						if gerr != nil || len(ns) != 1 {
							sm.finding(Finding{Signature: "setnode/key-leaf-overwrite", What: "SetNode overwrote the key leaf of an existing list entry; the entry is no longer addressable by the path that was used (map key and key leaf differ)", Input: in})
						}
					case !desync && label == "json-leaflist-empty" && mut == "" && !useShadow:
						if lmPost[s.lm] != "" {
							sm.finding(Finding{Signature: "setnode/value-not-stored", What: "leaf-list " + s.lm + " still holds " + lmPost[s.lm] + " after it was set to the empty array", Input: in})
						}
					case desync || isJSON:
						desync = desync || (isJSON && post != pre) // a JSON payload may rewrite key leaves too
					case mut == "" && want != "" && (label == "scalar-leaf" || label == "scalar-leaflist") && !useShadow && (init || s.exists):
						// get-after-set
						gopts := []ytypes.GetNodeOpt{}
						if useShadow {
							gopts = append(gopts, &ytypes.PreferShadowPath{})
						}
						ns, gerr, _ := gnSafeGet(schema, root, path, gopts...)
						got := ""
						if gerr == nil && len(ns) == 1 {
							got = gnDataTerm(ns[0].Data)
						}
						if got != "(Some "+want+")" {
							sm.finding(Finding{Signature: "setnode/get-after-set", What: "GetNode after SetNode returns " + got + ", the value set was " + want, Input: in})
						}
						// frame: only the leaf itself and what creating its ancestors adds
						var bad []string
						for _, k := range leafMapDiff(lmPre, lmPost, 50) {
							if k != s.lm && !s.allowed[k] {
								bad = append(bad, k)
							}
						}
						if len(bad) > 0 {
							sm.finding(Finding{Signature: "setnode/frame", What: "SetNode changed other leaves: " + strings.Join(bad, " ; "), Input: in})
						}
						if lmPost[s.lm] != want {
							sm.finding(Finding{Signature: "setnode/value-not-stored", What: "leaf " + s.lm + " holds " + lmPost[s.lm] + " after setting " + want, Input: in})
						}
					}
				default:
					// ---------------- DeleteNode
					var opts []ytypes.DelNodeOpt
					if useShadow {
						opts = append(opts, &ytypes.PreferShadowPath{})
					}
					err, pan := gnSafeDel(schema, root, path, opts...)
					post := treeTerm(root)
					term = fmt.Sprintf("GDel %d %s %s %s %s (Some %s)", id, coqBool(useShadow), pre, gnPathTerm(path), gnResUnit(err, pan), post)
					in["op"] = "delete"
					sm.count("ops", "delete/"+s.kind+"/"+map[bool]string{true: "ok", false: "err"}[err == nil])
					nontrivial = err == nil && post != pre
					lmPost := leafMapOf(root)
					// ---- C12 oracle
					sm.OracleRuns++
					switch {
					case pan:
						sm.finding(Finding{Signature: "deletenode/panic", What: "DeleteNode panics: " + err.Error(), Input: in})
					case err != nil && mut == "" && !useShadow:
						sig := "deletenode/valid-path-rejected"
						if s.kind == "list" {
							sig = "deletenode/keyless-list-path"
						}
						sm.finding(Finding{Signature: sig, What: "DeleteNode fails on a schema-valid path (" + s.kind + "): " + err.Error(), Input: in})
						if post != pre {
							sm.finding(Finding{Signature: "deletenode/failed-delete-mutates", What: "DeleteNode returned an error but changed the tree", Input: in})
						}
					case err != nil:
						if post != pre {
							sm.finding(Finding{Signature: "deletenode/failed-delete-mutates", What: "DeleteNode returned an error but changed the tree", Input: in})
						}
					case desync:
					case mut == "" && !useShadow && s.alt == 0:
						var left, lost []string
						for k := range lmPost {
							if gnUnder(k, s.lm) {
								left = append(left, k)
							}
						}
						for _, k := range leafMapDiff(lmPre, lmPost, 50) {
							// the order record of an ordered list on the way to the deleted node changes with it
							onSpine := strings.HasSuffix(k, "#order") && strings.HasPrefix(s.lm, strings.TrimSuffix(k, "#order"))
							if !gnUnder(k, s.lm) && !onSpine && !(strings.HasSuffix(k, "#presence") || strings.HasSuffix(k, "#entry")) {
								lost = append(lost, k)
							}
							// an emptied (or already empty) presence container on the way to the deleted node is
							// pruned, as the property says; one that is not on the way must stay
							if !gnUnder(k, s.lm) && strings.HasSuffix(k, "#presence") && !gnUnder(s.lm, strings.TrimSuffix(k, "#presence")) {
								sm.finding(Finding{Signature: "deletenode/prunes-presence-container", What: "DeleteNode of " + s.lm + " also removed the (then empty) presence container " + strings.TrimSuffix(k, "#presence"), Input: in})
							}
						}
						sort.Strings(left)
						sort.Strings(lost)
						if len(left) > 0 {
							sm.finding(Finding{Signature: "deletenode/subtree-remains", What: "after DeleteNode the subtree still holds " + strings.Join(left, " ; "), Input: in})
						}
						if len(lost) > 0 {
							sm.finding(Finding{Signature: "deletenode/frame", What: "DeleteNode changed leaves outside the subtree: " + strings.Join(lost, " ; "), Input: in})
						}
						if !s.exists && len(lost) > 0 {
							sm.finding(Finding{Signature: "deletenode/absent-not-noop", What: "DeleteNode of an absent node changed leaves", Input: in})
						}
						// idempotence
						err2, pan2 := gnSafeDel(schema, root, path, opts...)
						if err2 != nil || pan2 || treeTerm(root) != post {
							sig := "deletenode/not-idempotent"
							if s.allowed[s.lm] {
								// the key leaf of a list entry was deleted: the entry keeps its map key, but an entry whose
								// union-typed key leaf is nil makes every later traversal of the list fail
								sig = "deletenode/key-leaf-deleted"
							}
							sm.finding(Finding{Signature: sig, What: "a second DeleteNode of the same path fails or changes the tree", Input: in})
						}
						if s.allowed[s.lm] {
							desync = true
						}
					}
				}
				gnPrune(reflect.ValueOf(root), false, false)
				if gnDupKeys(reflect.ValueOf(root)) {
					sm.count("notes", "case dropped: a map with wrapper-union keys holds two equal-looking keys (outside the tree model)")
					break
				}
				if record {
					recorded++
					tf.cf.add(term)
					ck := gnCaseKey(term)
					if !seen[ck] {
						seen[ck] = true
						if nontrivial {
							sm.Nontrivial++
						}
					}
					if mut != "" {
						sm.count("mutations", mut)
					}
					sm.count("sites", s.kind+map[bool]string{true: "/existing", false: "/absent"}[s.exists])
					sm.sample(map[string]interface{}{"pkg": name, "op": in["op"], "path": in["path"], "site": s.kind})
				}
				id++
				done++
				if gnAmbiguous(reflect.ValueOf(root)) {
					sm.count("notes", "tree abandoned: two entries of a list print the same key (after a key-leaf overwrite)")
					break
				}
			}
		}
		if !replaying || rp.Index == -1 {
			// every-leaf delete sweep (its own PRNG: the main sequence above is not disturbed)
			trees, maxLeaves := 1, 120
			if tier == "thorough" {
				trees, maxLeaves = 6, 400
			}
			gnDeleteSweep(p, rand.New(rand.NewSource(seed^vdHash(name))), trees, maxLeaves, tf, &id, sum,
				gnReplay{Seed: seed, N: n, Tier: tier, Index: -1})
		}
		if tier == "thorough" && !replaying {
			// exhaustive small scope: every leaf / leaf-list reachable through containers x every
			// TypedValue arm (boundary values), SetNode with InitMissingElements on an empty root,
			// with and without TolerateJSONInconsistencies
			var leaves []leafSite
			rt := reflect.TypeOf(p.NewRoot()).Elem()
			containerLeaves(rt, p.SchemaTree[rt.Name()], nil, &leaves)
			for _, ls := range leaves {
				for _, tol := range []bool{false, true} {
					for _, mk := range gnValueMatrix() {
						tv := mk()
						tvt, ok := gnTvTerm(tv)
						if !ok {
							continue
						}
						if tol && tv.GetValue() != nil {
							// the tolerance only concerns int_val (also inside a leaflist_val)
							switch tv.GetValue().(type) {
							case *gpb.TypedValue_IntVal, *gpb.TypedValue_LeaflistVal:
							default:
								continue
							}
						}
						if _, lt := resolveType(ls.entry); lt != nil && lt.Kind == yang.Yempty {
							if bv, isBool := tv.GetValue().(*gpb.TypedValue_BoolVal); isBool && !bv.BoolVal {
								// bool_val:false on a leaf of type empty: Go stores YANGEmpty(false), i.e. leaves the
								// leaf unset, and reports success; the model has no arm for it (it answers Err).
								// Neither outcome concerns a property; the case is counted, not compared.
								sum.count("unmodelled", "empty-leaf/bool_val:false")
								continue
							}
						}
						root := p.NewRoot()
						opts := []ytypes.SetNodeOpt{&ytypes.InitMissingElements{}}
						if tol {
							opts = append(opts, &ytypes.TolerateJSONInconsistencies{})
						}
						path := gnNamesPath(ls.path)
						err, pan := gnSafeSet(gnRootEntry(p, root), root, path, tv, opts...)
						post := "(Some " + treeTerm(root) + ")"
						if tv.GetJsonIetfVal() != nil && (err != nil || pan) {
							post = "None"
						}
						tf.cf.add(fmt.Sprintf("GSet %d %s (TCont []) %s %s %s %s", id, gnSetOptsTerm(true, tol, false, false), gnPathTerm(path), tvt, gnResUnit(err, pan), post))
						id++
						sum.count("matrix", map[bool]string{true: "ok", false: "err"}[err == nil])
						if pan {
							sum.finding(Finding{Signature: "setnode/panic", What: "SetNode panics: " + err.Error(), Input: map[string]interface{}{"pkg": name, "path": gnPathString(path), "value": fmt.Sprintf("%v", tv)}})
						}
					}
				}
			}
		}
		fs, err := gnWrite(tf, out, "nodeops", 400)
		if err != nil {
			return nil, err
		}
		files = append(files, fs...)
	}
	sum.Cases = id
	if replaying {
		sum.Cases = recorded
	}
	sum.Extra = map[string]interface{}{"case_files": files}
	return sum, nil
}

// gnSharedBytesCases: one bytes_val message is set on two binary leaves, then one of them is set
// again to a shorter value: the other leaf must keep its bytes (the tree must not share storage
// between leaves, whatever it shares with the caller's message).  Directed cases in front of the
// random ones; each SetNode is a GSet case, and the C10 oracle ("every other leaf keeps its
// value") is evaluated on the leaf map.
func gnSharedBytesCases(p *reg.Pkg, tf *treeFile, id *int, sum *Summary) {
	var sites []leafSite
	rt := reflect.TypeOf(p.NewRoot()).Elem()
	containerLeaves(rt, p.SchemaTree[rt.Name()], nil, &sites)
	var bins []leafSite
	for _, s := range sites {
		if _, t := resolveType(s.entry); t != nil && t.Kind == yang.Ybinary && s.entry.IsLeaf() {
			bins = append(bins, s)
		}
	}
	if len(bins) < 2 {
		return
	}
	mk := func(s leafSite) *gpb.Path {
		pth := &gpb.Path{}
		for _, n := range s.path {
			pth.Elem = append(pth.Elem, &gpb.PathElem{Name: n})
		}
		return pth
	}
	root := p.NewRoot()
	schema := gnRootEntry(p, root)
	shared := &gpb.TypedValue{Value: &gpb.TypedValue_BytesVal{BytesVal: []byte{0xde, 0xad, 0xbe}}}
	short := &gpb.TypedValue{Value: &gpb.TypedValue_BytesVal{BytesVal: []byte{1, 2}}}
	steps := []struct {
		path *gpb.Path
		tv   *gpb.TypedValue
	}{{mk(bins[0]), shared}, {mk(bins[1]), shared}, {mk(bins[0]), short}}
	for i, st := range steps {
		pre := treeTerm(root)
		lmPre := leafMapOf(root)
		tvt, ok := gnTvTerm(st.tv)
		if !ok {
			return
		}
		err, pan := gnSafeSet(schema, root, st.path, st.tv, &ytypes.InitMissingElements{})
		post := treeTerm(root)
		tf.cf.add(fmt.Sprintf("GSet %d %s %s %s %s %s (Some %s)", *id, gnSetOptsTerm(true, false, false, false), pre, gnPathTerm(st.path), tvt, gnResUnit(err, pan), post))
		*id++
		sum.count("ops", "set/shared-bytes")
		sum.OracleRuns++
		if err != nil || pan {
			continue
		}
		lmPost := leafMapOf(root)
		own := "/" + strings.Join(func() []string {
			var ns []string
			for _, e := range st.path.Elem {
				ns = append(ns, e.Name)
			}
			return ns
		}(), "/")
		for _, k := range leafMapDiff(lmPre, lmPost, 8) {
			if k != own {
				sum.finding(Finding{Signature: "setnode/other-leaf-changed", What: "SetNode on " + own + " changed another leaf: " + k + ": " + lmPre[k] + " -> " + lmPost[k],
					Input: map[string]interface{}{"pkg": p.Name, "scenario": "one bytes_val message set on two binary leaves, then one leaf set again", "step": i, "path": own}})
			}
		}
	}
}

// gnDecimalValCases: the deprecated decimal_val encoding on the first decimal64 leaf of the
// package, with precisions inside and outside the range 1..18 that YANG allows (directed cases:
// the random values reach a decimal64 leaf with a large precision too rarely).
func gnDecimalValCases(p *reg.Pkg, tf *treeFile, id *int, sum *Summary) {
	var sites []leafSite
	rt := reflect.TypeOf(p.NewRoot()).Elem()
	containerLeaves(rt, p.SchemaTree[rt.Name()], nil, &sites)
	for _, s := range sites {
		if _, t := resolveType(s.entry); t == nil || t.Kind != yang.Ydecimal64 || !s.entry.IsLeaf() {
			continue
		}
		pth := &gpb.Path{}
		for _, n := range s.path {
			pth.Elem = append(pth.Elem, &gpb.PathElem{Name: n})
		}
		for _, prec := range []uint32{0, 2, 18, 19, 25, 400} {
			root := p.NewRoot()
			tv := &gpb.TypedValue{Value: &gpb.TypedValue_DecimalVal{DecimalVal: &gpb.Decimal64{Digits: 314, Precision: prec}}}
			tvt, ok := gnTvTerm(tv)
			if !ok {
				continue
			}
			err, pan := gnSafeSet(gnRootEntry(p, root), root, pth, tv, &ytypes.InitMissingElements{})
			tf.cf.add(fmt.Sprintf("GSet %d %s (TCont []) %s %s %s (Some %s)", *id, gnSetOptsTerm(true, false, false, false), gnPathTerm(pth), tvt, gnResUnit(err, pan), treeTerm(root)))
			*id++
			sum.count("ops", "set/decimal-val")
			sum.OracleRuns++
			if pan {
				sum.finding(Finding{Signature: "setnode/panic", What: "SetNode panics: " + err.Error(),
					Input: map[string]interface{}{"pkg": p.Name, "path": gnPathString(pth), "value": fmt.Sprintf("%v", tv)}})
			}
		}
		return
	}
}
