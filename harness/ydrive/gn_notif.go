//go:build verif

package main

// gn_notif.go — gNMI layer, stream "gnmirt": random trees -> ygot.TogNMINotifications (PathElem
// form, random prefix) -> ytypes.UnmarshalNotifications into an empty root, plus the key-string
// cases of C16 (KeyValueAsString, stringToKeyType via SetNode, StringToType).  Also holds the
// helpers shared by gn_node.go and gn_setreq.go (TypedValue / path / notification printers, the
// key oracle table, the case-file writer for GnmiCorr).

import (
	"encoding/json"
	"flag"
	"fmt"
	"math"
	"math/big"
	"math/rand"
	"os"
	"reflect"
	"sort"
	"strconv"
	"strings"

	gpb "github.com/openconfig/gnmi/proto/gnmi"
	"github.com/openconfig/goyang/pkg/yang"
	"github.com/openconfig/ygot/internal/verifharness/reg"
	"github.com/openconfig/ygot/util"
	"github.com/openconfig/ygot/ygot"
	"github.com/openconfig/ygot/ytypes"
)

func init() { streams["gnmirt"] = gnNotifStream }

// ---------------------------------------------------------------- oracle tables

// gnDecSeen: every Decimal64 TypedValue that crosses the model boundary -> float64 bits of
// big.Rat(digits/10^prec).Float64()
var gnDecSeen = map[[2]int64]uint64{}

func gnDecBits(digits int64, prec uint32) uint64 {
	p := new(big.Int).Exp(big.NewInt(10), big.NewInt(int64(prec)), nil)
	f, _ := new(big.Rat).SetFrac(big.NewInt(digits), p).Float64()
	return math.Float64bits(f)
}

// gnNoteStr registers a string that the model may hand to strconv.ParseFloat.
func gnNoteStr(s string) {
	if f, err := strconv.ParseFloat(s, 64); err == nil {
		floatTextsSeen[s] = true
		noteFloat(f)
	}
}

func gnNotePath(p *gpb.Path) {
	for _, e := range p.GetElem() {
		for _, v := range e.GetKey() {
			gnNoteStr(v)
		}
	}
}

// gnKeyOracleTerm prints the key_oracle (KeyValueAsString of every float seen, Decimal64 conversions).
func gnKeyOracleTerm(p *reg.Pkg) string {
	bitsSorted := make([]uint64, 0, len(floatsSeen))
	for b := range floatsSeen {
		bitsSorted = append(bitsSorted, b)
	}
	sort.Slice(bitsSorted, func(i, j int) bool { return bitsSorted[i] < bitsSorted[j] })
	var g []string
	for _, b := range bitsSorted {
		g = append(g, fmt.Sprintf("(%d,%s)", b, coqStr(keyFloatText(floatsSeen[b]))))
	}
	var ks [][2]int64
	for k := range gnDecSeen {
		ks = append(ks, k)
	}
	sort.Slice(ks, func(i, j int) bool {
		if ks[i][0] != ks[j][0] {
			return ks[i][0] < ks[j][0]
		}
		return ks[i][1] < ks[j][1]
	})
	var d []string
	for _, k := range ks {
		d = append(d, fmt.Sprintf("(%s,%d,%d)", coqZ(k[0]), k[1], gnDecSeen[k]))
	}
	return "(mk_key_oracle " + coqList(g) + " " + coqList(d) + " " + coqBool(!p.Flags["wrapper_unions"]) + ")"
}

const gnRequires = "Tree.KeyCodec Tree.Leaves Tree.Notif Tree.Node Tree.SetReq Path.PathRel Corr.TreeCorr Corr.GnmiCorr"

func gnNewFile(p *reg.Pkg) *treeFile { return newTreeFile(p, "gcase", "gmismatches", gnRequires) }

// gnWrite is treeFile.write (schema and enum environment compiled once per package as
// sch_<stream>_<pkg>.v, imported by every shard) with the key oracle added to the shard header.
func gnWrite(tf *treeFile, out, stream string, shard int) ([]string, error) {
	mod := "sch_" + stream + "_" + tf.pkg.Name
	schSrc := "From Ygot Require Import Tree.Tree.\nOpen Scope N_scope.\n" +
		"Definition sch : schema := " + tf.sch + ".\nDefinition env : enum_env := " + tf.env + ".\n"
	if err := os.WriteFile(out+"/"+mod+".v", []byte(schSrc), 0o644); err != nil {
		return nil, err
	}
	ko := gnKeyOracleTerm(tf.pkg) // before floatOracleTerm: neither adds floats
	tf.cf.header = "From Ygot Require Import Tree.Tree Tree.Codec Tree.Render Tree.TreeOps Tree.Unmarshal " + tf.extra + ".\nRequire Import " + mod + ".\nOpen Scope N_scope.\n" +
		"Definition fo : float_oracle := " + floatOracleTerm() + ".\n" +
		"Definition ko : key_oracle := " + ko + "."
	tf.cf.fn = tf.fn + " sch env fo ko"
	return tf.cf.write(out, stream+"_"+tf.pkg.Name, shard)
}

// ---------------------------------------------------------------- printers

func gnElemsTerm(es []*gpb.PathElem) string {
	var els []string
	for _, e := range es {
		var kvs []string
		for _, k := range sortedKeys(e.GetKey()) {
			gnNoteStr(e.Key[k])
			kvs = append(kvs, "("+coqStr(k)+","+coqStr(e.Key[k])+")")
		}
		els = append(els, "{| ename := "+coqStr(e.GetName())+"; ekeys := "+coqList(kvs)+" |}")
	}
	return coqList(els)
}

// gnPathTerm prints the elements of a path (nil = []).
func gnPathTerm(p *gpb.Path) string { return gnElemsTerm(p.GetElem()) }

func gnGPTerm(p *gpb.Path) string {
	return "{| origin := " + coqStr(p.GetOrigin()) + "; target := " + coqStr(p.GetTarget()) + "; elems := " + gnElemsTerm(p.GetElem()) + " |}"
}

// gnTvTerm prints a TypedValue; ok=false when it cannot be represented (invalid JSON bytes,
// an arm outside Tree.tval).
func gnTvTerm(tv *gpb.TypedValue) (string, bool) {
	if tv == nil {
		return "TVNil", true
	}
	switch v := tv.GetValue().(type) {
	case *gpb.TypedValue_StringVal:
		gnNoteStr(v.StringVal)
		return "(TVString " + coqStr(v.StringVal) + ")", true
	case *gpb.TypedValue_IntVal:
		return "(TVInt " + coqZ(v.IntVal) + ")", true
	case *gpb.TypedValue_UintVal:
		return "(TVUint " + coqZu(v.UintVal) + ")", true
	case *gpb.TypedValue_BoolVal:
		return "(TVBool " + coqBool(v.BoolVal) + ")", true
	case *gpb.TypedValue_BytesVal:
		if v.BytesVal == nil {
			return "", false
		}
		return "(TVBytes " + bytesTerm(v.BytesVal) + ")", true
	case *gpb.TypedValue_DoubleVal:
		return fmt.Sprintf("(TVDouble %d)", noteFloat(v.DoubleVal)), true
	case *gpb.TypedValue_FloatVal:
		return fmt.Sprintf("(TVFloat %d)", noteFloat(float64(v.FloatVal))), true
	case *gpb.TypedValue_DecimalVal:
		if v.DecimalVal == nil {
			return "", false
		}
		gnDecSeen[[2]int64{v.DecimalVal.Digits, int64(v.DecimalVal.Precision)}] = gnDecBits(v.DecimalVal.Digits, v.DecimalVal.Precision)
		noteFloat(math.Float64frombits(gnDecBits(v.DecimalVal.Digits, v.DecimalVal.Precision)))
		return fmt.Sprintf("(TVDecimal %s %d)", coqZ(v.DecimalVal.Digits), v.DecimalVal.Precision), true
	case *gpb.TypedValue_LeaflistVal:
		var items []string
		for _, e := range v.LeaflistVal.GetElement() {
			t, ok := gnTvTerm(e)
			if !ok {
				return "", false
			}
			items = append(items, t)
		}
		return "(TVLeafList " + coqList(items) + ")", true
	case *gpb.TypedValue_JsonIetfVal:
		if v.JsonIetfVal == nil {
			return "", false
		}
		t, err := jsonBytesTerm(v.JsonIetfVal)
		if err != nil {
			return "", false
		}
		return "(TVJsonIetf " + t + ")", true
	case *gpb.TypedValue_JsonVal:
		if v.JsonVal == nil {
			return "", false
		}
		t, err := jsonBytesTerm(v.JsonVal)
		if err != nil {
			return "", false
		}
		return "(TVJson " + t + ")", true
	case *gpb.TypedValue_AsciiVal:
		return "(TVAscii " + coqStr(v.AsciiVal) + ")", true
	}
	return "", false
}

func gnNotifTerm(n *gpb.Notification) (string, bool) {
	var us []string
	for _, u := range n.GetUpdate() {
		t, ok := gnTvTerm(u.GetVal())
		if !ok {
			return "", false
		}
		us = append(us, "("+gnPathTerm(u.GetPath())+", "+t+")")
	}
	var ds []string
	for _, d := range n.GetDelete() {
		ds = append(ds, gnPathTerm(d))
	}
	return fmt.Sprintf("{| n_prefix := %s; n_atomic := %s; n_updates := %s; n_deletes := %s |}",
		gnPathTerm(n.GetPrefix()), coqBool(n.GetAtomic()), coqList(us), coqList(ds)), true
}

func gnNotifsTerm(ns []*gpb.Notification) (string, bool) {
	var items []string
	for _, n := range ns {
		t, ok := gnNotifTerm(n)
		if !ok {
			return "", false
		}
		items = append(items, t)
	}
	return coqList(items), true
}

func gnPathString(p *gpb.Path) string {
	s, err := ygot.PathToString(p)
	if err != nil {
		return fmt.Sprintf("%v", p)
	}
	return s
}

// ---------------------------------------------------------------- Go-side helpers

func gnSchema(p *reg.Pkg, root ygot.GoStruct) *ytypes.Schema {
	return &ytypes.Schema{Root: root, SchemaTree: p.SchemaTree, Unmarshal: p.Unmarshal}
}

func gnRootEntry(p *reg.Pkg, root ygot.GoStruct) *yang.Entry {
	return p.SchemaTree[reflect.TypeOf(root).Elem().Name()]
}

// gnPrune removes from the tree what the caller does not want in it: unkeyed lists,
// ordered lists; it always replaces ordered maps that are non-nil but zero (never written to)
// by nil, because a tree dump cannot tell them from emptied ones (DeleteNode can).
func gnPrune(v reflect.Value, dropUnkeyed, dropOrdered bool) {
	if v.Kind() == reflect.Interface {
		v = v.Elem()
	}
	if v.Kind() != reflect.Ptr || v.IsNil() || v.Elem().Kind() != reflect.Struct {
		return
	}
	s := v.Elem()
	for i := 0; i < s.NumField(); i++ {
		f := s.Field(i)
		ft := s.Type().Field(i).Type
		if _, ok := s.Type().Field(i).Tag.Lookup("path"); !ok {
			continue
		}
		switch {
		case isOrderedMapType(ft):
			if f.IsNil() {
				continue
			}
			if dropOrdered || f.Elem().IsZero() {
				f.Set(reflect.Zero(ft))
				continue
			}
			for _, e := range orderedEntries(f.Interface().(ygot.GoOrderedMap)) {
				gnPrune(e.entry, dropUnkeyed, dropOrdered)
			}
		case ft.Kind() == reflect.Map:
			it := f.MapRange()
			for it.Next() {
				gnPrune(it.Value(), dropUnkeyed, dropOrdered)
			}
		case ft.Kind() == reflect.Ptr && ft.Elem().Kind() == reflect.Struct:
			gnPrune(f, dropUnkeyed, dropOrdered)
		case ft.Kind() == reflect.Slice && ft.Elem().Kind() == reflect.Ptr && ft.Elem().Elem().Kind() == reflect.Struct:
			if dropUnkeyed {
				f.Set(reflect.Zero(ft))
			}
		}
	}
}

// gnHasOrdered reports whether the tree holds a non-empty ordered map.
func gnHasOrdered(v reflect.Value) bool {
	if v.Kind() == reflect.Interface {
		v = v.Elem()
	}
	if v.Kind() != reflect.Ptr || v.IsNil() || v.Elem().Kind() != reflect.Struct {
		return false
	}
	s := v.Elem()
	for i := 0; i < s.NumField(); i++ {
		f := s.Field(i)
		switch {
		case isOrderedMapType(f.Type()):
			if !f.IsNil() && len(orderedEntries(f.Interface().(ygot.GoOrderedMap))) > 0 {
				return true
			}
		case f.Kind() == reflect.Map:
			it := f.MapRange()
			for it.Next() {
				if gnHasOrdered(it.Value()) {
					return true
				}
			}
		case f.Kind() == reflect.Ptr && f.Type().Elem().Kind() == reflect.Struct:
			if gnHasOrdered(f) {
				return true
			}
		}
	}
	return false
}

func gnSeedFlag() int64 {
	if f := flag.Lookup("seed"); f != nil {
		if v, err := strconv.ParseInt(f.Value.String(), 10, 64); err == nil {
			return v
		}
	}
	return 1
}

// gnReplay describes how to regenerate one case: the streams are deterministic functions of
// (seed, n, tier), so a finding is replayed by regenerating and keeping only its index.
type gnReplay struct {
	Seed  int64  `json:"seed"`
	N     int    `json:"n"`
	Tier  string `json:"tier"`
	Index int    `json:"index"`
}

// gnLoadReplay reads the replay file; ok=false when not replaying.
func gnLoadReplay() (gnReplay, bool) {
	if replayFile == "" {
		return gnReplay{}, false
	}
	b, err := os.ReadFile(replayFile)
	if err != nil {
		return gnReplay{}, false
	}
	var doc struct {
		Case struct {
			Replay gnReplay `json:"replay"`
		} `json:"case"`
	}
	if json.Unmarshal(b, &doc) != nil || doc.Case.Replay.N == 0 {
		return gnReplay{}, false
	}
	return doc.Case.Replay, true
}

func gnRandPrefix(rng *rand.Rand) []*gpb.PathElem {
	var out []*gpb.PathElem
	switch rng.Intn(4) {
	case 0:
		return nil
	case 1:
		out = append(out, &gpb.PathElem{Name: "pfx"})
	case 2:
		out = append(out, &gpb.PathElem{Name: "net"}, &gpb.PathElem{Name: "dev", Key: map[string]string{"id": randValue(rng, 4, nastyRunes) + "x"}})
	case 3:
		out = append(out, &gpb.PathElem{Name: "a", Key: map[string]string{"k1": "v", "k2": "1"}})
	}
	return out
}

func gnSafeNotifs(t ygot.GoStruct, pfx []*gpb.PathElem) (ns []*gpb.Notification, err error, panicked bool) {
	defer func() {
		if r := recover(); r != nil {
			ns, err, panicked = nil, fmt.Errorf("panic: %v", r), true
		}
	}()
	ns, err = ygot.TogNMINotifications(t, 42, ygot.GNMINotificationsConfig{UsePathElem: true, PathElemPrefix: pfx})
	return ns, err, false
}

func gnSafeUnmarshalNotifs(s *ytypes.Schema, ns []*gpb.Notification, opts ...ytypes.UnmarshalOpt) (err error, panicked bool) {
	defer func() {
		if r := recover(); r != nil {
			err, panicked = fmt.Errorf("panic: %v", r), true
		}
	}()
	return ytypes.UnmarshalNotifications(s, ns, opts...), false
}

func gnSrOut(err error, panicked bool) string {
	switch {
	case panicked:
		return "SRPanic"
	case err == nil:
		return "SROk"
	}
	if _, ok := err.(*ytypes.ComplianceErrors); ok {
		return "SRCompliance"
	}
	return "SRErr"
}

func gnSrOptsTerm(shadow, ignoreExtra, bestEffort bool) string {
	return fmt.Sprintf("{| so_shadow := %s; so_ignore_extra := %s; so_best_effort := %s |}", coqBool(shadow), coqBool(ignoreExtra), coqBool(bestEffort))
}

func gnResUnit(err error, panicked bool) string {
	switch {
	case panicked:
		return coqPanic
	case err != nil:
		return coqErr
	}
	return "(Ok tt)"
}

// ---------------------------------------------------------------- single-key lists (C16 key cases)

type gnListSite struct {
	prefix []string    // element names from the root down to and including the list
	entry  *yang.Entry // list schema
	field  reflect.StructField
	keyT   reflect.Type // Go type of the map key / ordered map key
	elemT  reflect.Type // entry struct type
}

// gnListSites finds the keyed lists reachable from the root through containers only.
func gnListSites(t reflect.Type, e *yang.Entry, prefix []string, out *[]gnListSite) {
	for i := 0; i < t.NumField(); i++ {
		f := t.Field(i)
		tag, ok := f.Tag.Lookup("path")
		if !ok {
			continue
		}
		ce, err := util.ChildSchema(e, f)
		if err != nil || ce == nil {
			continue
		}
		p := append(append([]string{}, prefix...), strings.Split(strings.Split(tag, "|")[0], "/")...)
		switch {
		case ce.IsList() && isOrderedMapType(f.Type):
			m, _ := f.Type.MethodByName("Keys")
			*out = append(*out, gnListSite{prefix: p, entry: ce, field: f, keyT: m.Type.Out(0).Elem(), elemT: entryTypeOfOrderedMap(f.Type)})
		case ce.IsList() && f.Type.Kind() == reflect.Map:
			*out = append(*out, gnListSite{prefix: p, entry: ce, field: f, keyT: f.Type.Key(), elemT: f.Type.Elem().Elem()})
		case ce.IsContainer() && f.Type.Kind() == reflect.Ptr:
			gnListSites(f.Type.Elem(), ce, p, out)
		}
	}
}

func gnNamesPath(names []string) *gpb.Path {
	p := &gpb.Path{}
	for _, n := range names {
		p.Elem = append(p.Elem, &gpb.PathElem{Name: n})
	}
	return p
}

// gnKeyStrings: key strings worth trying against any key type.
var gnKeyStrings = []string{"", "0", "1", "-1", "+5", "007", "127", "128", "255", "256", "65535", "65536", "4294967295", "4294967296",
	"-9223372036854775808", "9223372036854775807", "9223372036854775808", "18446744073709551615", "18446744073709551616",
	"true", "false", "True", "RED", "GREEN", "dark-grey", "v-main:BLUE", "x:RED", "id-a", "v-main:id-c", "id-z", "1.5", "1e-05", "1e5", "3.14", "-2.25", ".5", "5.", "inf", "NaN", "0x10",
	"YWJj", "YQ==", "YQ", "====", "a b", "*", "a/b", "[x]", "é", "1_0", " 1"}

// ---------------------------------------------------------------- the stream

func gnNotifStream(rng *rand.Rand, n int, tier string, out string) (*Summary, error) {
	rp, replaying := gnLoadReplay()
	seed := gnSeedFlag()
	if replaying {
		rng, n, tier, seed = rand.New(rand.NewSource(rp.Seed)), rp.N, rp.Tier, rp.Seed
	}
	sum := &Summary{Rule: "random schema-conforming trees of every generated package (unkeyed lists removed in 85% and ordered lists in 50% of the trees; 1 in 6 trees may hold empty non-nil leaf-lists) rendered by TogNMINotifications with a random PathElem prefix, the notifications (prefix stripped) unmarshalled into an empty root; key strings of every single-key list in both directions (values taken from the trees plus a fixed list of boundary/malformed strings). Non-trivial = tree with >= 8 leaves incl. a list entry, or a key case on a non-string key; distinct by tree dump / key case term."}
	var files []string
	id := 0
	seen := map[string]bool{}
	names := reg.Names()
	per := n * 3 / (10 * len(names)) // two cases per tree: ~60% of the budget; the rest are key cases
	if per < 1 {
		per = 1
	}
	keyPer := n * 4 / (10 * len(names))
	keep := func(index int) bool { return !replaying || index == rp.Index }
	index := 0
	for _, name := range names {
		p := reg.Get(name)
		tf := newTreeFile(p, "gcase", "gmismatches_ord", gnRequires+" Corr.GnmiOrdCorr")
		g := newTreeGen(rng, p)
		var keyVals []gnKeyVal
		var sites []gnListSite
		rootT := reflect.TypeOf(p.NewRoot()).Elem()
		gnListSites(rootT, p.SchemaTree[rootT.Name()], nil, &sites)
		for i := 0; i < per; i++ {
			index++
			g.pField = 0.45
			if i%7 == 3 {
				g.pField = 0.9
			}
			g.emptyLL = i%6 == 5
			t := g.genTree()
			dropUnkeyed := rng.Intn(100) < 85
			dropOrdered := rng.Intn(2) == 0
			gnPrune(reflect.ValueOf(t), dropUnkeyed, dropOrdered)
			pfx := gnRandPrefix(rng)
			// harvest key values for the key cases
			gnHarvestKeys(reflect.ValueOf(t), sites, &keyVals, 5)
			if !keep(index) {
				continue
			}
			tt := treeTerm(t)
			lm := leafMapOf(t)
			ns, err, pan := gnSafeNotifs(t, pfx)
			in := map[string]interface{}{"pkg": name, "tree": tt, "prefix": toJPath(&gpb.Path{Elem: pfx}),
				"replay": gnReplay{Seed: seed, N: n, Tier: tier, Index: index}}
			ro := coqErr
			var nst string
			switch {
			case pan:
				ro = coqPanic
				sum.finding(Finding{Signature: "gnmi/notifications-panic", What: "TogNMINotifications panics: " + err.Error(), Input: in})
			case err == nil:
				var ok bool
				if nst, ok = gnNotifsTerm(ns); ok {
					ro = coqOk(nst)
				}
			}
			tf.cf.add(fmt.Sprintf("GNotifs %d %s %s %s", id, gnElemsTerm(pfx), tt, ro))
			id++
			sum.count("notifs_outcome", map[bool]string{true: "ok", false: "err"}[err == nil])
			sum.count("leaves", fmt.Sprintf("%02d+", g.leafCount/10*10))
			if !seen[tt] {
				seen[tt] = true
				if g.leafCount >= 8 && strings.Contains(tt, "TList [(") {
					sum.Nontrivial++
				}
			}
			sum.OracleRuns++
			if err != nil {
				switch {
				case strings.Contains(err.Error(), "keyless list cannot be output"):
					sum.finding(Finding{Signature: "gnmi/unkeyed-list", What: "TogNMINotifications rejects a tree that holds an unkeyed list (unimplemented in findUpdatedLeaves)", Input: in})
				case !pan:
					sum.finding(Finding{Signature: "gnmi/notifications-error", What: "TogNMINotifications fails on a schema-conforming tree: " + err.Error(), Input: in})
				}
				continue
			}
			// strip the caller's prefix again: the target root is the schema root
			for _, nn := range ns {
				if nn.Prefix != nil {
					el := nn.Prefix.Elem
					if len(el) >= len(pfx) {
						el = el[len(pfx):]
					}
					if len(el) == 0 {
						nn.Prefix = nil
					} else {
						nn.Prefix = &gpb.Path{Elem: el}
					}
				}
			}
			nst2, _ := gnNotifsTerm(ns)
			root2 := p.NewRoot()
			uerr, upan := gnSafeUnmarshalNotifs(gnSchema(p, root2), ns)
			t2 := treeTerm(root2)
			tf.cf.add(fmt.Sprintf("GUnmarshalNotifs %d %s (TCont []) %s %s (Some %s)", id, gnSrOptsTerm(false, false, false), nst2, gnSrOut(uerr, upan), t2))
			id++
			sum.count("unmarshal_outcome", gnSrOut(uerr, upan))
			sum.count("notifications", fmt.Sprintf("%d", len(ns)))
			sum.sample(map[string]interface{}{"pkg": name, "notifications": len(ns), "leaves": len(lm)})
			// ---- C02 / C16 oracle: nothing rejected, the same leaves, ordered lists in order
			switch {
			case upan:
				sum.finding(Finding{Signature: "gnmi/unmarshal-panic", What: "UnmarshalNotifications panics on notifications ygot produced: " + uerr.Error(), Input: in})
			case uerr != nil:
				sig := "gnmi/unmarshal-rejects"
				switch {
				case strings.Contains(uerr.Error(), "got empty leaf list"):
					sig = "gnmi/empty-leaflist"
				case strings.Contains(uerr.Error(), "into empty") || strings.Contains(uerr.Error(), "empty type isn't expected"):
					sig = "gnmi/empty-type"
				}
				sum.finding(Finding{Signature: sig, What: "UnmarshalNotifications rejects notifications that TogNMINotifications produced: " + uerr.Error(), Input: in})
			default:
				lm2 := leafMapOf(root2)
				// presence containers without leaves cannot be conveyed by leaf updates: not part of C02;
				// an empty (non-nil) leaf-list holds no leaf either
				for k, v := range lm {
					if v == "(TLeafList [])" {
						if _, ok := lm2[k]; !ok {
							delete(lm, k)
							sum.count("notes", "empty-leaflist-not-conveyed")
						}
					}
				}
				for k := range lm {
					if strings.HasSuffix(k, "#presence") {
						if _, ok := lm2[k]; !ok {
							delete(lm, k)
							sum.count("notes", "empty-presence-container-not-conveyed")
						}
					}
				}
				if d := leafMapDiff(lm, lm2, 6); len(d) > 0 {
					sig := "gnmi/roundtrip-differs"
					if gnHasOrdered(reflect.ValueOf(t)) && !p.Flags["compress"] {
						// the atomic notification of an ordered list is prefixed with the path of the node
						// that contains the list; UnmarshalNotifications deletes that whole node first
						sig = "gnmi/atomic-prefix-wipes-siblings"
					}
					if unionIntKindOnly(leafMapDiff(lm, lm2, 1000), lm, lm2) {
						// a union with two integer members: uint_val / int_val do not say which
						sig = "gnmi/union-integer-member-not-conveyed"
					}
					sum.finding(Finding{Signature: sig, What: "leaves differ after TogNMINotifications + UnmarshalNotifications: " + strings.Join(d, " ; "), Input: in})
				}
			}
		}
		// ---- key cases (C16): both directions on every single-key list
		kc := 0
		addKeyCase := func(term string, nontrivial bool) {
			tf.cf.add(term)
			id++
			kc++
			if !seen[term] {
				seen[term] = true
				if nontrivial {
					sum.Nontrivial++
				}
			}
		}
		var exhaustive [][2]int // thorough tier: every single-key list x every fixed key string
		if tier == "thorough" {
			for si, s := range sites {
				if s.keyT.Kind() != reflect.Struct {
					for ki := range gnKeyStrings {
						exhaustive = append(exhaustive, [2]int{si, ki})
					}
				}
			}
		}
		var single []gnListSite
		for _, s := range sites {
			if s.keyT.Kind() != reflect.Struct {
				single = append(single, s)
			}
		}
		// directed (every tier): the boolean spellings against every list keyed by a boolean or by a
		// union with a boolean member (the random part reaches these pairs too rarely)
		{
			for _, s := range single {
				ke := s.entry.Dir[s.entry.Key]
				if ke == nil {
					continue
				}
				_, kt := resolveType(ke)
				hasBool := kt != nil && kt.Kind == yang.Ybool
				if kt != nil && kt.Kind == yang.Yunion {
					for _, m := range flattenUnion(kt) {
						hasBool = hasBool || m.Kind == yang.Ybool
					}
				}
				if !hasBool {
					continue
				}
				for _, str := range []string{"true", "false", "1", "0", "t", "f", "T", "F", "TRUE", "FALSE", "True", "False", "yes"} {
					index++
					if !keep(index) {
						continue
					}
					gnStringKeyCase(p, tf, sum, s, str, false, reflect.Value{}, &id, seen, map[string]interface{}{"pkg": name, "list": strings.Join(s.prefix, "/"), "string": str,
						"replay": gnReplay{Seed: seed, N: n, Tier: tier, Index: index}})
				}
			}
		}
		for kc < keyPer || len(exhaustive) > 0 {
			index++
			if len(single) == 0 {
				break
			}
			var s gnListSite
			var str string
			if kc >= keyPer {
				// exhaustive part
				s, str = sites[exhaustive[0][0]], gnKeyStrings[exhaustive[0][1]]
				exhaustive = exhaustive[1:]
				if keep(index) {
					gnStringKeyCase(p, tf, sum, s, str, false, reflect.Value{}, &id, seen, map[string]interface{}{"pkg": name, "list": strings.Join(s.prefix, "/"), "string": str,
						"replay": gnReplay{Seed: seed, N: n, Tier: tier, Index: index}})
				}
				continue
			}
			s = single[rng.Intn(len(single))]
			var mine []reflect.Value
			for _, h := range keyVals {
				if h.site.field.Name == s.field.Name && h.site.field.Type == s.field.Type {
					mine = append(mine, h.v)
				}
			}
			fromTree := len(mine) > 0 && rng.Intn(3) != 0
			var kv reflect.Value
			if fromTree {
				kv = mine[rng.Intn(len(mine))]
			} else {
				if rng.Intn(4) == 0 {
					str = randValue(rng, 5, nastyRunes)
				} else {
					str = pick(rng, gnKeyStrings)
				}
			}
			if !keep(index) {
				kc++
				continue
			}
			in := map[string]interface{}{"pkg": name, "list": strings.Join(s.prefix, "/"), "replay": gnReplay{Seed: seed, N: n, Tier: tier, Index: index}}
			if fromTree {
				// value -> string
				ks, kerr := ygot.KeyValueAsString(kv.Interface())
				vt, _ := scalarTerm(kv)
				if vt == "" {
					kc++
					continue
				}
				ko := coqErr
				if kerr == nil {
					ko = coqOk(coqStr(ks))
				}
				addKeyCase(fmt.Sprintf("GKeyStr %d %s %s", id, vt, ko), kv.Kind() != reflect.String)
				sum.count("key_cases", "value-to-string")
				if kerr != nil {
					sum.OracleRuns++
					sum.finding(Finding{Signature: "key/value-unprintable", What: "KeyValueAsString fails on a key value of a generated tree: " + kerr.Error(), Input: in})
					continue
				}
				str = ks
				in["value"] = vt
			}
			in["string"] = str
			gnNoteStr(str)
			gnStringKeyCase(p, tf, sum, s, str, fromTree, kv, &id, seen, in)
			kc++
		}
		fs, err := gnWrite(tf, out, "gnmirt", 400)
		if err != nil {
			return nil, err
		}
		files = append(files, fs...)
	}
	sum.Cases = id
	sum.Extra = map[string]interface{}{"case_files": files}
	return sum, nil
}

type gnKeyVal struct {
	site gnListSite
	v    reflect.Value
}

// gnHarvestKeys collects the map keys of the single-key lists reachable through containers.
func gnHarvestKeys(v reflect.Value, sites []gnListSite, out *[]gnKeyVal, depth int) {
	if depth == 0 || v.Kind() != reflect.Ptr || v.IsNil() || len(*out) > 4000 {
		return
	}
	st := v.Elem()
	for i := 0; i < st.NumField(); i++ {
		f := st.Field(i)
		sf := st.Type().Field(i)
		if f.Kind() == reflect.Map && f.Type().Key().Kind() != reflect.Struct {
			for _, s := range sites {
				if s.field.Name == sf.Name && s.field.Type == sf.Type {
					for _, ke := range gnSortedEntries(f) { // sorted: replayable
						if len(ke.keys) == 1 {
							*out = append(*out, gnKeyVal{s, ke.keys[0]})
						}
					}
				}
			}
		}
		if f.Kind() == reflect.Ptr && !f.IsNil() && f.Elem().Kind() == reflect.Struct && !isOrderedMapType(f.Type()) {
			gnHarvestKeys(f, sites, out, depth-1)
		}
	}
}

func gnSafeSet(schema *yang.Entry, root ygot.GoStruct, path *gpb.Path, val interface{}, opts ...ytypes.SetNodeOpt) (err error, panicked bool) {
	defer func() {
		if r := recover(); r != nil {
			err, panicked = fmt.Errorf("panic: %v", r), true
		}
	}()
	return ytypes.SetNode(schema, root, path, val, opts...), false
}

// gnOnlyEntryKey returns the key leaf value of the single entry of list s in root.
func gnOnlyEntryKey(root ygot.GoStruct, s gnListSite) reflect.Value {
	var found reflect.Value
	var walk func(v reflect.Value, depth int)
	walk = func(v reflect.Value, depth int) {
		if depth == 0 || found.IsValid() || v.Kind() != reflect.Ptr || v.IsNil() {
			return
		}
		st := v.Elem()
		for i := 0; i < st.NumField(); i++ {
			f := st.Field(i)
			sf := st.Type().Field(i)
			if sf.Name == s.field.Name && sf.Type == s.field.Type && f.Kind() == reflect.Map {
				for _, k := range f.MapKeys() {
					ent := f.MapIndex(k).Elem()
					g := &treeGen{}
					for _, kf := range g.keyFieldNames(ent.Type(), s.entry) {
						kv := ent.FieldByName(kf)
						if kv.Kind() == reflect.Ptr && !kv.IsNil() {
							kv = kv.Elem()
						}
						found = kv
						return
					}
				}
			}
			if f.Kind() == reflect.Ptr && !f.IsNil() && f.Elem().Kind() == reflect.Struct && !isOrderedMapType(f.Type()) {
				walk(f, depth-1)
			}
		}
	}
	walk(reflect.ValueOf(root), 5)
	return found
}

// gnStringKeyCase: key string -> key value.  Ordered maps: ytypes.StringToType on the key's Go
// type; Go maps: SetNode(InitMissingElements) on an empty root, then the key leaf of the one
// entry is read back (insertAndGetKey / stringToKeyType).  With fromTree the string was printed
// by KeyValueAsString from kv and the C16 oracle applies.
func gnStringKeyCase(p *reg.Pkg, tf *treeFile, sum *Summary, s gnListSite, str string, fromTree bool, kv reflect.Value, idp *int, seen map[string]bool, in map[string]interface{}) {
	add := func(term string, nontrivial bool) {
		tf.cf.add(term)
		*idp++
		ck := gnCaseKey(term)
		if !seen[ck] {
			seen[ck] = true
			if nontrivial {
				sum.Nontrivial++
			}
		}
	}
	id := *idp
	gnNoteStr(str)
	// string -> key through SetNode(InitMissingElements): insertAndGetKey / stringToKeyType
	if isOrderedMapType(s.field.Type) {
		gv, gerr := ytypes.StringToType(s.keyT, str)
		gout := coqErr
		if gerr == nil {
			if st, ok := scalarTerm(gv); ok {
				gout = coqOk(st)
			} else if gv.Kind() == reflect.Int64 {
				gout = coqOk("(VEnum " + coqStr(gv.Type().Name()) + " 0%Z)")
			}
		}
		c := &schemaCtx{pkg: p, root: p.NewRoot()}
		ke := s.entry.Dir[s.entry.Key]
		add(fmt.Sprintf("GStrGoType %d %s %s %s", id, c.ytypeTerm(ke, ke.Type), coqStr(str), gout), s.keyT.Kind() != reflect.String)
		sum.count("key_cases", "string-to-gotype")
		return
	}
	root := p.NewRoot()
	path := gnNamesPath(s.prefix)
	path.Elem[len(path.Elem)-1].Key = map[string]string{s.entry.Key: str}
	serr, span := gnSafeSet(gnRootEntry(p, root), root, path, nil, &ytypes.InitMissingElements{})
	kout := coqErr
	var got reflect.Value
	if span {
		kout = coqPanic
	} else if serr == nil {
		// read the key leaf of the one entry back
		got = gnOnlyEntryKey(root, s)
		if got.IsValid() {
			if st, ok := scalarTerm(got); ok {
				kout = coqOk(st)
			} else if got.Kind() == reflect.Int64 {
				kout = coqOk("(VEnum " + coqStr(got.Type().Name()) + " 0%Z)")
			}
		}
	}
	c := &schemaCtx{pkg: p, root: p.NewRoot()}
	ke := s.entry.Dir[s.entry.Key]
	add(fmt.Sprintf("GStrKey %d %s %s %s", id, c.ytypeTerm(ke, ke.Type), coqStr(str), kout), s.keyT.Kind() != reflect.String)
	sum.count("key_cases", "string-to-key")
	sum.count("key_types", s.keyT.String())
	// ---- C16 oracle: the string ygot printed for a key addresses an entry with that key
	panicSig := "key/setnode-panic"
	if strings.EqualFold(strings.TrimLeft(str, "+-"), "nan") {
		panicSig += "/nan" // a NaN map key is never found again: known finding
	}
	if span && !fromTree {
		sum.finding(Finding{Signature: panicSig, What: "SetNode(InitMissingElements) panics on a list key string: " + serr.Error(), Input: in})
	}
	if fromTree {
		sum.OracleRuns++
		vt, _ := scalarTerm(kv)
		switch {
		case span:
			sum.finding(Finding{Signature: panicSig, What: "SetNode panics creating a list entry from a key string ygot printed", Input: in})
		case serr != nil:
			sum.finding(Finding{Signature: "key/string-rejected", What: "the key string printed by KeyValueAsString is rejected when creating the entry: " + serr.Error(), Input: in})
		default:
			gt, _ := scalarTerm(got)
			if gt != vt {
				rsig := "key/roundtrip-differs"
				if _, rt := resolveType(ke); rt != nil && rt.Kind == yang.Yunion {
					rsig += "/union-member" // the printed text does not carry the member type: known finding
				}
				sum.finding(Finding{Signature: rsig, What: "key value " + vt + " printed as " + strconv.Quote(str) + " creates an entry with key " + gt, Input: in})
			}
		}
	}

}

// keyFloatText is the text ygot.KeyValueAsString gives a float64 (decimal64) key: the models take
// it as a table (fmt_g / kf), so that they follow the implementation's choice of format.
func keyFloatText(f float64) string {
	s, err := ygot.KeyValueAsString(f)
	if err != nil {
		return fmt.Sprintf("%g", f)
	}
	// the table is taken from the implementation, so it is checked against what the theorems
	// assume of it (fmt_g_okb: the text parses back to the same float64), on every float met
	if !keyFloatChecked[f] {
		keyFloatChecked[f] = true
		if g, perr := strconv.ParseFloat(s, 64); (perr != nil || g != f) && !math.IsNaN(f) {
			globalFindings = append(globalFindings, Finding{Signature: "key/float-text-does-not-denote-the-value",
				What:  fmt.Sprintf("KeyValueAsString(%v) = %q, which does not parse back to the same float64", f, s),
				Input: map[string]interface{}{"float64": strconv.FormatFloat(f, 'g', -1, 64), "text": s}})
		}
	}
	return s
}

var keyFloatChecked = map[float64]bool{}
