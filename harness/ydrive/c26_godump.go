//go:build verif

package main

// c26_godump.go — translator of C26: stream "c26dump" prints, for every generated package of the
// manifest, the tree of Go struct types reachable from the fake root as a Gen/SchemaMatch.v
// `gnode` term (field name, the four path/module struct tags, and the kind of the field's Go type)
// next to the goyang compilation of the input modules (with instantiating modules).  The Coq
// checker fits_b decides whether the structs match the schema under the package's compression
// behaviour.  The kind of a Go type is read by reflection only (no schema is consulted here).

import (
	"fmt"
	"math/rand"
	"os"
	"reflect"
	"strings"

	"github.com/openconfig/ygot/internal/verifharness/reg"
	"github.com/openconfig/ygot/ygot"
)

var c26OrderedMapT = reflect.TypeOf((*ygot.GoOrderedMap)(nil)).Elem()

func c26IsScalarKind(k reflect.Kind) bool {
	switch k {
	case reflect.Bool, reflect.Int8, reflect.Int16, reflect.Int32, reflect.Int64, reflect.Uint8, reflect.Uint16,
		reflect.Uint32, reflect.Uint64, reflect.Float64, reflect.String, reflect.Int, reflect.Uint, reflect.Float32:
		return true
	}
	return false
}

// c26ValueKind classifies a non-pointer value type (leaf-list element, list key component, enum /
// union / binary / empty leaf).
func c26ValueKind(t reflect.Type) string {
	switch {
	case t.Implements(goEnumT) && t.Kind() == reflect.Int64:
		return "GEnum"
	case t.Kind() == reflect.Interface:
		return "GUnionIface"
	case t.Kind() == reflect.Slice && t.Elem().Kind() == reflect.Uint8 && t.Name() == ygot.BinaryTypeName:
		return "GBinary"
	case t.Kind() == reflect.Bool && t.Name() == ygot.EmptyTypeName:
		return "GEmpty"
	case c26IsScalarKind(t.Kind()) && t.PkgPath() == "":
		return fmt.Sprintf("(GScalar %d)", int(t.Kind()))
	}
	return "GOther"
}

func c26KeyKinds(k reflect.Type) string {
	if k.Kind() == reflect.Struct && !k.Implements(goEnumT) {
		var ks []string
		for i := 0; i < k.NumField(); i++ {
			ks = append(ks, c26ValueKind(k.Field(i).Type))
		}
		return coqList(ks)
	}
	return coqList([]string{c26ValueKind(k)})
}

// c26FieldKind returns the gokind term of a struct field type and the struct type behind it (nil for leaves).
func c26FieldKind(t reflect.Type) (string, reflect.Type) {
	switch {
	case t.Kind() == reflect.Ptr && t.Implements(c26OrderedMapT):
		m, ok := t.MethodByName("Keys")
		if !ok || m.Type.NumOut() != 1 || m.Type.Out(0).Kind() != reflect.Slice {
			return "GOther", nil
		}
		return "(GOrderedMap " + c26KeyKinds(m.Type.Out(0).Elem()) + ")", entryTypeOfOrderedMap(t)
	case t.Kind() == reflect.Ptr && t.Elem().Kind() == reflect.Struct:
		return "GStructPtr", t.Elem()
	case t.Kind() == reflect.Ptr && c26IsScalarKind(t.Elem().Kind()) && t.Elem().PkgPath() == "":
		return fmt.Sprintf("(GPtrScalar %d)", int(t.Elem().Kind())), nil
	case t.Kind() == reflect.Map && t.Elem().Kind() == reflect.Ptr && t.Elem().Elem().Kind() == reflect.Struct:
		return "(GMap " + c26KeyKinds(t.Key()) + ")", t.Elem().Elem()
	case t.Kind() == reflect.Slice && t.Elem().Kind() == reflect.Ptr && t.Elem().Elem().Kind() == reflect.Struct:
		return "GSliceStruct", t.Elem().Elem()
	case t.Kind() == reflect.Slice && !(t.Elem().Kind() == reflect.Uint8 && t.Name() == ygot.BinaryTypeName):
		return "(GSliceScalar " + c26ValueKind(t.Elem()) + ")", nil
	}
	return c26ValueKind(t), nil
}

func c26Tag(s *c27Share, tag string) string {
	if tag == "" {
		return "[]"
	}
	var alts []string
	for _, a := range strings.Split(tag, "|") {
		var els []string
		for _, e := range strings.Split(strings.TrimPrefix(a, "/"), "/") {
			if e != "" {
				els = append(els, s.str(e))
			}
		}
		alts = append(alts, coqList(els))
	}
	return coqList(alts)
}

type c26Stats struct {
	structs, fields, depth int
	names                  []string // Go names of the struct types met
}

func c26Struct(s *c27Share, t reflect.Type, depth int, st *c26Stats) string {
	st.structs++
	st.names = append(st.names, t.Name())
	if depth > st.depth {
		st.depth = depth
	}
	var fs []string
	if depth > 40 {
		return "[]"
	}
	for i := 0; i < t.NumField(); i++ {
		f := t.Field(i)
		if _, ok := f.Tag.Lookup("path"); !ok {
			continue
		}
		st.fields++
		kind, sub := c26FieldKind(f.Type)
		subs := "[]"
		if sub != nil {
			subs = c26Struct(s, sub, depth+1, st)
		}
		info := fmt.Sprintf("(MkG %s %s %s %s %s)", s.str(f.Name), c26Tag(s, f.Tag.Get("path")), c26Tag(s, f.Tag.Get("module")),
			c26Tag(s, f.Tag.Get("shadow-path")), c26Tag(s, f.Tag.Get("shadow-module")))
		fs = append(fs, "(GN "+info+" "+kind+" "+subs+")")
	}
	return coqList(fs)
}

func c26Behaviour(p c26Pkg) string {
	switch {
	case p.Compress && p.PreferState:
		return "PreferOperationalState"
	case p.Compress && p.ExcludeState:
		return "ExcludeDerivedState"
	case p.Compress:
		return "PreferIntendedConfig"
	case p.ExcludeState:
		return "UncompressedExcludeDerivedState"
	}
	return "Uncompressed"
}

func c26Dump(rng *rand.Rand, n int, tier string, out string) (*Summary, error) {
	sum := &Summary{Rule: "one case per generated package (Go struct tree x goyang tree x compression behaviour); non-trivial: distinct (input modules, behaviour, ordered maps)"}
	pkgs, err := c26LoadManifest()
	if err != nil {
		return nil, err
	}
	sh := c27NewShare("c26s")
	var b strings.Builder
	var cases, order []string
	distinct := map[string]bool{}
	for _, p := range pkgs {
		rp := reg.Get(p.Name)
		if rp == nil {
			continue
		}
		mods, err := c27Compile(p.Yang, p.Path)
		if err != nil {
			sum.finding(Finding{Signature: "fits/goyang-rejects", What: "goyang alone rejects modules the generator accepted: " + err.Error(), Input: p})
			continue
		}
		var ms []string
		for _, m := range mods {
			ms = append(ms, c27Node(sh, m, true))
		}
		st := &c26Stats{}
		rt := reflect.TypeOf(rp.NewRoot()).Elem()
		goTree := "(GN (MkG " + sh.str(rt.Name()) + " [] [] [] []) GStructPtr " + c26Struct(sh, rt, 0, st) + ")"
		// the embedded schema has an entry for every generated struct (SchemaTree is what Validate,
		// Unmarshal and the ytypes functions look the struct's schema up in)
		if rp.SchemaTree != nil {
			seenN := map[string]bool{}
			for _, nm := range st.names {
				if !seenN[nm] && rp.SchemaTree[nm] == nil {
					sum.finding(Finding{Signature: "fits/schematree-entry-missing", What: "generated struct " + nm + " has no entry in the embedded schema (SchemaTree)", Input: p})
				}
				seenN[nm] = true
			}
		}
		id := fmt.Sprintf("c26case_%d", len(cases))
		fmt.Fprintf(&b, "Definition %s : gcase := {| gc_name := %s; gc_cb := %s; gc_om := %s; gc_opts := %s;\n gc_mods := %s;\n gc_go := %s |}.\n",
			id, sh.str(p.Name), c26Behaviour(p), coqBool(p.OrderedMaps), c27Opts(sh, p), coqList(ms), goTree)
		cases = append(cases, id)
		order = append(order, p.Name)
		sum.Cases++
		sum.OracleRuns++
		sum.count("behaviour", c26Behaviour(p))
		sum.count("group", p.Group)
		sum.count("fields", fmt.Sprintf("%d", (st.fields/50)*50))
		distinct[strings.Join(p.Yang, ",")+c26Behaviour(p)+fmt.Sprint(p.OrderedMaps)] = true
		sum.sample(map[string]interface{}{"package": p.Name, "behaviour": c26Behaviour(p), "structs": st.structs, "fields": st.fields, "depth": st.depth})
	}
	sum.Nontrivial = len(distinct)
	sum.Extra = map[string]interface{}{"packages": order}
	var f strings.Builder
	f.WriteString("(* GENERATED by the c26dump stream on every run -- do not edit. *)\nFrom Ygot Require Import Base.Base Gen.SchemaEq Gen.SchemaMatch.\nOpen Scope N_scope.\n")
	f.WriteString(strings.Join(sh.defs, "\n"))
	f.WriteString("\n")
	f.WriteString(b.String())
	fmt.Fprintf(&f, "Definition c26_cases : list gcase := %s.\n", coqList(cases))
	if err := os.WriteFile(out+"/C26_cases.v", []byte(f.String()), 0o644); err != nil {
		return nil, err
	}
	return sum, nil
}

func init() { streams["c26dump"] = c26Dump }
