//go:build verif

// Package main is the implementation-side driver of the correspondence check. It is
// compiled inside /repo's module with `go build -overlay` (no file is written to /repo).
// Every stream generates inputs from one PRNG state, runs the real ygot code on them and
// writes (a) a Coq file with the inputs and the observed outputs, to be re-computed by the
// model, and (b) a JSON summary with counts, samples and the verdicts of the oracle that
// evaluates the property statement directly on the implementation.
package main

import (
	"encoding/json"
	"flag"
	"fmt"
	"math/rand"
	"os"
	"sort"
	"strings"
)

// Finding is one failing input found by an implementation-side oracle.
type Finding struct {
	Signature string      `json:"signature"` // classification used to match known findings
	What      string      `json:"what"`
	Input     interface{} `json:"input"`
	Observed  interface{} `json:"observed,omitempty"`
	Expected  interface{} `json:"expected,omitempty"`
}

// Summary is what a stream reports next to its Coq case file.
type Summary struct {
	Stream       string                    `json:"stream"`
	Seed         int64                     `json:"seed"`
	Cases        int                       `json:"cases"`
	Nontrivial   int                       `json:"distinct_nontrivial"`
	Rule         string                    `json:"rule"`
	Samples      []interface{}             `json:"samples"`
	Distribution map[string]map[string]int `json:"distribution"`
	OracleRuns   int                       `json:"oracle_runs"`
	Findings     []Finding                 `json:"findings"`
	Extra        map[string]interface{}    `json:"extra,omitempty"`
}

func (s *Summary) count(hist, key string) {
	if s.Distribution == nil {
		s.Distribution = map[string]map[string]int{}
	}
	if s.Distribution[hist] == nil {
		s.Distribution[hist] = map[string]int{}
	}
	s.Distribution[hist][key]++
}

func (s *Summary) sample(v interface{}) {
	if len(s.Samples) < 5 {
		s.Samples = append(s.Samples, v)
	}
}

func (s *Summary) finding(f Finding) {
	// keep at most 20 per signature so that the file stays small
	n := 0
	for _, g := range s.Findings {
		if g.Signature == f.Signature {
			n++
		}
	}
	if n < 20 {
		s.Findings = append(s.Findings, f)
	}
	s.count("findings", f.Signature)
}

// ---------- Coq term printers ----------

func coqStr(s string) string {
	var b strings.Builder
	b.WriteString("[")
	first := true
	for _, r := range s {
		if !first {
			b.WriteString(";")
		}
		first = false
		fmt.Fprintf(&b, "%d", r)
	}
	b.WriteString("]")
	return b.String()
}

func coqList(items []string) string { return "[" + strings.Join(items, ";") + "]" }

func coqStrList(ss []string) string {
	items := make([]string, len(ss))
	for i, s := range ss {
		items[i] = coqStr(s)
	}
	return coqList(items)
}

func coqOk(t string) string { return "(Ok " + t + ")" }

const coqErr = "Err"
const coqPanic = "Panic"

func coqBool(b bool) string {
	if b {
		return "true"
	}
	return "false"
}

func sortedKeys(m map[string]string) []string {
	ks := make([]string, 0, len(m))
	for k := range m {
		ks = append(ks, k)
	}
	sort.Strings(ks)
	return ks
}

// caseFile collects Coq case terms and writes them in shards of bounded size.
type caseFile struct {
	header string // Require lines + anything before the case list
	typ    string // Coq type of one case
	fn     string // Coq function list case -> list nat
	terms  []string
}

func (c *caseFile) add(t string) { c.terms = append(c.terms, t) }

// write emits <dir>/cases_<stream>_<k>.v files of at most shard cases each and returns their names.
func (c *caseFile) write(dir, stream string, shard int) ([]string, error) {
	var files []string
	for k, i := 0, 0; i < len(c.terms) || k == 0; k, i = k+1, i+shard {
		j := i + shard
		if j > len(c.terms) {
			j = len(c.terms)
		}
		var b strings.Builder
		b.WriteString(c.header)
		b.WriteString("\nOpen Scope N_scope.\n")
		fmt.Fprintf(&b, "Definition cases : list %s := [\n", c.typ)
		b.WriteString(strings.Join(c.terms[i:j], ";\n"))
		b.WriteString("\n].\n")
		fmt.Fprintf(&b, "Definition M := Eval vm_compute in %s cases.\nPrint M.\n", c.fn)
		name := fmt.Sprintf("cases_%s_%d.v", stream, k)
		if err := os.WriteFile(dir+"/"+name, []byte(b.String()), 0o644); err != nil {
			return nil, err
		}
		files = append(files, name)
		if j >= len(c.terms) {
			break
		}
	}
	return files, nil
}

// ---------- stream registry ----------

type streamFn func(rng *rand.Rand, n int, tier string, out string) (*Summary, error)

var streams = map[string]streamFn{}

func main() {
	stream := flag.String("stream", "", "stream name")
	seed := flag.Int64("seed", 1, "PRNG seed")
	n := flag.Int("n", 1000, "number of cases")
	tier := flag.String("tier", "quick", "quick|thorough")
	out := flag.String("out", ".", "output directory")
	replay := flag.String("replay", "", "replay file (stream specific)")
	flag.Parse()
	replayFile = *replay
	fn, ok := streams[*stream]
	if !ok {
		var names []string
		for k := range streams {
			names = append(names, k)
		}
		sort.Strings(names)
		fmt.Fprintf(os.Stderr, "unknown stream %q; have %v\n", *stream, names)
		os.Exit(2)
	}
	if err := os.MkdirAll(*out, 0o755); err != nil {
		fmt.Fprintln(os.Stderr, err)
		os.Exit(2)
	}
	rng := rand.New(rand.NewSource(*seed))
	sum, err := fn(rng, *n, *tier, *out)
	if err != nil {
		fmt.Fprintln(os.Stderr, "stream failed:", err)
		os.Exit(2)
	}
	sum.Stream = *stream
	sum.Seed = *seed
	// findings recorded by table builders that have no Summary at hand (keyFloatText)
	for _, f := range globalFindings {
		sum.finding(f)
	}
	if sum.Findings == nil {
		sum.Findings = []Finding{}
	}
	js, _ := json.MarshalIndent(sum, "", " ")
	if err := os.WriteFile(*out+"/summary_"+*stream+".json", js, 0o644); err != nil {
		fmt.Fprintln(os.Stderr, err)
		os.Exit(2)
	}
}

var replayFile string

// pick returns a random element.
func pick[T any](rng *rand.Rand, xs []T) T { return xs[rng.Intn(len(xs))] }

// nasty runes over-weighted in generated key values and strings.
var nastyRunes = []rune{'/', '[', ']', '=', '\\', ' ', 'é', '世', '"', '.', '*', ':', '-', '_', '\'', '{', '}', ',', '@', '!'}
var plainRunes = []rune("abcxyz019")

func randValue(rng *rand.Rand, maxLen int, nasty []rune) string {
	n := rng.Intn(maxLen + 1)
	var b strings.Builder
	for i := 0; i < n; i++ {
		if rng.Intn(3) == 0 {
			b.WriteRune(pick(rng, nasty))
		} else {
			b.WriteRune(pick(rng, plainRunes))
		}
	}
	return b.String()
}

func randIdent(rng *rand.Rand) string {
	first := []rune("abcdefklmxyz_")
	rest := []rune("abcxyz019_-.")
	n := rng.Intn(5)
	var b strings.Builder
	b.WriteRune(pick(rng, first))
	for i := 0; i < n; i++ {
		b.WriteRune(pick(rng, rest))
	}
	return b.String()
}

// globalFindings: see main.
var globalFindings []Finding
