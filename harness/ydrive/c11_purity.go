//go:build verif

package main

// c11_purity.go — stream "purity" (property C11, sequential half of C21).
//
// For every API x random arguments the driver takes a deep canonical SNAPSHOT of every argument
// (trees, option structs field by field, gNMI messages incl. the spare capacity of their slices,
// decoded JSON, the data root and the whole yang.Entry graph of the schema) and of the global
// regexp cache, calls the real API (panics recovered), snapshots again and reports the SET OF
// CHANGED CELLS.  The Coq checker (Corr/EffectsCorr.v) requires the effect model's predicted
// change set to be EQUAL.  Oracle: a changed cell outside the API's destination is a finding
// "mutates/<api>/<cell>".

import (
	"crypto/sha256"
	"encoding/hex"
	"encoding/json"
	"fmt"
	"math"
	"math/rand"
	"os"
	"reflect"
	"sort"
	"strconv"
	"strings"

	gpb "github.com/openconfig/gnmi/proto/gnmi"
	"github.com/openconfig/goyang/pkg/yang"
	"github.com/openconfig/ygot/gnmidiff"
	"github.com/openconfig/ygot/internal/verifharness/reg"
	"github.com/openconfig/ygot/util"
	"github.com/openconfig/ygot/ygot"
	"github.com/openconfig/ygot/ytypes"
	"google.golang.org/protobuf/proto"
)

func init() { streams["purity"] = c11PurityStream }

// ---------------------------------------------------------------- canonical deep dump

// c11Dumper prints any Go value canonically: pointers are followed (cycles cut by first-visit
// numbering), maps are sorted by the dump of their keys, slices are printed up to their
// CAPACITY (a store into the spare part of a caller's backing array is a mutation), unexported
// fields are read through reflection. The internal bookkeeping fields of protobuf messages are
// skipped.
type c11Dumper struct {
	b    strings.Builder
	seen map[uintptr]int
}

func c11Dump(x interface{}) string {
	d := &c11Dumper{seen: map[uintptr]int{}}
	d.val(reflect.ValueOf(x))
	return d.b.String()
}

// c11Hash is c11Dump reduced to a digest (for large graphs such as the schema).
func c11Hash(x interface{}) string {
	h := sha256.Sum256([]byte(c11Dump(x)))
	return hex.EncodeToString(h[:8])
}

func c11ProtoInternal(name string) bool {
	return name == "state" || name == "sizeCache" || name == "unknownFields"
}

func (d *c11Dumper) val(v reflect.Value) {
	if !v.IsValid() {
		d.b.WriteString("<nil>")
		return
	}
	switch v.Kind() {
	case reflect.Bool:
		d.b.WriteString(strconv.FormatBool(v.Bool()))
	case reflect.Int, reflect.Int8, reflect.Int16, reflect.Int32, reflect.Int64:
		d.b.WriteString(strconv.FormatInt(v.Int(), 10))
	case reflect.Uint, reflect.Uint8, reflect.Uint16, reflect.Uint32, reflect.Uint64, reflect.Uintptr:
		d.b.WriteString(strconv.FormatUint(v.Uint(), 10))
	case reflect.Float32, reflect.Float64:
		d.b.WriteString("f" + strconv.FormatUint(math.Float64bits(v.Float()), 16))
	case reflect.Complex64, reflect.Complex128:
		d.b.WriteString(fmt.Sprint(v.Complex()))
	case reflect.String:
		d.b.WriteString(strconv.Quote(v.String()))
	case reflect.Ptr:
		if v.IsNil() {
			d.b.WriteString("nil")
			return
		}
		p := v.Pointer()
		if v.Type().Elem().Size() != 0 {
			if n, ok := d.seen[p]; ok {
				fmt.Fprintf(&d.b, "@%d", n)
				return
			}
			d.seen[p] = len(d.seen)
		}
		d.b.WriteString("&")
		d.val(v.Elem())
	case reflect.Interface:
		if v.IsNil() {
			d.b.WriteString("nil")
			return
		}
		d.b.WriteString("(" + v.Elem().Type().String() + ")")
		d.val(v.Elem())
	case reflect.Struct:
		t := v.Type()
		d.b.WriteString(t.Name() + "{")
		for i := 0; i < v.NumField(); i++ {
			f := t.Field(i)
			if !f.IsExported() && c11ProtoInternal(f.Name) {
				continue
			}
			d.b.WriteString(f.Name + "=")
			d.val(v.Field(i))
			d.b.WriteString(";")
		}
		d.b.WriteString("}")
	case reflect.Map:
		if v.IsNil() {
			d.b.WriteString("nilmap")
			return
		}
		type kv struct {
			k string
			v reflect.Value
		}
		var es []kv
		it := v.MapRange()
		for it.Next() {
			kd := &c11Dumper{seen: map[uintptr]int{}}
			kd.val(it.Key())
			es = append(es, kv{kd.b.String(), it.Value()})
		}
		sort.Slice(es, func(i, j int) bool { return es[i].k < es[j].k })
		// Two keys can have the same dump (lists keyed by a wrapper union are Go maps keyed by
		// POINTER, so a merge can hold two entries for one key value): order those by their values.
		for i := 0; i+1 < len(es); i++ {
			if es[i].k != es[i+1].k {
				continue
			}
			j := i + 1
			for j+1 < len(es) && es[j+1].k == es[i].k {
				j++
			}
			grp := es[i : j+1]
			vd := map[int]string{}
			for x := range grp {
				sub := &c11Dumper{seen: map[uintptr]int{}}
				sub.val(grp[x].v)
				vd[x] = sub.b.String()
			}
			idx := make([]int, len(grp))
			for x := range idx {
				idx[x] = x
			}
			sort.Slice(idx, func(a, b int) bool { return vd[idx[a]] < vd[idx[b]] })
			sorted := make([]kv, len(grp))
			for x, y := range idx {
				sorted[x] = grp[y]
			}
			copy(grp, sorted)
			i = j
		}
		d.b.WriteString("map[")
		for _, e := range es {
			d.b.WriteString(e.k + "->")
			d.val(e.v)
			d.b.WriteString(",")
		}
		d.b.WriteString("]")
	case reflect.Slice:
		if v.IsNil() {
			d.b.WriteString("nilslice")
			return
		}
		full := v
		if v.Cap() > v.Len() {
			full = v.Slice3(0, v.Cap(), v.Cap())
		}
		d.b.WriteString("[")
		for i := 0; i < full.Len(); i++ {
			if i == v.Len() {
				d.b.WriteString("|spare:")
			}
			d.val(full.Index(i))
			d.b.WriteString(",")
		}
		d.b.WriteString("]")
	case reflect.Array:
		d.b.WriteString("[")
		for i := 0; i < v.Len(); i++ {
			d.val(v.Index(i))
			d.b.WriteString(",")
		}
		d.b.WriteString("]")
	case reflect.Func:
		if v.IsNil() {
			d.b.WriteString("nilfunc")
		} else {
			d.b.WriteString("func")
		}
	default:
		d.b.WriteString("<" + v.Kind().String() + ">")
	}
}

// ---------------------------------------------------------------- cells and calls

type c11Cell struct {
	name string // Coq term of type cell
	dest bool   // the API is documented to write here
	get  func() string
}

type c11Call struct {
	api     string
	term    string // Coq term of type call
	cells   []c11Cell
	run     func() error
	tvAfter func() string // SetNode: Coq term of the TypedValue after the call
	input   map[string]interface{}
	size    int // leaves / updates: for the non-triviality rule
}

func (c *c11Call) tree(i int, t ygot.GoStruct, dest bool) {
	c.cells = append(c.cells, c11Cell{name: fmt.Sprintf("(CTree %d%%nat)", i), dest: dest, get: func() string { return c11Dump(t) }})
}

func (c *c11Call) plain(name string, x interface{}) {
	c.cells = append(c.cells, c11Cell{name: name, get: func() string { return c11Dump(x) }})
}

func (c *c11Call) schemaEntries(p *reg.Pkg) {
	c.cells = append(c.cells, c11Cell{name: "CSchemaEntries", get: func() string { return c11Hash(p.SchemaTree) }})
}

func (c *c11Call) schemaRoot(s *ytypes.Schema, dest bool) {
	c.cells = append(c.cells, c11Cell{name: "CSchemaRoot", dest: dest, get: func() string { return c11Dump(s.Root) }})
}

// optFields adds one cell per field of an option struct (given as pointer to struct).
func (c *c11Call) optFields(prefix string, ptr interface{}) {
	v := reflect.ValueOf(ptr)
	if v.Kind() != reflect.Ptr || v.IsNil() {
		return
	}
	s := v.Elem()
	for i := 0; i < s.NumField(); i++ {
		f := s.Field(i)
		c.cells = append(c.cells, c11Cell{name: "(COpt " + prefix + "_" + s.Type().Field(i).Name + ")", get: func() string {
			d := &c11Dumper{seen: map[uintptr]int{}}
			d.val(f)
			return d.b.String()
		}})
	}
}

func c11CacheKeys() string {
	a, b := ytypes.VerifRegexpCacheKeys()
	return strings.Join(a, "\x00") + "\x01" + strings.Join(b, "\x00")
}

type c11Outcome struct {
	changed  []string // cell terms
	mutated  []string // changed and not dest
	gchanged bool
	err      error
	panicked bool
	diffs    map[string]string
}

func c11Exec(c *c11Call) c11Outcome {
	before := make([]string, len(c.cells))
	for i, ce := range c.cells {
		before[i] = ce.get()
	}
	gk := c11CacheKeys()
	var o c11Outcome
	func() {
		defer func() {
			if r := recover(); r != nil {
				o.err, o.panicked = fmt.Errorf("panic: %v", r), true
			}
		}()
		o.err = c.run()
	}()
	o.diffs = map[string]string{}
	for i, ce := range c.cells {
		after := ce.get()
		if after != before[i] {
			o.changed = append(o.changed, ce.name)
			if !ce.dest {
				o.mutated = append(o.mutated, ce.name)
				o.diffs[ce.name] = firstDiff(before[i], after)
			}
		}
	}
	o.gchanged = c11CacheKeys() != gk
	return o
}

// ---------------------------------------------------------------- schema helpers

type c11Site struct {
	path     *gpb.Path
	entry    *yang.Entry
	leafList bool
	kinds    []string // Coq ykind terms
}

func c11KindTerm(k yang.TypeKind) string {
	switch k {
	case yang.Yint8:
		return "(KInt 8)"
	case yang.Yint16:
		return "(KInt 16)"
	case yang.Yint32:
		return "(KInt 32)"
	case yang.Yint64:
		return "(KInt 64)"
	case yang.Yuint8:
		return "(KUint 8)"
	case yang.Yuint16:
		return "(KUint 16)"
	case yang.Yuint32:
		return "(KUint 32)"
	case yang.Yuint64:
		return "(KUint 64)"
	case yang.Ystring:
		return "KString"
	case yang.Ybool:
		return "KBool"
	case yang.Ydecimal64:
		return "KDecimal"
	case yang.Ybinary:
		return "KBinary"
	case yang.Yenum, yang.Yidentityref:
		return "KEnum"
	}
	return "KOther"
}

// c11Kinds lists the scalar kinds the gNMI decoder tries for leaf e, in order: the resolved kind
// of a plain leaf; for a union its non-enum member kinds (leafrefs resolved), de-duplicated.
func c11Kinds(e *yang.Entry) []string {
	re, t := resolveType(e)
	if t == nil {
		return []string{"KOther"}
	}
	if t.Kind != yang.Yunion {
		return []string{c11KindTerm(t.Kind)}
	}
	var out []string
	seen := map[yang.TypeKind]bool{}
	var walk func(e *yang.Entry, t *yang.YangType)
	walk = func(e *yang.Entry, t *yang.YangType) {
		switch t.Kind {
		case yang.Yenum, yang.Yidentityref:
		case yang.Yunion:
			for _, m := range t.Type {
				walk(e, m)
			}
		case yang.Yleafref:
			if ns, err := util.FindLeafRefSchema(e, t.Path); err == nil && ns != nil && ns.Type != nil {
				walk(ns, ns.Type)
			}
		default:
			if !seen[t.Kind] {
				seen[t.Kind] = true
				out = append(out, c11KindTerm(t.Kind))
			}
		}
	}
	walk(re, t)
	if len(out) == 0 {
		out = []string{"KEnum"}
	}
	return out
}

func c11SimpleKey(e *yang.Entry) (string, bool) {
	_, t := resolveType(e)
	if t == nil {
		return "", false
	}
	switch t.Kind {
	case yang.Ystring:
		if len(t.Pattern) > 0 || len(t.Length) > 0 {
			return "", false
		}
		return "kv", true
	case yang.Yint8, yang.Yint16, yang.Yint32, yang.Yint64, yang.Yuint8, yang.Yuint16, yang.Yuint32, yang.Yuint64:
		return "7", true
	}
	return "", false
}

// c11Sites walks the struct types of a package and returns every leaf / leaf-list reachable
// through containers and through lists whose keys are plain strings or integers, with a data
// path (list keys filled in) built from the struct tags.
func c11Sites(p *reg.Pkg) []c11Site {
	var out []c11Site
	root := p.NewRoot()
	t := reflect.TypeOf(root).Elem()
	var walk func(t reflect.Type, e *yang.Entry, prefix []*gpb.PathElem, depth int)
	walk = func(t reflect.Type, e *yang.Entry, prefix []*gpb.PathElem, depth int) {
		if depth > 6 {
			return
		}
		for i := 0; i < t.NumField(); i++ {
			f := t.Field(i)
			tag, ok := f.Tag.Lookup("path")
			if !ok {
				continue
			}
			ce, err := util.ChildSchema(e, f)
			if err != nil || ce == nil {
				continue
			}
			var elems []*gpb.PathElem
			elems = append(elems, prefix...)
			for _, n := range strings.Split(strings.TrimPrefix(strings.Split(tag, "|")[0], "/"), "/") {
				elems = append(elems, &gpb.PathElem{Name: n})
			}
			switch {
			case ce.IsLeaf() || ce.IsLeafList():
				out = append(out, c11Site{path: &gpb.Path{Elem: elems}, entry: ce, leafList: ce.IsLeafList(), kinds: c11Kinds(ce)})
			case ce.IsList():
				var et reflect.Type
				switch {
				case isOrderedMapType(f.Type):
					et = entryTypeOfOrderedMap(f.Type)
				case f.Type.Kind() == reflect.Map:
					et = f.Type.Elem().Elem()
				default:
					continue
				}
				keys := map[string]string{}
				okKeys := true
				for _, k := range listKeyNames(ce) {
					ke := ce.Dir[k]
					if ke == nil {
						okKeys = false
						break
					}
					v, ok := c11SimpleKey(ke)
					if !ok {
						okKeys = false
						break
					}
					keys[k] = v
				}
				if !okKeys {
					continue
				}
				elems[len(elems)-1].Key = keys
				walk(et, ce, elems, depth+1)
			case ce.IsDir() && f.Type.Kind() == reflect.Ptr:
				walk(f.Type.Elem(), ce, elems, depth+1)
			}
		}
	}
	walk(t, p.SchemaTree[t.Name()], nil, 0)
	return out
}

func c11ClonePath(p *gpb.Path) *gpb.Path {
	out := &gpb.Path{Origin: p.Origin, Target: p.Target}
	out.Elem = make([]*gpb.PathElem, 0, len(p.Elem)+2) // spare capacity on purpose
	for _, e := range p.Elem {
		ne := &gpb.PathElem{Name: e.Name}
		if e.Key != nil {
			ne.Key = map[string]string{}
			for k, v := range e.Key {
				ne.Key[k] = v
			}
		}
		out.Elem = append(out.Elem, ne)
	}
	return out
}

func c11PathStr(p *gpb.Path) string {
	s, err := ygot.PathToString(p)
	if err != nil {
		return fmt.Sprintf("<%v>", err)
	}
	return s
}

func c11SchemaPathKey(p *gpb.Path) string {
	var ns []string
	for _, e := range p.Elem {
		ns = append(ns, e.Name)
	}
	return strings.Join(ns, "/")
}

// c11StripUnkeyed sets every unkeyed-list field below v to nil (TogNMINotifications refuses
// trees that hold keyless lists).
func c11StripUnkeyed(v reflect.Value, depth int) {
	if v.Kind() == reflect.Interface {
		v = v.Elem()
	}
	if v.Kind() != reflect.Ptr || v.IsNil() || depth > 10 {
		return
	}
	s := v.Elem()
	if s.Kind() != reflect.Struct {
		return
	}
	for i := 0; i < s.NumField(); i++ {
		sf := s.Type().Field(i)
		if _, ok := sf.Tag.Lookup("path"); !ok {
			continue
		}
		fv, ft := s.Field(i), sf.Type
		switch {
		case isOrderedMapType(ft):
			if !fv.IsNil() {
				for _, e := range orderedEntries(fv.Interface().(ygot.GoOrderedMap)) {
					c11StripUnkeyed(e.entry, depth+1)
				}
			}
		case ft.Kind() == reflect.Map:
			for _, k := range fv.MapKeys() {
				c11StripUnkeyed(fv.MapIndex(k), depth+1)
			}
		case ft.Kind() == reflect.Ptr && ft.Elem().Kind() == reflect.Struct:
			c11StripUnkeyed(fv, depth+1)
		case ft.Kind() == reflect.Slice && ft.Elem().Kind() == reflect.Ptr && ft.Elem().Elem().Kind() == reflect.Struct:
			fv.Set(reflect.Zero(ft))
		}
	}
}

// c11LeafUpdates flattens a tree into leaf updates (nil when ygot cannot render the tree). A
// tree with keyless lists is flattened through a copy from which they are removed.
func c11LeafUpdates(t ygot.GoStruct) []*gpb.Update {
	var out []*gpb.Update
	try := func(t ygot.GoStruct) (ok bool) {
		defer func() {
			if recover() != nil {
				ok = false
			}
		}()
		ns, err := ygot.TogNMINotifications(t, 0, ygot.GNMINotificationsConfig{UsePathElem: true})
		if err != nil {
			return false
		}
		for _, n := range ns {
			if n.Atomic {
				continue
			}
			out = append(out, n.Update...)
		}
		return true
	}
	if !try(t) {
		func() {
			defer func() { recover() }()
			if c, err := ygot.DeepCopy(t); err == nil {
				c11StripUnkeyed(reflect.ValueOf(c), 0)
				try(c)
			}
		}()
	}
	sort.Slice(out, func(i, j int) bool { return c11PathStr(out[i].Path) < c11PathStr(out[j].Path) })
	return out
}

// twin trees: two independent, equal trees from one sub-seed.
func c11Twin(p *reg.Pkg, seed int64, pField float64) (ygot.ValidatedGoStruct, ygot.ValidatedGoStruct, int) {
	mk := func() (ygot.ValidatedGoStruct, int) {
		g := newTreeGen(rand.New(rand.NewSource(seed)), p)
		g.pField = pField
		t := g.genTree()
		return t, g.leafCount
	}
	a, n := mk()
	b, _ := mk()
	return a, b, n
}

func c11Tree(r *rand.Rand, p *reg.Pkg) (ygot.ValidatedGoStruct, int) {
	g := newTreeGen(r, p)
	if r.Intn(5) == 0 {
		g.pField = 0.9
	}
	if r.Intn(6) == 0 {
		g.emptyLL = true
	}
	// the root has few children, so a fair share of the generated trees is empty: redraw a few times
	t := g.genTree()
	for try := 0; try < 6 && g.leafCount < 4; try++ {
		t = g.genTree()
	}
	return t, g.leafCount
}

func c11RootEntry(p *reg.Pkg) *yang.Entry {
	return p.SchemaTree[reflect.TypeOf(p.NewRoot()).Elem().Name()]
}

// ---------------------------------------------------------------- TypedValues

var c11Ints = []int64{0, 1, 5, 127, 128, 200, 255, 256, 300, 65535, 65536, 70000, 4294967295, 4294967296, 1 << 40, -1, -5, -129, math.MaxInt64, math.MinInt64}
var c11Uints = []uint64{0, 1, 5, 200, 255, 256, 300, 65535, 65536, 70000, 4294967296, math.MaxUint64}

func c11Z(z int64) string {
	if z < 0 {
		return fmt.Sprintf("(%d)%%Z", z)
	}
	return fmt.Sprintf("%d%%Z", z)
}

func c11RandScalarTV(r *rand.Rand, bias int) *gpb.TypedValue {
	k := r.Intn(14)
	if bias >= 0 && r.Intn(3) != 0 {
		k = bias
	}
	switch k {
	case 0, 1, 2:
		return &gpb.TypedValue{Value: &gpb.TypedValue_IntVal{IntVal: pick(r, c11Ints)}}
	case 3, 4:
		return &gpb.TypedValue{Value: &gpb.TypedValue_UintVal{UintVal: pick(r, c11Uints)}}
	case 5:
		return &gpb.TypedValue{Value: &gpb.TypedValue_StringVal{StringVal: "zz-not-an-enum"}}
	case 6:
		return &gpb.TypedValue{Value: &gpb.TypedValue_BoolVal{BoolVal: r.Intn(2) == 0}}
	case 7:
		if r.Intn(3) == 0 {
			return &gpb.TypedValue{Value: &gpb.TypedValue_BytesVal{}}
		}
		return &gpb.TypedValue{Value: &gpb.TypedValue_BytesVal{BytesVal: []byte{1, 2}}}
	case 8:
		return &gpb.TypedValue{Value: &gpb.TypedValue_FloatVal{FloatVal: 1.5}}
	case 9:
		return &gpb.TypedValue{Value: &gpb.TypedValue_DoubleVal{DoubleVal: 2.25}}
	case 10:
		if r.Intn(3) == 0 {
			return &gpb.TypedValue{Value: &gpb.TypedValue_DecimalVal{}}
		}
		return &gpb.TypedValue{Value: &gpb.TypedValue_DecimalVal{DecimalVal: &gpb.Decimal64{Digits: 314, Precision: 2}}}
	case 11:
		return &gpb.TypedValue{Value: &gpb.TypedValue_AsciiVal{AsciiVal: "a"}}
	case 12:
		return &gpb.TypedValue{Value: &gpb.TypedValue_ProtoBytes{ProtoBytes: []byte{1}}}
	}
	return &gpb.TypedValue{}
}

func c11ScalarTVTerm(tv *gpb.TypedValue) string {
	switch v := tv.GetValue().(type) {
	case *gpb.TypedValue_IntVal:
		return "(TvInt " + c11Z(v.IntVal) + ")"
	case *gpb.TypedValue_UintVal:
		return fmt.Sprintf("(TvUint %d%%Z)", v.UintVal)
	case *gpb.TypedValue_StringVal:
		return "TvString"
	case *gpb.TypedValue_BoolVal:
		return "TvBool"
	case *gpb.TypedValue_BytesVal:
		return "(TvBytes " + coqBool(v.BytesVal == nil) + ")"
	case *gpb.TypedValue_FloatVal:
		return "TvFloat"
	case *gpb.TypedValue_DoubleVal:
		return "TvDouble"
	case *gpb.TypedValue_DecimalVal:
		return "(TvDecimal " + coqBool(v.DecimalVal == nil) + ")"
	}
	return "TvOtherArm"
}

func c11TVTerm(tv *gpb.TypedValue) string {
	switch v := tv.GetValue().(type) {
	case *gpb.TypedValue_LeaflistVal:
		var es []string
		for _, e := range v.LeaflistVal.GetElement() {
			es = append(es, c11ScalarTVTerm(e))
		}
		return "(TvLeaflist " + coqList(es) + ")"
	case *gpb.TypedValue_JsonIetfVal:
		return "(TvJSONIETF " + coqBool(v.JsonIetfVal == nil) + ")"
	case *gpb.TypedValue_JsonVal:
		return "(TvJSON " + coqBool(v.JsonVal == nil) + ")"
	}
	return "(TvScalar " + c11ScalarTVTerm(tv) + ")"
}

func c11RandTV(r *rand.Rand, site c11Site) *gpb.TypedValue {
	bias := -1
	for _, k := range site.kinds {
		if strings.HasPrefix(k, "(KUint") {
			bias = 0
		}
	}
	switch x := r.Intn(12); {
	case x == 0:
		if r.Intn(3) == 0 {
			return &gpb.TypedValue{Value: &gpb.TypedValue_JsonIetfVal{}}
		}
		return &gpb.TypedValue{Value: &gpb.TypedValue_JsonIetfVal{JsonIetfVal: []byte(pick(r, []string{`5`, `"zz"`, `[5]`, `"7"`, `true`, `{`}))}}
	case x == 1 && r.Intn(2) == 0:
		if r.Intn(3) == 0 {
			return &gpb.TypedValue{Value: &gpb.TypedValue_JsonVal{}}
		}
		return &gpb.TypedValue{Value: &gpb.TypedValue_JsonVal{JsonVal: []byte(`5`)}}
	case site.leafList && x < 10, !site.leafList && x == 2:
		n := r.Intn(4)
		sa := &gpb.ScalarArray{}
		for i := 0; i < n; i++ {
			sa.Element = append(sa.Element, c11RandScalarTV(r, bias))
		}
		return &gpb.TypedValue{Value: &gpb.TypedValue_LeaflistVal{LeaflistVal: sa}}
	}
	return c11RandScalarTV(r, bias)
}

// ---------------------------------------------------------------- values collected from a tree

type c11Parts struct {
	structs []ygot.GoStruct
	omaps   []ygot.GoOrderedMap
	leaves  []interface{}
}

func c11Collect(v reflect.Value, out *c11Parts, depth int) {
	if v.Kind() != reflect.Ptr || v.IsNil() || depth > 8 {
		return
	}
	if gs, ok := v.Interface().(ygot.GoStruct); ok {
		out.structs = append(out.structs, gs)
	}
	s := v.Elem()
	if s.Kind() != reflect.Struct {
		return
	}
	for i := 0; i < s.NumField(); i++ {
		sf := s.Type().Field(i)
		if _, ok := sf.Tag.Lookup("path"); !ok {
			continue
		}
		fv := s.Field(i)
		ft := sf.Type
		switch {
		case isOrderedMapType(ft):
			if !fv.IsNil() {
				om := fv.Interface().(ygot.GoOrderedMap)
				out.omaps = append(out.omaps, om)
				for _, e := range orderedEntries(om) {
					c11Collect(e.entry, out, depth+1)
				}
			}
		case ft.Kind() == reflect.Map:
			keys := fv.MapKeys() // in a canonical order: the collection must be replayable
			sort.Slice(keys, func(a, b int) bool { return c11Dump(keys[a].Interface()) < c11Dump(keys[b].Interface()) })
			for _, k := range keys {
				c11Collect(fv.MapIndex(k), out, depth+1)
			}
		case ft.Kind() == reflect.Ptr && ft.Elem().Kind() == reflect.Struct:
			c11Collect(fv, out, depth+1)
		case ft.Kind() == reflect.Slice && ft.Elem().Kind() == reflect.Ptr && ft.Elem().Elem().Kind() == reflect.Struct:
			for j := 0; j < fv.Len(); j++ {
				c11Collect(fv.Index(j), out, depth+1)
			}
		default:
			if _, ok := fieldTerm(fv); ok {
				out.leaves = append(out.leaves, fv.Interface())
			}
		}
	}
}

// ---------------------------------------------------------------- gnmidiff requests

type c11Upd struct {
	upd     *gpb.Update
	nonleaf bool
	out     string // UOk | UFailEarly | UFailLate
}

type c11Req struct {
	req   *gpb.SetRequest
	order []c11Upd // in the order minimalSetRequestIntent processes them
}

func c11Nested(a, b string) bool {
	return a == b || strings.HasPrefix(a, b+"/") || strings.HasPrefix(b, a+"/") || strings.HasPrefix(a, b+"[") || strings.HasPrefix(b, a+"[")
}

// c11MakeUpdates draws up to n pairwise non-nested updates from tree src: leaf updates carry
// the scalar TypedValue ygot renders, non-leaf updates the RFC 7951 JSON of the node.
func c11MakeUpdates(r *rand.Rand, p *reg.Pkg, src ygot.GoStruct, n int, used *[]string, allowBad bool) []c11Upd {
	leaves := c11LeafUpdates(src)
	var out []c11Upd
	if len(leaves) == 0 {
		return nil
	}
	rootEntry := c11RootEntry(p)
	for try := 0; try < 4*n && len(out) < n; try++ {
		lu := leaves[r.Intn(len(leaves))]
		var cand c11Upd
		switch x := r.Intn(10); {
		case x < 4: // leaf
			cand = c11Upd{upd: &gpb.Update{Path: c11ClonePath(lu.Path), Val: lu.Val}, out: "UOk"}
			if _, isLL := lu.Val.GetValue().(*gpb.TypedValue_LeaflistVal); isLL {
				continue // gnmidiff compares leaf-list values with != (C22); keep them out of this check
			}
		case x < 8 || !allowBad: // non-leaf: a proper prefix of the leaf path
			if len(lu.Path.Elem) < 2 {
				continue
			}
			k := 1 + r.Intn(len(lu.Path.Elem)-1)
			pp := c11ClonePath(&gpb.Path{Elem: lu.Path.Elem[:k]})
			nodes, err := ytypes.GetNode(rootEntry, src, pp)
			if err != nil || len(nodes) != 1 {
				continue
			}
			gs, ok := nodes[0].Data.(ygot.GoStruct)
			if !ok || util.IsValueNil(gs) {
				continue
			}
			js, err := ygot.Marshal7951(gs, &ygot.RFC7951JSONConfig{AppendModuleName: true})
			if err != nil {
				continue
			}
			cand = c11Upd{upd: &gpb.Update{Path: pp, Val: &gpb.TypedValue{Value: &gpb.TypedValue_JsonIetfVal{JsonIetfVal: js}}}, nonleaf: true, out: "UOk"}
			if allowBad && r.Intn(6) == 0 {
				cand.upd.Val = &gpb.TypedValue{Value: &gpb.TypedValue_JsonIetfVal{JsonIetfVal: []byte(`{"no-such-member-zz": 1}`)}}
				cand.out = "UFailLate"
			}
		default: // unknown path
			pp := c11ClonePath(&gpb.Path{Elem: lu.Path.Elem[:1+r.Intn(len(lu.Path.Elem))]})
			pp.Elem = append(pp.Elem, &gpb.PathElem{Name: "no-such-node-zz"})
			cand = c11Upd{upd: &gpb.Update{Path: pp, Val: &gpb.TypedValue{Value: &gpb.TypedValue_StringVal{StringVal: "x"}}}, out: "UFailEarly"}
		}
		ps := c11PathStr(cand.upd.Path)
		clash := false
		for _, u := range *used {
			if c11Nested(u, ps) {
				clash = true
			}
		}
		if clash {
			continue
		}
		*used = append(*used, ps)
		cand.out = c11Classify(p, cand)
		out = append(out, cand)
	}
	return out
}

// c11Classify decides how gnmidiff treats ONE update taken alone (a request holding just a clone
// of it, against a fresh empty root): accepted, rejected before the target node is looked up, or
// rejected after it. gnmidiff re-parses printed paths, flattens the rendered JSON and compares
// values, all of which reject inputs the rest of ygot accepts ([k=] keys, `]` in key values,
// [null], undefined enum values ...); none of that is the business of the effect model, which only
// composes these per-update outcomes.
func c11Classify(p *reg.Pkg, u c11Upd) (out string) {
	root := p.NewRoot()
	schema := &ytypes.Schema{Root: root, SchemaTree: p.SchemaTree, Unmarshal: p.Unmarshal}
	before := c11Hash(root)
	defer func() {
		if r := recover(); r != nil {
			out = "UFailLate"
		}
	}()
	_, err := gnmidiff.DiffSetRequest(&gpb.SetRequest{Update: []*gpb.Update{proto.Clone(u.upd).(*gpb.Update)}}, nil, schema)
	switch {
	case err == nil:
		return "UOk"
	case c11Hash(root) != before:
		return "UFailLate"
	}
	return "UFailEarly"
}

func c11MakeReq(r *rand.Rand, p *reg.Pkg, src ygot.GoStruct, allowBad bool) c11Req {
	var used []string
	req := &gpb.SetRequest{}
	var order []c11Upd
	if r.Intn(3) == 0 {
		for _, u := range c11MakeUpdates(r, p, src, 1, &used, allowBad) {
			req.Replace = append(req.Replace, u.upd)
			order = append(order, u)
		}
	}
	for _, u := range c11MakeUpdates(r, p, src, r.Intn(4), &used, allowBad) {
		req.Update = append(req.Update, u.upd)
		order = append(order, u)
	}
	if len(req.Replace) == 0 && r.Intn(3) == 0 {
		// deletes of leaf paths that nothing else in the request touches
		for _, u := range c11MakeUpdates(r, p, src, 2, &used, false) {
			if !u.nonleaf {
				req.Delete = append(req.Delete, u.upd.Path)
			}
		}
	}
	return c11Req{req: req, order: order}
}

// c11UpdTerms replays the processing order on the shadow root (an independent twin of the
// caller's schema.Root) to decide, update by update, whether GetOrCreateNode adds a node.
func c11UpdTerms(p *reg.Pkg, shadow ygot.GoStruct, order []c11Upd, stopped *bool) []string {
	var out []string
	rootEntry := c11RootEntry(p)
	for _, u := range order {
		absent := false
		if !*stopped && u.nonleaf && u.out != "UFailEarly" {
			before := c11Hash(shadow)
			func() {
				defer func() { recover() }()
				ytypes.GetOrCreateNode(rootEntry, shadow, u.upd.Path)
			}()
			absent = c11Hash(shadow) != before
		}
		out = append(out, fmt.Sprintf("{| u_nonleaf := %s; u_absent := %s; u_out := %s |}", coqBool(u.nonleaf), coqBool(absent), u.out))
		if u.out != "UOk" {
			*stopped = true
		}
	}
	return out
}

// ---------------------------------------------------------------- the API table

var c11APIs = []string{"GetNode", "Validate", "EmitJSON", "ConstructIETFJSON", "Marshal7951", "TogNMINotifications", "EncodeTypedValue",
	"Diff", "DiffWithAtomic", "DeepCopy", "MergeStructs", "DiffSetRequest", "DiffSetRequestToNotifications", "Unmarshal", "SetNode",
	"UnmarshalSetRequest", "UnmarshalNotifications"}

var c11SiteCache = map[string][]c11Site{}

func c11SitesOf(p *reg.Pkg) []c11Site {
	if s, ok := c11SiteCache[p.Name]; ok {
		return s
	}
	s := c11Sites(p)
	c11SiteCache[p.Name] = s
	return s
}

func c11RandRFC(r *rand.Rand) *ygot.RFC7951JSONConfig {
	c := randJcfg(r)
	return c.ygot()
}

// c11Gen builds one call of the given API on package p from the sub-seed.
func c11Gen(p *reg.Pkg, api string, seed int64) *c11Call {
	r := rand.New(rand.NewSource(seed))
	c := &c11Call{api: api, input: map[string]interface{}{"pkg": p.Name, "api": api, "seed": seed}}
	rootEntry := c11RootEntry(p)
	switch api {
	case "GetNode":
		t, n := c11Tree(r, p)
		c.size = n
		path := &gpb.Path{}
		if ups := c11LeafUpdates(t); len(ups) > 0 {
			u := ups[r.Intn(len(ups))]
			path = c11ClonePath(&gpb.Path{Elem: u.Path.Elem[:r.Intn(len(u.Path.Elem)+1)]})
		}
		var opts []ytypes.GetNodeOpt
		if r.Intn(3) == 0 {
			opts = append(opts, &ytypes.GetPartialKeyMatch{})
			for _, e := range path.Elem {
				if len(e.Key) > 1 && r.Intn(2) == 0 {
					for k := range e.Key {
						delete(e.Key, k)
						break
					}
				}
			}
		}
		if r.Intn(3) == 0 {
			opts = append(opts, &ytypes.GetHandleWildcards{})
			for _, e := range path.Elem {
				for k := range e.Key {
					if r.Intn(2) == 0 {
						e.Key[k] = "*"
					}
				}
			}
		}
		if r.Intn(3) == 0 {
			opts = append(opts, &ytypes.GetTolerateNil{})
		}
		if r.Intn(4) == 0 {
			opts = append(opts, &ytypes.PreferShadowPath{})
		}
		if r.Intn(6) == 0 {
			path.Elem = append(path.Elem, &gpb.PathElem{Name: "no-such-node-zz"})
		}
		if r.Intn(8) == 0 {
			// an "absolute" path: leading element with an empty name (matches nothing)
			path.Elem = append([]*gpb.PathElem{{}}, path.Elem...)
		}
		c.term = "KGetNode"
		c.tree(0, t, false)
		c.plain("CPath", path)
		c.schemaEntries(p)
		c.input["path"] = c11PathStr(path)
		c.run = func() error { _, err := ytypes.GetNode(rootEntry, t, path, opts...); return err }
	case "Validate":
		t, n := c11Tree(r, p)
		c.size = n
		lo := &ytypes.LeafrefOptions{IgnoreMissingData: r.Intn(2) == 0}
		var opts []ygot.ValidationOption
		if r.Intn(3) != 0 {
			opts = append(opts, lo)
		}
		c.term = "KValidate"
		c.tree(0, t, false)
		c.optFields("Leafref", lo)
		c.schemaEntries(p)
		c.run = func() error {
			if errs := ytypes.Validate(rootEntry, t, opts...); errs != nil {
				return errs
			}
			return nil
		}
	case "EmitJSON":
		t, n := c11Tree(r, p)
		c.size = n
		var cfg *ygot.EmitJSONConfig
		skip := false
		if r.Intn(6) != 0 {
			cfg = &ygot.EmitJSONConfig{Format: pick(r, []ygot.JSONFormat{ygot.Internal, ygot.RFC7951}), Indent: pick(r, []string{"", " ", "\t"}),
				EscapeHTML: r.Intn(2) == 0, SkipValidation: r.Intn(2) == 0}
			if r.Intn(3) != 0 {
				cfg.RFC7951Config = c11RandRFC(r)
			}
			if r.Intn(2) == 0 {
				cfg.ValidationOpts = make([]ygot.ValidationOption, 0, 3)
				cfg.ValidationOpts = append(cfg.ValidationOpts, &ytypes.LeafrefOptions{IgnoreMissingData: true})
			}
			skip = cfg.SkipValidation
			c.optFields("Emit", cfg)
			if cfg.RFC7951Config != nil {
				c.optFields("RFC7951", cfg.RFC7951Config)
			}
		}
		c.term = "(KEmitJSON " + coqBool(skip) + ")"
		c.tree(0, t, false)
		c.run = func() error { _, err := ygot.EmitJSON(t, cfg); return err }
	case "ConstructIETFJSON":
		t, n := c11Tree(r, p)
		c.size = n
		var cfg *ygot.RFC7951JSONConfig
		if r.Intn(5) != 0 {
			cfg = c11RandRFC(r)
			c.optFields("RFC7951", cfg)
		}
		c.term = "KConstructIETFJSON"
		c.tree(0, t, false)
		c.run = func() error { _, err := ygot.ConstructIETFJSON(t, cfg); return err }
	case "Marshal7951":
		t, n := c11Tree(r, p)
		c.size = n
		var args []ygot.Marshal7951Arg
		if r.Intn(2) == 0 {
			args = append(args, ygot.JSONIndent(" "))
		}
		if r.Intn(4) != 0 {
			cfg := c11RandRFC(r)
			args = append(args, cfg)
			c.optFields("RFC7951", cfg)
		}
		c.term = "KMarshal7951"
		c.tree(0, t, false)
		c.run = func() error { _, err := ygot.Marshal7951(t, args...); return err }
	case "TogNMINotifications":
		t, n := c11Tree(r, p)
		c.size = n
		cfg := &ygot.GNMINotificationsConfig{UsePathElem: r.Intn(2) == 0}
		np := r.Intn(3)
		cfg.StringSlicePrefix = make([]string, 0, np+3)
		cfg.PathElemPrefix = make([]*gpb.PathElem, 0, np+3)
		for i := 0; i < np; i++ {
			cfg.StringSlicePrefix = append(cfg.StringSlicePrefix, fmt.Sprintf("pfx%d", i))
			cfg.PathElemPrefix = append(cfg.PathElemPrefix, &gpb.PathElem{Name: fmt.Sprintf("pfx%d", i), Key: map[string]string{"k": "v"}})
		}
		c.term = "KTogNMINotifications"
		c.tree(0, t, false)
		c.optFields("Notif", cfg)
		c.run = func() error { _, err := ygot.TogNMINotifications(t, 42, *cfg); return err }
	case "EncodeTypedValue":
		t, n := c11Tree(r, p)
		c.size = n
		parts := &c11Parts{}
		c11Collect(reflect.ValueOf(t), parts, 0)
		var val interface{}
		vk := "VkLeafValue"
		switch x := r.Intn(10); {
		case x < 3:
			val, vk = t, "VkStruct"
		case x < 5 && len(parts.structs) > 1:
			val, vk = parts.structs[1+r.Intn(len(parts.structs)-1)], "VkStruct"
		case x < 7 && len(parts.omaps) > 0:
			val, vk = parts.omaps[r.Intn(len(parts.omaps))], "VkOrderedMap"
		case x == 7:
			val, vk = reflect.Zero(reflect.TypeOf(t)).Interface(), "VkNilStruct"
		default:
			if len(parts.leaves) > 0 {
				val = parts.leaves[r.Intn(len(parts.leaves))]
			} else {
				val = ygot.String("s")
			}
		}
		enc := pick(r, []gpb.Encoding{gpb.Encoding_JSON, gpb.Encoding_JSON_IETF, gpb.Encoding_JSON_IETF, gpb.Encoding_PROTO})
		encT := map[gpb.Encoding]string{gpb.Encoding_JSON: "EncJSON", gpb.Encoding_JSON_IETF: "EncJSONIETF", gpb.Encoding_PROTO: "EncOther"}[enc]
		var opts []ygot.EncodeTypedValueOpt
		cfgT := "None"
		if r.Intn(4) != 0 {
			cfg := c11RandRFC(r)
			opts = append(opts, cfg)
			c.optFields("RFC7951", cfg)
			cfgT = "(Some " + coqBool(cfg.AppendModuleName) + ")"
		}
		c.term = fmt.Sprintf("(KEncodeTypedValue %s %s %s)", encT, vk, cfgT)
		c.plain("CVal", val)
		c.tree(0, t, false)
		c.input["value"] = vk
		c.input["encoding"] = enc.String()
		c.run = func() error { _, err := ygot.EncodeTypedValue(val, enc, opts...); return err }
	case "Diff", "DiffWithAtomic":
		a, n := c11Tree(r, p)
		c.size = n
		var b ygot.GoStruct
		if r.Intn(3) == 0 {
			_, b, _ = c11Twin(p, r.Int63(), 0.45)
		} else {
			b, _ = c11Tree(r, p)
		}
		var opts []ygot.DiffOpt
		if r.Intn(2) == 0 {
			dpo := &ygot.DiffPathOpt{MapToSinglePath: r.Intn(2) == 0, PreferShadowPath: r.Intn(3) == 0}
			opts = append(opts, dpo)
			c.optFields("DiffPath", dpo)
		}
		if r.Intn(3) == 0 {
			opts = append(opts, &ygot.IgnoreAdditions{})
		}
		c.term = "K" + api
		c.tree(0, a, false)
		c.tree(1, b, false)
		if api == "Diff" {
			c.run = func() error { _, err := ygot.Diff(a, b, opts...); return err }
		} else {
			c.run = func() error { _, err := ygot.DiffWithAtomic(a, b, opts...); return err }
		}
	case "DeepCopy":
		t, n := c11Tree(r, p)
		c.size = n
		c.term = "KDeepCopy"
		c.tree(0, t, false)
		c.run = func() error { _, err := ygot.DeepCopy(t); return err }
	case "MergeStructs":
		var a, b ygot.GoStruct
		s := r.Int63()
		switch r.Intn(3) {
		case 0: // equal trees: the merge succeeds
			a, b, c.size = c11Twin(p, s, 0.45)
		case 1: // sparse trees: mostly disjoint
			a, _, c.size = c11Twin(p, s, 0.15)
			b, _, _ = c11Twin(p, s+1, 0.15)
		default:
			a, c.size = c11Tree(r, p)
			b, _ = c11Tree(r, p)
		}
		var opts []ygot.MergeOpt
		if r.Intn(3) == 0 {
			opts = append(opts, &ygot.MergeOverwriteExistingFields{})
		}
		if r.Intn(3) == 0 {
			opts = append(opts, &ygot.MergeEmptyMaps{})
		}
		c.term = "KMergeStructs"
		c.tree(0, a, false)
		c.tree(1, b, false)
		c.run = func() error { _, err := ygot.MergeStructs(a, b, opts...); return err }
	case "DiffSetRequest", "DiffSetRequestToNotifications":
		srcA, nA := c11Tree(r, p)
		srcB, _ := c11Tree(r, p)
		c.size = nA
		allowBad := r.Intn(3) == 0
		ra := c11MakeReq(r, p, srcA, allowBad)
		rb := c11MakeReq(r, p, srcB, allowBad)
		var schema *ytypes.Schema
		var shadow ygot.GoStruct
		withSchema := !p.Flags["compress"] && r.Intn(4) != 0
		if withSchema {
			var root ygot.GoStruct
			if r.Intn(2) == 0 {
				root, shadow = p.NewRoot(), p.NewRoot()
			} else {
				root, shadow, _ = c11Twin(p, r.Int63(), 0.45)
			}
			schema = &ytypes.Schema{Root: root, SchemaTree: p.SchemaTree, Unmarshal: p.Unmarshal}
		}
		var ups []string
		stopped := false
		if withSchema {
			ups = append(ups, c11UpdTerms(p, shadow, ra.order, &stopped)...)
		}
		c.plain("(CSetRequest 0%nat)", ra.req)
		if api == "DiffSetRequest" {
			if withSchema {
				ups = append(ups, c11UpdTerms(p, shadow, rb.order, &stopped)...)
			}
			c.plain("(CSetRequest 1%nat)", rb.req)
			c.run = func() error { _, err := gnmidiff.DiffSetRequest(ra.req, rb.req, schema); return err }
		} else {
			notifs := make([]*gpb.Notification, 0, 3)
			n := &gpb.Notification{Timestamp: 1}
			for _, u := range rb.order {
				n.Update = append(n.Update, u.upd)
			}
			notifs = append(notifs, n)
			if withSchema {
				ups = append(ups, c11UpdTerms(p, shadow, rb.order, &stopped)...)
			}
			c.plain("CNotifications", notifs)
			c.run = func() error { _, err := gnmidiff.DiffSetRequestToNotifications(ra.req, notifs, schema); return err }
		}
		if withSchema {
			c.schemaRoot(schema, false)
			c.schemaEntries(p)
		}
		c.term = fmt.Sprintf("(K%s %s %s)", api, coqBool(withSchema), coqList(ups))
		c.size += len(ra.order) + len(rb.order)
		c.input["a"] = c11Proto(ra.req)
		c.input["b"] = c11Proto(rb.req)
		c.input["schema"] = withSchema
	case "Unmarshal":
		src, n := c11Tree(r, p)
		c.size = n
		var dst ygot.GoStruct = p.NewRoot()
		if r.Intn(3) == 0 {
			dst, _ = c11Tree(r, p)
		}
		js, err := ygot.Marshal7951(src, c11RandRFC(r))
		if err != nil {
			js = []byte(`{}`)
		}
		var doc interface{}
		if err := json.Unmarshal(js, &doc); err != nil {
			doc = map[string]interface{}{}
		}
		if r.Intn(5) == 0 { // malformed member
			if m, ok := doc.(map[string]interface{}); ok {
				m["no-such-member-zz"] = []interface{}{map[string]interface{}{"x": 1.0}}
			}
		}
		var opts []ytypes.UnmarshalOpt
		if r.Intn(3) == 0 {
			opts = append(opts, &ytypes.IgnoreExtraFields{})
		}
		if r.Intn(5) == 0 {
			opts = append(opts, &ytypes.PreferShadowPath{})
		}
		c.term = "KUnmarshal"
		c.tree(0, dst, true)
		c.plain("CJSON", doc)
		c.schemaEntries(p)
		c.run = func() error { return ytypes.Unmarshal(rootEntry, dst, doc, opts...) }
	case "SetNode":
		sites := c11SitesOf(p)
		site := sites[r.Intn(len(sites))]
		var root ygot.GoStruct = p.NewRoot()
		path := c11ClonePath(site.path)
		var opts []ytypes.SetNodeOpt
		reached := true
		switch r.Intn(8) {
		case 0: // no InitMissingElements on an empty root: the parent container is nil
			reached = len(path.Elem) <= 1
		case 1: // unknown node
			path.Elem = append(path.Elem[:len(path.Elem)-1], &gpb.PathElem{Name: "no-such-node-zz"})
			if r.Intn(2) == 0 {
				// an "absolute" path: leading element with an empty name (matches nothing)
				path = c11ClonePath(site.path)
				path.Elem = append([]*gpb.PathElem{{}}, path.Elem...)
			}
			opts = append(opts, &ytypes.InitMissingElements{})
			reached = false
		case 2: // an existing leaf of a generated tree, no InitMissingElements
			t, n := c11Tree(r, p)
			c.size = n
			found := false
			if ups := c11LeafUpdates(t); len(ups) > 0 {
				u := ups[r.Intn(len(ups))]
				for _, s := range sites {
					if c11SchemaPathKey(s.path) == c11SchemaPathKey(u.Path) {
						site, path, root, found = s, c11ClonePath(u.Path), t, true
						break
					}
				}
			}
			if !found {
				opts = append(opts, &ytypes.InitMissingElements{})
			}
		default:
			opts = append(opts, &ytypes.InitMissingElements{})
		}
		tol := r.Intn(2) == 0
		if tol {
			opts = append(opts, &ytypes.TolerateJSONInconsistencies{})
		}
		if r.Intn(6) == 0 {
			opts = append(opts, &ytypes.IgnoreExtraFields{})
		}
		tv := c11RandTV(r, site)
		c.term = fmt.Sprintf("(KSetNode %s %s %s %s %s)", coqBool(reached), coqBool(tol), coqBool(site.leafList), coqList(site.kinds), c11TVTerm(tv))
		c.tree(0, root, true)
		c.plain("CTypedValue", tv)
		c.plain("CPath", path)
		c.schemaEntries(p)
		c.tvAfter = func() string { return c11TVTerm(tv) }
		c.input["path"] = c11PathStr(path)
		c.input["value"] = c11Proto(tv)
		c.input["tolerate_json_inconsistencies"] = tol
		c.size++
		c.run = func() error { return ytypes.SetNode(rootEntry, root, path, tv, opts...) }
	case "UnmarshalSetRequest":
		src, n := c11Tree(r, p)
		c.size = n
		rq := c11MakeReq(r, p, src, r.Intn(3) == 0)
		var root ygot.GoStruct = p.NewRoot()
		if r.Intn(3) == 0 {
			root, _ = c11Tree(r, p)
		}
		schema := &ytypes.Schema{Root: root, SchemaTree: p.SchemaTree, Unmarshal: p.Unmarshal}
		var opts []ytypes.UnmarshalOpt
		if r.Intn(3) == 0 {
			opts = append(opts, &ytypes.BestEffortUnmarshal{})
		}
		if r.Intn(4) == 0 {
			opts = append(opts, &ytypes.IgnoreExtraFields{})
		}
		if r.Intn(3) == 0 && len(rq.req.Update) > 0 {
			rq.req.Prefix = &gpb.Path{Elem: make([]*gpb.PathElem, 0, 2)}
		}
		c.term = "KUnmarshalSetRequest"
		c.schemaRoot(schema, true)
		c.plain("(CSetRequest 0%nat)", rq.req)
		c.schemaEntries(p)
		c.size += len(rq.order)
		c.input["request"] = c11Proto(rq.req)
		c.run = func() error { return ytypes.UnmarshalSetRequest(schema, rq.req, opts...) }
	case "UnmarshalNotifications":
		src, n := c11Tree(r, p)
		c.size = n
		ups := c11LeafUpdates(src)
		nt := &gpb.Notification{Timestamp: 7, Atomic: r.Intn(2) == 0}
		spare := r.Intn(2) == 0
		nd := r.Intn(3)
		capD := nd
		if spare {
			capD = nd + 2
		}
		nt.Delete = make([]*gpb.Path, 0, capD)
		for i := 0; i < nd && len(ups) > 0; i++ {
			nt.Delete = append(nt.Delete, c11ClonePath(ups[r.Intn(len(ups))].Path))
		}
		for i := 0; i < 3 && len(ups) > 0; i++ {
			u := ups[r.Intn(len(ups))]
			nt.Update = append(nt.Update, &gpb.Update{Path: c11ClonePath(u.Path), Val: u.Val})
		}
		notifs := []*gpb.Notification{nt}
		root := p.NewRoot()
		schema := &ytypes.Schema{Root: root, SchemaTree: p.SchemaTree, Unmarshal: p.Unmarshal}
		c.term = "(KUnmarshalNotifications " + coqBool(nt.Atomic && cap(nt.Delete) > len(nt.Delete)) + ")"
		c.schemaRoot(schema, true)
		c.plain("CNotifications", notifs)
		c.schemaEntries(p)
		c.size += len(nt.Update)
		c.input["notification"] = c11Proto(nt)
		c.input["delete_len_cap"] = []int{len(nt.Delete), cap(nt.Delete)}
		c.run = func() error { return ytypes.UnmarshalNotifications(schema, notifs) }
	}
	return c
}

func c11Proto(m interface{}) string {
	s := fmt.Sprintf("%v", m)
	if len(s) > 600 {
		s = s[:600] + "..."
	}
	return s
}

// ---------------------------------------------------------------- the stream

const c11Header = "From Ygot Require Import Base.Base Heap.Effects Corr.EffectsCorr.\nOpen Scope N_scope."

func c11PurityStream(rng *rand.Rand, n int, tier string, out string) (*Summary, error) {
	sum := &Summary{Rule: "every API of the C11 list x every generated package x random arguments (trees from the tree generator, option structs with " +
		"random fields and spare slice capacity, TypedValues of every arm, SetRequests/Notifications built from trees, decoded JSON); " +
		"non-trivial = the call involves a tree with >= 8 leaves or a message with >= 1 update; distinct by the digest of all argument snapshots"}
	cf := &caseFile{header: c11Header, typ: "pcase", fn: "pmismatches"}
	names := reg.Names()
	seen := map[string]bool{}
	id := 0
	one := func(p *reg.Pkg, api string, seed int64) {
		c := c11Gen(p, api, seed)
		if c == nil || c.run == nil {
			return
		}
		// generating strings for pattern-restricted leaves validates them, which fills the global
		// regexp cache: empty it so that the cache-miss path is taken by the call under test
		ytypes.VerifResetRegexpCache()
		var digest []string
		for _, ce := range c.cells {
			digest = append(digest, ce.get())
		}
		dg := api + c11Hash(digest)
		o := c11Exec(c)
		if os.Getenv("C11_DEBUG") != "" {
			fmt.Fprintf(os.Stderr, "case %d %s seed=%d pkg=%s err=%v\n", id, api, seed, p.Name, o.err)
		}
		g := "[]"
		if o.gchanged {
			g = "[GRegexpCache]"
		}
		if c.tvAfter != nil {
			cf.add(fmt.Sprintf("PCSet %d %s %s %s %s", id, c.term, c.tvAfter(), coqList(o.changed), g))
		} else {
			cf.add(fmt.Sprintf("PC %d %s %s %s", id, c.term, coqList(o.changed), g))
		}
		id++
		sum.OracleRuns++
		sum.count("api", api)
		switch {
		case o.panicked:
			sum.count("outcome", "panic")
			sum.count("panics", api)
		case o.err != nil:
			sum.count("outcome", "error")
		default:
			sum.count("outcome", "ok")
		}
		if !seen[dg] {
			seen[dg] = true
			if c.size >= 8 {
				sum.Nontrivial++
			}
		}
		for _, m := range o.mutated {
			cell := strings.Trim(m, "()")
			cell = strings.ReplaceAll(strings.ReplaceAll(cell, "%nat", ""), " ", ".")
			in := map[string]interface{}{}
			for k, v := range c.input {
				in[k] = v
			}
			in["call"] = c.term
			sum.finding(Finding{Signature: "mutates/" + api + "/" + cell, What: api + " changes its argument " + m + ": " + o.diffs[m], Input: in})
		}
		if o.gchanged && !(api == "Validate" || api == "EmitJSON") {
			sum.finding(Finding{Signature: "mutates-global/" + api + "/regexp-cache", What: api + " stores into the global regexp cache", Input: c.input})
		}
		if len(o.changed) > 0 || o.gchanged {
			sum.count("changed", api+":"+strings.Join(o.changed, ",")+map[bool]string{true: "+cache", false: ""}[o.gchanged])
		}
		sum.sample(map[string]interface{}{"api": api, "pkg": p.Name, "call": c.term, "changed": o.changed})
	}
	exh := func(p *reg.Pkg, site c11Site, tv *gpb.TypedValue, tol bool, tag string) {
		root := p.NewRoot()
		path := c11ClonePath(site.path)
		opts := []ytypes.SetNodeOpt{&ytypes.InitMissingElements{}}
		if tol {
			opts = append(opts, &ytypes.TolerateJSONInconsistencies{})
		}
		before := c11TVTerm(tv)
		c := &c11Call{api: "SetNode", size: 8, input: map[string]interface{}{"pkg": p.Name, "api": "SetNode", "exhaustive": tag, "path": c11PathStr(path), "value": c11Proto(tv), "tolerate_json_inconsistencies": tol}}
		c.term = fmt.Sprintf("(KSetNode true %s %s %s %s)", coqBool(tol), coqBool(site.leafList), coqList(site.kinds), before)
		c.tree(0, root, true)
		c.plain("CTypedValue", tv)
		c.plain("CPath", path)
		c.run = func() error { return ytypes.SetNode(c11RootEntry(p), root, path, tv, opts...) }
		o := c11Exec(c)
		cf.add(fmt.Sprintf("PCSet %d %s %s %s []", id, c.term, c11TVTerm(tv), coqList(o.changed)))
		id++
		sum.OracleRuns++
		sum.count("api", "SetNode/exhaustive")
		for _, m := range o.mutated {
			sum.finding(Finding{Signature: "mutates/SetNode/" + strings.Trim(m, "()"), What: "SetNode changes its argument " + m + ": " + o.diffs[m], Input: c.input})
		}
	}
	if replayFile != "" {
		raw, err := os.ReadFile(replayFile)
		if err != nil {
			return nil, err
		}
		var rp struct {
			Case struct {
				Pkg        string `json:"pkg"`
				API        string `json:"api"`
				Seed       int64  `json:"seed"`
				Exhaustive string `json:"exhaustive"`
			} `json:"case"`
		}
		if err := json.Unmarshal(raw, &rp); err != nil {
			return nil, err
		}
		p := reg.Get(rp.Case.Pkg)
		if p == nil {
			return nil, fmt.Errorf("unknown package %q", rp.Case.Pkg)
		}
		if rp.Case.Exhaustive != "" {
			c11Exhaustive(func(p *reg.Pkg, site c11Site, tv *gpb.TypedValue, tol bool, tag string) {
				if tag == rp.Case.Exhaustive {
					exh(p, site, tv, tol, tag)
				}
			})
		} else {
			one(p, rp.Case.API, rp.Case.Seed)
		}
	} else {
		for id < n {
			for _, api := range append(append([]string{}, c11APIs...), "SetNode", "SetNode", "EncodeTypedValue", "DiffSetRequest") {
				p := reg.Get(names[rng.Intn(len(names))])
				one(p, api, rng.Int63())
			}
		}
		// exhaustive small scope for the gNMI scalar decoder: every site kind list x every arm x tolerance
		// (quick tier: the first package, leaf-list payloads with two equal arms)
		c11ExhaustiveScope(tier != "thorough", func(p *reg.Pkg, site c11Site, tv *gpb.TypedValue, tol bool, tag string) { exh(p, site, tv, tol, tag) })
	}
	files, err := cf.write(out, "purity", 400)
	if err != nil {
		return nil, err
	}
	sum.Cases = id
	sum.Extra = map[string]interface{}{"case_files": files}
	return sum, nil
}

// c11Exhaustive enumerates, for one site per distinct kind list of every package, every scalar
// arm (and two-element leaf-lists) with and without tolerance.
func c11Exhaustive(f func(p *reg.Pkg, site c11Site, tv *gpb.TypedValue, tol bool, tag string)) {
	c11ExhaustiveScope(false, f)
}

// c11ExhaustiveScope: small = the first package only, leaf-lists with two equal arms.
func c11ExhaustiveScope(small bool, f func(p *reg.Pkg, site c11Site, tv *gpb.TypedValue, tol bool, tag string)) {
	mk := func(i int) *gpb.TypedValue {
		switch i {
		case 0:
			return &gpb.TypedValue{Value: &gpb.TypedValue_IntVal{IntVal: 5}}
		case 1:
			return &gpb.TypedValue{Value: &gpb.TypedValue_IntVal{IntVal: 300}}
		case 2:
			return &gpb.TypedValue{Value: &gpb.TypedValue_IntVal{IntVal: -5}}
		case 3:
			return &gpb.TypedValue{Value: &gpb.TypedValue_IntVal{IntVal: 1 << 40}}
		case 4:
			return &gpb.TypedValue{Value: &gpb.TypedValue_UintVal{UintVal: 5}}
		case 5:
			return &gpb.TypedValue{Value: &gpb.TypedValue_UintVal{UintVal: 70000}}
		case 6:
			return &gpb.TypedValue{Value: &gpb.TypedValue_StringVal{StringVal: "zz-not-an-enum"}}
		case 7:
			return &gpb.TypedValue{Value: &gpb.TypedValue_BoolVal{BoolVal: true}}
		case 8:
			return &gpb.TypedValue{Value: &gpb.TypedValue_BytesVal{BytesVal: []byte{1}}}
		case 9:
			return &gpb.TypedValue{Value: &gpb.TypedValue_DoubleVal{DoubleVal: 1.5}}
		case 10:
			return &gpb.TypedValue{Value: &gpb.TypedValue_DecimalVal{DecimalVal: &gpb.Decimal64{Digits: 15, Precision: 1}}}
		case 11:
			return &gpb.TypedValue{Value: &gpb.TypedValue_FloatVal{FloatVal: 1.5}}
		}
		return &gpb.TypedValue{}
	}
	const arms = 13
	for ni, name := range reg.Names() {
		if small && ni > 0 {
			break
		}
		p := reg.Get(name)
		done := map[string]bool{}
		for _, s := range c11SitesOf(p) {
			key := fmt.Sprint(s.leafList, s.kinds)
			if done[key] {
				continue
			}
			done[key] = true
			for _, tol := range []bool{false, true} {
				for i := 0; i < arms; i++ {
					if !s.leafList {
						f(p, s, mk(i), tol, fmt.Sprint(name, "|", key, "|", tol, "|", i))
						continue
					}
					for j := 0; j < arms; j++ {
						if small && j != i {
							continue
						}
						f(p, s, &gpb.TypedValue{Value: &gpb.TypedValue_LeaflistVal{LeaflistVal: &gpb.ScalarArray{Element: []*gpb.TypedValue{mk(i), mk(j)}}}}, tol,
							fmt.Sprint(name, "|", key, "|", tol, "|", i, "|", j))
					}
				}
			}
		}
	}
}
