//go:build verif

package main

// c22_gdiff.go — stream "gdiff" (property C22) and the helpers shared with c23_gdiffnotifs.go.
//
// SetRequests are built from random trees of the generated package(s): leaf updates from
// ygot.TogNMINotifications, JSON-IETF updates from ygot.Marshal7951 of sub-trees, random
// deletes / replaces / prefix splits, plus synthetic requests over a small alphabet whose JSON
// payloads are arbitrary (nulls, mixed arrays, lists with odd members).  Every pair (a, b) is run
// through the real gnmidiff.DiffSetRequest without a schema (recorded as a Coq case, re-computed
// by Diffs/GnmiDiff.v) and with the generated schema (implementation-side oracle only).

import (
	"encoding/json"
	"fmt"
	"math"
	"math/big"
	"math/rand"
	"os"
	"reflect"
	"regexp"
	"sort"
	"strconv"
	"strings"

	gpb "github.com/openconfig/gnmi/proto/gnmi"
	"github.com/openconfig/ygot/gnmidiff"
	"github.com/openconfig/ygot/internal/verifharness/reg"
	"github.com/openconfig/ygot/util"
	"github.com/openconfig/ygot/ygot"
	"github.com/openconfig/ygot/ytypes"
	"google.golang.org/protobuf/encoding/protojson"
	"google.golang.org/protobuf/proto"
)

func init() { streams["gdiff"] = c22GdiffStream }

// ---------------------------------------------------------------- Coq term printers

// c22Tables collects the strconv facts the model takes as tables (see gd_oracle).
type c22Tables struct {
	ffmt map[uint64]string // FormatFloat(f,'f',-1,64) per bit pattern (protoLeafToJSON, DoubleVal)
	gfmt map[string]string // "%g" per JNum (m,e) outside the domain of gd_g_int
	nfmt map[string]string // FormatFloat(f,'f',-1,64) for the same numbers (used by the repaired code only)
}

func c22NewTables() *c22Tables {
	return &c22Tables{ffmt: map[uint64]string{}, gfmt: map[string]string{}, nfmt: map[string]string{}}
}

func c22BigZ(z *big.Int) string { return "(" + z.String() + ")%Z" }

// c22FloatME returns the exact value of f as m * 10^e with m not divisible by 10 (0 = (0,0)).
func c22FloatME(f float64) (*big.Int, int) {
	if f == 0 || math.IsInf(f, 0) || math.IsNaN(f) {
		return big.NewInt(0), 0
	}
	r := new(big.Rat).SetFloat64(f)
	k := r.Denom().BitLen() - 1 // denominator = 2^k
	m := new(big.Int).Set(r.Num())
	m.Mul(m, new(big.Int).Exp(big.NewInt(5), big.NewInt(int64(k)), nil))
	e := -k
	ten := big.NewInt(10)
	q, rem := new(big.Int), new(big.Int)
	for {
		q.QuoRem(m, ten, rem)
		if rem.Sign() != 0 {
			break
		}
		m.Set(q)
		e++
	}
	return m, e
}

var c22Two53 = new(big.Int).Lsh(big.NewInt(1), 53)

func (t *c22Tables) jnum(f float64) string {
	m, e := c22FloatME(f)
	applies := false
	if e >= 0 && e < 16 {
		v := new(big.Int).Mul(m, new(big.Int).Exp(big.NewInt(10), big.NewInt(int64(e)), nil))
		applies = v.CmpAbs(c22Two53) < 0
	}
	if !applies {
		key := fmt.Sprintf("(%s, %s)", c22BigZ(m), coqZ(int64(e)))
		t.gfmt[key] = keyFloatText(f)
		t.nfmt[key] = strconv.FormatFloat(f, 'f', -1, 64)
	}
	return "(JNum " + c22BigZ(m) + " " + coqZ(int64(e)) + ")"
}

// val prints a decoded JSON value (what encoding/json puts in an interface{}).
func (t *c22Tables) val(v interface{}) string {
	switch x := v.(type) {
	case nil:
		return "JNull"
	case bool:
		return "(JBool " + coqBool(x) + ")"
	case float64:
		return t.jnum(x)
	case string:
		return "(JStr " + coqStr(x) + ")"
	case []interface{}:
		items := make([]string, len(x))
		for i, e := range x {
			items[i] = t.val(e)
		}
		return "(JArr " + coqList(items) + ")"
	case map[string]interface{}:
		ks := make([]string, 0, len(x))
		for k := range x {
			ks = append(ks, k)
		}
		sort.Strings(ks)
		items := make([]string, len(ks))
		for i, k := range ks {
			items[i] = "(" + coqStr(k) + ", " + t.val(x[k]) + ")"
		}
		return "(JObj " + coqList(items) + ")"
	}
	return "JNull"
}

// tval prints a TypedValue; ok=false when the model has no term for it (undecodable JSON).
func (t *c22Tables) tval(tv *gpb.TypedValue) (string, bool) {
	if tv == nil || tv.Value == nil {
		return "TVNil", true
	}
	switch v := tv.Value.(type) {
	case *gpb.TypedValue_StringVal:
		return "(TVString " + coqStr(v.StringVal) + ")", true
	case *gpb.TypedValue_IntVal:
		return "(TVInt " + coqZ(v.IntVal) + ")", true
	case *gpb.TypedValue_UintVal:
		return "(TVUint " + coqZu(v.UintVal) + ")", true
	case *gpb.TypedValue_BoolVal:
		return "(TVBool " + coqBool(v.BoolVal) + ")", true
	case *gpb.TypedValue_BytesVal:
		return "(TVBytes " + bytesTerm(v.BytesVal) + ")", true
	case *gpb.TypedValue_DoubleVal:
		b := math.Float64bits(v.DoubleVal)
		t.ffmt[b] = strconv.FormatFloat(v.DoubleVal, 'f', -1, 64)
		return fmt.Sprintf("(TVDouble %d)", b), true
	case *gpb.TypedValue_FloatVal:
		return fmt.Sprintf("(TVFloat %d)", math.Float32bits(v.FloatVal)), true
	case *gpb.TypedValue_AsciiVal:
		return "(TVAscii " + coqStr(v.AsciiVal) + ")", true
	case *gpb.TypedValue_LeaflistVal:
		var items []string
		for _, e := range v.LeaflistVal.GetElement() {
			s, ok := t.tval(e)
			if !ok {
				return "", false
			}
			items = append(items, s)
		}
		return "(TVLeafList " + coqList(items) + ")", true
	case *gpb.TypedValue_JsonIetfVal:
		var d interface{}
		if err := json.Unmarshal(v.JsonIetfVal, &d); err != nil {
			return "", false
		}
		return "(TVJsonIetf " + t.val(d) + ")", true
	case *gpb.TypedValue_JsonVal:
		var d interface{}
		if err := json.Unmarshal(v.JsonVal, &d); err != nil {
			d = nil
		}
		return "(TVJson " + t.val(d) + ")", true
	}
	return "", false
}

func (t *c22Tables) upds(us []*gpb.Update) (string, bool) {
	items := make([]string, len(us))
	for i, u := range us {
		if u.GetPath() == nil {
			return "", false
		}
		tv, ok := t.tval(u.GetVal())
		if !ok {
			return "", false
		}
		items[i] = "(" + coqElems(u.Path.Elem) + ", " + tv + ")"
	}
	return coqList(items), true
}

func c22Paths(ps []*gpb.Path) (string, bool) {
	items := make([]string, len(ps))
	for i, p := range ps {
		if p == nil {
			return "", false
		}
		items[i] = coqElems(p.Elem)
	}
	return coqList(items), true
}

// req prints a SetRequest as a `setreq` term.
func (t *c22Tables) req(r *gpb.SetRequest) (string, bool) {
	d, ok1 := c22Paths(r.GetDelete())
	rp, ok2 := t.upds(r.GetReplace())
	up, ok3 := t.upds(r.GetUpdate())
	if !ok1 || !ok2 || !ok3 {
		return "", false
	}
	return "{| sr_prefix := " + coqElems(r.GetPrefix().GetElem()) + "; sr_del := " + d + "; sr_rep := " + rp + "; sr_upd := " + up + " |}", true
}

func c22SortedSet(m map[string]struct{}) []string {
	ks := make([]string, 0, len(m))
	for k := range m {
		ks = append(ks, k)
	}
	sort.Strings(ks)
	return ks
}

func c22SortedVals(m map[string]interface{}) []string {
	ks := make([]string, 0, len(m))
	for k := range m {
		ks = append(ks, k)
	}
	sort.Strings(ks)
	return ks
}

func (t *c22Tables) kvs(m map[string]interface{}) string {
	var items []string
	for _, k := range c22SortedVals(m) {
		items = append(items, "("+coqStr(k)+", "+t.val(m[k])+")")
	}
	return coqList(items)
}

func (t *c22Tables) mism(m map[string]gnmidiff.MismatchedUpdate) string {
	ks := make([]string, 0, len(m))
	for k := range m {
		ks = append(ks, k)
	}
	sort.Strings(ks)
	var items []string
	for _, k := range ks {
		items = append(items, "("+coqStr(k)+", ("+t.val(m[k].A)+", "+t.val(m[k].B)+"))")
	}
	return coqList(items)
}

// ---------------------------------------------------------------- running the real code

type c22Out struct {
	diff   gnmidiff.SetRequestIntentDiff
	err    error
	panicv interface{}
}

func (o c22Out) status() string {
	switch {
	case o.panicv != nil:
		return "panic"
	case o.err != nil:
		return "error"
	}
	return "ok"
}

// c22Schema holds one generated package and its schema; Root is reset before every call
// because populateUpdate creates nodes in the caller's schema.Root (reported under C11).
type c22Schema struct {
	pkg    *reg.Pkg
	schema *ytypes.Schema
}

func (s *c22Schema) fresh() *ytypes.Schema {
	if s == nil {
		return nil
	}
	s.schema.Root = s.pkg.NewRoot()
	return s.schema
}

func c22Diff(a, b *gpb.SetRequest, s *c22Schema) (o c22Out) {
	defer func() {
		if r := recover(); r != nil {
			o = c22Out{panicv: r}
		}
	}()
	d, err := gnmidiff.DiffSetRequest(a, b, s.fresh())
	return c22Out{diff: d, err: err}
}

func (t *c22Tables) outTerm(o c22Out) string {
	switch o.status() {
	case "panic":
		return coqPanic
	case "error":
		return coqErr
	}
	d := o.diff
	return coqOk("{| d_mdel := " + coqStrList(c22SortedSet(d.MissingDeletes)) + "; d_edel := " + coqStrList(c22SortedSet(d.ExtraDeletes)) +
		"; d_cdel := " + coqStrList(c22SortedSet(d.CommonDeletes)) + "; d_mupd := " + t.kvs(d.MissingUpdates) + "; d_eupd := " + t.kvs(d.ExtraUpdates) +
		"; d_cupd := " + t.kvs(d.CommonUpdates) + "; d_mism := " + t.mism(d.MismatchedUpdates) + " |}")
}

func c22DiffEmpty(d gnmidiff.SetRequestIntentDiff) bool {
	return len(d.MissingDeletes) == 0 && len(d.ExtraDeletes) == 0 && len(d.MissingUpdates) == 0 && len(d.ExtraUpdates) == 0 && len(d.MismatchedUpdates) == 0
}

func c22SetEq(a, b map[string]struct{}) bool {
	if len(a) != len(b) {
		return false
	}
	for k := range a {
		if _, ok := b[k]; !ok {
			return false
		}
	}
	return true
}

func c22MapEq(a, b map[string]interface{}) bool {
	if len(a) != len(b) {
		return false
	}
	for k, v := range a {
		w, ok := b[k]
		if !ok || !reflect.DeepEqual(v, w) {
			return false
		}
	}
	return true
}

// c22IsSwap: d2 = DiffSetRequest(b, a) is the mirror image of d1 = DiffSetRequest(a, b).
func c22IsSwap(d1, d2 gnmidiff.SetRequestIntentDiff) bool {
	if !c22SetEq(d1.MissingDeletes, d2.ExtraDeletes) || !c22SetEq(d1.ExtraDeletes, d2.MissingDeletes) || !c22SetEq(d1.CommonDeletes, d2.CommonDeletes) {
		return false
	}
	if !c22MapEq(d1.MissingUpdates, d2.ExtraUpdates) || !c22MapEq(d1.ExtraUpdates, d2.MissingUpdates) || !c22MapEq(d1.CommonUpdates, d2.CommonUpdates) {
		return false
	}
	if len(d1.MismatchedUpdates) != len(d2.MismatchedUpdates) {
		return false
	}
	for k, m := range d1.MismatchedUpdates {
		n, ok := d2.MismatchedUpdates[k]
		if !ok || !reflect.DeepEqual(m.A, n.B) || !reflect.DeepEqual(m.B, n.A) {
			return false
		}
	}
	return true
}

func c22JSON(m proto.Message) json.RawMessage {
	b, err := protojson.Marshal(m)
	if err != nil {
		return json.RawMessage(`null`)
	}
	// protojson output is deliberately unstable in its whitespace: normalise
	var v interface{}
	if json.Unmarshal(b, &v) == nil {
		if c, err := json.Marshal(v); err == nil {
			return c
		}
	}
	return b
}

func c22DiffSummary(d gnmidiff.SetRequestIntentDiff) map[string]interface{} {
	mm := map[string]interface{}{}
	for k, v := range d.MismatchedUpdates {
		mm[k] = []interface{}{v.A, v.B}
	}
	return map[string]interface{}{"missing_deletes": c22SortedSet(d.MissingDeletes), "extra_deletes": c22SortedSet(d.ExtraDeletes),
		"missing_updates": d.MissingUpdates, "extra_updates": d.ExtraUpdates, "mismatched": mm, "common_updates": len(d.CommonUpdates)}
}

// ---------------------------------------------------------------- abstract requests

// c22U is one update or replace with its path from the root.
type c22U struct {
	path *gpb.Path
	val  *gpb.TypedValue
	json bool // JSON-IETF payload made from a sub-tree
}

// c22R is a SetRequest before the split into prefix + relative paths.
type c22R struct {
	dels []*gpb.Path
	reps []c22U
	upds []c22U
}

func (r *c22R) clone() *c22R {
	return &c22R{dels: append([]*gpb.Path{}, r.dels...), reps: append([]c22U{}, r.reps...), upds: append([]c22U{}, r.upds...)}
}

func (r *c22R) paths() []*gpb.Path {
	ps := append([]*gpb.Path{}, r.dels...)
	for _, u := range r.reps {
		ps = append(ps, u.path)
	}
	for _, u := range r.upds {
		ps = append(ps, u.path)
	}
	return ps
}

// c22Common is the number of leading PathElems all paths share.
func c22Common(ps []*gpb.Path) int {
	if len(ps) == 0 {
		return 0
	}
	n := len(ps[0].Elem)
	for _, p := range ps[1:] {
		i := 0
		for i < n && i < len(p.Elem) && util.PathElemsEqual(p.Elem[i], ps[0].Elem[i]) {
			i++
		}
		n = i
	}
	return n
}

func c22Sub(p *gpb.Path, from int) *gpb.Path {
	return &gpb.Path{Elem: append([]*gpb.PathElem{}, p.Elem[from:]...)}
}

// build materialises the request with the first `split` common elements in the prefix.
func (r *c22R) build(split int) *gpb.SetRequest {
	ps := r.paths()
	c := c22Common(ps)
	if split > c {
		split = c
	}
	if split < 0 {
		split = 0
	}
	sr := &gpb.SetRequest{}
	if len(ps) > 0 && split > 0 {
		sr.Prefix = &gpb.Path{Elem: append([]*gpb.PathElem{}, ps[0].Elem[:split]...)}
	} else if len(ps)%2 == 1 {
		sr.Prefix = &gpb.Path{} // nil and empty prefixes are both exercised
	}
	for _, d := range r.dels {
		sr.Delete = append(sr.Delete, c22Sub(d, split))
	}
	for _, u := range r.reps {
		sr.Replace = append(sr.Replace, &gpb.Update{Path: c22Sub(u.path, split), Val: u.val})
	}
	for _, u := range r.upds {
		sr.Update = append(sr.Update, &gpb.Update{Path: c22Sub(u.path, split), Val: u.val})
	}
	return sr
}

func c22IsPrefix(pre, p *gpb.Path) bool {
	if len(pre.Elem) > len(p.Elem) {
		return false
	}
	for i, e := range pre.Elem {
		if !util.PathElemsEqual(e, p.Elem[i]) {
			return false
		}
	}
	return true
}

func c22Related(a, b *gpb.Path) bool { return c22IsPrefix(a, b) || c22IsPrefix(b, a) }

// c22Leaves lists the leaf updates of a tree with paths from the root.
func c22Leaves(t ygot.GoStruct) ([]c22U, error) {
	ns, err := ygot.TogNMINotifications(t, 0, ygot.GNMINotificationsConfig{UsePathElem: true})
	if err != nil {
		return nil, err
	}
	var out []c22U
	for _, n := range ns {
		for _, u := range n.Update {
			p := &gpb.Path{Elem: append(append([]*gpb.PathElem{}, n.GetPrefix().GetElem()...), u.GetPath().GetElem()...)}
			out = append(out, c22U{path: p, val: u.Val})
		}
	}
	sort.Slice(out, func(i, j int) bool { return c22PS(out[i].path) < c22PS(out[j].path) })
	return out, nil
}

func c22PS(p *gpb.Path) string {
	s, err := ygot.PathToString(p)
	if err != nil {
		return "!" + err.Error()
	}
	return s
}

// c22PruneOC removes, from every keyed list entry, the direct leaf children that are not list
// keys, which makes the tree's JSON conform to the OpenConfig style rule that gnmidiff assumes
// (the only scalar members of a list element are its keys).
func c22Prune(g *treeGen, sp reflect.Value, entryKeys map[string]bool) {
	s := sp.Elem()
	for i := 0; i < s.NumField(); i++ {
		sf := s.Type().Field(i)
		if _, ok := sf.Tag.Lookup("path"); !ok {
			continue
		}
		fv := s.Field(i)
		ft := sf.Type
		switch {
		case isOrderedMapType(ft):
			if fv.IsNil() {
				continue
			}
			vals := fv.MethodByName("Values").Call(nil)[0]
			for j := 0; j < vals.Len(); j++ {
				c22Prune(g, vals.Index(j), c22KeyFields(vals.Index(j)))
			}
		case ft.Kind() == reflect.Map:
			if !fv.IsNil() && fv.Len() == 0 {
				fv.Set(reflect.Zero(ft)) // Marshal7951 writes an empty list as [], which reads as an empty leaf-list
				continue
			}
			it := fv.MapRange()
			for it.Next() {
				c22Prune(g, it.Value(), c22KeyFields(it.Value()))
			}
		case ft.Kind() == reflect.Ptr && ft.Elem().Kind() == reflect.Struct:
			if !fv.IsNil() {
				c22Prune(g, fv, nil)
			}
		case ft.Kind() == reflect.Slice && ft.Elem().Kind() == reflect.Ptr && ft.Elem().Elem().Kind() == reflect.Struct:
			for j := 0; j < fv.Len(); j++ {
				c22Prune(g, fv.Index(j), nil)
			}
		case ft.Kind() == reflect.Slice && !(ft.Elem().Kind() == reflect.Uint8 && ft.Name() == ygot.BinaryTypeName):
			// leaf-list: a JSON array, never taken for a key
		default:
			if entryKeys != nil && !entryKeys[sf.Name] {
				fv.Set(reflect.Zero(ft))
			}
		}
	}
}

// c22KeyFields names the key fields of a list entry (from its ΛListKeyMap).
func c22KeyFields(entry reflect.Value) map[string]bool {
	out := map[string]bool{}
	kh, ok := entry.Interface().(ygot.KeyHelperGoStruct)
	if !ok {
		return out
	}
	km, err := kh.ΛListKeyMap()
	if err != nil {
		return out
	}
	t := entry.Elem().Type()
	for i := 0; i < t.NumField(); i++ {
		f := t.Field(i)
		for _, alt := range strings.Split(f.Tag.Get("path"), "|") {
			if _, isKey := km[alt]; isKey {
				out[f.Name] = true
			}
		}
	}
	return out
}

// ---------------------------------------------------------------- request generator

type c22Gen struct {
	rng    *rand.Rand
	s      *c22Schema
	tg     *treeGen
	pruned bool
}

type c22Base struct {
	r       *c22R
	tree    ygot.ValidatedGoStruct
	leaves  []c22U // every leaf of the tree
	covered []c22U // the leaves the request writes (leaf form)
	pruned  bool
	modName bool // JSON made with AppendModuleName
}

func (g *c22Gen) tree() (ygot.ValidatedGoStruct, []c22U, bool) {
	for try := 0; try < 30; try++ {
		g.tg.pField = 0.25 + 0.25*g.rng.Float64()
		t := g.tg.genTree()
		pruned := g.rng.Intn(5) < 3
		if pruned {
			c22Prune(g.tg, reflect.ValueOf(t), nil)
		}
		ls, err := c22Leaves(t)
		if err != nil || len(ls) < 2 {
			continue
		}
		return t, ls, pruned
	}
	return nil, nil, false
}

// jsonAt renders the sub-tree at path p as a JSON-IETF TypedValue.
func (g *c22Gen) jsonAt(t ygot.GoStruct, p *gpb.Path, modName bool) *gpb.TypedValue {
	var data interface{} = t
	if len(p.Elem) > 0 {
		ns, err := ytypes.GetNode(g.s.schema.RootSchema(), t, p)
		if err != nil || len(ns) != 1 {
			return nil
		}
		data = ns[0].Data
	}
	if _, ok := data.(ygot.GoStruct); !ok {
		return nil
	}
	var js []byte
	var err error
	if modName {
		js, err = ygot.Marshal7951(data, &ygot.RFC7951JSONConfig{AppendModuleName: true})
	} else {
		js, err = ygot.Marshal7951(data)
	}
	if err != nil {
		return nil
	}
	return &gpb.TypedValue{Value: &gpb.TypedValue_JsonIetfVal{JsonIetfVal: js}}
}

func (g *c22Gen) base() *c22Base {
	t, leaves, pruned := g.tree()
	if t == nil {
		return nil
	}
	b := &c22Base{r: &c22R{}, tree: t, leaves: leaves, pruned: pruned, modName: g.rng.Intn(3) == 0}
	// JSON nodes
	var nodes []*gpb.Path
	for k := pick(g.rng, []int{0, 0, 1, 1, 1, 2}); k > 0; k-- {
		l := pick(g.rng, leaves)
		if len(l.path.Elem) < 2 {
			continue
		}
		p := &gpb.Path{Elem: l.path.Elem[:1+g.rng.Intn(len(l.path.Elem)-1)]}
		if g.rng.Intn(12) == 0 {
			p = &gpb.Path{}
		}
		clash := false
		for _, q := range nodes {
			if c22Related(p, q) {
				clash = true
			}
		}
		if clash {
			continue
		}
		tv := g.jsonAt(t, p, b.modName)
		if tv == nil {
			continue
		}
		nodes = append(nodes, p)
		b.r.upds = append(b.r.upds, c22U{path: p, val: tv, json: true})
	}
	for _, l := range leaves {
		under := false
		for _, q := range nodes {
			if c22IsPrefix(q, l.path) {
				under = true
			}
		}
		if under {
			b.covered = append(b.covered, l)
		} else if g.rng.Intn(8) != 0 {
			b.covered = append(b.covered, l)
			b.r.upds = append(b.r.upds, l)
		}
	}
	g.rng.Shuffle(len(b.r.upds), func(i, j int) { b.r.upds[i], b.r.upds[j] = b.r.upds[j], b.r.upds[i] })
	// some updates become replaces
	var ups []c22U
	for _, u := range b.r.upds {
		if g.rng.Intn(7) == 0 {
			b.r.reps = append(b.r.reps, u)
		} else {
			ups = append(ups, u)
		}
	}
	b.r.upds = ups
	// deletes: sub-trees of another tree, and now and then a leaf that is also written
	if g.rng.Intn(5) < 2 {
		t2, l2, _ := g.tree()
		for k := 1 + g.rng.Intn(2); k > 0 && t2 != nil; k-- {
			l := pick(g.rng, l2)
			d := &gpb.Path{Elem: l.path.Elem[:1+g.rng.Intn(len(l.path.Elem))]}
			if g.rng.Intn(4) == 0 && len(b.r.upds) > 0 {
				d = pick(g.rng, b.r.upds).path
			}
			ok := true
			for _, q := range b.r.dels {
				if c22Related(d, q) {
					ok = false
				}
			}
			for _, u := range b.r.reps {
				if c22Related(d, u.path) {
					ok = false
				}
			}
			if ok || g.rng.Intn(10) == 0 {
				b.r.dels = append(b.r.dels, d)
			}
		}
	}
	return b
}

// ---------------------------------------------------------------- the five rewrites

type c22Rw struct {
	kind   string
	sub    string
	b      *c22R
	splitA int
	splitB int
}

func (g *c22Gen) rewrites(b *c22Base) []c22Rw {
	var out []c22Rw
	r := b.r
	common := c22Common(r.paths())
	split := 0
	if common > 0 {
		split = g.rng.Intn(common + 1)
	}
	// 1. one JSON update (or replace) versus the equivalent leaf updates
	{
		var idx []int
		for i, u := range r.upds {
			if u.json {
				idx = append(idx, i)
			}
		}
		var ridx []int
		for i, u := range r.reps {
			if u.json {
				ridx = append(ridx, i)
			}
		}
		switch {
		case len(idx) > 0 && (len(ridx) == 0 || g.rng.Intn(2) == 0):
			i := pick(g.rng, idx)
			nb := r.clone()
			var repl []c22U
			for _, l := range b.leaves {
				if c22IsPrefix(r.upds[i].path, l.path) {
					repl = append(repl, l)
				}
			}
			nb.upds = append(append(append([]c22U{}, r.upds[:i]...), repl...), r.upds[i+1:]...)
			out = append(out, c22Rw{kind: "json-vs-leaves", sub: "update", b: nb, splitA: split, splitB: split})
		case len(ridx) > 0:
			// replace P with JSON  ==  delete P ; update every leaf below P
			i := pick(g.rng, ridx)
			nb := r.clone()
			nb.reps = append(append([]c22U{}, r.reps[:i]...), r.reps[i+1:]...)
			nb.dels = append(nb.dels, r.reps[i].path)
			for _, l := range b.leaves {
				if c22IsPrefix(r.reps[i].path, l.path) {
					nb.upds = append(nb.upds, l)
				}
			}
			out = append(out, c22Rw{kind: "json-vs-leaves", sub: "replace", b: nb, splitA: split, splitB: split})
		}
	}
	// 2. a different prefix split
	if common > 0 {
		s2 := g.rng.Intn(common + 1)
		if s2 == split {
			s2 = (split + 1) % (common + 1)
		}
		out = append(out, c22Rw{kind: "prefix-split", sub: fmt.Sprintf("%d", common), b: r, splitA: split, splitB: s2})
	}
	// 3. reordered updates
	if len(r.upds) > 1 {
		nb := r.clone()
		g.rng.Shuffle(len(nb.upds), func(i, j int) { nb.upds[i], nb.upds[j] = nb.upds[j], nb.upds[i] })
		out = append(out, c22Rw{kind: "reorder", sub: "updates", b: nb, splitA: split, splitB: split})
	}
	// 4. a leaf replace versus an update
	{
		var li, ri []int
		for i, u := range r.upds {
			if !u.json {
				li = append(li, i)
			}
		}
		for i, u := range r.reps {
			if !u.json {
				ri = append(ri, i)
			}
		}
		switch {
		case len(ri) > 0 && (len(li) == 0 || g.rng.Intn(2) == 0):
			i := pick(g.rng, ri)
			nb := r.clone()
			nb.reps = append(append([]c22U{}, r.reps[:i]...), r.reps[i+1:]...)
			k := g.rng.Intn(len(nb.upds) + 1)
			nb.upds = append(append(append([]c22U{}, r.upds[:k]...), r.reps[i]), r.upds[k:]...)
			out = append(out, c22Rw{kind: "leaf-replace-vs-update", sub: "replace->update", b: nb, splitA: split, splitB: split})
		case len(li) > 0:
			i := pick(g.rng, li)
			nb := r.clone()
			nb.upds = append(append([]c22U{}, r.upds[:i]...), r.upds[i+1:]...)
			nb.reps = append(nb.reps, r.upds[i])
			out = append(out, c22Rw{kind: "leaf-replace-vs-update", sub: "update->replace", b: nb, splitA: split, splitB: split})
		}
	}
	// 6. one JSON update versus two JSON updates at the same path that carry its members between them
	{
		var idx []int
		for i, u := range r.upds {
			if u.json {
				idx = append(idx, i)
			}
		}
		g.rng.Shuffle(len(idx), func(i, j int) { idx[i], idx[j] = idx[j], idx[i] })
		for _, i := range idx {
			h1, h2, ok := c22SplitJSON(g.rng, r.upds[i].val)
			if !ok {
				continue
			}
			nb := r.clone()
			u1, u2 := r.upds[i], r.upds[i]
			u1.val, u2.val = h1, h2
			rest := append(append([]c22U{}, r.upds[:i]...), r.upds[i+1:]...)
			k1 := g.rng.Intn(len(rest) + 1)
			rest = append(append(append([]c22U{}, rest[:k1]...), u1), rest[k1:]...)
			k2 := g.rng.Intn(len(rest) + 1)
			nb.upds = append(append(append([]c22U{}, rest[:k2]...), u2), rest[k2:]...)
			out = append(out, c22Rw{kind: "json-split", sub: "update", b: nb, splitA: split, splitB: split})
			break
		}
	}
	// 5. a duplicated identical update
	if len(r.upds) > 0 {
		i := g.rng.Intn(len(r.upds))
		nb := r.clone()
		k := g.rng.Intn(len(nb.upds) + 1)
		nb.upds = append(append(append([]c22U{}, r.upds[:k]...), r.upds[i]), r.upds[k:]...)
		sub := "scalar"
		switch r.upds[i].val.GetValue().(type) {
		case *gpb.TypedValue_LeaflistVal:
			sub = "leaflist"
		case *gpb.TypedValue_JsonIetfVal:
			sub = "json"
		}
		out = append(out, c22Rw{kind: "dup", sub: sub, b: nb, splitA: split, splitB: split})
	}
	return out
}

// c22SplitJSON splits the members of a JSON-IETF object between two objects (both non-empty).
// The members of an object are written independently of each other, so two updates at one path
// with the two halves have the intent of the single update (in either order: the halves are
// disjoint).
func c22SplitJSON(rng *rand.Rand, tv *gpb.TypedValue) (*gpb.TypedValue, *gpb.TypedValue, bool) {
	var m map[string]json.RawMessage
	if err := json.Unmarshal(tv.GetJsonIetfVal(), &m); err != nil || len(m) < 2 {
		return nil, nil, false
	}
	var ks []string
	for k := range m {
		ks = append(ks, k)
	}
	sort.Strings(ks)
	rng.Shuffle(len(ks), func(i, j int) { ks[i], ks[j] = ks[j], ks[i] })
	cut := 1 + rng.Intn(len(ks)-1)
	a, b := map[string]json.RawMessage{}, map[string]json.RawMessage{}
	for i, k := range ks {
		if i < cut {
			a[k] = m[k]
		} else {
			b[k] = m[k]
		}
	}
	ja, _ := json.Marshal(a)
	jb, _ := json.Marshal(b)
	return &gpb.TypedValue{Value: &gpb.TypedValue_JsonIetfVal{JsonIetfVal: ja}}, &gpb.TypedValue{Value: &gpb.TypedValue_JsonIetfVal{JsonIetfVal: jb}}, true
}

// mutate returns a request with a DIFFERENT intent (for non-trivial diffs in the swap law).
func (g *c22Gen) mutate(b *c22Base) *c22R {
	nb := b.r.clone()
	for k := 1 + g.rng.Intn(2); k > 0; k-- {
		switch g.rng.Intn(5) {
		case 0:
			if len(nb.upds) > 0 {
				i := g.rng.Intn(len(nb.upds))
				nb.upds = append(append([]c22U{}, nb.upds[:i]...), nb.upds[i+1:]...)
			}
		case 1:
			if len(nb.upds) > 1 {
				i, j := g.rng.Intn(len(nb.upds)), g.rng.Intn(len(nb.upds))
				if !nb.upds[i].json && !nb.upds[j].json {
					nb.upds[i] = c22U{path: nb.upds[i].path, val: nb.upds[j].val}
				}
			}
		case 2:
			l := pick(g.rng, b.leaves)
			nb.dels = append(nb.dels, &gpb.Path{Elem: l.path.Elem[:1+g.rng.Intn(len(l.path.Elem))]})
		case 3:
			if len(nb.dels) > 0 {
				nb.dels = nb.dels[1:]
			}
		case 4:
			if _, l2, _ := g.tree(); len(l2) > 0 {
				nb.upds = append(nb.upds, pick(g.rng, l2))
			}
		}
	}
	return nb
}

// ---------------------------------------------------------------- classification of failures

var c22ExpKey = regexp.MustCompile(`=[0-9.]+e\+[0-9]+\]`)

func c22Canonical(p string) bool {
	gp, err := ygot.StringToStructuredPath(p)
	if err != nil {
		return false
	}
	s, err := ygot.PathToString(gp)
	return err == nil && s == p
}

// c22HasNonKeyScalar: some written leaf sits directly in a list entry without being one of its keys.
func c22HasNonKeyScalar(ls []c22U) bool {
	for _, l := range ls {
		n := len(l.path.Elem)
		if n < 2 || len(l.path.Elem[n-2].Key) == 0 {
			continue
		}
		if _, isKey := l.path.Elem[n-2].Key[l.path.Elem[n-1].Name]; isKey {
			continue
		}
		if _, isLL := l.val.GetValue().(*gpb.TypedValue_LeaflistVal); isLL {
			continue
		}
		return true
	}
	return false
}

func c22IsNumOrNums(v interface{}) bool {
	switch x := v.(type) {
	case float64:
		return true
	case []interface{}:
		for _, e := range x {
			if _, ok := e.(float64); ok {
				return true
			}
		}
	}
	return false
}

func c22HasColonStr(v interface{}) bool {
	switch x := v.(type) {
	case string:
		return strings.Contains(x, ":")
	case []interface{}:
		for _, e := range x {
			if s, ok := e.(string); ok && strings.Contains(s, ":") {
				return true
			}
		}
	}
	return false
}

var c22BigNumKey = regexp.MustCompile(`=-?[0-9]{7,}\]`)
var c22ModKey = regexp.MustCompile(`\[[^=\]]+=[A-Za-z_][A-Za-z0-9_.-]*:[^\]]*\]`)

// c22RawBackslash: a backslash that is not the escape of '=' or ']' (PathToString does not escape
// backslashes, known finding C08 backslash-in-key-value; the with-schema code re-parses its paths).
func c22RawBackslash(p string) bool {
	for i := 0; i < len(p); i++ {
		if p[i] == '\\' {
			if i+1 < len(p) && (p[i+1] == '=' || p[i+1] == ']') {
				i++
				continue
			}
			return true
		}
	}
	return false
}

// c22PathCause explains why leaf paths differ between two spellings of the same intent.
func c22PathCause(paths []string, nonKeyScalar bool) string {
	for _, p := range paths {
		if c22ExpKey.MatchString(p) {
			return "numeric-key-exponent"
		}
	}
	if nonKeyScalar {
		return "non-key-scalar-as-key"
	}
	for _, p := range paths {
		if c22ModKey.MatchString(p) {
			return "identityref-module-prefix"
		}
	}
	for _, p := range paths {
		if c22RawBackslash(p) {
			return "backslash-in-key"
		}
	}
	for _, p := range paths {
		if strings.Contains(p, `\`) || !c22Canonical(p) {
			return "unescaped-key"
		}
	}
	for _, p := range paths {
		if c22BigNumKey.MatchString(p) {
			return "numeric-key-exponent" // with a schema the offending spelling is dropped, not shown
		}
	}
	return "paths"
}

// c22Cause names the reason for a non-empty diff between two requests with the same intent.
func c22Cause(updPaths []string, emptyOnly bool, mism map[string][2]interface{}, delsDiffer bool, nonKeyScalar bool) string {
	if len(updPaths) > 0 {
		if emptyOnly {
			return "empty-list-as-leaf"
		}
		return c22PathCause(updPaths, nonKeyScalar)
	}
	if len(mism) > 0 {
		for _, ab := range mism {
			if c22IsNumOrNums(ab[0]) != c22IsNumOrNums(ab[1]) {
				return "int64-as-string"
			}
		}
		for _, ab := range mism {
			if c22HasColonStr(ab[0]) != c22HasColonStr(ab[1]) {
				return "identityref-module-prefix"
			}
		}
		return "values"
	}
	if delsDiffer {
		return "leaf-delete-kept"
	}
	return "other"
}

func c22CauseOfDiff(d gnmidiff.SetRequestIntentDiff, nonKeyScalar bool) string {
	var ps []string
	emptyOnly := true
	for _, m := range []map[string]interface{}{d.MissingUpdates, d.ExtraUpdates} {
		for k, v := range m {
			ps = append(ps, k)
			if l, ok := v.([]interface{}); !ok || len(l) != 0 {
				emptyOnly = false
			}
		}
	}
	sort.Strings(ps)
	mm := map[string][2]interface{}{}
	for k, v := range d.MismatchedUpdates {
		mm[k] = [2]interface{}{v.A, v.B}
	}
	return c22Cause(ps, emptyOnly, mm, len(d.MissingDeletes)+len(d.ExtraDeletes) > 0, nonKeyScalar)
}

func c22PanicSig(v interface{}) string {
	if strings.Contains(fmt.Sprint(v), "comparing uncomparable type []interface") {
		return "dup-leaflist-panic"
	}
	return "panic"
}

// ---------------------------------------------------------------- the pair runner

type c22Runner struct {
	sum  *Summary
	cf   *caseFile
	tb   *c22Tables
	s    *c22Schema
	id   int
	seen map[string]bool
	// oracleOnly: do not record Coq cases (bulk enumeration in the thorough tier)
	oracleOnly bool
}

type c22Input struct {
	Pkg    string          `json:"pkg,omitempty"` // generated package whose schema the with-schema run uses
	Kind   string          `json:"kind"`
	Sub    string          `json:"sub,omitempty"`
	Mode   string          `json:"mode"`
	NonKey bool            `json:"non_key_scalar_in_list_entry,omitempty"`
	A      json.RawMessage `json:"a"`
	B      json.RawMessage `json:"b"`
}

// pair runs one (a, b): kind "refl" (a == b), a rewrite kind (same intent), or "mutation".
func (c *c22Runner) pair(kind, sub string, a, b *gpb.SetRequest, nonKey bool) {
	for _, mode := range []string{"noschema", "schema"} {
		var s *c22Schema
		if mode == "schema" {
			if c.s == nil {
				continue
			}
			s = c.s
		}
		o := c22Diff(a, b, s)
		in := c22Input{Kind: kind, Sub: sub, Mode: mode, NonKey: nonKey, A: c22JSON(a), B: c22JSON(b)}
		if c.s != nil {
			in.Pkg = c.s.pkg.Name
		}
		c.sum.count("outcome_"+mode, kind+":"+o.status())
		if mode == "noschema" && !c.oracleOnly {
			ta, oka := c.tb.req(a)
			tb, okb := c.tb.req(b)
			if oka && okb {
				c.cf.add(fmt.Sprintf("GDiff %d %s %s %s", c.id, ta, tb, c.tb.outTerm(o)))
				c.id++
				key := ta + "|" + tb
				if !c.seen[key] {
					c.seen[key] = true
					if len(a.Update)+len(a.Replace)+len(a.Delete) >= 2 && (kind == "refl" || !proto.Equal(a, b)) {
						c.sum.Nontrivial++
					}
				}
			} else {
				c.sum.count("unmodelled", kind)
			}
			c.sum.sample(map[string]interface{}{"kind": kind, "a": in.A, "b": in.B, "status": o.status()})
		}
		// ---- oracle: the property statement on the implementation
		c.sum.OracleRuns++
		if o.panicv != nil {
			c.sum.finding(Finding{Signature: c22PanicSig(o.panicv), What: "DiffSetRequest panics: " + fmt.Sprint(o.panicv), Input: in})
			continue
		}
		if o.err != nil {
			continue // the property only speaks about calls that return no error
		}
		switch kind {
		case "refl":
			if !c22DiffEmpty(o.diff) {
				c.sum.finding(Finding{Signature: "refl", What: "DiffSetRequest(a, a) reports differences", Input: in, Observed: c22DiffSummary(o.diff)})
			}
		case "mutation":
		default:
			if !c22DiffEmpty(o.diff) {
				cause := c22CauseOfDiff(o.diff, nonKey)
				c.sum.finding(Finding{Signature: kind + "/" + cause, What: "two SetRequests with the same intent (" + kind + " rewrite) get a non-empty diff", Input: in, Observed: c22DiffSummary(o.diff)})
			}
		}
		if kind != "refl" {
			c.sum.OracleRuns++
			o2 := c22Diff(b, a, s)
			if o2.status() != "ok" || !c22IsSwap(o.diff, o2.diff) {
				var obs interface{} = o2.status()
				if o2.status() == "ok" {
					obs = c22DiffSummary(o2.diff)
				}
				c.sum.finding(Finding{Signature: "swap", What: "DiffSetRequest(b, a) is not the mirror image of DiffSetRequest(a, b)", Input: in, Observed: obs, Expected: c22DiffSummary(o.diff)})
			}
		}
	}
}

// ---------------------------------------------------------------- synthetic requests

var c22SynNames = []string{"a", "b", "c", "m:a", "n:m:b", "x-y", "k", "k2"}

func (g *c22Gen) synScalar() interface{} {
	switch g.rng.Intn(8) {
	case 0:
		return g.rng.Intn(2) == 0
	case 1:
		return float64(g.rng.Intn(20) - 5)
	case 2:
		return pick(g.rng, []float64{1000000, 1234567, 999999, 100000, 4294967295, 1.5, -0.25, 1e21, 9007199254740993, 0.1, 1e-7, 123456789012})
	case 3:
		return randValue(g.rng, 4, []rune{'=', ']', '[', '\\', '/', ' ', ':', 'é'})
	case 4:
		return pick(g.rng, []string{"x=y", "a]b", "p/q", "m:ID", "1", "true", ""})
	}
	return pick(g.rng, []string{"x", "y", "z", "v1"})
}

func (g *c22Gen) synJSON(depth int) interface{} {
	switch k := g.rng.Intn(12); {
	case k < 3 || depth > 3:
		return g.synScalar()
	case k == 3:
		if g.rng.Intn(4) == 0 {
			return nil
		}
		return []interface{}{}
	case k == 4: // leaf-list, now and then heterogeneous
		var l []interface{}
		for n := 1 + g.rng.Intn(3); n > 0; n-- {
			l = append(l, g.synScalar())
		}
		if g.rng.Intn(6) == 0 {
			l = append(l, pick(g.rng, []interface{}{nil, map[string]interface{}{"a": 1.0}, []interface{}{"q"}}))
		}
		return l
	case k < 8: // list
		var l []interface{}
		for n := 1 + g.rng.Intn(3); n > 0; n-- {
			el := map[string]interface{}{}
			el[pick(g.rng, []string{"k", "k", "m:k", "id"})] = g.synScalar()
			if g.rng.Intn(3) == 0 {
				el["k2"] = g.synScalar()
			}
			if g.rng.Intn(2) == 0 {
				el[pick(g.rng, []string{"c", "cfg"})] = g.synJSON(depth + 2)
			}
			l = append(l, el)
		}
		if g.rng.Intn(10) == 0 {
			l = append(l, pick(g.rng, []interface{}{"str", nil, []interface{}{}}))
		}
		if g.rng.Intn(10) == 0 {
			l = append([]interface{}{pick(g.rng, []interface{}{nil, []interface{}{"z"}})}, l...)
		}
		return l
	}
	o := map[string]interface{}{}
	used := map[string]bool{}
	for n := g.rng.Intn(4); n > 0; n-- {
		name := pick(g.rng, c22SynNames)
		parts := strings.Split(name, ":")
		if used[parts[len(parts)-1]] {
			continue // two members that collide once the namespace is stripped: map-order dependent in Go
		}
		used[parts[len(parts)-1]] = true
		o[name] = g.synJSON(depth + 1)
	}
	return o
}

func (g *c22Gen) synPath() *gpb.Path {
	p := &gpb.Path{}
	for n := g.rng.Intn(4); n > 0; n-- {
		e := &gpb.PathElem{Name: pick(g.rng, []string{"a", "b", "c", "l", "a", "b"})}
		switch g.rng.Intn(30) {
		case 0:
			e.Name = ""
		case 1:
			e.Name = "a/"
		case 2:
			e.Name = "x/y"
		}
		if e.Name == "l" || g.rng.Intn(8) == 0 {
			e.Key = map[string]string{"k": pick(g.rng, []string{"x", "y", "x=y", "a]b", "1", "1e+06", "1000000", `b\s`})}
			if g.rng.Intn(6) == 0 {
				e.Key["k2"] = pick(g.rng, []string{"x", "true", ""})
			}
			if g.rng.Intn(40) == 0 {
				e.Key[""] = "v"
			}
		}
		p.Elem = append(p.Elem, e)
	}
	return p
}

func (g *c22Gen) synVal() *gpb.TypedValue {
	switch g.rng.Intn(14) {
	case 0:
		return &gpb.TypedValue{Value: &gpb.TypedValue_StringVal{StringVal: pick(g.rng, []string{"x", "y", "x=y", ""})}}
	case 1:
		return &gpb.TypedValue{Value: &gpb.TypedValue_IntVal{IntVal: pick(g.rng, []int64{0, 1, -5, 1000000, math.MaxInt64, math.MinInt64, 9007199254740993, -9007199254740995})}}
	case 2:
		return &gpb.TypedValue{Value: &gpb.TypedValue_UintVal{UintVal: pick(g.rng, []uint64{0, 1, 14, 1234567, math.MaxUint64, 1 << 53, 1<<53 + 1, 1<<53 + 3, 1<<54 + 2, 1<<54 + 6, 18446744073709549568})}}
	case 3:
		return &gpb.TypedValue{Value: &gpb.TypedValue_BoolVal{BoolVal: g.rng.Intn(2) == 0}}
	case 4:
		return &gpb.TypedValue{Value: &gpb.TypedValue_DoubleVal{DoubleVal: pick(g.rng, []float64{0, 1.5, 3.14, 1e21, 1e-7, -2.25, 100})}}
	case 5:
		return &gpb.TypedValue{Value: &gpb.TypedValue_BytesVal{BytesVal: []byte(randValue(g.rng, 5, nastyRunes))}}
	case 6, 7:
		a := &gpb.ScalarArray{}
		for n := g.rng.Intn(3); n > 0; n-- {
			a.Element = append(a.Element, g.synVal())
		}
		return &gpb.TypedValue{Value: &gpb.TypedValue_LeaflistVal{LeaflistVal: a}}
	case 8:
		switch g.rng.Intn(5) {
		case 0:
			return nil
		case 1:
			return &gpb.TypedValue{Value: &gpb.TypedValue_AsciiVal{AsciiVal: "x"}}
		case 2:
			return &gpb.TypedValue{Value: &gpb.TypedValue_JsonVal{JsonVal: []byte(`{"a":1}`)}}
		case 3:
			return &gpb.TypedValue{Value: &gpb.TypedValue_FloatVal{FloatVal: 1.5}}
		}
		return &gpb.TypedValue{}
	}
	js, _ := json.Marshal(g.synJSON(0))
	return &gpb.TypedValue{Value: &gpb.TypedValue_JsonIetfVal{JsonIetfVal: js}}
}

func (g *c22Gen) synReq() *gpb.SetRequest {
	r := &gpb.SetRequest{}
	if g.rng.Intn(3) == 0 {
		r.Prefix = g.synPath()
	}
	for n := pick(g.rng, []int{0, 0, 0, 1, 1, 2}); n > 0; n-- {
		r.Delete = append(r.Delete, g.synPath())
	}
	for n := pick(g.rng, []int{0, 0, 1, 1, 2}); n > 0; n-- {
		r.Replace = append(r.Replace, &gpb.Update{Path: g.synPath(), Val: g.synVal()})
	}
	for n := pick(g.rng, []int{0, 1, 1, 2, 3}); n > 0; n-- {
		r.Update = append(r.Update, &gpb.Update{Path: g.synPath(), Val: g.synVal()})
	}
	if len(r.Update) > 0 && g.rng.Intn(3) == 0 { // the same path twice: identical, conflicting or uncomparable values
		u := pick(g.rng, r.Update)
		v := u.Val
		if g.rng.Intn(3) == 0 {
			v = g.synVal()
		}
		r.Update = append(r.Update, &gpb.Update{Path: u.Path, Val: v})
	}
	return r
}

func (g *c22Gen) synMutate(a *gpb.SetRequest) *gpb.SetRequest {
	b := proto.Clone(a).(*gpb.SetRequest)
	switch g.rng.Intn(4) {
	case 0:
		b.Update = append(b.Update, &gpb.Update{Path: g.synPath(), Val: g.synVal()})
	case 1:
		if len(b.Update) > 0 {
			b.Update[g.rng.Intn(len(b.Update))].Val = g.synVal()
		}
	case 2:
		b.Delete = append(b.Delete, g.synPath())
	case 3:
		return g.synReq()
	}
	return b
}

// ---------------------------------------------------------------- corpus of confirmed failures

func c22MustPath(s string) *gpb.Path {
	p, err := ygot.StringToStructuredPath(s)
	if err != nil {
		panic(err)
	}
	return p
}

func c22JS(s string) *gpb.TypedValue {
	return &gpb.TypedValue{Value: &gpb.TypedValue_JsonIetfVal{JsonIetfVal: []byte(s)}}
}
func c22Str(s string) *gpb.TypedValue {
	return &gpb.TypedValue{Value: &gpb.TypedValue_StringVal{StringVal: s}}
}
func c22Uint(u uint64) *gpb.TypedValue {
	return &gpb.TypedValue{Value: &gpb.TypedValue_UintVal{UintVal: u}}
}
func c22LL(ss ...string) *gpb.TypedValue {
	a := &gpb.ScalarArray{}
	for _, s := range ss {
		a.Element = append(a.Element, c22Str(s))
	}
	return &gpb.TypedValue{Value: &gpb.TypedValue_LeaflistVal{LeaflistVal: a}}
}

func c22Upd(path string, v *gpb.TypedValue) *gpb.Update {
	return &gpb.Update{Path: c22MustPath(path), Val: v}
}

type c22Fixed struct {
	kind, sub string
	a, b      *gpb.SetRequest
	nonKey    bool
}

func c22Corpus() []c22Fixed {
	return []c22Fixed{
		{"json-vs-leaves", "update", &gpb.SetRequest{Update: []*gpb.Update{c22Upd("/top", c22JS(`{"l-minmax":[{"k":"x=y"}]}`))}},
			&gpb.SetRequest{Update: []*gpb.Update{c22Upd(`/top/l-minmax[k=x\=y]/k`, c22Str("x=y"))}}, false},
		{"json-vs-leaves", "update", &gpb.SetRequest{Update: []*gpb.Update{c22Upd("/top", c22JS(`{"l-str":[{"k":"x","v":1}]}`))}},
			&gpb.SetRequest{Update: []*gpb.Update{c22Upd(`/top/l-str[k=x]/k`, c22Str("x")), c22Upd(`/top/l-str[k=x]/v`, &gpb.TypedValue{Value: &gpb.TypedValue_IntVal{IntVal: 1}})}}, true},
		// a list keyed by a 32-bit number (not in the v-main corpus: schema-less only)
		{"json-vs-leaves", "update", &gpb.SetRequest{Update: []*gpb.Update{c22Upd("/ifs", c22JS(`{"subif":[{"index":1234567}]}`))}},
			&gpb.SetRequest{Update: []*gpb.Update{c22Upd(`/ifs/subif[index=1234567]/index`, c22Uint(1234567))}}, false},
		{"json-vs-leaves", "update", &gpb.SetRequest{Delete: []*gpb.Path{c22MustPath("/top/nest/b")}, Update: []*gpb.Update{c22Upd("/top/nest", c22JS(`{"b":3}`))}},
			&gpb.SetRequest{Delete: []*gpb.Path{c22MustPath("/top/nest/b")}, Update: []*gpb.Update{c22Upd("/top/nest/b", &gpb.TypedValue{Value: &gpb.TypedValue_IntVal{IntVal: 3}})}}, false},
		{"json-vs-leaves", "update", &gpb.SetRequest{Update: []*gpb.Update{c22Upd("/top", c22JS(`{"scalars":{"u64":"5"}}`))}},
			&gpb.SetRequest{Update: []*gpb.Update{c22Upd("/top/scalars/u64", c22Uint(5))}}, false},
		{"dup", "leaflist", &gpb.SetRequest{Update: []*gpb.Update{c22Upd("/top/lls/ll-str", c22LL("a", "b"))}},
			&gpb.SetRequest{Update: []*gpb.Update{c22Upd("/top/lls/ll-str", c22LL("a", "b")), c22Upd("/top/lls/ll-str", c22LL("a", "b"))}}, false},
		{"dup", "json", &gpb.SetRequest{Update: []*gpb.Update{c22Upd("/top/lls", c22JS(`{"ll-str":["a"]}`))}},
			&gpb.SetRequest{Update: []*gpb.Update{c22Upd("/top/lls", c22JS(`{"ll-str":["a"]}`)), c22Upd("/top/lls", c22JS(`{"ll-str":["a"]}`))}}, false},
		{"json-split", "update", &gpb.SetRequest{Update: []*gpb.Update{c22Upd("/top/scalars", c22JS(`{"str":"a","u8":3}`))}},
			&gpb.SetRequest{Update: []*gpb.Update{c22Upd("/top/scalars", c22JS(`{"u8":3}`)), c22Upd("/top/scalars", c22JS(`{"str":"a"}`))}}, false},
		// a leaf-list that is a strict prefix of the other one (also the empty one): a mismatch both ways
		{"mutation", "leaflist-prefix", &gpb.SetRequest{Update: []*gpb.Update{c22Upd("/top/lls/ll-str", c22LL("a"))}},
			&gpb.SetRequest{Update: []*gpb.Update{c22Upd("/top/lls/ll-str", c22LL("a", "b"))}}, false},
		{"mutation", "leaflist-prefix", &gpb.SetRequest{Update: []*gpb.Update{c22Upd("/top/lls", c22JS(`{"ll-str":["a","b"]}`))}},
			&gpb.SetRequest{Update: []*gpb.Update{c22Upd("/top/lls", c22JS(`{"ll-str":["a","b","c"]}`))}}, false},
		{"mutation", "leaflist-prefix", &gpb.SetRequest{Update: []*gpb.Update{c22Upd("/top/lls", c22JS(`{"ll-str":[]}`))}},
			&gpb.SetRequest{Update: []*gpb.Update{c22Upd("/top/lls", c22JS(`{"ll-str":["a"]}`))}}, false},
		// with a schema the leaf under an escaped key is silently dropped from both intents
		{"mutation", "value-under-escaped-key", &gpb.SetRequest{Update: []*gpb.Update{c22Upd(`/top/l-str[k=x\=y]/c/z`, c22Str("1"))}},
			&gpb.SetRequest{Update: []*gpb.Update{c22Upd(`/top/l-str[k=x\=y]/c/z`, c22Str("2"))}}, false},
	}
}

// ---------------------------------------------------------------- stream

func c22Header(tb *c22Tables) string {
	var fm, gm []string
	var bits []uint64
	for b := range tb.ffmt {
		bits = append(bits, b)
	}
	sort.Slice(bits, func(i, j int) bool { return bits[i] < bits[j] })
	for _, b := range bits {
		fm = append(fm, fmt.Sprintf("(%d, %s)", b, coqStr(tb.ffmt[b])))
	}
	var ks, nm []string
	for k := range tb.gfmt {
		ks = append(ks, k)
	}
	sort.Strings(ks)
	for _, k := range ks {
		gm = append(gm, "("+k+", "+coqStr(tb.gfmt[k])+")")
		nm = append(nm, "("+k+", "+coqStr(tb.nfmt[k])+")")
	}
	return "From Ygot Require Import Base.Base Path.PathString Tree.Tree Diffs.GnmiDiff Corr.GnmiDiffCorr.\nOpen Scope N_scope.\n" +
		"Definition fo : gd_oracle := gd_mk_oracle " + coqList(fm) + " " + coqList(gm) + " " + coqList(nm) + ".\n"
}

func c22Pkgs() []*c22Schema {
	var out []*c22Schema
	for _, name := range []string{"vmain_u", "voc_u"} {
		p := reg.Get(name)
		if p == nil {
			continue
		}
		s, err := p.Schema()
		if err != nil {
			continue
		}
		out = append(out, &c22Schema{pkg: p, schema: s})
	}
	return out
}

func c22PkgNamed(pkgs []*c22Schema, name string) *c22Schema {
	for _, p := range pkgs {
		if p.pkg.Name == name {
			return p
		}
	}
	if name == "" {
		return nil // a schema-less case (synthetic / exhaustive)
	}
	return pkgs[0]
}

func c22ReadReplay(v interface{}) error {
	b, err := os.ReadFile(replayFile)
	if err != nil {
		return err
	}
	var wrap struct {
		Case json.RawMessage `json:"case"`
	}
	if err := json.Unmarshal(b, &wrap); err != nil {
		return err
	}
	return json.Unmarshal(wrap.Case, v)
}

func c22GdiffStream(rng *rand.Rand, n int, tier string, out string) (*Summary, error) {
	sum := &Summary{Rule: "pairs of SetRequests (a, b): b = a (refl), b = one of the five intent-preserving rewrites of a (JSON update or replace vs leaf updates, other prefix split, reordered updates, leaf replace vs update, duplicated update), or b = a mutation of a (swap law); a is built from a random tree of the generated package (leaf updates + JSON sub-trees + deletes + replaces) or is synthetic (small alphabet, arbitrary JSON, conflicting / duplicated / malformed updates). Non-trivial: a has at least two operations and b differs from a textually (or the case is refl); distinct by input."}
	tb := c22NewTables()
	cf := &caseFile{typ: "gcase", fn: "gd_mismatches fo"}
	pkgs := c22Pkgs()
	if len(pkgs) == 0 {
		return nil, fmt.Errorf("no generated package registered")
	}
	run := &c22Runner{sum: sum, cf: cf, tb: tb, s: pkgs[0], seen: map[string]bool{}}
	finish := func() (*Summary, error) {
		sum.Cases = run.id
		cf.header = c22Header(tb)
		files, err := cf.write(out, "gdiff", 150)
		sum.Extra = map[string]interface{}{"case_files": files}
		return sum, err
	}

	if replayFile != "" {
		var in c22Input
		if err := c22ReadReplay(&in); err != nil {
			return nil, err
		}
		a, b := &gpb.SetRequest{}, &gpb.SetRequest{}
		if err := protojson.Unmarshal(in.A, a); err != nil {
			return nil, err
		}
		if err := protojson.Unmarshal(in.B, b); err != nil {
			return nil, err
		}
		run.s = c22PkgNamed(pkgs, in.Pkg)
		run.pair(in.Kind, in.Sub, a, b, in.NonKey)
		return finish()
	}

	for _, f := range c22Corpus() {
		sum.count("kind", "corpus:"+f.kind)
		run.pair(f.kind, f.sub, f.a, f.b, f.nonKey)
	}
	for run.id < n {
		if rng.Intn(4) == 0 {
			g := &c22Gen{rng: rng, s: pkgs[0]}
			a := g.synReq()
			sum.count("kind", "synthetic")
			// synthetic paths are not in the schema: schema-less only
			save := run.s
			run.s = nil
			run.pair("refl", "synthetic", a, a, false)
			run.pair("mutation", "synthetic", a, g.synMutate(a), false)
			run.s = save
			continue
		}
		ps := pkgs[rng.Intn(len(pkgs))]
		g := &c22Gen{rng: rng, s: ps, tg: newTreeGen(rng, ps.pkg)}
		g.tg.maxList = 2
		run.s = ps
		b := g.base()
		if b == nil {
			continue
		}
		nonKey := c22HasNonKeyScalar(b.covered)
		common := c22Common(b.r.paths())
		sum.count("pkg", ps.pkg.Name)
		sum.count("ops", fmt.Sprintf("del=%d rep=%d upd<=%d", len(b.r.dels), len(b.r.reps), (len(b.r.upds)+4)/5*5))
		sum.count("tree", fmt.Sprintf("oc-pruned=%v non-key-scalar=%v modname=%v", b.pruned, nonKey, b.modName))
		rws := g.rewrites(b)
		split := 0
		if len(rws) > 0 {
			split = rws[0].splitA
		} else if common > 0 {
			split = rng.Intn(common + 1)
		}
		a := b.r.build(split)
		run.pair("refl", "", a, a, nonKey)
		for _, rw := range rws {
			sum.count("kind", rw.kind+":"+rw.sub)
			run.pair(rw.kind, rw.sub, b.r.build(rw.splitA), rw.b.build(rw.splitB), nonKey)
		}
		sum.count("kind", "mutation")
		run.pair("mutation", "", a, g.mutate(b).build(split), nonKey)
	}
	if tier == "thorough" {
		c22Exhaustive(run)
	}
	return finish()
}

// c22Exhaustive: every request with at most two operations over a small universe, against itself
// and against the request with its operations reversed (oracle on all, model on every 7th).
func c22Exhaustive(run *c22Runner) {
	paths := []string{"/a", "/a/b", "/a/b/c", "/l[k=x]"}
	vals := []*gpb.TypedValue{c22Uint(1), c22Str("s"), c22LL("x"), c22JS(`{"b":1}`), c22JS(`{"b":{"c":2}}`)}
	type op struct {
		kind int
		p    string
		v    *gpb.TypedValue
	}
	var ops []op
	for _, p := range paths {
		ops = append(ops, op{0, p, nil})
		for _, v := range vals {
			ops = append(ops, op{1, p, v}, op{2, p, v})
		}
	}
	mk := func(os ...op) *gpb.SetRequest {
		r := &gpb.SetRequest{}
		for _, o := range os {
			switch o.kind {
			case 0:
				r.Delete = append(r.Delete, c22MustPath(o.p))
			case 1:
				r.Replace = append(r.Replace, c22Upd(o.p, o.v))
			case 2:
				r.Update = append(r.Update, c22Upd(o.p, o.v))
			}
		}
		return r
	}
	save := run.s
	run.s = nil
	cnt := 0
	for _, o1 := range ops {
		for _, o2 := range ops {
			cnt++
			run.oracleOnly = cnt%7 != 0
			a, b := mk(o1, o2), mk(o2, o1)
			run.pair("refl", "exhaustive", a, a, false)
			kind := "mutation"
			if o1.kind == 2 && o2.kind == 2 {
				kind = "reorder" // a permutation of the updates
			}
			run.pair(kind, "exhaustive", a, b, false)
		}
	}
	run.oracleOnly = false
	run.s = save
	run.sum.count("kind", fmt.Sprintf("exhaustive-pairs:%d", cnt))
}
