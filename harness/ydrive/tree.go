//go:build verif

package main

// tree.go — the bridge between generated GoStruct values and the Coq tree model:
//   schemaTerm : Go type + embedded yang schema  -> Coq `schema` term   (the schema translator)
//   treeTerm   : GoStruct value                  -> Coq `tree` term
//   genTree    : random schema-conforming GoStruct value (reflection-driven)
// plus helpers to enumerate leaves / paths used by several streams.

import (
	"fmt"
	"math"
	"math/rand"
	"reflect"
	"sort"
	"strconv"
	"strings"

	"github.com/openconfig/goyang/pkg/yang"
	"github.com/openconfig/ygot/internal/verifharness/reg"
	"github.com/openconfig/ygot/util"
	"github.com/openconfig/ygot/ygot"
	"github.com/openconfig/ygot/ytypes"
)

// ---------------------------------------------------------------- floats

// floatPool: the decimal64 values the generators use (all exactly printable).
var floatPool = []float64{0.00001, 0.00000001, 123456.78901234, 123456.78, 16777217, 16777217.25, -8388609.5, 0, 1, -1, 1.5, -2.25, 3.14, 100.01, 150, 0.5, 12.3, 4.2, -5.5, 5.5, 199.99, 0.1, 7, 42.42, 1234.5, 0.001, 2.125}

// floatsSeen collects every float that crosses the model boundary in a run, for the oracle tables.
var floatsSeen = map[uint64]float64{}
var floatTextsSeen = map[string]bool{}

func noteFloat(f float64) uint64 {
	b := math.Float64bits(f)
	floatsSeen[b] = f
	return b
}

// refFloatText is the reference rendering of a decimal64 held as float64 (what ygot is
// expected to emit): shortest decimal digits, no exponent.
func refFloatText(f float64) string { return strconv.FormatFloat(f, 'f', -1, 64) }

// floatOracleTerm prints the Coq float_oracle built from everything noted so far.
func floatOracleTerm() string {
	var fm, ps []string
	bitsSorted := make([]uint64, 0, len(floatsSeen))
	for b := range floatsSeen {
		bitsSorted = append(bitsSorted, b)
	}
	sort.Slice(bitsSorted, func(i, j int) bool { return bitsSorted[i] < bitsSorted[j] })
	for _, b := range bitsSorted {
		t := refFloatText(floatsSeen[b])
		fm = append(fm, fmt.Sprintf("(%d,%s)", b, coqStr(t)))
		floatTextsSeen[t] = true
	}
	texts := make([]string, 0, len(floatTextsSeen))
	for t := range floatTextsSeen {
		texts = append(texts, t)
	}
	sort.Strings(texts)
	for _, t := range texts {
		if f, err := strconv.ParseFloat(t, 64); err == nil {
			ps = append(ps, fmt.Sprintf("(%s,%d)", coqStr(t), math.Float64bits(f)))
		}
	}
	return "(mk_float_oracle " + coqList(fm) + " " + coqList(ps) + ")"
}

// ---------------------------------------------------------------- schema translator

type schemaCtx struct {
	pkg  *reg.Pkg
	root ygot.ValidatedGoStruct
}

func coqZ(z int64) string {
	if z < 0 {
		return fmt.Sprintf("(%d)%%Z", z)
	}
	return fmt.Sprintf("%d%%Z", z)
}

func coqZu(z uint64) string { return fmt.Sprintf("%d%%Z", z) }

var kindNames = map[yang.TypeKind]string{yang.Yint8: "I8", yang.Yint16: "I16", yang.Yint32: "I32", yang.Yint64: "I64",
	yang.Yuint8: "U8", yang.Yuint16: "U16", yang.Yuint32: "U32", yang.Yuint64: "U64"}

func numberZ(n yang.Number) string {
	// integer ranges only (FractionDigits == 0)
	if n.Negative {
		if n.Value == 1<<63 {
			return "(-9223372036854775808)%Z"
		}
		return fmt.Sprintf("(-%d)%%Z", n.Value)
	}
	return fmt.Sprintf("%d%%Z", n.Value)
}

func lenRange(r yang.YangRange) string {
	var parts []string
	for _, p := range r {
		parts = append(parts, fmt.Sprintf("(%d,%d)", p.Min.Value, p.Max.Value))
	}
	return coqList(parts)
}

// enumTypeFor finds the Go enum type name among the enum types registered for the leaf whose
// ΛEnum table covers the given YANG names.
func (c *schemaCtx) enumTypeFor(e *yang.Entry, names []string) string {
	ets := c.root.ΛEnumTypeMap()[schemaDataPath(e)]
	best := ""
	for _, t := range ets {
		tbl := c.pkg.Enum[t.Name()]
		have := map[string]bool{}
		for _, d := range tbl {
			have[d.Name] = true
		}
		ok := true
		for _, n := range names {
			if !have[n] {
				ok = false
			}
		}
		if ok && (best == "" || len(tbl) < len(c.pkg.Enum[best])) {
			best = t.Name()
		}
	}
	return best
}

// schemaDataPath mirrors ytypes.absoluteSchemaDataPath (the key of ΛEnumTypes).
func schemaDataPath(e *yang.Entry) string {
	out := []string{e.Name}
	for s := e.Parent; s != nil; s = s.Parent {
		if !util.IsChoiceOrCase(s) && !util.IsFakeRoot(s) {
			out = append([]string{s.Name}, out...)
		}
	}
	return "/" + strings.Join(out, "/")
}

func identityNames(id *yang.Identity) []string {
	var out []string
	for _, v := range id.Values {
		out = append(out, v.Name)
	}
	return out
}

func (c *schemaCtx) ytypeTerm(e *yang.Entry, t *yang.YangType) string {
	switch t.Kind {
	case yang.Yint8, yang.Yint16, yang.Yint32, yang.Yint64, yang.Yuint8, yang.Yuint16, yang.Yuint32, yang.Yuint64:
		var parts []string
		for _, p := range t.Range {
			parts = append(parts, "("+numberZ(p.Min)+","+numberZ(p.Max)+")")
		}
		// goyang stores the full default range when the type is unrestricted; keep it — it is what the code checks
		return "(YInt " + kindNames[t.Kind] + " " + coqList(parts) + ")"
	case yang.Ydecimal64:
		return fmt.Sprintf("(YDec %d)", t.FractionDigits)
	case yang.Ystring:
		return fmt.Sprintf("(YStr %s %d%%nat)", lenRange(t.Length), len(t.Pattern)+len(t.POSIXPattern))
	case yang.Ybinary:
		return "(YBin " + lenRange(t.Length) + ")"
	case yang.Ybool:
		return "YBool"
	case yang.Yempty:
		return "YEmpty"
	case yang.Yenum:
		return "(YEnum " + coqStr(c.enumTypeFor(e, t.Enum.Names())) + ")"
	case yang.Yidentityref:
		return "(YIdref " + coqStr(c.enumTypeFor(e, identityNames(t.IdentityBase))) + ")"
	case yang.Yunion:
		var ms []string
		for _, m := range t.Type {
			ms = append(ms, c.ytypeTerm(e, m))
		}
		return "(YUnion " + coqList(ms) + ")"
	case yang.Yleafref:
		target, err := util.FindLeafRefSchema(e, t.Path)
		if err != nil || target == nil || target.Type == nil {
			return "(YLeafref (YStr [] 0%nat))"
		}
		return "(YLeafref " + c.ytypeTerm(target, target.Type) + ")"
	}
	return "(YStr [] 0%nat)" // bits etc.: not in the corpus
}

func splitTag(tag string) string {
	if tag == "" {
		return "[]"
	}
	var alts []string
	for _, a := range strings.Split(tag, "|") {
		a = strings.TrimPrefix(a, "/")
		var els []string
		for _, e := range strings.Split(a, "/") {
			if e != "" {
				els = append(els, coqStr(e))
			}
		}
		alts = append(alts, coqList(els))
	}
	return coqList(alts)
}

func caseNames(e *yang.Entry) []string {
	var names []string
	for p := e.Parent; p != nil && util.IsChoiceOrCase(p); p = p.Parent {
		names = append([]string{p.Name}, names...)
	}
	return names
}

func listKeyNames(e *yang.Entry) []string { return strings.Fields(e.Key) }

func (c *schemaCtx) fieldsTerm(t reflect.Type, e *yang.Entry) string {
	var fs []string
	for i := 0; i < t.NumField(); i++ {
		f := t.Field(i)
		if _, ok := f.Tag.Lookup("path"); !ok {
			continue // annotation fields etc.
		}
		ce, err := util.ChildSchema(e, f)
		if err != nil || ce == nil {
			continue
		}
		fi := fmt.Sprintf("{| f_go := %s; f_paths := %s; f_mods := %s; f_spaths := %s; f_smods := %s; f_presence := %s; f_cfg := %s; f_case := %s |}",
			coqStr(f.Name), splitTag(f.Tag.Get("path")), splitTag(f.Tag.Get("module")), splitTag(f.Tag.Get("shadow-path")),
			splitTag(f.Tag.Get("shadow-module")), coqBool(util.IsYangPresence(f)), coqBool(!ce.ReadOnly()), coqStrList(caseNames(ce)))
		fs = append(fs, "("+fi+", "+c.nodeTerm(f.Type, ce)+")")
	}
	return coqList(fs)
}

func minMax(e *yang.Entry) (uint64, uint64) {
	var mn, mx uint64
	if e.ListAttr != nil {
		mn, mx = e.ListAttr.MinElements, e.ListAttr.MaxElements
		if mx == math.MaxUint64 {
			mx = 0
		}
	}
	return mn, mx
}

func isOrderedMapType(t reflect.Type) bool {
	return t.Kind() == reflect.Ptr && t.Implements(reflect.TypeOf((*ygot.GoOrderedMap)(nil)).Elem())
}

// entryTypeOfOrderedMap returns the struct type of the entries of an ordered map type.
func entryTypeOfOrderedMap(t reflect.Type) reflect.Type {
	m, _ := t.MethodByName("Values")
	return m.Type.Out(0).Elem().Elem() // []*Entry -> Entry
}

// leafDefaults: the default of a leaf is its own default statement or, without one, the default of
// its type (a typedef's default; RFC 7950 7.6.1), unless the leaf is mandatory. (goyang's
// Entry.DefaultValues needs the parsed statement, which the embedded schema does not carry.)
func leafDefaults(e *yang.Entry) []string {
	if len(e.Default) > 0 {
		return e.Default
	}
	if e.Type != nil && e.Type.HasDefault && e.Mandatory != yang.TSTrue {
		return []string{e.Type.Default}
	}
	return nil
}

func (c *schemaCtx) nodeTerm(t reflect.Type, e *yang.Entry) string {
	switch {
	case e.IsLeaf():
		return "(SLeaf " + c.ytypeTerm(e, e.Type) + " " + coqStrList(leafDefaults(e)) + ")"
	case e.IsLeafList():
		mn, mx := minMax(e)
		return fmt.Sprintf("(SLeafList %s %d %d)", c.ytypeTerm(e, e.Type), mn, mx)
	case e.IsList():
		mn, mx := minMax(e)
		switch {
		case isOrderedMapType(t):
			return fmt.Sprintf("(SList true %s %d %d %s)", coqStrList(listKeyNames(e)), mn, mx, c.fieldsTerm(entryTypeOfOrderedMap(t), e))
		case t.Kind() == reflect.Map:
			return fmt.Sprintf("(SList false %s %d %d %s)", coqStrList(listKeyNames(e)), mn, mx, c.fieldsTerm(t.Elem().Elem(), e))
		case t.Kind() == reflect.Slice:
			return "(SUnkeyed " + c.fieldsTerm(t.Elem().Elem(), e) + ")"
		}
	case e.IsDir():
		if t.Kind() == reflect.Ptr {
			return "(SCont " + c.fieldsTerm(t.Elem(), e) + ")"
		}
	}
	return "(SCont [])"
}

// schemaTerm prints the schema of the package's root struct and its enum environment.
func schemaTerm(p *reg.Pkg) (schema string, env string) {
	root := p.NewRoot()
	c := &schemaCtx{pkg: p, root: root}
	t := reflect.TypeOf(root).Elem()
	schema = "(SCont " + c.fieldsTerm(t, p.SchemaTree[t.Name()]) + ")"
	var names []string
	for n := range p.Enum {
		names = append(names, n)
	}
	sort.Strings(names)
	var tabs []string
	for _, n := range names {
		var nums []int64
		for k := range p.Enum[n] {
			nums = append(nums, k)
		}
		sort.Slice(nums, func(i, j int) bool { return nums[i] < nums[j] })
		var vals []string
		for _, k := range nums {
			d := p.Enum[n][k]
			vals = append(vals, fmt.Sprintf("{| ev_num := %s; ev_name := %s; ev_mod := %s |}", coqZ(k), coqStr(d.Name), coqStr(d.DefiningModule)))
		}
		tabs = append(tabs, "("+coqStr(n)+", "+coqList(vals)+")")
	}
	return schema, coqList(tabs)
}

// ---------------------------------------------------------------- tree dump

func bytesTerm(b []byte) string {
	items := make([]string, len(b))
	for i, x := range b {
		items[i] = strconv.Itoa(int(x))
	}
	return coqList(items)
}

var goKindNames = map[reflect.Kind]string{reflect.Int8: "I8", reflect.Int16: "I16", reflect.Int32: "I32", reflect.Int64: "I64",
	reflect.Uint8: "U8", reflect.Uint16: "U16", reflect.Uint32: "U32", reflect.Uint64: "U64"}

var goEnumT = reflect.TypeOf((*ygot.GoEnum)(nil)).Elem()

// scalarTerm prints a set leaf value (already dereferenced); ok=false means "unset".
func scalarTerm(v reflect.Value) (string, bool) {
	if v.Kind() == reflect.Interface || v.Kind() == reflect.Ptr {
		if v.IsNil() {
			return "", false
		}
		v = v.Elem()
		if v.Kind() == reflect.Struct && v.NumField() == 1 { // wrapper union
			return scalarTerm(v.Field(0))
		}
		return scalarTerm(v)
	}
	t := v.Type()
	switch {
	case t.Implements(goEnumT) && v.Kind() == reflect.Int64:
		if v.Int() == 0 {
			return "", false
		}
		return "(VEnum " + coqStr(t.Name()) + " " + coqZ(v.Int()) + ")", true
	case t.Name() == ygot.EmptyTypeName && v.Kind() == reflect.Bool:
		if !v.Bool() {
			return "", false
		}
		return "VEmpty", true
	case v.Kind() == reflect.Slice && t.Elem().Kind() == reflect.Uint8:
		if v.IsNil() {
			return "", false
		}
		return "(VBin " + bytesTerm(v.Bytes()) + ")", true
	}
	switch v.Kind() {
	case reflect.Int8, reflect.Int16, reflect.Int32, reflect.Int64:
		return "(VInt " + goKindNames[v.Kind()] + " " + coqZ(v.Int()) + ")", true
	case reflect.Uint8, reflect.Uint16, reflect.Uint32, reflect.Uint64:
		return "(VInt " + goKindNames[v.Kind()] + " " + coqZu(v.Uint()) + ")", true
	case reflect.String:
		return "(VStr " + coqStr(v.String()) + ")", true
	case reflect.Bool:
		return "(VBool " + coqBool(v.Bool()) + ")", true
	case reflect.Float64:
		return fmt.Sprintf("(VDec %d)", noteFloat(v.Float())), true
	}
	return "(VStr " + coqStr(fmt.Sprintf("?%v", v.Interface())) + ")", true
}

// sortKey mirrors Tree.v's scalar_sortkey: the canonical order of Go-map list entries.
func sortKey(v reflect.Value) string {
	if v.Kind() == reflect.Interface || v.Kind() == reflect.Ptr {
		if v.IsNil() {
			return ""
		}
		v = v.Elem()
		if v.Kind() == reflect.Struct && v.NumField() == 1 {
			return sortKey(v.Field(0))
		}
		return sortKey(v)
	}
	if v.Type().Implements(goEnumT) && v.Kind() == reflect.Int64 {
		return "e" + v.Type().Name() + ":" + strconv.FormatInt(v.Int(), 10)
	}
	switch v.Kind() {
	case reflect.Int8, reflect.Int16, reflect.Int32, reflect.Int64:
		return "i" + strconv.FormatInt(v.Int(), 10)
	case reflect.Uint8, reflect.Uint16, reflect.Uint32, reflect.Uint64:
		return "i" + strconv.FormatUint(v.Uint(), 10)
	case reflect.String:
		return "s" + v.String()
	case reflect.Bool:
		if v.Type().Name() == ygot.EmptyTypeName {
			return "n"
		}
		return "b" + strconv.FormatBool(v.Bool())
	case reflect.Float64:
		return "d" + strconv.FormatUint(math.Float64bits(v.Float()), 10)
	case reflect.Slice:
		return "x" + string(v.Bytes())
	}
	return ""
}

type keyedEntry struct {
	keys  []reflect.Value
	entry reflect.Value
}

func keyValues(k reflect.Value) []reflect.Value {
	if k.Kind() == reflect.Struct {
		var out []reflect.Value
		for i := 0; i < k.NumField(); i++ {
			out = append(out, k.Field(i))
		}
		return out
	}
	return []reflect.Value{k}
}

func lessKeys(a, b []reflect.Value) bool {
	for i := range a {
		x, y := sortKey(a[i]), sortKey(b[i])
		if x != y {
			return runesLess(x, y)
		}
	}
	return false
}

// runesLess: code-point lexicographic order (= byte order for valid UTF-8).
func runesLess(a, b string) bool { return a < b }

func entriesTerm(es []keyedEntry) string {
	var items []string
	for _, e := range es {
		var ks []string
		for _, k := range e.keys {
			s, ok := scalarTerm(k)
			if !ok {
				// an unset enum key (value 0) or nil union key can be produced by Unmarshal
				if k.Kind() == reflect.Int64 {
					s = "(VEnum " + coqStr(k.Type().Name()) + " 0%Z)"
				} else {
					s = "(VStr [])"
				}
			}
			ks = append(ks, s)
		}
		items = append(items, "("+coqList(ks)+", "+structTerm(e.entry)+")")
	}
	return coqList(items)
}

func orderedEntries(om ygot.GoOrderedMap) []keyedEntry {
	v := reflect.ValueOf(om)
	keys := v.MethodByName("Keys").Call(nil)[0]
	vals := v.MethodByName("Values").Call(nil)[0]
	var out []keyedEntry
	for i := 0; i < keys.Len(); i++ {
		out = append(out, keyedEntry{keys: keyValues(keys.Index(i)), entry: vals.Index(i)})
	}
	return out
}

// fieldTerm prints the value of one struct field; ok=false when the field is unset.
func fieldTerm(v reflect.Value) (string, bool) {
	t := v.Type()
	switch {
	case isOrderedMapType(t):
		if v.IsNil() {
			return "", false
		}
		return "(TList " + entriesTerm(orderedEntries(v.Interface().(ygot.GoOrderedMap))) + ")", true
	case t.Kind() == reflect.Map:
		if v.IsNil() {
			return "", false
		}
		var es []keyedEntry
		it := v.MapRange()
		for it.Next() {
			es = append(es, keyedEntry{keys: keyValues(it.Key()), entry: it.Value()})
		}
		sort.Slice(es, func(i, j int) bool { return lessKeys(es[i].keys, es[j].keys) })
		return "(TList " + entriesTerm(es) + ")", true
	case t.Kind() == reflect.Ptr && t.Elem().Kind() == reflect.Struct:
		if v.IsNil() {
			return "", false
		}
		return structTerm(v), true
	case t.Kind() == reflect.Slice && t.Elem().Kind() == reflect.Ptr && t.Elem().Elem().Kind() == reflect.Struct:
		if v.IsNil() {
			return "", false
		}
		var items []string
		for i := 0; i < v.Len(); i++ {
			items = append(items, structTerm(v.Index(i)))
		}
		return "(TUnkeyed " + coqList(items) + ")", true
	case t.Kind() == reflect.Slice && !(t.Elem().Kind() == reflect.Uint8 && t.Name() == ygot.BinaryTypeName):
		if v.IsNil() {
			return "", false
		}
		var items []string
		for i := 0; i < v.Len(); i++ {
			s, ok := scalarTerm(v.Index(i))
			if !ok {
				s = "(VStr [])"
			}
			items = append(items, s)
		}
		return "(TLeafList " + coqList(items) + ")", true
	}
	s, ok := scalarTerm(v)
	if !ok {
		return "", false
	}
	return "(TLeaf " + s + ")", true
}

// structTerm prints a non-nil struct pointer as TCont.
func structTerm(v reflect.Value) string {
	if v.Kind() == reflect.Interface {
		v = v.Elem()
	}
	s := v.Elem()
	var fs []string
	for i := 0; i < s.NumField(); i++ {
		if _, ok := s.Type().Field(i).Tag.Lookup("path"); !ok {
			continue
		}
		if t, ok := fieldTerm(s.Field(i)); ok {
			fs = append(fs, "("+coqStr(s.Type().Field(i).Name)+", "+t+")")
		}
	}
	return "(TCont " + coqList(fs) + ")"
}

// treeTerm prints a GoStruct.
func treeTerm(g ygot.GoStruct) string { return structTerm(reflect.ValueOf(g)) }

// ---------------------------------------------------------------- random trees

type treeGen struct {
	rng  *rand.Rand
	pkg  *reg.Pkg
	root ygot.ValidatedGoStruct
	// knobs
	pField     float64 // probability that an optional field is set
	maxList    int
	emptyLL    bool // allow non-nil empty leaf-lists
	emptyConts bool // allow empty non-presence containers
	nastyStr   bool // strings drawn from the nasty alphabet
	bigBin     bool // unrestricted binary values of a kilobyte and more now and then
	leafCount  int
}

func newTreeGen(rng *rand.Rand, pkg *reg.Pkg) *treeGen {
	return &treeGen{rng: rng, pkg: pkg, pField: 0.45, maxList: 3, nastyStr: true}
}

func clampRange(t *yang.YangType) (lo, hi yang.Number, parts yang.YangRange) {
	return yang.Number{}, yang.Number{}, t.Range
}

func numToInt64(n yang.Number) int64 {
	if n.Negative {
		return -int64(n.Value)
	}
	if n.Value > math.MaxInt64 {
		return math.MaxInt64
	}
	return int64(n.Value)
}

// genInt returns a value inside the type's range (boundaries over-weighted).
func (g *treeGen) genInt(t *yang.YangType) (int64, uint64, bool) {
	signed := t.Kind == yang.Yint8 || t.Kind == yang.Yint16 || t.Kind == yang.Yint32 || t.Kind == yang.Yint64
	parts := t.Range
	if len(parts) == 0 {
		parts = yang.BaseTypedefs[t.Kind.String()].YangType.Range
	}
	p := parts[g.rng.Intn(len(parts))]
	if signed {
		lo, hi := numToInt64(p.Min), numToInt64(p.Max)
		switch g.rng.Intn(4) {
		case 0:
			return lo, 0, true
		case 1:
			return hi, 0, true
		}
		span := uint64(hi - lo)
		if span == 0 {
			return lo, 0, true
		}
		d := g.rng.Uint64()
		if span != math.MaxUint64 {
			d = d % (span + 1)
		}
		if g.rng.Intn(2) == 0 && span > 20 {
			d = uint64(g.rng.Intn(20))
		}
		return lo + int64(d), 0, true
	}
	lo, hi := p.Min.Value, p.Max.Value
	switch g.rng.Intn(4) {
	case 0:
		return 0, lo, false
	case 1:
		return 0, hi, false
	}
	span := hi - lo
	if span == 0 {
		return 0, lo, false
	}
	d := g.rng.Uint64()
	if span != math.MaxUint64 {
		d = d % (span + 1)
	}
	if g.rng.Intn(2) == 0 && span > 20 {
		d = uint64(g.rng.Intn(20))
	}
	return 0, lo + d, false
}

func (g *treeGen) genString(t *yang.YangType, inUnion bool) string {
	for try := 0; try < 60; try++ {
		var s string
		if len(t.Pattern) > 0 || len(t.POSIXPattern) > 0 {
			// small grammar that covers the corpus patterns
			n := 1 + g.rng.Intn(4)
			var b strings.Builder
			for i := 0; i < n; i++ {
				b.WriteRune(pick(g.rng, []rune("abc")))
			}
			for i := g.rng.Intn(3); i > 0; i-- {
				if len(t.Pattern) == 1 {
					b.WriteRune(pick(g.rng, []rune("0123456789")))
				}
			}
			s = b.String()
		} else if g.nastyStr && !inUnion && g.rng.Intn(2) == 0 {
			s = randValue(g.rng, 6, nastyRunes)
		} else if g.rng.Intn(12) == 0 {
			// the text of the gNMI wildcard as an ordinary value: as a list key it is a literal
			// wherever the caller did not ask for wildcard handling
			s = "*"
		} else {
			s = randIdent(g.rng)
		}
		if inUnion && s != "*" {
			s = "s" + s // never parses as a number / bool / enum name of the corpus
		}
		n := uint64(len([]rune(s)))
		okLen := len(t.Length) == 0
		for _, p := range t.Length {
			if n >= p.Min.Value && n <= p.Max.Value {
				okLen = true
			}
		}
		if !okLen {
			if len(t.Length) > 0 {
				// pad / cut to a permitted length
				want := t.Length[g.rng.Intn(len(t.Length))].Min.Value
				r := []rune(s)
				for uint64(len(r)) < want {
					r = append(r, 'b')
				}
				s = string(r[:want])
				if want == 0 {
					s = ""
				}
			}
		}
		e := &yang.Entry{Name: "x", Kind: yang.LeafEntry, Type: t}
		if ytypes.Validate(e, &s) == nil {
			return s
		}
	}
	return "ab"
}

func (g *treeGen) genDecimal(t *yang.YangType) float64 {
	for try := 0; try < 40; try++ {
		f := pick(g.rng, floatPool)
		// respect fraction digits
		scale := math.Pow(10, float64(t.FractionDigits))
		if math.Round(f*scale)/scale != f {
			continue
		}
		e := &yang.Entry{Name: "x", Kind: yang.LeafEntry, Type: t}
		if ytypes.Validate(e, &f) == nil {
			return f
		}
	}
	return 1
}

func (g *treeGen) genBinary(t *yang.YangType) []byte {
	n := g.rng.Intn(5)
	if len(t.Length) > 0 {
		p := t.Length[g.rng.Intn(len(t.Length))]
		n = int(p.Min.Value) + g.rng.Intn(int(p.Max.Value-p.Min.Value)+1)
	} else if g.bigBin && g.rng.Intn(2) == 0 {
		// around the sizes at which an encoder working in blocks starts a new block
		n = pick(g.rng, []int{1023, 1024, 1025, 1536, 2049, 3100})
	}
	b := make([]byte, n)
	for i := range b {
		b[i] = byte(g.rng.Intn(256))
	}
	return b
}

// enumValueFor returns a random defined value of the named Go enum type.
func (g *treeGen) enumValue(goType reflect.Type) reflect.Value {
	tbl := g.pkg.Enum[goType.Name()]
	var nums []int64
	for k := range tbl {
		nums = append(nums, k)
	}
	sort.Slice(nums, func(i, j int) bool { return nums[i] < nums[j] })
	v := reflect.New(goType).Elem()
	if len(nums) > 0 {
		v.SetInt(nums[g.rng.Intn(len(nums))])
	}
	return v
}

// enumGoType finds the Go enum type for a yang enum/identityref member of leaf e.
func (g *treeGen) enumGoType(e *yang.Entry, t *yang.YangType) reflect.Type {
	c := &schemaCtx{pkg: g.pkg, root: g.root}
	var names []string
	if t.Kind == yang.Yenum {
		names = t.Enum.Names()
	} else {
		names = identityNames(t.IdentityBase)
	}
	want := c.enumTypeFor(e, names)
	for _, rt := range g.root.ΛEnumTypeMap()[schemaDataPath(e)] {
		if rt.Name() == want {
			return rt
		}
	}
	return nil
}

// genScalarGo returns a plain Go value (int8, string, []byte, bool, float64, enum, YANGEmpty)
// for the (non-union) type t of leaf e.
func (g *treeGen) genScalarGo(e *yang.Entry, t *yang.YangType, inUnion bool) interface{} {
	switch t.Kind {
	case yang.Yint8, yang.Yint16, yang.Yint32, yang.Yint64, yang.Yuint8, yang.Yuint16, yang.Yuint32, yang.Yuint64:
		i, u, signed := g.genInt(t)
		switch t.Kind {
		case yang.Yint8:
			return int8(i)
		case yang.Yint16:
			return int16(i)
		case yang.Yint32:
			return int32(i)
		case yang.Yint64:
			return i
		case yang.Yuint8:
			return uint8(u)
		case yang.Yuint16:
			return uint16(u)
		case yang.Yuint32:
			return uint32(u)
		}
		_ = signed
		return u
	case yang.Ystring:
		return g.genString(t, inUnion)
	case yang.Ybool:
		return g.rng.Intn(2) == 0
	case yang.Ydecimal64:
		return g.genDecimal(t)
	case yang.Ybinary:
		return g.genBinary(t)
	case yang.Yempty:
		return true
	case yang.Yenum, yang.Yidentityref:
		if rt := g.enumGoType(e, t); rt != nil {
			return g.enumValue(rt).Interface()
		}
	case yang.Yleafref:
		if target, err := util.FindLeafRefSchema(e, t.Path); err == nil && target != nil {
			return g.genScalarGo(target, target.Type, inUnion)
		}
	}
	return "x"
}

func flattenUnion(t *yang.YangType) []*yang.YangType {
	var out []*yang.YangType
	for _, m := range t.Type {
		if m.Kind == yang.Yunion {
			out = append(out, flattenUnion(m)...)
		} else {
			out = append(out, m)
		}
	}
	return out
}

func resolveType(e *yang.Entry) (*yang.Entry, *yang.YangType) {
	t := e.Type
	for t != nil && t.Kind == yang.Yleafref {
		target, err := util.FindLeafRefSchema(e, t.Path)
		if err != nil || target == nil {
			break
		}
		e, t = target, target.Type
	}
	return e, t
}

// setLeaf stores a fresh random value in the leaf field fv (of parent struct ptr parent).
func (g *treeGen) genLeafValue(parent reflect.Value, ft reflect.Type, e *yang.Entry) (reflect.Value, bool) {
	re, t := resolveType(e)
	if t == nil {
		return reflect.Value{}, false
	}
	if t.Kind == yang.Yunion {
		ms := flattenUnion(t)
		m := ms[g.rng.Intn(len(ms))]
		val := g.genScalarGo(re, m, true)
		// convert through the generated To_<Union> helper, which exists in both union styles
		if ft.Kind() == reflect.Interface {
			meth := parent.MethodByName("To_" + ft.Name())
			if meth.IsValid() {
				out := meth.Call([]reflect.Value{reflect.ValueOf(val)})
				if out[1].IsNil() {
					return out[0], true
				}
			}
			return reflect.Value{}, false
		}
		// single-type union collapses to the underlying type
		return g.plainValue(ft, val)
	}
	val := g.genScalarGo(re, t, false)
	return g.plainValue(ft, val)
}

func (g *treeGen) plainValue(ft reflect.Type, val interface{}) (reflect.Value, bool) {
	v := reflect.ValueOf(val)
	if ft.Kind() == reflect.Ptr {
		p := reflect.New(ft.Elem())
		if !v.Type().ConvertibleTo(ft.Elem()) {
			return reflect.Value{}, false
		}
		p.Elem().Set(v.Convert(ft.Elem()))
		return p, true
	}
	if !v.Type().ConvertibleTo(ft) {
		return reflect.Value{}, false
	}
	return v.Convert(ft), true
}

// populate fills the struct pointed to by sp (schema entry e) with random data.
func (g *treeGen) populate(sp reflect.Value, e *yang.Entry, depth int, skipKeys map[string]bool) {
	s := sp.Elem()
	chosen := map[string]string{} // choice name -> chosen case
	for i := 0; i < s.NumField(); i++ {
		sf := s.Type().Field(i)
		if _, ok := sf.Tag.Lookup("path"); !ok {
			continue
		}
		if skipKeys[sf.Name] {
			continue
		}
		ce, err := util.ChildSchema(e, sf)
		if err != nil || ce == nil {
			continue
		}
		p := g.pField
		if depth > 3 {
			p = p / 2
		}
		if g.rng.Float64() > p {
			continue
		}
		// at most one case per choice
		cs := caseNames(ce)
		skip := false
		for j := 0; j+1 < len(cs); j += 2 {
			key := strings.Join(cs[:j+1], "/")
			if c, ok := chosen[key]; ok && c != cs[j+1] {
				skip = true
			} else {
				chosen[key] = cs[j+1]
			}
		}
		if skip {
			continue
		}
		g.setField(sp, s.Field(i), sf, ce, depth)
	}
}

func (g *treeGen) setField(sp, fv reflect.Value, sf reflect.StructField, ce *yang.Entry, depth int) {
	ft := sf.Type
	switch {
	case ce.IsLeaf():
		if v, ok := g.genLeafValue(sp, ft, ce); ok {
			fv.Set(v)
			g.leafCount++
		}
	case ce.IsLeafList():
		n := g.rng.Intn(4)
		if n == 0 && !g.emptyLL {
			n = 1
		}
		sl := reflect.MakeSlice(ft, 0, n)
		seen := map[string]bool{}
		for j := 0; j < n; j++ {
			v, ok := g.genLeafValue(sp, ft.Elem(), ce)
			if !ok {
				continue
			}
			k, _ := scalarTerm(v)
			if seen[k] {
				continue
			}
			seen[k] = true
			sl = reflect.Append(sl, v)
		}
		if mx := ce.ListAttr; mx != nil && mx.MaxElements != 0 && uint64(sl.Len()) > mx.MaxElements {
			sl = sl.Slice(0, int(mx.MaxElements))
		}
		if sl.Len() == 0 && !g.emptyLL {
			return
		}
		fv.Set(sl)
		g.leafCount++
	case ce.IsList():
		g.setList(sp, fv, sf, ce, depth)
	case ce.IsDir():
		if ft.Kind() == reflect.Ptr {
			c := reflect.New(ft.Elem())
			g.populate(c, ce, depth+1, nil)
			// canonical trees: an empty non-presence container is not data and is left nil
			if !c.Elem().IsZero() || (util.IsYangPresence(sf) && g.rng.Intn(2) == 0) || g.emptyConts {
				fv.Set(c)
			}
		}
	}
}

func (g *treeGen) keyFieldNames(entryT reflect.Type, ce *yang.Entry) []string {
	var out []string
	for _, k := range listKeyNames(ce) {
		for i := 0; i < entryT.NumField(); i++ {
			f := entryT.Field(i)
			for _, alt := range strings.Split(f.Tag.Get("path"), "|") {
				parts := strings.Split(alt, "/")
				if len(parts) == 1 && parts[0] == k {
					out = append(out, f.Name)
				}
			}
		}
	}
	return out
}

func (g *treeGen) newEntry(entryT reflect.Type, ce *yang.Entry, depth int) (reflect.Value, []reflect.Value, map[string]bool) {
	ent := reflect.New(entryT)
	kfs := g.keyFieldNames(entryT, ce)
	skip := map[string]bool{}
	var keyVals []reflect.Value
	for _, kf := range kfs {
		sf, _ := entryT.FieldByName(kf)
		kce, _ := util.ChildSchema(ce, sf)
		if kce == nil {
			continue
		}
		v, ok := g.genLeafValue(ent, sf.Type, kce)
		if !ok {
			continue
		}
		ent.Elem().FieldByName(kf).Set(v)
		skip[kf] = true
		kv := v
		if kv.Kind() == reflect.Ptr {
			kv = kv.Elem()
		}
		keyVals = append(keyVals, kv)
	}
	g.populate(ent, ce, depth+1, skip)
	return ent, keyVals, skip
}

func (g *treeGen) setList(sp, fv reflect.Value, sf reflect.StructField, ce *yang.Entry, depth int) {
	ft := sf.Type
	n := g.rng.Intn(g.maxList + 1)
	lo, hi := minMax(ce)
	if uint64(n) < lo {
		n = int(lo)
	}
	if hi != 0 && uint64(n) > hi {
		n = int(hi)
	}
	switch {
	case isOrderedMapType(ft):
		om := reflect.New(ft.Elem())
		entryT := entryTypeOfOrderedMap(ft)
		for j := 0; j < n; j++ {
			ent, _, _ := g.newEntry(entryT, ce, depth)
			om.MethodByName("Append").Call([]reflect.Value{ent}) // duplicate keys are rejected: fine
		}
		fv.Set(om)
	case ft.Kind() == reflect.Map:
		m := reflect.MakeMap(ft)
		entryT := ft.Elem().Elem()
		seenKeys := map[string]bool{}
		for j := 0; j < n; j++ {
			ent, keyVals, _ := g.newEntry(entryT, ce, depth)
			// wrapper-union keys are pointers: avoid two entries with equal key values
			ks := ""
			for _, kv := range keyVals {
				t, _ := scalarTerm(kv)
				ks += t + "|"
			}
			if seenKeys[ks] {
				continue
			}
			seenKeys[ks] = true
			var key reflect.Value
			if ft.Key().Kind() == reflect.Struct && len(keyVals) == ft.Key().NumField() && !ft.Key().Implements(goEnumT) {
				key = reflect.New(ft.Key()).Elem()
				okk := true
				for q := 0; q < ft.Key().NumField(); q++ {
					if !keyVals[q].Type().AssignableTo(ft.Key().Field(q).Type) {
						okk = false
						break
					}
					key.Field(q).Set(keyVals[q])
				}
				if !okk {
					continue
				}
			} else if len(keyVals) == 1 && keyVals[0].Type().AssignableTo(ft.Key()) {
				key = keyVals[0]
			} else {
				continue
			}
			m.SetMapIndex(key, ent)
		}
		fv.Set(m)
	case ft.Kind() == reflect.Slice:
		sl := reflect.MakeSlice(ft, 0, n)
		for j := 0; j < n; j++ {
			ent := reflect.New(ft.Elem().Elem())
			g.populate(ent, ce, depth+1, nil)
			sl = reflect.Append(sl, ent)
		}
		fv.Set(sl)
	}
}

// genTree returns a random schema-conforming tree of the package.
func (g *treeGen) genTree() ygot.ValidatedGoStruct {
	root := g.pkg.NewRoot()
	g.root = root
	g.leafCount = 0
	t := reflect.TypeOf(root).Elem()
	g.populate(reflect.ValueOf(root), g.pkg.SchemaTree[t.Name()], 0, nil)
	return root
}
