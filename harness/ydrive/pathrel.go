//go:build verif

package main

import (
	"fmt"
	"math/rand"

	gpb "github.com/openconfig/gnmi/proto/gnmi"
	"github.com/openconfig/ygot/util"
	"google.golang.org/protobuf/proto"
)

func init() { streams["pathrel"] = pathrelStream }

func coqElem(e *gpb.PathElem) string {
	var kvs []string
	for _, k := range sortedKeys(e.GetKey()) {
		kvs = append(kvs, "("+coqStr(k)+","+coqStr(e.Key[k])+")")
	}
	return "{| ename := " + coqStr(e.GetName()) + "; ekeys := " + coqList(kvs) + " |}"
}

func coqElems(es []*gpb.PathElem) string {
	var els []string
	for _, e := range es {
		els = append(els, coqElem(e))
	}
	return coqList(els)
}

func coqGP(p *gpb.Path) string {
	return "{| origin := " + coqStr(p.GetOrigin()) + "; target := " + coqStr(p.GetTarget()) + "; elems := " + coqElems(p.GetElem()) + " |}"
}

var relNames = map[util.CompareRelation]string{util.Equal: "REqual", util.Disjoint: "RDisjoint", util.Subset: "RSubset", util.Superset: "RSuperset", util.PartialIntersect: "RPartial"}

type jGP struct {
	Origin string  `json:"origin,omitempty"`
	Target string  `json:"target,omitempty"`
	Elem   []jElem `json:"elem"`
}

func toJGP(p *gpb.Path) jGP {
	return jGP{Origin: p.GetOrigin(), Target: p.GetTarget(), Elem: toJPath(p)}
}

// small alphabets: the property's bounded universe
var relNamesA = []string{"a", "b"}
var relKeysA = []string{"k1", "k2", "k3"}
var relValsA = []string{"v", "w", "*"}

func genRelPath(rng *rand.Rand, maxLen int, big bool) *gpb.Path {
	p := &gpb.Path{}
	switch rng.Intn(8) {
	case 0:
		p.Origin = "openconfig"
	case 1:
		p.Origin = "other"
	}
	n := rng.Intn(maxLen + 1)
	for i := 0; i < n; i++ {
		e := &gpb.PathElem{Name: pick(rng, relNamesA)}
		if big && rng.Intn(3) == 0 {
			e.Name = randIdent(rng)
		}
		for _, k := range relKeysA {
			switch rng.Intn(4) {
			case 0: // absent
			default:
				if e.Key == nil {
					e.Key = map[string]string{}
				}
				e.Key[k] = pick(rng, relValsA)
			}
		}
		if big && rng.Intn(3) == 0 {
			if e.Key == nil {
				e.Key = map[string]string{}
			}
			e.Key[randIdent(rng)] = randValue(rng, 3, nastyRunes) + "x"
		}
		if big && rng.Intn(4) == 0 {
			// boundary: an empty key value (a missing key reads as "" in Go)
			if e.Key == nil {
				e.Key = map[string]string{}
			}
			e.Key[pick(rng, []string{"k1", "k2", "id", "name"})] = ""
		}
		p.Elem = append(p.Elem, e)
	}
	return p
}

// mutateRel derives a related path: most interesting relations are between similar paths.
func mutateRel(rng *rand.Rand, p *gpb.Path) *gpb.Path {
	q := proto.Clone(p).(*gpb.Path)
	for t := 0; t < 1+rng.Intn(2); t++ {
		switch rng.Intn(6) {
		case 0:
			if len(q.Elem) > 0 {
				q.Elem = q.Elem[:len(q.Elem)-1]
			}
		case 1:
			q.Elem = append(q.Elem, &gpb.PathElem{Name: pick(rng, relNamesA)})
		case 2, 3, 4:
			if len(q.Elem) > 0 {
				e := q.Elem[rng.Intn(len(q.Elem))]
				k := pick(rng, relKeysA)
				if rng.Intn(4) == 0 {
					delete(e.Key, k)
				} else if rng.Intn(8) == 0 {
					// rename the key, keep the value: same size, different key name
					v, ok := e.Key[k]
					if ok {
						delete(e.Key, k)
						e.Key[pick(rng, []string{"id", "name", "k4"})] = v
					}
				} else {
					if e.Key == nil {
						e.Key = map[string]string{}
					}
					e.Key[k] = pick(rng, relValsA)
				}
			}
		case 5:
			if len(q.Elem) > 0 {
				q.Elem[rng.Intn(len(q.Elem))].Name = pick(rng, relNamesA)
			}
		}
	}
	return q
}

// ---- brute-force denotation over a finite universe (independent of the Coq model) ----

type cElem struct {
	name string
	vals [3]string // values of k1, k2, k3
}

var uniNames = []string{"a", "b", "c"}
var uniVals = []string{"v", "w"} // two values decide every relation of paths whose key values are single values or "*"

func allCElems() []cElem {
	var out []cElem
	for _, n := range uniNames {
		for _, v1 := range uniVals {
			for _, v2 := range uniVals {
				for _, v3 := range uniVals {
					out = append(out, cElem{n, [3]string{v1, v2, v3}})
				}
			}
		}
	}
	return out
}

func elemIn(c cElem, e *gpb.PathElem) bool {
	if c.name != e.GetName() {
		return false
	}
	for i, k := range relKeysA {
		if v, ok := e.GetKey()[k]; ok && v != "*" && v != c.vals[i] {
			return false
		}
	}
	return true
}

func normOrigin(o string) string {
	if o == "openconfig" {
		return ""
	}
	return o
}

// bruteRelation enumerates concrete paths up to length max(len a, len b) (longer ones are
// decided by their prefix of that length) and classifies the relation of the two denotations.
func bruteRelation(a, b *gpb.Path) util.CompareRelation {
	if normOrigin(a.GetOrigin()) != normOrigin(b.GetOrigin()) {
		return util.Disjoint
	}
	L := len(a.Elem)
	if len(b.Elem) > L {
		L = len(b.Elem)
	}
	ces := allCElems()
	var inBoth, onlyA, onlyB bool
	cur := make([]cElem, 0, L)
	member := func(p *gpb.Path, q []cElem) bool {
		if len(q) < len(p.Elem) {
			return false
		}
		for i, e := range p.Elem {
			if !elemIn(q[i], e) {
				return false
			}
		}
		return true
	}
	var rec func()
	rec = func() {
		ia, ib := member(a, cur), member(b, cur)
		switch {
		case ia && ib:
			inBoth = true
		case ia:
			onlyA = true
		case ib:
			onlyB = true
		}
		if len(cur) == L {
			return
		}
		// prune: if the current prefix already violates both, nothing below is in either
		okA, okB := true, true
		for i := range cur {
			if i < len(a.Elem) && !elemIn(cur[i], a.Elem[i]) {
				okA = false
			}
			if i < len(b.Elem) && !elemIn(cur[i], b.Elem[i]) {
				okB = false
			}
		}
		if !okA && !okB {
			return
		}
		for _, c := range ces {
			cur = append(cur, c)
			rec()
			cur = cur[:len(cur)-1]
		}
	}
	rec()
	switch {
	case !inBoth:
		return util.Disjoint
	case !onlyA && !onlyB:
		return util.Equal
	case !onlyA:
		return util.Subset
	case !onlyB:
		return util.Superset
	}
	return util.PartialIntersect
}

func smallUniverse(p *gpb.Path) bool {
	if len(p.Elem) > 3 {
		return false
	}
	for _, e := range p.Elem {
		if e.GetName() != "a" && e.GetName() != "b" {
			return false
		}
		for k, v := range e.GetKey() {
			if (k != "k1" && k != "k2" && k != "k3") || (v != "v" && v != "w" && v != "*") {
				return false
			}
		}
	}
	return true
}

func swapRel(r util.CompareRelation) util.CompareRelation {
	switch r {
	case util.Subset:
		return util.Superset
	case util.Superset:
		return util.Subset
	}
	return r
}

func pathrelStream(rng *rand.Rand, n int, tier string, out string) (*Summary, error) {
	sum := &Summary{Rule: "pairs of gNMI paths over names {a,b}, keys {k1,k2,k3}, values {v,w,*,absent} of length <= 3 (the second usually a small mutation of the first), all 64x64 pairs of single elements with up to three keys (alone, under a common parent, with a trailing element), plus larger paths with random names/keys; every util/gnmi.go relation function is called on them. Non-trivial: the pair is not Disjoint-by-first-name and has at least one key; distinct by input."}
	cf := &caseFile{header: "From Ygot Require Import Base.Base Path.PathString Path.PathRel Corr.PathRelCorr.", typ: "rcase", fn: "rmismatches"}
	id := 0
	seen := map[string]bool{}

	mk := func(elems ...*gpb.PathElem) *gpb.Path { return &gpb.Path{Elem: elems} }
	compareCase := func(a, b *gpb.Path, kind string) {
		r := util.ComparePaths(a, b)
		for i := 0; i < 7; i++ { // sample map iteration orders
			if r2 := util.ComparePaths(a, b); r2 != r {
				sum.finding(Finding{Signature: "compare/order-dependent", What: "ComparePaths gives different answers on repeated calls (map iteration order)", Input: map[string]interface{}{"a": toJGP(a), "b": toJGP(b)}, Observed: []string{relNames[r], relNames[r2]}})
				break
			}
		}
		cf.add(fmt.Sprintf("RCompare %d %s %s %s", id, coqGP(a), coqGP(b), relNames[r]))
		id++
		sum.count("compare_kind", kind)
		sum.count("compare_result", relNames[r])
		key := coqGP(a) + "|" + coqGP(b)
		if !seen[key] {
			seen[key] = true
			hasKey := false
			for _, e := range append(append([]*gpb.PathElem{}, a.Elem...), b.Elem...) {
				if len(e.Key) > 0 {
					hasKey = true
				}
			}
			if hasKey && len(a.Elem) > 0 && len(b.Elem) > 0 && a.Elem[0].Name == b.Elem[0].Name {
				sum.Nontrivial++
			}
		}
		// oracle 1: swap law
		sum.OracleRuns++
		if rs := util.ComparePaths(b, a); rs != swapRel(r) {
			sum.finding(Finding{Signature: "compare/swap", What: "ComparePaths(b,a) is not the swap of ComparePaths(a,b)", Input: map[string]interface{}{"a": toJGP(a), "b": toJGP(b)}, Observed: []string{relNames[r], relNames[rs]}})
		}
		// oracle 2: brute-force denotation on the bounded universe
		if smallUniverse(a) && smallUniverse(b) {
			sum.OracleRuns++
			if want := bruteRelation(a, b); want != r {
				sum.finding(Finding{Signature: "compare/denotation", What: "ComparePaths differs from the set relation of the denotations", Input: map[string]interface{}{"a": toJGP(a), "b": toJGP(b)}, Observed: relNames[r], Expected: relNames[want]})
			}
		}
		sum.sample(map[string]interface{}{"compare": []jGP{toJGP(a), toJGP(b)}, "result": relNames[r]})
	}

	otherCases := func(a, b *gpb.Path) {
		cf.add(fmt.Sprintf("RQuery %d %s %s %s", id, coqGP(a), coqGP(b), coqBool(util.PathMatchesQuery(a, b))))
		id++
		cf.add(fmt.Sprintf("RElemPrefix %d %s %s %s", id, coqGP(a), coqGP(b), coqBool(util.PathMatchesPathElemPrefix(a, b))))
		id++
		tr := util.TrimGNMIPathElemPrefix(a, b)
		cf.add(fmt.Sprintf("RTrim %d %s %s %s", id, coqGP(a), coqGP(b), coqGP(tr)))
		id++
		// trim/join law (oracle): if b is a prefix of a then Join(b, Trim(a,b)) has a's elements
		sum.OracleRuns++
		if util.PathMatchesPathElemPrefix(a, b) {
			j, err := util.JoinPaths(b, tr)
			if err != nil || !util.PathElemSlicesEqual(j.GetElem(), a.GetElem()) {
				sum.finding(Finding{Signature: "trim-join", What: "JoinPaths(prefix, TrimGNMIPathElemPrefix(path, prefix)) != path", Input: map[string]interface{}{"path": toJGP(a), "prefix": toJGP(b)}})
			}
		}
		var pre []string
		for _, e := range b.Elem {
			pre = append(pre, e.Name)
		}
		for t := rng.Intn(3); t > 0; t-- {
			pre = append(pre, "")
		}
		cf.add(fmt.Sprintf("RPrefix %d %s %s %s", id, coqGP(a), coqStrList(pre), coqBool(util.PathMatchesPrefix(a, pre))))
		id++
		// join with targets/origins
		pa, pb := proto.Clone(a).(*gpb.Path), proto.Clone(b).(*gpb.Path)
		pa.Target = pick(rng, []string{"", "t1", "t2"})
		pb.Target = pick(rng, []string{"", "t1", "t2"})
		j, err := util.JoinPaths(pa, pb)
		jo := coqErr
		if err == nil {
			jo = coqOk(coqGP(j))
		}
		cf.add(fmt.Sprintf("RJoin %d %s %s %s", id, coqGP(pa), coqGP(pb), jo))
		id++
		// JoinPaths agrees with "prefix followed by suffix" also when the prefix's element slice is
		// cut from a longer path (spare capacity): the longer path and an earlier join result on the
		// same prefix must stay what they were (oracle; the model is functional)
		if len(a.Elem) >= 2 && len(b.Elem) >= 1 {
			sum.OracleRuns++
			full := proto.Clone(a).(*gpb.Path)
			want := proto.Clone(full).(*gpb.Path)
			k := 1 + rng.Intn(len(full.Elem)-1)
			cut := &gpb.Path{Elem: full.Elem[:k]}
			j1, e1 := util.JoinPaths(cut, b)
			var j1c *gpb.Path
			if e1 == nil {
				j1c = proto.Clone(j1).(*gpb.Path)
			}
			j2, e2 := util.JoinPaths(cut, &gpb.Path{Elem: []*gpb.PathElem{{Name: "zz-second"}}})
			in := map[string]interface{}{"path": toJGP(a), "prefix_elems": k, "suffix": toJGP(b)}
			switch {
			case !proto.Equal(full, want):
				sum.finding(Finding{Signature: "join/overwrites-path-sharing-prefix-array", What: "JoinPaths(prefix cut from a longer path, suffix) rewrote the longer path", Input: in, Observed: toJGP(full), Expected: toJGP(want)})
			case e1 == nil && e2 == nil && !proto.Equal(j1, j1c):
				sum.finding(Finding{Signature: "join/second-join-rewrites-first-result", What: "a second JoinPaths on the same prefix changed the result of the first", Input: in, Observed: toJGP(j1), Expected: toJGP(j1c)})
			case e1 == nil && (len(j1c.Elem) != k+len(b.Elem) || !util.PathElemSlicesEqual(j1c.Elem[:k], want.Elem[:k]) || !util.PathElemSlicesEqual(j1c.Elem[k:], b.Elem)):
				sum.finding(Finding{Signature: "join/not-prefix-then-suffix", What: "JoinPaths result is not the prefix followed by the suffix", Input: in, Observed: toJGP(j1c)})
			}
			_ = j2
		}
		if len(a.Elem) > 0 && len(b.Elem) > 0 {
			cf.add(fmt.Sprintf("RElemEq %d %s %s %s", id, coqElem(a.Elem[0]), coqElem(b.Elem[0]), coqBool(util.PathElemsEqual(a.Elem[0], b.Elem[0]))))
			id++
		}
		// common prefix of 1..4 paths
		ps := []*gpb.Path{a, b}
		for t := rng.Intn(3); t > 0; t-- {
			ps = append(ps, mutateRel(rng, a))
		}
		if rng.Intn(5) == 0 {
			ps = ps[:1]
		}
		fp := util.FindPathElemPrefix(ps)
		var pss []string
		for _, p := range ps {
			pss = append(pss, coqElems(p.Elem))
		}
		cf.add(fmt.Sprintf("RFind %d %s %s", id, coqList(pss), coqElems(fp.GetElem())))
		id++
		// oracle: result is a prefix of every path and cannot be extended
		sum.OracleRuns++
		okp := true
		for _, p := range ps {
			if len(p.Elem) < len(fp.GetElem()) || !util.PathElemSlicesEqual(p.Elem[:len(fp.GetElem())], fp.GetElem()) {
				okp = false
			}
		}
		ext := true
		k := len(fp.GetElem())
		for _, p := range ps {
			if len(p.Elem) <= k || !util.PathElemsEqual(p.Elem[k], ps[0].Elem[k]) {
				ext = false
				break
			}
		}
		if !okp || ext {
			sum.finding(Finding{Signature: "common-prefix", What: "FindPathElemPrefix is not the longest common prefix", Input: map[string]interface{}{"paths": func() []jGP {
				var o []jGP
				for _, p := range ps {
					o = append(o, toJGP(p))
				}
				return o
			}()}})
		}
	}

	// the two confirmed pre-fix failures first
	compareCase(mk(&gpb.PathElem{Name: "a", Key: map[string]string{"k1": "*", "k2": "v"}}, &gpb.PathElem{Name: "b", Key: map[string]string{"k1": "v"}}),
		mk(&gpb.PathElem{Name: "a", Key: map[string]string{"k1": "v", "k2": "*"}}, &gpb.PathElem{Name: "b", Key: map[string]string{"k1": "w"}}), "corpus")
	compareCase(mk(&gpb.PathElem{Name: "a", Key: map[string]string{"k1": "*", "k2": "v"}}),
		mk(&gpb.PathElem{Name: "a", Key: map[string]string{"k1": "v", "k2": "w"}}), "corpus")

	// element-equality family: both elements drawn independently from a tiny alphabet of key
	// names and values (incl. the empty string), so that "same size, different key names",
	// "missing key vs empty value" and similar boundary pairs occur often
	smallElem := func() *gpb.PathElem {
		e := &gpb.PathElem{Name: pick(rng, []string{"a", "a", "b"})}
		for _, k := range []string{"k1", "k2", "id"} {
			if rng.Intn(3) == 0 {
				if e.Key == nil {
					e.Key = map[string]string{}
				}
				e.Key[k] = pick(rng, []string{"", "v", "w", "*"})
			}
		}
		return e
	}
	for i := 0; i < n/10; i++ {
		ea, eb := smallElem(), smallElem()
		cf.add(fmt.Sprintf("RElemEq %d %s %s %s", id, coqElem(ea), coqElem(eb), coqBool(util.PathElemsEqual(ea, eb))))
		id++
		sum.OracleRuns++
		// oracle: equality of elements is equality of names and of key maps
		same := ea.Name == eb.Name && len(ea.Key) == len(eb.Key)
		for k, v := range ea.Key {
			if w, ok := eb.Key[k]; !ok || w != v {
				same = false
			}
		}
		if util.PathElemsEqual(ea, eb) != same {
			sum.finding(Finding{Signature: "elem-equal", What: "PathElemsEqual disagrees with equality of names and key maps", Input: map[string]interface{}{"a": toJGP(mk(ea)), "b": toJGP(mk(eb))}})
		}
		pa, pb := mk(&gpb.PathElem{Name: "r"}, ea, &gpb.PathElem{Name: "z"}), mk(&gpb.PathElem{Name: "r"}, eb)
		otherCases(pa, pb)
		sum.count("compare_kind", "elem-family")
	}
	for id < n {
		big := rng.Intn(5) == 0
		a := genRelPath(rng, 3, big)
		var b *gpb.Path
		if rng.Intn(4) == 0 {
			b = genRelPath(rng, 3, big)
		} else {
			b = mutateRel(rng, a)
		}
		kind := "small"
		if big {
			kind = "large"
		}
		compareCase(a, b, kind)
		if rng.Intn(2) == 0 {
			otherCases(a, b)
		}
	}
	// exhaustive over single elements with up to three keys: every pair of elements a[k1=..][k2=..][k3=..]
	// (64 x 64), each also under a common parent and with a trailing element on one side. A relation
	// that is only wrong once three keys differ (one narrowing each way and a third) is met here
	// whatever the map order; every 16th pair also goes through the model.
	{
		opts := []string{"", "v", "w", "*"}
		var es []*gpb.PathElem
		for _, v1 := range opts {
			for _, v2 := range opts {
				for _, v3 := range opts {
					e := &gpb.PathElem{Name: "a"}
					for i, v := range []string{v1, v2, v3} {
						if v != "" {
							if e.Key == nil {
								e.Key = map[string]string{}
							}
							e.Key[relKeysA[i]] = v
						}
					}
					es = append(es, e)
				}
			}
		}
		cnt := 0
		for _, ea := range es {
			for _, eb := range es {
				cnt++
				a, b := mk(ea), mk(eb)
				switch cnt % 3 {
				case 1:
					a, b = mk(&gpb.PathElem{Name: "b"}, ea), mk(&gpb.PathElem{Name: "b"}, eb)
				case 2:
					a = mk(ea, &gpb.PathElem{Name: "b"})
				}
				r := util.ComparePaths(a, b)
				in := map[string]interface{}{"a": toJGP(a), "b": toJGP(b)}
				sum.OracleRuns++
				for i := 0; i < 5; i++ {
					if r2 := util.ComparePaths(a, b); r2 != r {
						sum.finding(Finding{Signature: "compare/order-dependent", What: "ComparePaths gives different answers on repeated calls (map iteration order)", Input: in, Observed: []string{relNames[r], relNames[r2]}})
						break
					}
				}
				if want := bruteRelation(a, b); want != r {
					sum.finding(Finding{Signature: "compare/denotation", What: "ComparePaths differs from the set relation of the denotations", Input: in, Observed: relNames[r], Expected: relNames[want]})
				}
				if rs := util.ComparePaths(b, a); rs != swapRel(r) {
					sum.finding(Finding{Signature: "compare/swap", What: "ComparePaths(b,a) is not the swap of ComparePaths(a,b)", Input: in, Observed: []string{relNames[r], relNames[rs]}})
				}
				if cnt%16 == 0 {
					cf.add(fmt.Sprintf("RCompare %d %s %s %s", id, coqGP(a), coqGP(b), relNames[r]))
					id++
				}
			}
		}
		sum.count("compare_kind", "three-key-elements-exhaustive")
	}
	if tier == "thorough" {
		// exhaustive over the bounded alphabet: all pairs of paths of length <= 2 (oracle only;
		// every 50th pair also goes through the model)
		var elems []*gpb.PathElem
		opts := []string{"", "v", "w", "*"}
		for _, nm := range relNamesA {
			for _, v1 := range opts {
				for _, v2 := range opts {
					e := &gpb.PathElem{Name: nm}
					if v1 != "" || v2 != "" {
						e.Key = map[string]string{}
					}
					if v1 != "" {
						e.Key["k1"] = v1
					}
					if v2 != "" {
						e.Key["k2"] = v2
					}
					elems = append(elems, e)
				}
			}
		}
		var paths []*gpb.Path
		paths = append(paths, &gpb.Path{})
		for _, e := range elems {
			paths = append(paths, mk(e))
		}
		for _, e := range elems {
			for _, f := range elems {
				if f.Name == "a" { // halve the space: second element name fixed
					paths = append(paths, mk(e, f))
				}
			}
		}
		cnt := 0
		for _, a := range paths {
			for _, b := range paths {
				cnt++
				r := util.ComparePaths(a, b)
				sum.OracleRuns++
				if want := bruteRelation(a, b); want != r {
					sum.finding(Finding{Signature: "compare/denotation", What: "ComparePaths differs from the set relation of the denotations", Input: map[string]interface{}{"a": toJGP(a), "b": toJGP(b)}, Observed: relNames[r], Expected: relNames[want]})
				}
				if cnt%97 == 0 {
					cf.add(fmt.Sprintf("RCompare %d %s %s %s", id, coqGP(a), coqGP(b), relNames[r]))
					id++
				}
			}
		}
		sum.Extra = map[string]interface{}{"exhaustive_pairs": cnt}
	}
	sum.Cases = id
	files, err := cf.write(out, "pathrel", 400)
	if sum.Extra == nil {
		sum.Extra = map[string]interface{}{}
	}
	sum.Extra["case_files"] = files
	return sum, err
}
